import KdVerif.Spec.PyIRTrExpected
import KdVerif.Proofs.TraceTotal
/-
  The expected IR of the ten handlers of trace_handlers/trace.py (`Spec/PyIRTrExpected`), run by the interpreter of
  `Model/PyIRTr`, is `Trace.hDataNewthread` … `Trace.hStringThreadname` of the hand model — for every `Env` (any
  `bytes.decode`), all tables and every non-empty window of four-word records: same trace (key, `ktraces`, text), same
  tables afterwards, same exception, same "returned None".  On the empty window every handler raises IndexError
  (`events[0]`), which `parse_event_list` does before it calls one.  Then: `runVia Expected.prog = Trace.run`.
-/
set_option linter.unusedSimpArgs false
namespace KdVerif.PyIRTr
open KdVerif.Trace

theorem toString_str (s : String) : toString s = s := rfl

theorem len4 (l : List Nat) (h : l.length = 4) : ∃ a b c d, l = [a, b, c, d] := by
  match l, h with
  | [a, b, c, d], _ => exact ⟨a, b, c, d, rfl⟩

/-! ### the `handlers` dict and the function table, looked up -/

section lookup
variable (env : Env) (t : Tabs) (events : List Kevent)

theorem lookup_dataNewthread : runHandler Expected.prog env "TRACE_DATA_NEWTHREAD" t events =
    runBody Expected.prog env "TRACE_DATA_NEWTHREAD" Expected.dataNewthread t events := rfl
theorem lookup_dataExec : runHandler Expected.prog env "TRACE_DATA_EXEC" t events =
    runBody Expected.prog env "TRACE_DATA_EXEC" Expected.dataExec t events := rfl
theorem lookup_dataThreadTerminate : runHandler Expected.prog env "TRACE_DATA_THREAD_TERMINATE" t events =
    runBody Expected.prog env "TRACE_DATA_THREAD_TERMINATE" Expected.dataThreadTerminate t events := rfl
theorem lookup_dataThreadTerminatePid : runHandler Expected.prog env "TRACE_DATA_THREAD_TERMINATE_PID" t events =
    runBody Expected.prog env "TRACE_DATA_THREAD_TERMINATE_PID" Expected.dataThreadTerminatePid t events := rfl
theorem lookup_stringGlobal : runHandler Expected.prog env "TRACE_STRING_GLOBAL" t events =
    runBody Expected.prog env "TRACE_STRING_GLOBAL" Expected.stringGlobal t events := rfl
theorem lookup_stringNewthread : runHandler Expected.prog env "TRACE_STRING_NEWTHREAD" t events =
    runBody Expected.prog env "TRACE_STRING_NEWTHREAD"
      (Expected.stringPending "TraceStringNewthread" .lastDataNewthread) t events := rfl
theorem lookup_stringExec : runHandler Expected.prog env "TRACE_STRING_EXEC" t events =
    runBody Expected.prog env "TRACE_STRING_EXEC" (Expected.stringPending "TraceStringExec" .lastDataExec) t events := rfl
theorem lookup_stringProcExit : runHandler Expected.prog env "TRACE_STRING_PROC_EXIT" t events =
    runBody Expected.prog env "TRACE_STRING_PROC_EXIT" Expected.stringProcExit t events := rfl
theorem lookup_stringThreadname : runHandler Expected.prog env "TRACE_STRING_THREADNAME" t events =
    runBody Expected.prog env "TRACE_STRING_THREADNAME" (Expected.stringThreadname "TraceStringThreadname") t events := rfl
theorem lookup_stringThreadnamePrev : runHandler Expected.prog env "TRACE_STRING_THREADNAME_PREV" t events =
    runBody Expected.prog env "TRACE_STRING_THREADNAME_PREV" (Expected.stringThreadname "TraceStringThreadnamePrev") t
      events := rfl

end lookup

/-! ### the dataclasses: construction, attribute reads, `__str__` -/

section classes
variable (l : List Kevent)

theorem mkObj_dataNewthread (a b c d : FVal) :
    mkObj Expected.prog "TraceDataNewthread" l [a, b, c, d] = .ok ⟨"TraceDataNewthread", l, [a, b, c, d]⟩ := rfl
theorem attr_dataNewthread_tid (a b c d : FVal) :
    objAttr Expected.prog ⟨"TraceDataNewthread", l, [a, b, c, d]⟩ "tid" = .ok a.toVal := rfl
theorem attr_dataNewthread_pid (a b c d : FVal) :
    objAttr Expected.prog ⟨"TraceDataNewthread", l, [a, b, c, d]⟩ "pid" = .ok b.toVal := rfl
theorem render_dataNewthread (a b : Nat) (c d : FVal) :
    renderObj Expected.prog ⟨"TraceDataNewthread", l, [.int a, .int b, c, d]⟩ =
      .ok s!"New thread {a} of parent: {b}" := by
  show Except.ok _ = _
  simp [FVal.fmt, String.append_assoc, toString_str]

theorem mkObj_dataExec (a b c : FVal) :
    mkObj Expected.prog "TraceDataExec" l [a, b, c] = .ok ⟨"TraceDataExec", l, [a, b, c]⟩ := rfl
theorem attr_dataExec_pid (a b c : FVal) :
    objAttr Expected.prog ⟨"TraceDataExec", l, [a, b, c]⟩ "pid" = .ok a.toVal := rfl
theorem render_dataExec (a : Nat) (b c : FVal) :
    renderObj Expected.prog ⟨"TraceDataExec", l, [.int a, b, c]⟩ = .ok s!"New process pid: {a}" := by
  show Except.ok _ = _
  simp [FVal.fmt, String.append_assoc, toString_str]

theorem mkObj_dataThreadTerminate (a b : FVal) :
    mkObj Expected.prog "TraceDataThreadTerminate" l [a, b] = .ok ⟨"TraceDataThreadTerminate", l, [a, b, .str ""]⟩ := rfl
theorem fieldIdx_dataThreadTerminate_name :
    (findClass Expected.prog "TraceDataThreadTerminate").bind (fieldIdx · "name") = some 2 := by decide

theorem mkObj_dataThreadTerminatePid (a b : FVal) :
    mkObj Expected.prog "TraceDataThreadTerminatePid" l [a, b] = .ok ⟨"TraceDataThreadTerminatePid", l, [a, b]⟩ := rfl
theorem attr_dataThreadTerminatePid_pid (a b : FVal) :
    objAttr Expected.prog ⟨"TraceDataThreadTerminatePid", l, [a, b]⟩ "pid" = .ok a.toVal := rfl
theorem render_dataThreadTerminatePid (a b : Nat) :
    renderObj Expected.prog ⟨"TraceDataThreadTerminatePid", l, [.int a, .int b]⟩ =
      .ok s!"Thread terminated thread pid: {a}, unique id {b}" := by
  show Except.ok _ = _
  simp [FVal.fmt, String.append_assoc, toString_str]

theorem mkObj_stringGlobal (a b c : FVal) :
    mkObj Expected.prog "TraceStringGlobal" l [a, b, c] = .ok ⟨"TraceStringGlobal", l, [a, b, c]⟩ := rfl
theorem attr_stringGlobal_strId (a b c : FVal) :
    objAttr Expected.prog ⟨"TraceStringGlobal", l, [a, b, c]⟩ "str_id" = .ok b.toVal := rfl
theorem attr_stringGlobal_vstr (a b c : FVal) :
    objAttr Expected.prog ⟨"TraceStringGlobal", l, [a, b, c]⟩ "vstr" = .ok c.toVal := rfl
theorem render_stringGlobal (a : FVal) (b : Nat) (s : String) :
    renderObj Expected.prog ⟨"TraceStringGlobal", l, [a, .int b, .str s]⟩ =
      .ok s!"New global string: \"{s}\", id: {b}" := by
  show Except.ok _ = _
  simp [FVal.fmt, String.append_assoc, toString_str]

theorem mkObj_stringNewthread (a : FVal) : mkObj Expected.prog "TraceStringNewthread" l [a] = .ok ⟨"TraceStringNewthread", l, [a]⟩ := rfl
theorem attr_stringNewthread_name (a : FVal) : objAttr Expected.prog ⟨"TraceStringNewthread", l, [a]⟩ "name" = .ok a.toVal := rfl
theorem render_stringNewthread (s : String) : renderObj Expected.prog ⟨"TraceStringNewthread", l, [.str s]⟩ = .ok ("New thread of parent: " ++ s) := by
  show Except.ok _ = _
  simp [FVal.fmt]

theorem mkObj_stringExec (a : FVal) : mkObj Expected.prog "TraceStringExec" l [a] = .ok ⟨"TraceStringExec", l, [a]⟩ := rfl
theorem attr_stringExec_name (a : FVal) : objAttr Expected.prog ⟨"TraceStringExec", l, [a]⟩ "name" = .ok a.toVal := rfl
theorem render_stringExec (s : String) : renderObj Expected.prog ⟨"TraceStringExec", l, [.str s]⟩ = .ok ("New process name: " ++ s) := by
  show Except.ok _ = _
  simp [FVal.fmt]

theorem mkObj_stringProcExit (a : FVal) : mkObj Expected.prog "TraceStringProcExit" l [a] = .ok ⟨"TraceStringProcExit", l, [a]⟩ := rfl
theorem attr_stringProcExit_name (a : FVal) : objAttr Expected.prog ⟨"TraceStringProcExit", l, [a]⟩ "name" = .ok a.toVal := rfl
theorem render_stringProcExit (s : String) : renderObj Expected.prog ⟨"TraceStringProcExit", l, [.str s]⟩ = .ok ("Process exit name: " ++ s) := by
  show Except.ok _ = _
  simp [FVal.fmt]

theorem mkObj_stringThreadname (a : FVal) : mkObj Expected.prog "TraceStringThreadname" l [a] = .ok ⟨"TraceStringThreadname", l, [a]⟩ := rfl
theorem attr_stringThreadname_name (a : FVal) : objAttr Expected.prog ⟨"TraceStringThreadname", l, [a]⟩ "name" = .ok a.toVal := rfl
theorem render_stringThreadname (s : String) : renderObj Expected.prog ⟨"TraceStringThreadname", l, [.str s]⟩ = .ok ("New thread name: " ++ s) := by
  show Except.ok _ = _
  simp [FVal.fmt]

theorem mkObj_stringThreadnamePrev (a : FVal) : mkObj Expected.prog "TraceStringThreadnamePrev" l [a] = .ok ⟨"TraceStringThreadnamePrev", l, [a]⟩ := rfl
theorem attr_stringThreadnamePrev_name (a : FVal) : objAttr Expected.prog ⟨"TraceStringThreadnamePrev", l, [a]⟩ "name" = .ok a.toVal := rfl
theorem render_stringThreadnamePrev (s : String) : renderObj Expected.prog ⟨"TraceStringThreadnamePrev", l, [.str s]⟩ = .ok ("Thread terminated name: " ++ s) := by
  show Except.ok _ = _
  simp [FVal.fmt]

end classes

/-! ### the recurring expressions on a window `e :: rest` -/

section common
variable (P : Program) (env : Env) (e : Kevent) (rest : List Kevent) (st : St)

theorem eval_first : eval P env (e :: rest) st Expected.first = .ok (.kevent e) := by
  simp [Expected.first, eval]

theorem eval_firstTid : eval P env (e :: rest) st Expected.firstTid = .ok (.int e.tid) := by
  simp [Expected.firstTid, eval, eval_first, keventAttr]

theorem eval_firstEventid : eval P env (e :: rest) st (.attr Expected.first "eventid") = .ok (.int e.eventid) := by
  simp [eval, eval_first, keventAttr]

theorem eval_firstText : eval P env (e :: rest) st Expected.firstText =
    match env.dec (stripNul e.data) with | .ok s => .ok (.str s) | .error x => .error x := by
  cases h : env.dec (stripNul e.data) <;> simp [Expected.firstText, eval, eval_first, keventAttr, h]

theorem eval_word (k x : Nat) (h : e.values[k]? = some x) :
    eval P env (e :: rest) st (Expected.word k) = .ok (.int x) := by
  simp [Expected.word, eval, eval_first, keventAttr, h]

theorem bne_dec (a b : Nat) : (a != b) = decide (a ≠ b) := by
  by_cases h : a = b <;> simp [h]

theorem truthy_start (x : Kevent) : truthy (.int (x.qual &&& 1)) = .ok (hasStart x) := by
  show Except.ok (x.qual &&& 1 != 0) = _
  rw [bne_dec]; rfl

theorem truthy_end (x : Kevent) : truthy (.int (x.qual &&& 2)) = .ok (hasEnd x) := by
  show Except.ok (x.qual &&& 2 != 0) = _
  rw [bne_dec]; rfl

theorem exec_startGuard : exec P env (e :: rest) Expected.startGuard st =
    if hasStart e then (.normal, st) else (.ret .none, st) := by
  have h : evalCond P env (e :: rest) st Expected.firstStart = .ok (hasStart e) := by
    simp only [evalCond, Expected.firstStart, eval, eval_first, keventAttr]
    exact truthy_start e
  simp only [Expected.startGuard, exec, h]
  cases hasStart e <;> simp [eval]

theorem eval_joinOwn : eval P env (e :: rest) st (.joinData (.attr Expected.first "eventid")) =
    .ok (.bytes (joinData (e :: rest))) := by
  rw [eval, eval_firstEventid]; rfl

end common

/-! ### the four data handlers -/

section handlers
variable (env : Env) (t : Tabs) (e : Kevent) (rest : List Kevent)

theorem run_dataNewthread (h4 : e.values.length = 4) :
    runHandler Expected.prog env "TRACE_DATA_NEWTHREAD" t (e :: rest) = hDataNewthread env t (e :: rest) := by
  obtain ⟨a, b, c, d, hv⟩ := len4 _ h4
  rw [lookup_dataNewthread]
  simp [runBody, finish, Expected.dataNewthread, exec, eval, evalArgs, Expected.word, Expected.first, Expected.firstTid,
    keventAttr, hv, mkObj_dataNewthread, attr_dataNewthread_tid, attr_dataNewthread_pid, render_dataNewthread,
    Val.toFVal, Locals.set, tableSet, FVal.toVal, hDataNewthread, firstOf, arg, mk, Dict.set]

theorem run_dataExec (h4 : e.values.length = 4) :
    runHandler Expected.prog env "TRACE_DATA_EXEC" t (e :: rest) = hDataExec env t (e :: rest) := by
  obtain ⟨a, b, c, d, hv⟩ := len4 _ h4
  rw [lookup_dataExec]
  simp [runBody, finish, Expected.dataExec, exec, eval, evalArgs, Expected.word, Expected.first, Expected.firstTid,
    keventAttr, hv, mkObj_dataExec, attr_dataExec_pid, render_dataExec,
    Val.toFVal, Locals.set, tableSet, FVal.toVal, hDataExec, firstOf, arg, mk, Dict.set]

theorem run_dataThreadTerminatePid (h4 : e.values.length = 4) :
    runHandler Expected.prog env "TRACE_DATA_THREAD_TERMINATE_PID" t (e :: rest) =
      hDataThreadTerminatePid env t (e :: rest) := by
  obtain ⟨a, b, c, d, hv⟩ := len4 _ h4
  rw [lookup_dataThreadTerminatePid]
  simp [runBody, finish, Expected.dataThreadTerminatePid, exec, eval, evalArgs, Expected.word, Expected.first,
    Expected.firstTid, keventAttr, hv, mkObj_dataThreadTerminatePid, attr_dataThreadTerminatePid_pid,
    render_dataThreadTerminatePid, Val.toFVal, Locals.set, tableSet, FVal.toVal, hDataThreadTerminatePid, firstOf, arg,
    mk, Dict.set]

theorem render_dataThreadTerminate (l : List Kevent) (a : Nat) (p : Option Nat) (name : String) :
    renderObj Expected.prog ⟨"TraceDataThreadTerminate", l, [.int a, (optNat p).toFVal.getD .none, .str name]⟩ =
      .ok (let rep := s!"Thread terminated tid: {a}"
           let rep := match p with | some pid => rep ++ s!", pid: {pid}" | none => rep
           if name ≠ "" then rep ++ s!", name: {name}" else rep) := by
  show renderAppends Expected.clsDataThreadTerminate _
    [(.isNotNone "pid", [.lit ", pid: ", .fld "pid"]), (.truthy "name", [.lit ", name: ", .fld "name"])]
    ("Thread terminated tid: " ++ ((FVal.int a).fmt ++ "")) = _
  have h1 : fieldIdx Expected.clsDataThreadTerminate "pid" = some 1 := by decide
  have h2 : fieldIdx Expected.clsDataThreadTerminate "name" = some 2 := by decide
  generalize Expected.clsDataThreadTerminate = c at *
  have hb : name ≠ "" → (name != "") = true := by intro h; simpa using h
  cases p <;> by_cases hn : name = "" <;> try have hb' := hb hn
  all_goals simp [renderAppends, evalSCond, fieldOf, h1, h2, optNat, Val.toFVal, renderPieces,
      FVal.fmt, hn, String.append_assoc, toString_str, *]

theorem run_dataThreadTerminate (h4 : e.values.length = 4) :
    runHandler Expected.prog env "TRACE_DATA_THREAD_TERMINATE" t (e :: rest) =
      hDataThreadTerminate env t (e :: rest) := by
  obtain ⟨a, b, c, d, hv⟩ := len4 _ h4
  rw [lookup_dataThreadTerminate]
  have hr := render_dataThreadTerminate (e :: rest) a (t.threadsPids.get a) ((t.tidsNames.get a).getD "")
  cases hp : t.threadsPids.get a <;> cases hn : t.tidsNames.get a <;>
  simp [hp, hn, optNat, Val.toFVal] at hr <;>
  simp [runBody, finish, Expected.dataThreadTerminate, exec, eval, evalArgs, Expected.word, Expected.first,
    keventAttr, hv, mkObj_dataThreadTerminate, fieldIdx_dataThreadTerminate_name, tableGet, hp, hn, optNat, optStr,
    Val.toFVal, Locals.set, hDataThreadTerminate, firstOf, arg, mk, hr]

/-! ### the string handlers without loop -/

theorem run_stringProcExit :
    runHandler Expected.prog env "TRACE_STRING_PROC_EXIT" t (e :: rest) = hStringProcExit env t (e :: rest) := by
  rw [lookup_stringProcExit]
  cases hd : env.dec (stripNul e.data) <;>
  simp [runBody, finish, Expected.stringProcExit, exec, eval, evalArgs, eval_firstText, hd,
    mkObj_stringProcExit, render_stringProcExit, Val.toFVal, Locals.set, hStringProcExit, firstOf, mk, bind,
    Except.bind, pure, Except.pure, toString_str]

theorem run_stringNewthread :
    runHandler Expected.prog env "TRACE_STRING_NEWTHREAD" t (e :: rest) = hStringNewthread env t (e :: rest) := by
  rw [lookup_stringNewthread]
  cases hd : env.dec (stripNul e.data) <;> cases hp : t.pendingNewthread.get e.tid <;>
  simp [runBody, finish, Expected.stringPending, exec, eval, evalArgs, evalCond, truthy, eval_firstText, eval_firstTid, hd, hp,
    mkObj_stringNewthread, attr_stringNewthread_name, render_stringNewthread,
    Val.toFVal, FVal.toVal, Locals.set, tableGet, tableSet, optPending, hStringNewthread, firstOf, mk, bind, Except.bind,
    pure, Except.pure, Dict.set, toString_str]

theorem run_stringExec :
    runHandler Expected.prog env "TRACE_STRING_EXEC" t (e :: rest) = hStringExec env t (e :: rest) := by
  rw [lookup_stringExec]
  cases hd : env.dec (stripNul e.data) <;> cases hp : t.pendingExec.get e.tid <;>
  simp [runBody, finish, Expected.stringPending, exec, eval, evalArgs, evalCond, truthy, eval_firstText, eval_firstTid, hd, hp,
    mkObj_stringExec, attr_stringExec_name, render_stringExec,
    Val.toFVal, FVal.toVal, Locals.set, tableGet, tableSet, optPending, hStringExec, firstOf, mk, bind, Except.bind,
    pure, Except.pure, Dict.set, toString_str]

theorem run_stringThreadname :
    runHandler Expected.prog env "TRACE_STRING_THREADNAME" t (e :: rest) =
      hStringThreadname "TRACE_STRING_THREADNAME" "New thread name: " env t (e :: rest) := by
  rw [lookup_stringThreadname]
  cases hs : hasStart e
  · simp [runBody, finish, Expected.stringThreadname, exec, exec_startGuard, hs, hStringThreadname, firstOf]
  · cases hd : env.dec (stripNul (joinData (e :: rest))) <;>
    simp [runBody, finish, Expected.stringThreadname, exec, exec_startGuard, eval, evalArgs, ↓eval_joinOwn, ↓eval_firstTid,
      hs, hd, mkObj_stringThreadname,
      attr_stringThreadname_name, render_stringThreadname, Val.toFVal, FVal.toVal, Locals.set, tableSet,
      hStringThreadname, firstOf, mk, bind, Except.bind, pure, Except.pure, Dict.set]

theorem run_stringThreadnamePrev :
    runHandler Expected.prog env "TRACE_STRING_THREADNAME_PREV" t (e :: rest) =
      hStringThreadname "TRACE_STRING_THREADNAME_PREV" "Thread terminated name: " env t (e :: rest) := by
  rw [lookup_stringThreadnamePrev]
  cases hs : hasStart e
  · simp [runBody, finish, Expected.stringThreadname, exec, exec_startGuard, hs, hStringThreadname, firstOf]
  · cases hd : env.dec (stripNul (joinData (e :: rest))) <;>
    simp [runBody, finish, Expected.stringThreadname, exec, exec_startGuard, eval, evalArgs, ↓eval_joinOwn, ↓eval_firstTid,
      hs, hd, mkObj_stringThreadnamePrev,
      attr_stringThreadnamePrev_name, render_stringThreadnamePrev, Val.toFVal, FVal.toVal, Locals.set, tableSet,
      hStringThreadname, firstOf, mk, bind, Except.bind, pure, Except.pure, Dict.set]

/-! ### `handle_trace_string_global`: the loop is `globalLoop` -/

/-- the locals of `handle_trace_string_global` inside its loop -/
def GInv (s : St) (dbg sid : Nat) (vstr : Bytes) (evs : List Kevent) : Prop :=
  s.loc 0 = some (.int dbg) ∧ s.loc 1 = some (.int sid) ∧ s.loc 2 = some (.bytes vstr) ∧ s.loc 3 = some (.kevents evs)

theorem evalCond_start (P : Program) (evs : List Kevent) (st : St) (x : Kevent) (h4 : st.loc 4 = some (.kevent x)) :
    evalCond P env evs st (.band (.attr (.var 4) "func_qualifier") (.int 1)) = .ok (hasStart x) := by
  simp only [evalCond, eval, h4, keventAttr]
  exact truthy_start x

theorem evalCond_end (P : Program) (evs : List Kevent) (st : St) (x : Kevent) (h4 : st.loc 4 = some (.kevent x)) :
    evalCond P env evs st (.band (.attr (.var 4) "func_qualifier") (.int 2)) = .ok (hasEnd x) := by
  simp only [evalCond, eval, h4, keventAttr]
  exact truthy_end x

theorem body_skip (s : St) (x : Kevent) (h4 : s.loc 4 = some (.kevent x)) (hne : x.eventid ≠ e.eventid) :
    exec Expected.prog env (e :: rest) Expected.globalBody s = (.cont, s) := by
  have hb : (x.eventid != e.eventid) = true := by simpa using hne
  simp [Expected.globalBody, exec, evalCond, eval, ↓eval_first, h4, keventAttr, truthy, hb]

theorem body_take (s : St) (x : Kevent) (dbg sid : Nat) (vstr : Bytes) (evs : List Kevent)
    (hx : x.values.length = 4) (h4 : s.loc 4 = some (.kevent x)) (hi : GInv s dbg sid vstr evs)
    (heq : x.eventid = e.eventid) :
    ∀ r, exec Expected.prog env (e :: rest) Expected.globalBody s = r →
      (r.1 = if hasEnd x then .brk else .normal) ∧ r.2.tabs = s.tabs ∧
      GInv r.2 (if hasStart x then arg x 0 else dbg) (if hasStart x then arg x 1 else sid)
        (if hasStart x then vstr ++ x.data.drop 16 else vstr ++ x.data) (evs ++ [x]) := by
  intro r hr
  subst hr
  obtain ⟨a, b, c, d, hv⟩ := len4 _ hx
  obtain ⟨h0, h1, h2, h3⟩ := hi
  have hb : (x.eventid != e.eventid) = false := by simp [heq]
  have hne : (evalCond Expected.prog env (e :: rest) s
      (.ne (.attr (.var 4) "eventid") (.attr Expected.first "eventid"))) = .ok false := by
    simp [evalCond, eval, ↓eval_first, h4, keventAttr, truthy, hb]
  cases hs : hasStart x <;> cases he : hasEnd x <;>
  simp [Expected.globalBody, exec, ↓hne, ↓evalCond_start, ↓evalCond_end, eval, h4, h0, h1, h2, h3, keventAttr, hs, he,
    Locals.set, GInv, hv, arg]

theorem GInv_set4 (s : St) (v : Val) (dbg sid : Nat) (vstr : Bytes) (evs : List Kevent) (h : GInv s dbg sid vstr evs) :
    GInv { s with loc := s.loc.set 4 v } dbg sid vstr evs := by
  simpa [GInv, Locals.set] using h

theorem globalLoop_skip (own : Nat) (x : Kevent) (xs : List Kevent) (d sd : Nat) (v : Bytes) (evs : List Kevent)
    (h : x.eventid ≠ own) : globalLoop own (x :: xs) d sd v evs = globalLoop own xs d sd v evs := by
  simp only [globalLoop, h, ne_eq, not_false_eq_true, if_true]

theorem globalLoop_end (own : Nat) (x : Kevent) (xs : List Kevent) (d sd : Nat) (v : Bytes) (evs : List Kevent)
    (h : x.eventid = own) (he : hasEnd x = true) :
    globalLoop own (x :: xs) d sd v evs =
      (if hasStart x then arg x 0 else d, if hasStart x then arg x 1 else sd,
       if hasStart x then v ++ x.data.drop 16 else v ++ x.data, evs ++ [x]) := by
  cases hs : hasStart x <;> simp [globalLoop, h, he, hs]

theorem globalLoop_go (own : Nat) (x : Kevent) (xs : List Kevent) (d sd : Nat) (v : Bytes) (evs : List Kevent)
    (h : x.eventid = own) (he : hasEnd x = false) :
    globalLoop own (x :: xs) d sd v evs =
      globalLoop own xs (if hasStart x then arg x 0 else d) (if hasStart x then arg x 1 else sd)
       (if hasStart x then v ++ x.data.drop 16 else v ++ x.data) (evs ++ [x]) := by
  cases hs : hasStart x <;> simp [globalLoop, h, he, hs]

theorem forLoop_global (l : List Kevent) (hl : ∀ x ∈ l, x.values.length = 4) :
    ∀ (s : St) (dbg sid : Nat) (vstr : Bytes) (evs : List Kevent), GInv s dbg sid vstr evs →
    ∀ r, forLoop (fun s => exec Expected.prog env (e :: rest) Expected.globalBody s) 4 l s = r →
      r.1 = .normal ∧ r.2.tabs = s.tabs ∧
      GInv r.2 (globalLoop e.eventid l dbg sid vstr evs).1 (globalLoop e.eventid l dbg sid vstr evs).2.1
        (globalLoop e.eventid l dbg sid vstr evs).2.2.1 (globalLoop e.eventid l dbg sid vstr evs).2.2.2 := by
  induction l with
  | nil => intro s dbg sid vstr evs hi r hr; subst hr; exact ⟨rfl, rfl, hi⟩
  | cons x xs ih =>
    intro s dbg sid vstr evs hi r hr
    have hx := hl x (by simp)
    have hxs : ∀ y ∈ xs, y.values.length = 4 := fun y hy => hl y (by simp [hy])
    have hi' := GInv_set4 s (.kevent x) dbg sid vstr evs hi
    have h4 : ({ s with loc := s.loc.set 4 (.kevent x) } : St).loc 4 = some (.kevent x) := by simp [Locals.set]
    by_cases hne : x.eventid = e.eventid
    · have hb := body_take env e rest _ x dbg sid vstr evs hx h4 hi' hne _ rfl
      cases hp : exec Expected.prog env (e :: rest) Expected.globalBody { s with loc := s.loc.set 4 (.kevent x) } with
      | mk sig s' =>
        rw [hp] at hb
        obtain ⟨hsig, htabs, hinv⟩ := hb
        simp only at hsig htabs hinv
        cases he : hasEnd x
        · have hsig' : sig = .normal := by simpa [he] using hsig
          subst hsig'
          have := ih hxs s' _ _ _ _ hinv r (by rw [← hr]; simp only [forLoop, hp])
          rw [globalLoop_go _ _ _ _ _ _ _ hne he]
          exact ⟨this.1, this.2.1.trans htabs, this.2.2⟩
        · have hsig' : sig = .brk := by simpa [he] using hsig
          subst hsig'
          have hr' : r = (.normal, s') := by rw [← hr]; simp only [forLoop, hp]
          subst hr'
          rw [globalLoop_end _ _ _ _ _ _ _ hne he]
          exact ⟨rfl, htabs, hinv⟩
    · have hb := body_skip env e rest _ x h4 hne
      have := ih hxs _ dbg sid vstr evs hi' r (by rw [← hr]; simp only [forLoop, hb])
      rw [globalLoop_skip _ _ _ _ _ _ _ hne]
      exact ⟨this.1, this.2.1, this.2.2⟩

theorem exec_globalTail (s : St) (dbg sid : Nat) (vstr : Bytes) (evs : List Kevent) (hi : GInv s dbg sid vstr evs) :
    finish Expected.prog "TRACE_STRING_GLOBAL" (exec Expected.prog env (e :: rest) Expected.globalTail s) =
      match env.dec (stripNul vstr) with
      | .error _ => .error .unmodelled
      | .ok str =>
        .ok (some (mk "TRACE_STRING_GLOBAL" evs s!"New global string: \"{str}\", id: {sid}"),
             if str ≠ "" then { s.tabs with globalStrings := s.tabs.globalStrings.set sid str } else s.tabs) := by
  obtain ⟨h0, h1, h2, h3⟩ := hi
  cases hd : env.dec (stripNul vstr) with
  | error x => simp [finish, Expected.globalTail, exec, eval, evalArgs, h0, h1, h2, h3, hd, Val.toFVal]
  | ok str =>
    by_cases hn : str = ""
    · simp [finish, Expected.globalTail, exec, eval, evalArgs, evalCond, truthy, h0, h1, h2, h3, hd, Val.toFVal,
        mkObj_stringGlobal, attr_stringGlobal_vstr, attr_stringGlobal_strId, render_stringGlobal, Locals.set,
        FVal.toVal, hn, mk]
    · have hb : (str != "") = true := by simpa using hn
      simp [finish, Expected.globalTail, exec, eval, evalArgs, evalCond, truthy, h0, h1, h2, h3, hd, Val.toFVal,
        mkObj_stringGlobal, attr_stringGlobal_vstr, attr_stringGlobal_strId, render_stringGlobal, Locals.set,
        FVal.toVal, hn, hb, mk, tableSet, Dict.set]

theorem run_stringGlobal (hall : ∀ x ∈ e :: rest, x.values.length = 4) :
    runHandler Expected.prog env "TRACE_STRING_GLOBAL" t (e :: rest) = hStringGlobal env t (e :: rest) := by
  rw [lookup_stringGlobal]
  cases hs : hasStart e
  · simp [runBody, finish, Expected.stringGlobal, exec, exec_startGuard, hs, hStringGlobal, firstOf]
  · have hi : GInv { loc := (((Locals.empty.set 0 (.int 0)).set 1 (.int 0)).set 2 (.bytes [])).set 3 (.kevents []),
                     tabs := t } 0 0 [] [] := by simp [GInv, Locals.set]
    have hl := forLoop_global env e rest (e :: rest) hall _ 0 0 [] [] hi _ rfl
    cases hp : forLoop (fun s => exec Expected.prog env (e :: rest) Expected.globalBody s) 4 (e :: rest)
        { loc := (((Locals.empty.set 0 (.int 0)).set 1 (.int 0)).set 2 (.bytes [])).set 3 (.kevents []), tabs := t } with
    | mk sig s1 =>
      rw [hp] at hl
      obtain ⟨hsig, htabs, hinv⟩ := hl
      simp only at hsig htabs hinv
      subst hsig
      have hpre : exec Expected.prog env (e :: rest) Expected.stringGlobal { loc := Locals.empty, tabs := t } =
          exec Expected.prog env (e :: rest) Expected.globalTail s1 := by
        simp [Expected.stringGlobal, exec, exec_startGuard, hs, eval, hp]
      rw [runBody, hpre, exec_globalTail env e rest s1 _ _ _ _ hinv, htabs]
      simp only [hStringGlobal, firstOf, List.head?_cons, Option.getD_some, hs, Bool.not_true, Bool.false_eq_true,
        if_false]
      rfl

end handlers

/-! ### the empty window; all ten handlers as one table -/

theorem run_empty (env : Env) (t : Tabs) (name : String) (h : traceDomainNames.contains name = true) :
    runHandler Expected.prog env name t [] = .error .indexError := by
  simp only [traceDomainNames, List.contains_eq_mem, List.mem_cons, List.not_mem_nil, or_false, decide_eq_true_eq] at h
  rcases h with h | h | h | h | h | h | h | h | h | h <;> subst h
  · rw [lookup_dataNewthread]; simp [runBody, finish, Expected.dataNewthread, exec, eval, evalArgs, Expected.word, Expected.first]
  · rw [lookup_dataExec]; simp [runBody, finish, Expected.dataExec, exec, eval, evalArgs, Expected.word, Expected.first]
  · rw [lookup_dataThreadTerminate]; simp [runBody, finish, Expected.dataThreadTerminate, exec, eval, evalArgs, Expected.word, Expected.first]
  · rw [lookup_dataThreadTerminatePid]; simp [runBody, finish, Expected.dataThreadTerminatePid, exec, eval, evalArgs, Expected.word, Expected.first]
  · rw [lookup_stringGlobal]; simp [runBody, finish, Expected.stringGlobal, Expected.startGuard, Expected.firstStart, exec, evalCond, eval, Expected.first]
  · rw [lookup_stringNewthread]; simp [runBody, finish, Expected.stringPending, Expected.firstText, exec, eval, evalArgs, Expected.first]
  · rw [lookup_stringExec]; simp [runBody, finish, Expected.stringPending, Expected.firstText, exec, eval, evalArgs, Expected.first]
  · rw [lookup_stringProcExit]; simp [runBody, finish, Expected.stringProcExit, Expected.firstText, exec, eval, evalArgs, Expected.first]
  · rw [lookup_stringThreadname]; simp [runBody, finish, Expected.stringThreadname, Expected.startGuard, Expected.firstStart, exec, evalCond, eval, Expected.first]
  · rw [lookup_stringThreadnamePrev]; simp [runBody, finish, Expected.stringThreadname, Expected.startGuard, Expected.firstStart, exec, evalCond, eval, Expected.first]

/-- **All ten at once**: on a non-empty window of four-word records the interpreted handler named `name` is the
    hand model's entry of the handler table. -/
theorem runHandler_eq_handleWith (nested : Tabs → List Kevent → Except PyErr (Option TraceOut × Tabs)) (env : Env) (t : Tabs) (name : String) (e : Kevent) (rest : List Kevent)
    (h : traceDomainNames.contains name = true) (hw : Words4 (e :: rest)) :
    runHandler Expected.prog env name t (e :: rest) = handleWith nested env t name (e :: rest) := by
  have h4 : e.values.length = 4 := hw e (by simp)
  simp only [traceDomainNames, List.contains_eq_mem, List.mem_cons, List.not_mem_nil, or_false, decide_eq_true_eq] at h
  rcases h with h | h | h | h | h | h | h | h | h | h <;> subst h
  · exact run_dataNewthread env t e rest h4
  · exact run_dataExec env t e rest h4
  · exact run_dataThreadTerminate env t e rest h4
  · exact run_dataThreadTerminatePid env t e rest h4
  · exact run_stringGlobal env t e rest hw
  · exact run_stringNewthread env t e rest
  · exact run_stringExec env t e rest
  · exact run_stringProcExit env t e rest
  · exact run_stringThreadname env t e rest
  · exact run_stringThreadnamePrev env t e rest

/-! ### the whole parser with the ten handlers interpreted -/

abbrev NestedFn := Tabs → List Kevent → Except PyErr (Option TraceOut × Tabs)

theorem handleWith_nested_congr (n₁ n₂ : NestedFn) (env : Env) (t : Tabs) (name : String) (w : List Kevent)
    (h : ∀ t', n₁ t' (realEvents w) = n₂ t' (realEvents w)) :
    handleWith n₁ env t name w = handleWith n₂ env t name w := by
  unfold handleWith
  split <;> first | rfl | skip
  unfold hMachVmfault vmfaultCore
  simp only [h]

theorem words4_realEvents (w : List Kevent) (h : Words4 w) : Words4 (realEvents w) := by
  intro x hx
  simp only [realEvents, List.mem_filter] at hx
  exact h x (List.mem_of_mem_drop (List.dropLast_subset _ hx.1))

theorem handleVia_eq (n₁ n₂ : NestedFn) (env : Env) (t : Tabs) (name : String) (e : Kevent) (rest : List Kevent)
    (hw : Words4 (e :: rest)) (h : ∀ t', n₁ t' (realEvents (e :: rest)) = n₂ t' (realEvents (e :: rest))) :
    handleVia Expected.prog n₁ env t name (e :: rest) = handleWith n₂ env t name (e :: rest) := by
  unfold handleVia
  by_cases hd : traceDomainNames.contains name = true
  · rw [if_pos hd]; exact runHandler_eq_handleWith n₂ env t name e rest hd hw
  · rw [if_neg hd]; exact handleWith_nested_congr n₁ n₂ env t name _ h

theorem parseFuelVia_eq : ∀ (fuel : Nat) (env : Env) (t : Tabs) (events : List Kevent), Words4 events →
    parseFuelVia Expected.prog fuel env t events = parseFuel fuel env t events := by
  intro fuel
  induction fuel with
  | zero => intro env t events _; rfl
  | succ fuel ih =>
    intro env t events hw
    cases events with
    | nil => rfl
    | cons e rest =>
      simp only [parseFuelVia, parseFuel, parseEventListVia, parseEventListWith]
      cases env.codes e.eventid with
      | none => rfl
      | some name =>
        simp only
        split
        · exact handleVia_eq _ _ env t name e rest hw (fun t' => ih env t' _ (words4_realEvents _ hw))
        · rfl

theorem feedVia_eq (env : Env) (s : PState) (e : Kevent) (hs : PInv (fun x => x.values.length = 4) s.pairing)
    (he : e.values.length = 4) : feedVia Expected.prog env s e = feed env s e := by
  have hi := (step_inv (fun x => x.values.length = 4) env.domOf s.pairing e hs he).2
  unfold feedVia feed
  cases hp : Pairing.step env.domOf s.pairing e with
  | mk p' o =>
    rw [hp] at hi
    cases o with
    | none => rfl
    | some w =>
      have hw : Words4 w := (hi w rfl).all
      simp only [parseEventListViaIR, parseEventList, parseFuelVia_eq _ env s.tabs w hw]
      cases parseFuel (w.length + 1) env s.tabs w with
      | error x => rfl
      | ok r => rfl

theorem runVia_eq (env : Env) : ∀ (es : List Kevent) (s : PState),
    PInv (fun x => x.values.length = 4) s.pairing → Words4 es → runVia Expected.prog env s es = run env s es := by
  intro es
  induction es with
  | nil => intro s _ _; rfl
  | cons e es ih =>
    intro s hs hw
    have he : e.values.length = 4 := hw e (by simp)
    have hes : Words4 es := fun x hx => hw x (by simp [hx])
    simp only [runVia, run, feedVia_eq env s e hs he]
    cases hf : feed env s e with
    | error x => rfl
    | ok r =>
      obtain ⟨o, s'⟩ := r
      have hs' : PInv (fun x => x.values.length = 4) s'.pairing := by
        have hi := (step_inv (fun x => x.values.length = 4) env.domOf s.pairing e hs he).1
        unfold feed at hf
        cases hp : Pairing.step env.domOf s.pairing e with
        | mk p' ow =>
          rw [hp] at hf hi
          cases ow with
          | none => simp only [Except.ok.injEq, Prod.mk.injEq] at hf; rw [← hf.2]; exact hi
          | some w =>
            simp only [bind, Except.bind] at hf
            cases hq : parseEventList env s.tabs w with
            | error x => rw [hq] at hf; cases hf
            | ok q => rw [hq] at hf; simp only [pure, Except.pure, Except.ok.injEq, Prod.mk.injEq] at hf; rw [← hf.2]; exact hi
      simp only [ih s' hs' hes]
      cases o <;> rfl

end KdVerif.PyIRTr
