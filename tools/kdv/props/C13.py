"""C13 — trace filters commute with decoding and leave no residue in the parser.

Version-2 dumps through the real `PyKdebugParser.traces` / `callstacks` / `kevents` under all combinations of thread,
process, class and BSD-subclass filters, several requests on ONE parser object; the Lean model is
`Model/TracePipeline.lean` (driver command `tpipe`).  The oracle is computed on the real code itself:
* residue: the four filter attributes after the requests equal those the caller set;
* idempotence: equal requests on the same object give equal outputs;
* commutation: the filtered output equals the output of an unfiltered parser restricted by the filter (thread of the
  first record, class / subclass of the first record, process of that thread in the tables when the trace is yielded),
  same order, same text."""
import io
import json

from .. import core
from .. import pipeline as PL
from .. import streams
from ..core import run_section, hs

MODULE = 'KdVerif.Props.C13'
NAMESPACE = 'KdVerif.C13'
TRUSTED = ['Model/TracePipeline.lean written statement by statement like PyKdebugParser.traces / callstacks / kevents (explicit '
           'object state: filter attributes, shared lookup tables, image lists), tied to the code by the sections '
           '`trace-filters`, `trace-requests` and `trace-filters-K3`; what traces() itself decides - the copy of filter_class with '
           'the helper classes handed to kevents (effectiveClasses), the post-filter stages and their order (postFilter), the '
           'process test (processMatches), no residue in the filter attributes - is tied to the SOURCE TEXT by translation '
           '(tools/gen_pyir_fl.py -> Gen/PyIRFl, source_is_expected_ir, traces_ir_eq_model, filter_process_callback_ir_eq_model, '
           'traces_request_rests_on_ir); trusted for that: the translator and the interpreter Model/PyIRFl (section traces-ir '
           'tests them against CPython)',
           'Model/Trace.lean (whole TracesParser), Model/Filters.lean (event-level filter), Model/Callstacks.lean as tied by '
           'their own properties (C05/C07/C08/C20, C12, C15)',
           'callstacks_request_rests_on_ir is about the hand-written copy Spec/PyIRCsExpected of the IR of callstacks() / '
           'CallstacksParser; that the copy is what tools/gen_pyir.py generates from the working tree is an obligation of C15',
           'the version-2 container parser is replaced in the model by its result (thread map + records; C02)',
           'the command-line glue in front of traces() / callstacks() / os_log_events() - the callbacks traces / callstacks / logs of '
           '__main__.py with their option declarations, print_with_count, PyKdebugParser.__init__, formatted_traces / _callstacks / '
           '_logs - is tied to the SOURCE TEXT by translation (tools/gen_pyir_cli.py -> Gen/PyIRCli, cli_source_is_expected_ir, '
           'traces_command_ir_eq_model, traces_command_ir_eq_e2e, callstacks_command_ir_eq_model, logs_command_ir_eq_model, '
           'formatted_traces / _callstacks / _logs _ir_eq_model); trusted for that: that translator, the interpreter Model/PyIRCli '
           '(sections cli-glue / cli-decls / cli-init / cli-formatted / cli-pwc-raise test them against click / CPython) and click\'s '
           'parsing of the command line']
ASSUMPTIONS = ['a request\'s generator is consumed to its end (or to the exception): the generators are lazy, an unconsumed '
               'request does nothing',
               'version-2 dumps: the thread map of the header resets both lookup tables at the start of every request',
               'commutation is claimed for thread filters, class lists and BSD-subclass lists (subclass >> 8 == 4); a subclass '
               'of DBG_TRACE / DBG_FSYSTEM requested without its class is outside the claim (the helper post-filter drops the '
               'whole class)',
               'thread filter: text of the handlers that read tables written by other threads (thread-terminate, the four dyld '
               'string readers) is outside the claim (C05\'s exclusion)',
               'process filter: commutes when the records that attribute threads to processes survive the event-level filter '
               '(otherwise: known finding K3)',
               'the caller does not change the thread / process / subclass attributes while a request is being consumed (the class list may change: a request fixes it when it is made)']

T_START, T_END, T_NONE = PL.START, PL.END, PL.NONE
CLASS_LISTS = [[], [], [], [4], [4], [1], [7], [3], [4, 7], [0x25], [0x1f], [4, 3], [1, 4], [0x25, 0x1f], [4, 1, 7, 3], [9],
               [0x35], [1, 0x25, 0x1f, 4]]
SUBCLASS_LISTS = [[], [], [], [], [0x040c], [0x040c], [0x0401], [0x040c, 0x0401], [0x040e]]
PROC_NAMES = ['launchd', 'kernel_task', 'Finder', 'a b', 'naïve']


# ---------------------------------------------------------------------------------------------------------------------
# dumps
# ---------------------------------------------------------------------------------------------------------------------

def gen_dump(rng, mode='any', perturb=False):
    """mode: 'static' = no record re-declares a thread; 'class7' = re-declaring records of class DBG_TRACE only
    (new-thread / exec pairs, terminate-pid); 'any' = also sampler thread-info records."""
    tids = rng.sample([5, 6, 7, 8, 99, 1000, 1001], 4)
    pids = [1, 2, 42, 77]
    tmap = []
    for t in rng.sample(tids, rng.randrange(1, 4)):
        tmap.append([t, rng.choice(pids), rng.choice(PROC_NAMES)])
    if rng.random() < 0.3:
        tmap.append([tmap[0][0], rng.choice(pids), rng.choice(PROC_NAMES)])
    quiet = set(tids)                                  # threads whose attribution no record of the stream changes
    s = PL.Stream(rng)
    s.ts = 256 * rng.randrange(1, 500)
    ops = []
    for _ in range(rng.randrange(2, 11)):
        i = rng.randrange(len(tids))
        tid = tids[i]
        k = rng.random()
        if k < 0.22:
            name = rng.choice(['BSC_open', 'BSC_getpid', 'BSC_read', 'BSC_kill', 'BSC_stat64', 'BSC_rename', 'BSC_access'])
            a = PL.good_args(name) or [1, 2, 3, 4]
            lk = [(PL.D.rand_path(rng), rng.randrange(1, 1 << 30)) for _ in range(rng.choice([0, 1, 1, 2]))]
            inner = []
            if rng.random() < 0.3:                     # a record of another class inside the syscall window
                inner = [lambda tid=tid: s.ev('MACH_SCHED', T_NONE, tid, [1, 2, 3, 4]) and []]
            if rng.random() < 0.3:                     # a whole window of another thread inside this one
                other = tids[(i + 1 + rng.randrange(len(tids) - 1)) % len(tids)]
                inner = inner + [lambda other=other: s.syscall('BSC_getpid', other, [0, 0, 0, 0],
                                                               [0, rng.randrange(1, 1000), 0, 0]) and []]
            between = None
            if lk and rng.random() < 0.35:             # a record of another class BETWEEN the chunks of a looked-up path
                lk = [(p_ + '/' + 'd' * rng.choice([20, 40]), v_) for p_, v_ in lk]
                between = lambda tid=tid: s.ev(rng.choice(['MACH_SCHED', 'MACH_MKRUNNABLE', 'DecrSet']), T_NONE, tid, [1, 2, 3, 4])  # noqa: E731
            s.syscall(name, tid, a, [rng.choice([0, 0, 2, 35]), rng.randrange(0, 1000), 0, 0], lk, inner=inner,
                      lookup_between=between)
        elif k < 0.30:
            name = 'MSC_mach_vm_allocate_trap'
            s.syscall(name, tid, PL.good_args(name) or [1, 2, 3, 4], [0, 0, 0, 0])
        elif k < 0.38:
            name = rng.choice(['MACH_SCHED', 'MACH_MKRUNNABLE', 'DecrSet', 'TURNSTILE_thread_added_to_turnstile_waitq'])
            s.ev(name, T_NONE, tid, PL.good_args(name) or [1, 2, 3, 4])
        elif k < 0.46:                                 # a global string of the thread's own id range, then a dlopen reading it
            sid = 10 * (i + 1) + rng.randrange(3)
            s.gstring(tid, sid, '/lib/%d_%d.dylib' % (i, rng.randrange(9)))
            if rng.random() < 0.7:
                s.syscall('DBG_DYLD_TIMING_DLOPEN', tid, [0, sid, 1, 0], [0, 0x1000, 0, 0])
        elif k < 0.52:
            s.threadname(tid, 'thr%d_%d' % (i, rng.randrange(9)) + 'x' * rng.choice([0, 40]))
        elif k < 0.57:
            s.ev('TRACE_STRING_PROC_EXIT', T_NONE, tid, data=s.name32('exit%d' % rng.randrange(9)))
        elif k < 0.62:
            ops.append(('terminate', len(s.recs), tid))
            s.ev('TRACE_DATA_THREAD_TERMINATE', T_NONE, tid, [tid, 0, 0, 0])
        elif k < 0.72:                                 # sampler window; thread-info record only in mode 'any'
            thd = None
            if mode == 'any' and rng.random() < 0.6:
                target = rng.choice(tids)
                thd = (rng.choice(pids + [555]), target, 1)
                quiet.discard(target)
            s.sample(tid, rng.choice([8, 9, 0xb, 1]), thd=thd, hdr=(rng.choice([1, 5]), rng.randrange(0, 6)),
                     data=[[rng.choice([0x1010, 0x2040, 0x5000, 0x99]) for _ in range(4)] for _ in range(rng.randrange(0, 3))])
        elif k < 0.78:
            s.ev('DYLD_uuid_map_a', T_NONE, tid,
                 data=rng.randbytes(16) + rng.choice([0x1000, 0x2000, 0x3000]).to_bytes(8, 'little') + (7).to_bytes(8, 'little'))
        elif k < 0.82:
            def inner():
                for _ in range(rng.randrange(0, 3)):
                    s.ev(rng.choice(['DYLD_uuid_map_a', 'DYLD_uuid_shared_cache_a']), T_NONE, tid,
                         data=rng.randbytes(16) + rng.choice([0x1000, 0x4000]).to_bytes(8, 'little') + (7).to_bytes(8, 'little'))
                return []
            s.syscall('DBG_DYLD_TIMING_LAUNCH_EXECUTABLE', tid, [0, 0x10000, 0, 0], [0, 0, 0, 0], inner=[inner])
        elif k < 0.86:
            def inner():
                if rng.random() < 0.6:
                    s.ev('RealFaultAddressInternal', T_NONE, tid, [0x1000, (3 << 8) | 2, 7, rng.choice(pids)])
                return []
            s.syscall('MACH_vmfault', tid, [0, 0x7000, 1, 0], [0, 0, 0, rng.randrange(1, 8)], inner=[inner])
        elif mode != 'static':
            r = rng.random()
            if r < 0.45:
                target = rng.choice(tids + [4242])
                quiet.discard(target)
                s.newthread(tid, target, rng.choice(pids + [556]), 'nt%d' % rng.randrange(20), rng.random() < 0.9,
                            rng.random() < 0.9)
            elif r < 0.75:
                s.exec_(tid, rng.choice(pids + [557]), 'ex%d' % rng.randrange(20), rng.random() < 0.9, rng.random() < 0.9)
            else:
                quiet.discard(tid)
                s.ev('TRACE_DATA_THREAD_TERMINATE_PID', T_NONE, tid, [rng.choice(pids + [558]), 7, 0, 0])
    recs = list(s.recs)
    # a thread-terminate record is kept only for threads whose attribution never changes in this dump
    drop = {pos for (_, pos, tid) in ops if tid not in quiet}
    recs = [r for j, r in enumerate(recs) if j not in drop]
    if perturb and len(recs) > 1 and rng.random() < 0.5:
        j = rng.randrange(1, len(recs))
        recs = recs[:j] + recs[j + 1:]
    if not recs or recs[0][0] == 0:                    # K1: the first record must not begin with a zero byte
        return gen_dump(rng, mode, perturb)
    codes = {str(k): v for k, v in PL.restricted_codes(recs, extra=('VFS_LOOKUP',)).items()}
    return {'tmap': tmap, 'events': [r.hex() for r in recs], 'codes': codes, 'tids': tids}


def gen_cfg(rng, dump, mode):
    tids = dump['tids']
    tid = rng.choice([None, None, None, tids[0], tids[1], 31337])
    classes = list(rng.choice(CLASS_LISTS))
    subs = list(rng.choice(SUBCLASS_LISTS))
    proc = None
    if rng.random() < 0.45:
        cand = [n for _, _, n in dump['tmap']] + [str(p) for _, p, _ in dump['tmap']] + ['nobody', '-1', '', '555', 'nt3']
        proc = rng.choice(cand)
    # input classes of known finding K3 are kept out of the main stream by construction
    if proc is not None:
        if tid is not None and mode != 'static':
            tid = None
        if (classes or subs) and mode == 'any':
            classes, subs = [], []
    return {'tid': tid, 'classes': classes, 'subclasses': subs, 'process': proc}


def gen_case(rng, reqs=None, perturb=False):
    mode = rng.choice(['static', 'class7', 'any', 'any'])
    dump = gen_dump(rng, mode, perturb)
    cfg = gen_cfg(rng, dump, mode)
    if reqs is None:
        reqs = rng.choice(['t', 't', 'tt', 'tt', 'ttt', 'tct', 'cc', 'ctc', 'ktk', 'tkt', 'kt', 'cct', 'tcc'])
    return {'tmap': dump['tmap'], 'events': dump['events'], 'codes': dump['codes'], 'cfg': cfg, 'reqs': reqs,
            'stream': 'main', 'mode': mode}


def fixed_cases():
    """Hand-written dumps in which every helper mechanism is needed at once: the requested BSD syscalls carry paths
    (DBG_FSYSTEM must be read), their thread is attributed by a new-thread pair and a dlopen reads a global string
    (DBG_TRACE must be read), under class-only, subclass-only and mixed settings."""
    s = PL.Stream()
    s.ts = 256 * 7
    s.newthread(5, 6, 2, 'child')
    s.gstring(6, 3, '/usr/lib/libfoo.dylib')
    s.syscall('BSC_open', 6, PL.good_args('BSC_open') or [1, 2, 3, 4], [0, 3, 0, 0], [('/etc/passwd', 77)])
    s.syscall('DBG_DYLD_TIMING_DLOPEN', 6, [0, 3, 1, 0], [0, 0x1000, 0, 0])
    s.syscall('BSC_getpid', 6, [0, 0, 0, 0], [0, 42, 0, 0])
    s.syscall('BSC_getpid', 5, [0, 0, 0, 0], [0, 41, 0, 0])
    recs = s.recs
    codes = {str(k): v for k, v in PL.restricted_codes(recs, extra=('VFS_LOOKUP',)).items()}
    out = []
    for classes, subs in [([4], []), ([], [0x040c]), ([0x1f], []), ([0x1f, 4], []), ([], [0x040c, 0x0401]), ([4, 7], []),
                          ([4, 3], []), ([1], [0x040c])]:
        for proc in (None, 'child', '2', 'parent'):
            for reqs in ('t', 'tt'):
                out.append({'tmap': [[5, 1, 'parent']], 'events': [r.hex() for r in recs], 'codes': codes,
                            'cfg': {'tid': None, 'classes': classes, 'subclasses': subs, 'process': proc}, 'reqs': reqs,
                            'stream': 'main', 'mode': 'fixed'})
    return out


def gen_callstack_case(rng):
    """Samples with user stacks BEFORE and after the announcement of the images that contain their frames (so that
    image lists surviving a request would change the next request's answer)."""
    s = PL.Stream(rng)
    s.ts = 256 * rng.randrange(1, 500)
    tids = rng.sample([5, 6, 7, 8], 2)
    bases = rng.sample([0x1000, 0x2000, 0x3000, 0x8000], 2)

    def sample():
        tid = rng.choice(tids)
        words = [[rng.choice(bases) + rng.randrange(0, 0x400) for _ in range(4)] for _ in range(rng.randrange(1, 3))]
        s.sample(tid, 9, thd=None, hdr=(1, rng.randrange(1, 4 * len(words) + 1)), data=words)

    def image():
        tid = rng.choice(tids)
        if rng.random() < 0.7:
            s.ev('DYLD_uuid_map_a', T_NONE, tid, data=rng.randbytes(16) + rng.choice(bases).to_bytes(8, 'little') + bytes(8))
        else:
            def inner():
                for b in bases:
                    s.ev('DYLD_uuid_map_a', T_NONE, tid, data=rng.randbytes(16) + b.to_bytes(8, 'little') + bytes(8))
                return []
            s.syscall('DBG_DYLD_TIMING_LAUNCH_EXECUTABLE', tid, [0, 0x10000, 0, 0], [0, 0, 0, 0], inner=[inner])

    for _ in range(rng.randrange(1, 3)):
        sample()
    for _ in range(rng.randrange(1, 3)):
        image()
        sample()
    recs = s.recs
    if recs[0][0] == 0:
        return gen_callstack_case(rng)
    codes = {str(k): v for k, v in PL.restricted_codes(recs, extra=('VFS_LOOKUP',)).items()}
    cfg = {'tid': rng.choice([None, None, tids[0]]), 'classes': list(rng.choice([[], [], [0x25, 0x1f], [0x25]])),
           'subclasses': [], 'process': None}
    return {'tmap': [[tids[0], 1, 'launchd']], 'events': [r.hex() for r in recs], 'codes': codes, 'cfg': cfg,
            'reqs': rng.choice(['cc', 'ccc', 'ctc', 'tcc', 'ckc']), 'stream': 'main', 'mode': 'callstacks'}


def k3_cases(rng, n):
    """FINDING STREAM (K3 and its thread-terminate variant): the records that attribute a thread are removed by the
    event-level filter although the traces they attribute are requested."""
    out = []
    for _ in range(n):
        kind = rng.choice(['tid+process', 'class+process', 'class+terminate', 'tid+terminate'])
        s = PL.Stream(rng)
        s.ts = 256 * rng.randrange(1, 500)
        parent, child = rng.sample([5, 6, 7, 8], 2)
        tmap = [[parent, 1, 'parent']]
        pid = rng.choice([2, 3, 44])
        if kind == 'tid+process':
            s.newthread(parent, child, pid, 'child')
            cfg = {'tid': child, 'classes': [], 'subclasses': [], 'process': rng.choice(['child', str(pid)])}
        elif kind == 'class+process':
            s.sample(parent, 1, thd=(pid, child, 1))
            cfg = {'tid': None, 'classes': rng.choice([[4], [4, 1]]), 'subclasses': [], 'process': str(pid)}
        elif kind == 'class+terminate':
            s.sample(parent, 1, thd=(pid, child, 1))
            cfg = {'tid': None, 'classes': rng.choice([[7], [4]]), 'subclasses': [], 'process': None}
            if cfg['classes'] == [4]:
                cfg['classes'] = [7, 4]
        else:
            s.newthread(parent, child, pid, 'child')
            cfg = {'tid': child, 'classes': [], 'subclasses': [], 'process': None}
        for _ in range(rng.randrange(1, 4)):
            s.syscall('BSC_getpid', child, [0, 0, 0, 0], [0, rng.randrange(1000), 0, 0])
        if kind.endswith('terminate'):
            s.ev('TRACE_DATA_THREAD_TERMINATE', T_NONE, child, [child, 0, 0, 0])
        recs = s.recs
        if recs[0][0] == 0:
            continue
        codes = {str(k): v for k, v in PL.restricted_codes(recs, extra=('VFS_LOOKUP',)).items()}
        out.append({'tmap': tmap, 'events': [r.hex() for r in recs], 'codes': codes, 'cfg': cfg, 'reqs': 'tt',
                    'stream': 'K3', 'mode': kind})
    return out


def helper_subclass_cases(rng, n):
    """SECOND FINDING STREAM (outside the property's claim, which is about class lists and BSD-subclass lists): a
    subclass of a helper class — DBG_TRACE, or DBG_FSYSTEM next to a BSD request — is requested WITHOUT its class; the
    helper post-filter then drops the whole class, the requested subclass included."""
    out = []
    for _ in range(n):
        s = PL.Stream(rng)
        s.ts = 256 * rng.randrange(1, 500)
        tid = rng.choice([5, 6, 7])
        s.ev('TRACE_STRING_PROC_EXIT', T_NONE, tid, data=s.name32('bye%d' % rng.randrange(9)))
        s.syscall('BSC_open', tid, PL.good_args('BSC_open') or [1, 2, 3, 4], [0, 3, 0, 0], [('/etc/%d' % rng.randrange(99), 7)])
        recs = s.recs
        if recs[0][0] == 0:
            continue
        codes = {str(k): v for k, v in PL.restricted_codes(recs, extra=('VFS_LOOKUP',)).items()}
        cfg = rng.choice([{'classes': [], 'subclasses': [0x0701]}, {'classes': [4], 'subclasses': [0x0301]},
                          {'classes': [], 'subclasses': [0x040c, 0x0301]}])
        out.append({'tmap': [[tid, 1, 'p']], 'events': [r.hex() for r in recs], 'codes': codes,
                    'cfg': {'tid': None, 'classes': cfg['classes'], 'subclasses': cfg['subclasses'], 'process': None},
                    'reqs': 't', 'stream': 'helper-subclass', 'mode': 'helper-subclass'})
    return out


# ---------------------------------------------------------------------------------------------------------------------
# model line / implementation answer
# ---------------------------------------------------------------------------------------------------------------------

def csv(l):
    return ','.join(str(x) for x in l) or '-'


def tmap_arg(tmap):
    return ';'.join('%d:%d:%s' % (t, p, hs(n)) for t, p, n in tmap) or '-'


def line(case, cmd='tpipe'):
    cfg = case['cfg']
    codes = {int(k): v for k, v in case['codes'].items()}
    return ' '.join([cmd, PL.codes_arg(codes), tmap_arg(case['tmap']), 'N' if cfg['tid'] is None else str(cfg['tid']),
                     csv(cfg['classes']), csv(cfg['subclasses']), 'N' if cfg['process'] is None else hs(cfg['process']),
                     case['reqs']] + case['events'])


def dump_bytes(case):
    return streams.v2_file([tuple(x) for x in case['tmap']], [bytes.fromhex(h) for h in case['events']])


def make_parser(cfg):
    from pykdebugparser.pykdebugparser import PyKdebugParser
    p = PyKdebugParser()
    p.color = False
    p.filter_tid = cfg['tid']
    p.filter_class = list(cfg['classes'])
    p.filter_subclass = list(cfg['subclasses'])
    p.filter_process = cfg['process']
    return p


def trace_digest(codes, t):
    try:
        txt = hs(str(t))
    except Exception as e:
        txt = '!' + core.err_name(e)
    return '%s|%s|%s|%s' % (codes.get(t.ktraces[0].eventid, '?'), ','.join(str(k.timestamp) for k in t.ktraces), txt,
                            PL.extra_of(t))


def callstack_digest(c):
    fr = ['%d/%s/%d' % (f.address, f.uuid.bytes.hex(), f.offset) if f.uuid is not None else '%d' % f.address for f in c.frames]
    return '%d:%d:%s' % (c.timestamp, c.tid, ','.join(fr) or '-')


def consume(gen, show):
    items, err = [], '-'
    try:
        for x in gen:
            items.append(show(x))
    except Exception as e:
        err = core.err_name(e)
    return items, err


def request(p, letter, data, codes):
    if letter == 't':
        items, err = consume(p.traces(io.BytesIO(data), codes), lambda t: trace_digest(codes, t))
        return 'T ' + (' '.join(items) or '-') + ' !' + err
    if letter == 'c':
        items, err = consume(p.callstacks(io.BytesIO(data), codes), callstack_digest)
        return 'C ' + (' '.join(items) or '-') + ' !' + err
    items, err = consume(p.kevents(io.BytesIO(data)), lambda e: '%d:%d:%d' % (e.timestamp, e.tid, e.debugid))
    return 'K ' + (' '.join(items) or '-') + ' !' + err


def impl_fn(case):
    codes = {int(k): v for k, v in case['codes'].items()}
    data = dump_bytes(case)
    p = make_parser(case['cfg'])
    outs = [request(p, r, data, codes) for r in case['reqs']]
    return 'ok %s ;tid=%s ;fc=%s ;fs=%s ;proc=%s ;img=%d' % (
        ' # '.join(outs), 'N' if p.filter_tid is None else p.filter_tid, csv(p.filter_class), csv(p.filter_subclass),
        'N' if p.filter_process is None else hs(p.filter_process), len(p.dyld_addresses))


def parse_answer(ans):
    body, *rest = ans[3:].split(' ;')
    tail = dict(x.split('=', 1) for x in rest)
    return body.split(' # '), tail


def trace_items(digest):
    """[(first timestamp, text hex)] of a `T …` digest."""
    inner = digest[2:digest.rindex(' !')]
    out = []
    if inner != '-':
        for it in inner.split(' '):
            name, ts, txt, extra = it.split('|')
            out.append((int(ts.split(',')[0]), txt))
    return out


# ---------------------------------------------------------------------------------------------------------------------
# oracle (on the real code itself)
# ---------------------------------------------------------------------------------------------------------------------

def restricted_unfiltered(case):
    """The traces of an UNFILTERED parser that satisfy the filter of the case, decided trace by trace while the
    generator is consumed (the process of a trace is read from the tables when the trace is yielded)."""
    cfg = case['cfg']
    codes = {int(k): v for k, v in case['codes'].items()}
    q = make_parser({'tid': None, 'classes': [], 'subclasses': [], 'process': None})
    out = []
    gen = q.traces(io.BytesIO(dump_bytes(case)), codes)
    while True:
        try:
            t = next(gen)
        except StopIteration:
            break
        except Exception:
            return None                                  # the unfiltered run itself is aborted by an exception
        first = t.ktraces[0]
        if cfg['tid'] is not None and first.tid != cfg['tid']:
            continue
        if (cfg['classes'] or cfg['subclasses']) and not (first.eventid >> 24 in cfg['classes']
                                                         or first.eventid >> 16 in cfg['subclasses']):
            continue
        if cfg['process'] is not None:
            pid = q.threads_pids.get(first.tid, -1)
            if cfg['process'] != str(pid) and cfg['process'] != q.pids_names.get(pid, ''):
                continue
        try:
            txt = hs(str(t))
        except Exception as e:
            txt = '!' + core.err_name(e)
        out.append((first.timestamp, txt))
    return out


def oracle(case, got):
    if not got.startswith('ok '):
        return ('filters:raises', 'the requests raised outside a generator: ' + got)
    cfg = case['cfg']
    digests, tail = parse_answer(got)
    want = {'tid': 'N' if cfg['tid'] is None else str(cfg['tid']), 'fc': csv(cfg['classes']), 'fs': csv(cfg['subclasses']),
            'proc': 'N' if cfg['process'] is None else hs(cfg['process'])}
    for k, v in want.items():
        if tail.get(k) != v:
            return ('filters:residue-in-filter-settings',
                    'after the requests %s the parser\'s %s is %s, the caller had set %s'
                    % (case['reqs'], {'fc': 'filter_class', 'fs': 'filter_subclass', 'tid': 'filter_tid',
                                      'proc': 'filter_process'}[k], tail.get(k), v))
    seen = {}
    for letter, d in zip(case['reqs'], digests):
        if letter in seen and seen[letter] != d:
            return ('filters:repeated-request-differs',
                    'request %r of %s: first answer %s, a later answer %s' % (letter, case['reqs'], seen[letter][:300], d[:300]))
        seen.setdefault(letter, d)
    # commutation is claimed for runs that no exception aborts (feed_generator stops at the first exception; which
    # records reach the decoders, hence whether one raises, legitimately depends on the event-level filter)
    raised = any(not d.endswith(' !-') for d in digests)
    if 't' in case['reqs'] and not raised:
        gotl = trace_items(digests[case['reqs'].index('t')])
        exp = restricted_unfiltered(case)
        if exp is not None and gotl != exp:
            what = ('filter tid=%s classes=%s subclasses=%s process=%r: the filtered request reports %d traces %s, the '
                    'unfiltered run restricted by the filter %d traces %s'
                    % (cfg['tid'], cfg['classes'], cfg['subclasses'], cfg['process'], len(gotl), gotl[:6], len(exp), exp[:6]))
            if case['stream'] == 'helper-subclass':
                return ('filters:helper-class-subclass-dropped', what)
            if case['stream'] == 'K3':
                if case['mode'].endswith('terminate'):
                    return ('filters:terminate-text-attribution-filtered-out', what)
                return ('filters:process-attribution-filtered-out', what)
            return ('filters:not-commuting', what)
    return None


RULE = ('seeded version-2 dumps (thread map with re-declared threads; BSD syscalls with lookups and nested records of other '
        'classes, Mach traps, scheduler / timer / turnstile singles, global strings read by dlopen, thread names, exit names, '
        'self thread-terminate, sampler windows with user stacks, image announcements, launch windows, page faults with nested '
        'records, new-thread / exec pairs, terminate-pid, sampler thread-info; optionally one record dropped) x filter settings '
        '(thread: none / present / absent; class lists incl. [], [4], [7], [3], [4,7], several, unknown; BSD subclass lists; '
        'process: none / name / pid text / absent / "-1" / "") x request sequences on ONE parser object; compared with the '
        'Lean model: every request\'s output (traces: handler, ktraces, text, payload; callstacks: frames; events) and the '
        'object\'s filter attributes and image count afterwards')


def check_bundled_closed(rep):
    """Hypothesis `ClassClosed` of traces_commute_class, checked on the BUNDLED code table for class / BSD-subclass
    filters: kernel trace records are class 7, VFS_LOOKUP is class 3, BSC_* decoders (the only lookup readers) are class
    4, and the nested records of the composite traces have the class of their window's code."""
    from pykdebugparser.trace_codes import default_trace_codes
    from pykdebugparser.trace_handlers.trace import handlers as trace_handlers
    codes = default_trace_codes()
    by_name = {}
    for k, v in codes.items():
        by_name.setdefault(v, []).append(k)
    bad = []
    for n in trace_handlers:
        bad += ['%s=%#x is not class 7' % (n, k) for k in by_name.get(n, []) if k >> 24 != 7]
    bad += ['VFS_LOOKUP=%#x is not class 3' % k for k in by_name.get('VFS_LOOKUP', []) if k >> 24 != 3]
    bad += ['%s=%#x is not class 4' % (n, k) for n, ks in by_name.items() if n.startswith('BSC_') for k in ks if k >> 24 != 4]

    def same_class(head, nested):
        cls = {k >> 24 for k in by_name.get(head, [])}
        return ['%s=%#x is not of the class of %s' % (n, k, head) for n in nested for k in by_name.get(n, [])
                if cls and k >> 24 not in cls]
    bad += same_class('PERF_Event', ['PERF_THD_Data', 'PERF_STK_UHdr', 'PERF_STK_UData'])
    bad += same_class('DBG_DYLD_TIMING_LAUNCH_EXECUTABLE', ['DYLD_uuid_map_a', 'DYLD_uuid_shared_cache_a'])
    bad += ['MACH_vmfault=%#x is not class 1 (its sub-records 0x1320008..0x1320014 are)' % k
            for k in by_name.get('MACH_vmfault', []) if k >> 24 != 1]
    rep.notes.append('bundled code table closed under class / BSD-subclass filters with helper classes (hypothesis '
                     'ClassClosed of traces_commute_class): %s' % ('yes' if not bad else 'NO: ' + '; '.join(bad[:5])))
    if bad:
        rep.broken.append('assumption ClassClosed fails for the bundled code table: ' + '; '.join(bad[:5]))


def lazy_cases(rng, n):
    """Requests whose generators are consumed AFTER the caller has put other class lists on the same parser object (set,
    request, restore, consume) or interleaved with a later request made under another class list.  Only the class list
    changes: it is the one setting a request fixes when it is made (the helper classes are added to a copy of it)."""
    out = []
    for i in range(n):
        shape = rng.choice(['restore', 'restore', 'interleave', 'interleave3'])
        mode = 'static' if shape != 'restore' else rng.choice(['static', 'class7', 'any'])
        dump = gen_dump(rng, mode)
        cfg = gen_cfg(rng, dump, mode)
        cfg['process'] = None
        k = {'restore': 2, 'interleave': 2, 'interleave3': 3}[shape]
        lists = [list(rng.choice(CLASS_LISTS)) for _ in range(k)]
        if not any(lists) or i % 3 == 0:
            lists[0] = list(rng.choice([[4], [4], [1], [4, 7], [3], [4, 3], [0x25]]))
        if i % 4 == 0:
            lists[1] = []
        out.append({'tmap': dump['tmap'], 'events': dump['events'], 'codes': dump['codes'], 'cfg': cfg, 'lists': lists,
                    'shape': shape, 'order_seed': rng.randrange(1 << 30), 'mode': mode, 'stream': 'main'})
    return out


def run_lazy(case):
    """-> per request: (digest of the lazily consumed request, digest of the same request made and consumed at once on a
    fresh parser object)."""
    import random
    codes = {int(k): v for k, v in case['codes'].items()}
    data = dump_bytes(case)
    show = lambda t: trace_digest(codes, t)  # noqa: E731
    p = make_parser(dict(case['cfg'], classes=[]))
    gens = []
    nreq = 1 if case['shape'] == 'restore' else len(case['lists'])
    for cl in case['lists'][:nreq]:
        p.filter_class = list(cl)
        gens.append(iter(p.traces(io.BytesIO(data), codes)))
    if case['shape'] == 'restore':
        p.filter_class = list(case['lists'][1])          # the caller puts its previous settings back, then consumes
    outs = [[] for _ in gens]
    errs = ['-' for _ in gens]
    alive = list(range(len(gens)))
    r = random.Random(case['order_seed'])
    while alive:
        i = r.choice(alive)
        try:
            outs[i].append(show(next(gens[i])))
        except StopIteration:
            alive.remove(i)
        except Exception as e:
            errs[i] = core.err_name(e)
            alive.remove(i)
    res = []
    for i in range(nreq):
        q = make_parser(dict(case['cfg'], classes=case['lists'][i]))
        res.append(('T ' + (' '.join(outs[i]) or '-') + ' !' + errs[i], request(q, 't', data, codes)))
    return res


def lazy_section(rep, rng, tier):
    sec = rep.section('trace-lazy-requests')
    sec['rule'] = ('one parser object; a traces() request made under class list A is consumed after the caller has put class '
                   'list B on the object (set, request, restore, consume), or interleaved item by item with 1-2 later requests '
                   'made under other class lists (dumps without re-declaring records, so the shared tables stay constant); '
                   'thread / subclass settings fixed; every lazily consumed request vs the Lean model of that request and vs '
                   'the same request made and consumed at once on a fresh object')
    cases = lazy_cases(rng, 80 if tier == 'quick' else 3000)
    lines, pairs = [], []
    for c in cases:
        try:
            res = run_lazy(c)
        except Exception as e:
            rep.add_failure('filters:raises', 'a lazily consumed request raised outside its generator: ' + core.err_name(e),
                            {'section': 'trace-lazy-requests', 'case': c})
            continue
        for i, (lazy, eager) in enumerate(res):
            one = dict(c, cfg=dict(c['cfg'], classes=c['lists'][i]), reqs='t')
            lines.append(line(one))
            pairs.append((c, i, lazy, eager))
    model = core.drive(lines) if lines else []
    for (c, i, lazy, eager), m, ln in zip(pairs, model, lines):
        sec['cases'] += 1
        sec['dist'][c['shape']] = sec['dist'].get(c['shape'], 0) + 1
        if 'Unmodelled' not in m and m.startswith('ok '):
            if parse_answer(m)[0][0] != lazy:
                sec['mismatches'] += 1
                if len(rep.first_diffs) < 10:
                    rep.first_diffs.append({'section': 'trace-lazy-requests', 'line': ln[:1500], 'model': m[:600],
                                            'impl': lazy[:600]})
        if lazy != eager:
            rep.add_failure('filters:lazy-request-follows-later-settings',
                            'request %d made under filter_class=%s (%s; the other class lists put on the object: %s) reports %s '
                            '— the same request consumed at once on a fresh object reports %s'
                            % (i, c['lists'][i], c['shape'], [l for j, l in enumerate(c['lists']) if j != i], lazy[:400],
                               eager[:400]), {'section': 'trace-lazy-requests', 'case': c})
        elif c['lists'][i] and '|' in lazy:
            sec['distinct_nontrivial'] += 1
    if sec['mismatches']:
        rep.broken.append('correspondence:trace-lazy-requests (%d of %d requests differ)' % (sec['mismatches'], sec['cases']))


C13_METHODS = ('traces', '_filter_process_callback', 'kevents', '_is_eventid_allowed', 'notes')


def translation_tie(rep):
    """Is the IR translated from pykdebugparser.py the one the refinement theorems are about?  Returns whether the
    generated methods can be run (no `.unsupported` node)."""
    ans = core.drive(['flircheck'])[0]
    if ans == 'same':
        rep.notes.append('translation tie: Gen/PyIRFl (from pykdebugparser.py) = Spec/PyIRFlExpected')
        return True
    differing = ans.split(' ')[1].split(',') if ans.startswith('differs ') else [ans]
    mine = [m for m in differing if m in C13_METHODS or not ans.startswith('differs ')]
    if mine:
        rep.broken.append('theorem source_is_expected_ir: the IR that tools/gen_pyir_fl.py translates from the source text of '
                          'pykdebugparser.py (%s) is not the one of Spec/PyIRFlExpected that traces_ir_eq_model / '
                          'filter_process_callback_ir_eq_model / traces_request_rests_on_ir are proved for (%s)'
                          % (', '.join(mine), ans))
    else:
        rep.notes.append('translation tie: the methods of this property translate to Spec/PyIRFlExpected (%s: other '
                         'property)' % ans)
    return 'unsupported' not in ans


def ambient_answer(case):
    """One request sequence on a fresh parser object, answered in the helper process of tools/kdv/ambient.py."""
    return impl_fn(case)


def order_cases(rng, tier):
    """Requests of many configurations on dumps that hold every class of record: BSD-including class lists, subclass-only
    lists of a helper class WITHOUT a BSD request (inside the claim: no helper class is added then), thread filters, none."""
    out = [gen_case(rng, reqs=rng.choice(['t', 't', 'tt', 'c', 'k'])) for _ in range(24 if tier == 'quick' else 120)]
    base = helper_subclass_cases(rng, 12 if tier == 'quick' else 60)
    cfgs = [([4], []), ([], [0x0301]), ([1, 4], []), ([], [0x040c]), ([], [0x0701, 0x0301]), ([3], []), ([], []), ([7], []),
            ([], [0x0301, 0x0101])]
    for i, c in enumerate(base):
        cl, sb = cfgs[i % len(cfgs)]
        c = dict(c, cfg={'tid': None, 'classes': list(cl), 'subclasses': list(sb), 'process': None}, stream='order')
        out.append(c)
    rng.shuffle(out)
    return out


def correspondence(rep, rng, tier):
    from .. import pipeline as _PL
    _PL.section_e2e(rep, rng, tier, n=(120 if tier == 'quick' else 4000))
    check_bundled_closed(rep)
    n = 1500 if tier == 'quick' else 40000
    cases = fixed_cases() + [gen_case(rng, reqs='t', perturb=(i % 3 == 0)) for i in range(n)]
    nontriv = lambda c, g: (c['cfg']['tid'] is not None or c['cfg']['classes'] or c['cfg']['subclasses']
                            or c['cfg']['process'] is not None) and '|' in g  # noqa: E731
    kind = lambda c, g: '%s%s%s%s' % ('t' if c['cfg']['tid'] is not None else '-', 'c' if c['cfg']['classes'] else '-',
                                      's' if c['cfg']['subclasses'] else '-',
                                      'p' if c['cfg']['process'] is not None else '-')  # noqa: E731
    run_section(rep, 'trace-filters', cases, line, impl_fn, oracle, nontrivial_fn=nontriv, kind_fn=kind, rule=RULE,
                skip_fn=lambda m: 'Unmodelled' in m)
    n2 = 500 if tier == 'quick' else 12000
    cases2 = [gen_case(rng) for _ in range(n2)] + [gen_callstack_case(rng) for _ in range(n2 // 3)]
    if translation_tie(rep):
        ir_cases = (cases if tier == 'quick' else cases[::8]) + cases2[::4]
        run_section(rep, 'traces-ir', ir_cases, lambda c: line(c, 'tpipeir'), impl_fn, oracle, nontrivial_fn=nontriv,
                    kind_fn=kind, skip_fn=lambda m: 'Unmodelled' in m or m == 'unsupported',
                    rule='the cases of `trace-filters` and every fourth of `trace-requests` once more, with everything traces() itself '
                         'decides taken from the methods GENERATED from the source text (Gen/PyIRFl run by the interpreter of '
                         'Model/PyIRFl, command `tpipeir`): the class list handed to kevents, the events kevents feeds the '
                         'TracesParser model, the post-filter stages (process callback on the tables at the yield, the two helper '
                         'class stages) and their order, the filter attributes after the request - tests the translator and the '
                         'interpreter, not the hand model of traces()')
    else:
        rep.notes.append('section traces-ir skipped: the translation contains .unsupported nodes')
    run_section(rep, 'trace-requests', cases2, line, impl_fn, oracle, nontrivial_fn=lambda c, g: len(c['reqs']) > 1,
                kind_fn=lambda c, g: c['reqs'],
                rule='the same dumps and settings under request sequences tt, ttt, tct, cc, ctc, ktk, tkt, … on one object: '
                     'outputs of repeated requests, filter attributes afterwards; plus dumps whose samples precede and follow '
                     'the announcement of the images holding their frames, under repeated callstacks requests',
                skip_fn=lambda m: 'Unmodelled' in m)
    lazy_section(rep, rng, tier)
    k3 = k3_cases(rng, 60 if tier == 'quick' else 1500)
    run_section(rep, 'trace-filters-K3', k3, line, impl_fn, oracle, nontrivial_fn=lambda c, g: True,
                kind_fn=lambda c, g: c['mode'],
                rule='finding stream: a process filter (or a thread-terminate text) combined with a thread / class filter that '
                     'removes the attributing record (the parent\'s new-thread record, a sampler thread-info record)')


    hs_cases = helper_subclass_cases(rng, 30 if tier == 'quick' else 600)
    run_section(rep, 'trace-filters-helper-subclass', hs_cases, line, impl_fn, oracle, nontrivial_fn=lambda c, g: True,
                kind_fn=lambda c, g: 'fc=%s fs=%s' % (c['cfg']['classes'], c['cfg']['subclasses']),
                rule='finding stream (outside the claim): a subclass of DBG_TRACE, or of DBG_FSYSTEM next to a BSD request, '
                     'requested without its class')
    from .. import ambient
    ambient.order_section(rep, rng, tier, 'C13', 'kdv.props.C13:ambient_answer', order_cases(rng, tier))
    from .. import cliir
    cliir.section(rep, rng, tier, 'C13', commands=('traces', 'callstacks', 'logs'))   # the glue in front of traces() / callstacks() / logs


SECTIONS = ('trace-filters', 'trace-requests', 'traces-ir', 'trace-filters-K3', 'trace-filters-helper-subclass')


def replay(path):
    with open(path) as fd:
        r = json.load(fd)
    if 'replay' not in r or 'case' not in r['replay']:
        print(json.dumps(r, indent=1)[:4000])
        return 1
    case = r['replay']['case']
    if r['replay'].get('section') in ('cli-glue', 'cli-pwc-raise', 'cli-decls', 'cli-init', 'cli-formatted'):
        from .. import cliir
        return cliir.replay(r['replay'], 'C13', path)
    if r['replay'].get('section') == 'request-order':
        from .. import ambient
        bad, lines = ambient.replay_order(r['replay'])
        print('\n'.join(lines))
        if bad:
            print(f'VIOLATION property=C13 replay={path}')
        return 1 if bad else 0
    if r['replay'].get('section') == 'trace-lazy-requests':
        bad = 0
        print('filters:', case['cfg'], ' class lists:', case['lists'], ' shape:', case['shape'])
        for i, (lazy, eager) in enumerate(run_lazy(case)):
            print('request %d lazily :' % i, lazy[:1500])
            print('request %d at once:' % i, eager[:1500])
            bad += lazy != eager
        if bad:
            print(f'VIOLATION property=C13 replay={path}')
            return 1
        print('oracle: property holds on this input')
        return 0
    if r['replay'].get('section') == 'end-to-end':
        from .. import pipeline as _PL
        return _PL.replay_e2e(case, 'C13', path)
    from pykdebugparser.kevent import from_kd_buf
    codes = {int(k): v for k, v in case['codes'].items()}
    print('thread map:', case['tmap'])
    print('filters   :', case['cfg'], ' requests:', case['reqs'])
    for h in case['events']:
        e = from_kd_buf(bytes.fromhex(h))
        print('   ts=%d tid=%d %s (%#x) q=%d args=%s' % (e.timestamp, e.tid, codes.get(e.eventid, '?'), e.eventid,
                                                          e.func_qualifier, list(e.values)))
    try:
        got = impl_fn(case)
    except Exception as e:
        got = 'err ' + core.err_name(e)
    model = core.drive([line(case, 'tpipeir' if r['replay'].get('section') == 'traces-ir' else 'tpipe')])[0]
    print('impl :', got[:3000])
    print('model:', model[:3000])
    res = oracle(case, got)
    if res:
        print('oracle:', res[0], '-', res[1])
        if core.Findings().known('C13', res[0]):
            print('KNOWN-FINDING signature')
            return 0
        print(f'VIOLATION property=C13 replay={path}')
        return 1
    print('oracle: property holds on this input')
    return 0


LEVEL_TEXT = ('Lean theorems over the object-state model of PyKdebugParser.traces / callstacks / kevents, for all dumps: '
              'traces_no_residue (filter attributes after any sequence of requests equal those before), traces_idempotent / '
              'callstacks_idempotent / kevents_idempotent (a request\'s output depends on the object only through its filter '
              'attributes: repeated requests agree), traces_commute_tid(_of_unfiltered) (thread filter = unfiltered request '
              'restricted to the thread, by C05\'s projection), traces_commute_class (class lists and BSD-subclass lists: '
              'filtered request = unfiltered request restricted to what was requested, same text, for code tables closed under '
              'the filter; ingredients windows_commute_class, helper_postfilters_exact, generated_text_commutes_class_partial, '
              'run_filter_traces), process_filter_is_postfilter and traces_commute_process_partial (under the explicit '
              'hypothesis that the attribution survives the event-level filter; negative witness of K3 in the model); model '
              'tied to the code by differential runs under all filter combinations and request sequences, and what traces() '
              'itself decides to the source text by translation: source_is_expected_ir, traces_ir_eq_model (for every '
              'configuration the translated traces(), interpreted, hands kevents effectiveClasses on a COPY, leaves the filter '
              'attributes alone and its stages keep exactly postFilter), filter_process_callback_ir_eq_model, '
              'traces_request_rests_on_ir (fedEvents / traces of the model are the interpreted source around the TracesParser '
              'model); callstacks_request_rests_on_ir (the request model TracePipeline.callstacks - image lists reset, then '
              'callstackFeed - is the IR of PyKdebugParser.callstacks + CallstacksParser of Spec/PyIRCsExpected, interpreted on '
              'the trace objects of the traces model; that this IR is the one generated from the source is '
              'C15.source_is_expected_ir, rebuilt by the C15 check).  '
              'The command-line glue in front, translated as well (tools/gen_pyir_cli.py -> Gen/PyIRCli, Model/PyIRCli): '
              'cli_source_is_expected_ir, traces_command_ir_eq_model (every combination of the seven options: the object handed to '
              'formatted_traces reads as exactly configOf / showOf / colour of the options in force, declared defaults included, the '
              'two lists as fresh lists; printed through print_with_count), traces_command_ir_eq_e2e (--no-color: = print_with_count of '
              'EndToEnd.formattedTraces under configOf, for every byte string), callstacks_command_ir_eq_model, '
              'logs_command_ir_eq_model, formatted_traces / formatted_callstacks / formatted_logs _ir_eq_model (map of the builder over '
              'the listing, code table handed on as given, same exception).')
LEVEL_NOTE = ('traces_commute_class compares handler, first record, payload, text and decoded fields (not the event list, which '
              'loses the records of other classes; not thread-terminate\'s text: K3b) and assumes a code table closed under the '
              'filter (checked for the bundled table at run time).  The process filter commutes only under an explicit '
              'hypothesis: known finding K3 (attribution records removed by the event-level filter).  Out of the claim: '
              'subclasses of the helper classes (K13).  Translation tie: trusted are the translator tools/gen_pyir_fl.py and the '
              'interpreter Model/PyIRFl (tested against CPython by the section traces-ir); TracesParser and the container parser '
              'stay hand-modelled; callstacks() is tied through C15 (tools/gen_pyir.py, Model/PyIRCs; this check does not rebuild '
              'that translation, so a change of callstacks_parser.py alone never breaks an obligation here).  '
              'Glue: trusted are tools/gen_pyir_cli.py, the interpreter Model/PyIRCli and click\'s own '
              'parsing; the meaning of formatted_traces / _callstacks / _logs is a parameter of the command theorems (instantiated with '
              'EndToEnd.formattedTraces for --no-color).')
TECHNIQUE = ('Lean 4 proofs over an explicit object-state model + translation validation of traces() / _filter_process_callback '
             '+ differential correspondence + oracle computed on the real code')
