import KdVerif.Model.PyIRRd
/-
  The IR the proofs of `Proofs/PyIRRd` were done for: a hand-written copy of what `tools/gen_pyir_rd.py` produces
  from `pykdebugparser/kd_buf_parser.py` (statement lists as right-nested `seq`, locals numbered by first binding,
  parameters first; a `read` inside a condition hoisted into a temporary).
  `C02/C03/C06.source_is_expected_ir` state that the generated program IS this term.  Core Lean only.
-/
namespace KdVerif.PyIRRd.Expected
open KdVerif.PyIRRd BE IE Cond Stmt

/-- the loop condition of `seek_until`: `found != data` -/
def seekCond : Cond := ne (var 1) (var 0)

/-- the loop body of `seek_until` -/
def seekBody : Stmt :=
  seq (read 2 (lit 1))
    (seq (ite (isEmpty (var 2)) raiseEof skip)
      (assign 1 (cat (dropFrom (var 1) 1) (var 2))))

/--
```python
def seek_until(reader, data: bytes):                       # data = v0
    found = reader.read(len(data))                         # found = v1
    while found != data:
        next_byte = reader.read(1)                         # next_byte = v2
        if not next_byte:
            raise EOFError('Reached end of stream before finding the expected data')
        found = found[1:] + next_byte
```
-/
def seekUntil : Proc :=
  { params := 1
    body := seq (read 1 (len (var 0))) (.while seekCond seekBody) }

/--
```python
def set_thread_map(self, parsed_threadmap):
    self.threads_pids.clear()
    self.pids_names.clear()
    for thread in parsed_threadmap:
        self.threads_pids[thread.tid] = thread.pid
        self.pids_names[thread.pid] = thread.process
```
-/
def setThreadMap : List TmStmt :=
  [.clear .threadsPids, .clear .pidsNames,
   .forThreads [(.threadsPids, .tid, .pid), (.pidsNames, .pid, .process)]]

/-- the body of the record loop of `parse_v2` -/
def recordBody : Stmt :=
  seq (read 1 (.const .keventSize))
    (seq (ite (isEmpty (var 1)) brk skip)
      (yieldKd (var 1)))

/--
```python
def parse_v2(self, reader: io.IOBase):
    parsed_header = kd_header_v2.parse_stream(reader)      # parsed_header = v0
    self.set_thread_map(parsed_header.threadmap)
    while True:
        buf = reader.read(KEVENT_SIZE)                     # buf = v1
        if not buf:
            break
        yield from_kd_buf(buf)
```
-/
def parseV2 : Stmt :=
  seq (prim .headerV2 0)
    (seq (.setThreadMap 0)
      (.while tt recordBody))

/-- `for _ in range(size // KEVENT_SIZE): buf = reader.read(KEVENT_SIZE); yield from_kd_buf(buf)` -/
def chunkRecords : Stmt :=
  forRange (div (.var 1) (.const .keventSize)) (seq (read 2 (.const .keventSize)) (yieldKd (var 2)))

/-- the body of the chunk loop of `parse_v3` -/
def chunkBody : Stmt :=
  seq (callSeek (.const .eventsTag))
    (seq (prim .int64ul 1)
      (seq (readDrop (lit 8))
        (seq chunkRecords
          (seq (read 3 (len (.const .moreEvents)))
            (ite (ne (var 3) (.const .moreEvents)) brk skip)))))

/--
```python
    for block in additional_data:                                      # block = v7
        if block.tag == TRACEV3_DYLD_MODULES:
            data = plistlib.loads(block.data)                          # data = v8
            if not self.dyld_modules:
                self.dyld_modules.update(data)
            else:
                self.dyld_modules['Binaries'].extend(data['Binaries'])
        elif block.tag == TRACEV3_TRACE_CODES:
            self.trace_codes += block.data.decode()
        elif block.tag == TRACEV3_PROCESSES:
            self.processes = plistlib.loads(block.data)
        elif block.tag == TRACEV3_KERNEL_EXTENSIONS:
            self.kernel_extensions['Binaries'].extend(plistlib.loads(block.data)['Binaries'])
        elif block.tag == TRACEV3_IMAGES:
            self.images = plistlib.loads(block.data)
        elif block.tag == TRACEV3_LOG_EVENTS:
            log_events.extend(plistlib.loads(block.data)['Events'])
        elif block.tag == TRACEV3_LOG_STRINGS:
            log_strings = {v: k for k, v in plistlib.loads(block.data)['StringIndex'].items()}
```
(the body of the block loop: an `elif` chain is nested `if … else`)
-/
def blockBody : Stmt :=
  ite (eq (blockTag 7) (.const .dyldModules))
    (seq (assignP 8 (.loads (blockData 7)))
      (iteAttrEmpty .dyldModules (attrUpdate .dyldModules (.var 8)) (binExtend .dyldModules (.var 8))))
  (ite (eq (blockTag 7) (.const .traceCodes)) (strAppendDecoded .traceCodes (blockData 7))
  (ite (eq (blockTag 7) (.const .processes)) (setAttrP .processes (.loads (blockData 7)))
  (ite (eq (blockTag 7) (.const .kernelExtensions)) (binExtend .kernelExtensions (.loads (blockData 7)))
  (ite (eq (blockTag 7) (.const .images)) (setAttrP .images (.loads (blockData 7)))
  (ite (eq (blockTag 7) (.const .logEvents)) (eventsExtend 5 (.loads (blockData 7)))
  (ite (eq (blockTag 7) (.const .logStrings)) (assignInvIndex 6 (.loads (blockData 7))) skip))))))

/--
```python
    for event in log_events:                                           # event = v9
        log_event = OsLogEvent.from_raw_log_event(event, log_strings)  # log_event = v10
        if log_event.process and log_event.thread_identifier:
            self.threads_pids[log_event.thread_identifier] = log_event.process_identifier
            self.pids_names[log_event.process_identifier] = log_event.process
        yield log_event
```
(the body of the log loop)
-/
def logBody : Stmt :=
  seq (.fromRawLog 10 9 6)
    (seq (ite (.and (.fieldTruthy 10 .process) (.fieldTruthy 10 .tid))
            (seq (storeLog .threadsPids .tid .pid 10) (storeLog .pidsNames .pid .process 10))
            skip)
      (yieldVar 10))

/-- the five attribute resets and the two empty locals in front of the block loop -/
def v3Resets (k : Stmt) : Stmt :=
  seq (setAttrInit .traceCodes .emptyStr)
    (seq (setAttrInit .kernelExtensions .binariesDict)
      (seq (setAttrInit .dyldModules .emptyDict)
        (seq (setAttrInit .images .emptyDict)
          (seq (setAttrInit .processes .emptyDict)
            (seq (newList 5)
              (seq (newDict 6) k))))))

/--
```python
    reader.seek(-8, 1)

    additional_data = kd_v3_additional_data.parse_stream(reader)      # additional_data = v4

    self.trace_codes = ''
    self.kernel_extensions = {'Binaries': []}
    self.dyld_modules = {}
    self.images = {}
    self.processes = {}

    log_events = []                                                    # log_events = v5
    log_strings = {}                                                   # log_strings = v6

    for block in additional_data: …                                    # `blockBody`
    for event in log_events: …                                         # `logBody`
```
(everything of `parse_v3` behind its chunk loop)
-/
def v3Tail : Stmt :=
  seq (seekRel 8)
    (seq (prim .additionalData 4)
      (v3Resets
        (seq (forIn 7 4 blockBody)
          (forIn 9 5 logBody))))

/--
```python
def parse_v3(self, reader: io.IOBase):
    self.v3_header = Aligned(8, kd_header_v3).parse_stream(reader)
    # Align the reader to 8 bytes from the beginning of the stream
    reader.read(8 - RAW_VERSION_SIZE)
    # The threadmap tag appears randomly in the stackshot.
    seek_until(reader, TRACEV3_STACKSHOT_END)
    seek_until(reader, TRACEV3_THREADMAP_TAG)
    threadmap = kd_v3_threadmap.parse_stream(reader).threadmap        # threadmap = v0
    self.set_thread_map(threadmap)

    while True:
        seek_until(reader, TRACEV3_EVENTS_TAG)
        size = Int64ul.parse_stream(reader)                            # size = v1
        reader.read(8)  # All zeros, unknown.
        for _ in range(size // KEVENT_SIZE):
            buf = reader.read(KEVENT_SIZE)                             # buf = v2
            yield from_kd_buf(buf)
        if reader.read(len(TRACEV3_MORE_EVENTS)) != TRACEV3_MORE_EVENTS:   # the value read = v3
            break
    reader.seek(-8, 1)
    …                                                                  # `v3Tail`
```
-/
def parseV3 : Stmt :=
  seq (prim .headerV3 0)
    (seq (readDrop (sub (lit 8) (.const .rawVersionSize)))
      (seq (callSeek (.const .stackshotEnd))
        (seq (callSeek (.const .threadmapTag))
          (seq (prim .threadmapV3 0)
            (seq (.setThreadMap 0)
              (seq (.while tt chunkBody)
                v3Tail))))))

/--
```python
self.versions = {RAW_VERSION2_BYTES: self.parse_v2, RAW_VERSION3_BYTES: self.parse_v3}
def parse(self, reader: io.IOBase):
    version = reader.read(RAW_VERSION_SIZE)
    return self.versions[version](reader)
```
-/
def parse : Dispatch :=
  { readLen := .const .rawVersionSize
    versions := [(.v2, .parseV2), (.v3, .parseV3)] }

/--
```python
def __init__(self, threads_pids=None, pids_names=None):                  # parameters 0, 1
    self.threads_pids = {} if threads_pids is None else threads_pids
    self.pids_names = {} if pids_names is None else pids_names
    self.versions = {...}                                                # `parse.versions`
    self.trace_codes = ''
    self.images = {}
    self.dyld_modules = {}
    self.processes = {}
    self.kernel_extensions = {'Binaries': []}
    self.v3_header = None
```
(sorted: threads_pids, pids_names, then the metadata attributes in the order of `Attr`, then v3_header)
-/
def init : CtorDef :=
  { params := 2
    defaults := [.none, .none]
    sets := [(.threadsPids, .paramOrEmpty 0), (.pidsNames, .paramOrEmpty 1),
             (.md .traceCodes, .display .emptyStr), (.md .kernelExtensions, .display .binariesDict),
             (.md .dyldModules, .display .emptyDict), (.md .images, .display .emptyDict),
             (.md .processes, .display .emptyDict), (.v3Header, .none)] }

def prog : Program :=
  { seekUntil := seekUntil, setThreadMap := setThreadMap, parseV2 := parseV2, parseV3 := parseV3, parse := parse,
    init := init }

end KdVerif.PyIRRd.Expected
