import KdVerif.Model.TraceDomain
import KdVerif.Proofs.IRTyping
import KdVerif.Proofs.Pairing
import KdVerif.Proofs.Composite
/-
  C07 lemmas: the pairing delivers non-empty windows of events of the history whose first and last
  records carry the same code; one totality lemma per hand-written handler; the generated decoders
  through `IR.render_ok`; `parseEventList` and `feed` never raise on in-domain windows.
-/
namespace KdVerif.Trace
open KdVerif.IR

/-! ### what the pairing delivers -/

/-- Invariant of the two pairing tables: every open window is non-empty, consists of events satisfying `P`,
    and begins with the START record of its key. -/
def PInv (P : Kevent → Prop) (s : Pairing.PState) : Prop :=
  ∀ k l, s k = some l → l ≠ [] ∧ (∀ x ∈ l, P x) ∧ ∀ x, l.head? = some x → x.eventid = k.eid ∧ x.qual = 1

/-- A delivered window: non-empty, all records satisfy `P`, first and last record carry the same code, the
    first is not END-qualified and the last is not START-qualified. -/
structure WinOK (P : Kevent → Prop) (w : List Kevent) : Prop where
  ne : w ≠ []
  all : ∀ x ∈ w, P x
  eid : (firstOf w).eventid = (lastOf w).eventid
  fq : (firstOf w).qual ≠ 2
  lq : (lastOf w).qual ≠ 1

theorem PInv_empty (P : Kevent → Prop) : PInv P Pairing.PState.empty := by
  intro k l h; simp [Pairing.PState.empty] at h

theorem firstOf_append_singleton (l : List Kevent) (e : Kevent) (x : Kevent) (h : l.head? = some x) :
    firstOf (l ++ [e]) = x := by
  cases l with
  | nil => simp at h
  | cons a l => simp at h; simp [firstOf, h]

theorem lastOf_append_singleton (l : List Kevent) (e : Kevent) : lastOf (l ++ [e]) = e := by
  simp [lastOf]

theorem appendAll_inv (P : Kevent → Prop) (s : Pairing.PState) (d : Bool) (tid : Nat) (e : Kevent)
    (hs : PInv P s) (he : P e) : PInv P (Pairing.appendAll s d tid e) := by
  intro k l h
  simp only [Pairing.appendAll] at h
  split at h
  · cases hsk : s k with
    | none => simp [hsk] at h
    | some l0 =>
      simp only [hsk, Option.map_some, Option.some.injEq] at h
      subst h
      obtain ⟨hne, hall, hhd⟩ := hs k l0 hsk
      refine ⟨by simp, ?_, ?_⟩
      · intro x hx
        rcases List.mem_append.mp hx with hx | hx
        · exact hall x hx
        · simp at hx; subst hx; exact he
      · intro x hx
        cases l0 with
        | nil => exact absurd rfl hne
        | cons a l0 => simp at hx; subst hx; exact hhd a rfl
  · exact hs k l h

theorem step_inv (P : Kevent → Prop) (domOf : Nat → Bool) (s : Pairing.PState) (e : Kevent)
    (hs : PInv P s) (he : P e) :
    PInv P (Pairing.step domOf s e).1 ∧ ∀ w, (Pairing.step domOf s e).2 = some w → WinOK P w := by
  by_cases h1 : e.qual = 1
  · rw [Pairing.step_start domOf s e h1]
    refine ⟨?_, by intro w h; simp at h⟩
    intro k l h
    by_cases hk : k = Pairing.keyOf domOf e
    · subst hk
      simp [Pairing.appendAll, Pairing.set] at h
      subst h
      exact ⟨by simp, by simpa using he, by intro x hx; simp at hx; subst hx; exact ⟨rfl, h1⟩⟩
    · have : Pairing.appendAll (Pairing.set s (Pairing.keyOf domOf e) (some [])) (domOf e.eventid) e.tid e k
          = Pairing.appendAll s (domOf e.eventid) e.tid e k := by
        simp only [Pairing.appendAll, Pairing.set, hk, if_false]
      simp only at h
      rw [this] at h
      exact appendAll_inv P s _ _ e hs he k l h
  · by_cases h2 : e.qual = 2
    · cases hsk : s (Pairing.keyOf domOf e) with
      | none => rw [Pairing.step_end_closed domOf s e h2 hsk]; exact ⟨hs, by intro w h; simp at h⟩
      | some l0 =>
        rw [Pairing.step_end_open domOf s e l0 h2 hsk]
        have hinv := appendAll_inv P s (domOf e.eventid) e.tid e hs he
        refine ⟨?_, ?_⟩
        · intro k l h
          simp only [Pairing.set] at h
          split at h
          · simp at h
          · exact hinv k l h
        · intro w hw
          simp only [Option.some.injEq] at hw
          subst hw
          obtain ⟨hne, hall, hhd⟩ := hs _ l0 hsk
          cases l0 with
          | nil => exact absurd rfl hne
          | cons a l1 =>
            have ha := hhd a (by simp)
            refine ⟨by simp, ?_, ?_, ?_, ?_⟩
            · intro x hx
              rcases List.mem_append.mp hx with hx | hx
              · exact hall x hx
              · simp at hx; subst hx; exact he
            · rw [lastOf_append_singleton]; simp [firstOf, ha.1]
            · simp [firstOf, ha.2]
            · rw [lastOf_append_singleton]; omega
    · rw [Pairing.step_single domOf s e h1 h2]
      refine ⟨appendAll_inv P s _ _ e hs he, ?_⟩
      intro w hw
      simp only [Option.some.injEq] at hw
      subst hw
      exact ⟨by simp, by simpa using he, by simp [firstOf, lastOf], by simpa [firstOf] using h2,
        by simpa [lastOf] using h1⟩

/-! ### the hand-written handlers, one lemma each -/

/-- The handler returned (a trace or `None`) and the trace it returned renders. -/
def Good (r : HRes) : Prop := ∃ o t', r = .ok (o, t') ∧ ∀ tr, o = some tr → ∃ s, tr.text = .ok s

theorem good_mk (name : String) (events : List Kevent) (text : String) (x : Extra) (t : Tabs) :
    Good (.ok (some (mk name events text x), t)) :=
  ⟨_, _, rfl, by intro tr h; cases h; exact ⟨_, rfl⟩⟩

theorem good_none (t : Tabs) : Good (.ok (none, t)) := ⟨_, _, rfl, by intro tr h; cases h⟩

theorem decOK_iff (env : Env) (bs : Bytes) : decOK env bs = true ↔ ∃ s, env.dec bs = .ok s := by
  unfold decOK
  cases env.dec bs <;> simp

theorem hDataNewthread_good (env : Env) (t : Tabs) (w : List Kevent) : Good (hDataNewthread env t w) := good_mk ..
theorem hDataExec_good (env : Env) (t : Tabs) (w : List Kevent) : Good (hDataExec env t w) := good_mk ..
theorem hDataThreadTerminate_good (env : Env) (t : Tabs) (w : List Kevent) : Good (hDataThreadTerminate env t w) :=
  good_mk ..
theorem hDataThreadTerminatePid_good (env : Env) (t : Tabs) (w : List Kevent) :
    Good (hDataThreadTerminatePid env t w) := good_mk ..
theorem hPerfThdData_good (env : Env) (t : Tabs) (w : List Kevent) : Good (hPerfThdData env t w) := good_mk ..
theorem hPerfEvent_good (env : Env) (t : Tabs) (w : List Kevent) : Good (hPerfEvent env t w) := by
  unfold hPerfEvent; exact good_mk ..
/-- `handle_timing_launch_executable`: `UUID(bytes=data[:16])` needs 16 data bytes (records have 32). -/
theorem hDyldLaunch_good (env : Env) (t : Tabs) (w : List Kevent) (h : ∀ x ∈ w, 16 ≤ x.data.length) :
    Good (hDyldLaunch env t w) := by
  unfold hDyldLaunch
  simp only [bind, Except.bind, pure, Except.pure]
  rw [Composite.mapM_ok _ (fun e => (arg e 2, e.data.take 16))]
  · exact good_mk ..
  · intro e he
    have hew : e ∈ w := by
      rcases List.mem_append.mp he with he | he <;> exact (List.mem_filter.mp he).1
    simp only [Composite.uuidBytes_ok e (h e hew)]

/-- `handle_trace_string_global`: outside the model only when the reassembled bytes are not valid text. -/
theorem hStringGlobal_good (env : Env) (t : Tabs) (w : List Kevent)
    (h : hasStart (firstOf w) = true → decOK env (stripNul (globalLoop (firstOf w).eventid w 0 0 [] []).2.2.1) = true) :
    Good (hStringGlobal env t w) := by
  unfold hStringGlobal
  by_cases hs : hasStart (firstOf w) = true
  · obtain ⟨s, hd⟩ := (decOK_iff _ _).mp (h hs)
    simp only [hs, Bool.not_true, Bool.false_eq_true, if_false]
    rw [hd]
    exact good_mk ..
  · simp only [hs, Bool.not_false, if_true]
    exact good_none t

theorem hStringNewthread_good (env : Env) (t : Tabs) (w : List Kevent)
    (h : decOK env (stripNul (firstOf w).data) = true) : Good (hStringNewthread env t w) := by
  obtain ⟨s, hd⟩ := (decOK_iff _ _).mp h
  simp only [hStringNewthread, hd, bind, Except.bind, pure, Except.pure]
  exact good_mk ..

theorem hStringExec_good (env : Env) (t : Tabs) (w : List Kevent)
    (h : decOK env (stripNul (firstOf w).data) = true) : Good (hStringExec env t w) := by
  obtain ⟨s, hd⟩ := (decOK_iff _ _).mp h
  simp only [hStringExec, hd, bind, Except.bind, pure, Except.pure]
  exact good_mk ..

theorem hStringProcExit_good (env : Env) (t : Tabs) (w : List Kevent)
    (h : decOK env (stripNul (firstOf w).data) = true) : Good (hStringProcExit env t w) := by
  obtain ⟨s, hd⟩ := (decOK_iff _ _).mp h
  simp only [hStringProcExit, hd, bind, Except.bind, pure, Except.pure]
  exact good_mk ..

/-- `handle_trace_string_threadname[_prev]`: raises exactly when the joined data of the window's records of the
    name's own code is not valid text. -/
theorem hStringThreadname_good (key label : String) (env : Env) (t : Tabs) (w : List Kevent)
    (h : hasStart (firstOf w) = true → decOK env (stripNul (joinData w)) = true) :
    Good (hStringThreadname key label env t w) := by
  unfold hStringThreadname
  by_cases hs : hasStart (firstOf w) = true
  · obtain ⟨s, hd⟩ := (decOK_iff _ _).mp (h hs)
    simp only [hs, Bool.not_true, Bool.false_eq_true, if_false, hd, bind, Except.bind, pure, Except.pure]
    exact good_mk ..
  · simp only [hs, Bool.not_false, if_true]
    exact good_none t

theorem lookupsOK_iff (env : Env) (w : List Kevent) : lookupsOK env w = true ↔ ∃ vs, parseVnodes env w = .ok vs := by
  unfold lookupsOK
  cases parseVnodes env w <;> simp

theorem hVfsLookup_good (env : Env) (t : Tabs) (w : List Kevent)
    (h : hasStart (firstOf w) = true → lookupsOK env w = true) : Good (hVfsLookup env t w) := by
  unfold hVfsLookup
  by_cases hs : hasStart (firstOf w) = true
  · obtain ⟨vs, hd⟩ := (lookupsOK_iff _ _).mp (h hs)
    simp only [hs, Bool.not_true, Bool.false_eq_true, if_false, hd, bind, Except.bind, pure, Except.pure]
    exact good_mk ..
  · simp only [hs, Bool.not_false, if_true]
    exact good_none t

theorem lastOf_mem (w : List Kevent) (h : w ≠ []) : lastOf w ∈ w := by
  unfold lastOf
  cases hl : w.getLast? with
  | none => simp [List.getLast?_eq_none_iff] at hl; exact absurd hl h
  | some x => simpa using List.mem_of_getLast? hl

theorem firstOf_mem (w : List Kevent) (h : w ≠ []) : firstOf w ∈ w := by
  cases w with
  | nil => exact absurd rfl h
  | cons a w => simp [firstOf]

theorem wordsOK_name (env : Env) (e : Kevent) (n : String) (h : wordsOK env e = true)
    (hn : env.codes e.eventid = some n) : wordsOKFor env n e = true := by
  simp only [wordsOK, hn, Bool.and_eq_true] at h
  exact h.2

theorem wordsOK_len (env : Env) (e : Kevent) (h : wordsOK env e = true) : e.values.length = 4 := by
  simp only [wordsOK, Bool.and_eq_true, beq_iff_eq] at h
  exact h.1.1

theorem wordsOK_data (env : Env) (e : Kevent) (h : wordsOK env e = true) : e.data.length = 32 := by
  simp only [wordsOK, Bool.and_eq_true, beq_iff_eq] at h
  exact h.1.2

theorem vmfaultIdOK_of (env : Env) (h : vmfaultCodesOK env = true) (eid : Nat) (h1 : 0x1320008 ≤ eid)
    (h2 : eid ≤ 0x1320014) : vmfaultIdOK env eid = true := by
  simp only [vmfaultCodesOK, List.all_eq_true] at h
  apply h
  simp only [List.mem_range'_1]
  omega

/-! ### the generated decoders -/

/-- What the pipeline theorem needs to know about the decoder table: every decoder flagged `supported` passes
    the IR checker and its side conditions read one record's own words; the others are hand-modelled. -/
structure GoodEnv (env : Env) : Prop where
  typed : ∀ d ∈ env.decoders, d.supported = true → typed d = true ∧ condsOwn d = true
  hand : ∀ d ∈ env.decoders, d.supported = false → handNames.contains d.name = true
  realFault : ∀ d ∈ env.decoders, d.supported = true → realFaultClasses.contains d.name = true → rfShapeOK d = true

theorem agree_start (h : Host) (t : Tables) (W : Window) (f : Kevent) (h1 : W.startArgs = f.values)
    (h2 : W.startTid = f.tid) (h3 : W.startData = f.data) :
    Agree startSel (ctxOf h t W) (ctxOf h t (ownWindow f)) := by
  constructor <;> simp [startSel, ctxOf, ownWindow, h1, h2, h3]

theorem agree_end (h : Host) (t : Tables) (W : Window) (l : Kevent) (h4 : W.endArgs = l.values) :
    Agree endSel (ctxOf h t W) (ctxOf h t (ownWindow l)) := by
  constructor <;> simp [endSel, ctxOf, ownWindow, h4]

/-- Side conditions that hold on the START record alone and on the END record alone hold on every window
    made of the two — whatever lies between them and whatever the context tables hold. -/
theorem conds_transfer (h : Host) (t : Tables) (d : Decoder) (k : Checked) (hk : checkDecoder d = some k)
    (hown : condsOwn d = true) (W : Window) (f l : Kevent)
    (h1 : W.startArgs = f.values) (h2 : W.startTid = f.tid) (h3 : W.startData = f.data)
    (h4 : W.endArgs = l.values)
    (hf : condsHoldAs .start h t d (ownWindow f) = true) (hl : condsHoldAs .end_ h t d (ownWindow l) = true) :
    ∀ cd ∈ k.conds, cd.ok (ctxOf h t W) = true := by
  intro cd hm
  simp only [condsOwn, hk, List.all_eq_true, Bool.or_eq_true] at hown
  simp only [condsHoldAs, hk, List.all_eq_true, Bool.or_eq_true, Bool.not_eq_true'] at hf hl
  by_cases hs : cd.within startSel = true
  · rw [Cond.ok_congr startSel _ _ (agree_start h t W f h1 h2 h3) cd hs]
    rcases hf cd hm with h' | h'
    · rw [hs] at h'; cases h'
    · exact h'
  · have he : cd.within endSel = true := by
      rcases hown cd hm with h' | h'
      · exact absurd h' hs
      · exact h'
    rw [Cond.ok_congr endSel _ _ (agree_end h t W l h4) cd he]
    rcases hl cd hm with h' | h'
    · exact absurd h' hs
    · exact h'

theorem mkWindow_ok (env : Env) (t : Tabs) (w : List Kevent) (need : Bool)
    (h : need = true → lookupsOK env w = true) :
    ∃ W, mkWindow env t w need = .ok W ∧ W.startArgs = (firstOf w).values ∧ W.startTid = (firstOf w).tid ∧
      W.startData = (firstOf w).data ∧ W.endArgs = (lastOf w).values := by
  unfold mkWindow
  cases need with
  | false => exact ⟨_, rfl, rfl, rfl, rfl, rfl⟩
  | true =>
    obtain ⟨vs, hv⟩ := (lookupsOK_iff env w).mp (h rfl)
    simp only [if_true, hv, bind, Except.bind, pure, Except.pure]
    exact ⟨_, rfl, rfl, rfl, rfl, rfl⟩

theorem decoderWordsOK_start (env : Env) (d : Decoder) (e : Kevent) (h : decoderWordsOK env d e = true)
    (hq : e.qual ≠ 2) : condsHoldAs .start env.host env.tables d (ownWindow e) = true := by
  simp only [decoderWordsOK, Bool.and_eq_true, Bool.or_eq_true, beq_iff_eq] at h
  rcases h.1 with h' | h'
  · exact absurd h' hq
  · exact h'

theorem decoderWordsOK_end (env : Env) (d : Decoder) (e : Kevent) (h : decoderWordsOK env d e = true)
    (hq : e.qual ≠ 1) : condsHoldAs .end_ env.host env.tables d (ownWindow e) = true := by
  simp only [decoderWordsOK, Bool.and_eq_true, Bool.or_eq_true, beq_iff_eq] at h
  rcases h.2 with h' | h'
  · exact absurd h' hq
  · exact h'

/-- A generated decoder on a window: `mkWindow` raises only through `dec` on lookup bytes; the constructor call
    and `__str__` succeed by `IR.render_ok`, and the constructor arguments have the types the checker inferred. -/
theorem runGeneratedObj_good (env : Env) (t : Tabs) (d : Decoder) (w : List Kevent) (k : Checked)
    (hk : checkDecoder d = some k) (hown : condsOwn d = true)
    (hf : condsHoldAs .start env.host env.tables d (ownWindow (firstOf w)) = true)
    (hfl : (firstOf w).values.length = 4)
    (hl : condsHoldAs .end_ env.host env.tables d (ownWindow (lastOf w)) = true)
    (hll : (lastOf w).values.length = 4)
    (htext : usesLookups d = true → lookupsOK env w = true) :
    ∃ fs s, runGeneratedObj env t d w = .ok (fs, .ok s) ∧
      ∀ (i : Nat) (τ : Ty), k.fieldTys[i]? = some τ → ∃ v, fs[i]? = some v ∧ hasTy v τ = true := by
  obtain ⟨W, hW, h1, h2, h3, h4⟩ := mkWindow_ok env t w (usesLookups d) htext
  have hc := conds_transfer env.host env.tables d k hk hown W _ _ h1 h2 h3 h4 hf hl
  obtain ⟨fs, text, hfs, hstr, _, hts⟩ := render_ok env.host env.tables d W k hk (by rw [h1]; exact hfl)
    (by rw [h4]; exact hll) hc
  refine ⟨fs, text, ?_, hts⟩
  simp only [ctxOf] at hfs hstr
  simp only [runGeneratedObj, hW, bind, Except.bind, hfs, hstr, pure, Except.pure]

/-! ### `handle_mach_vmfault` and its nested `parse_event_list` -/

theorem good_vm (events : List Kevent) (a : String) (b : Extra) (t' : Tabs) :
    Good ((Except.ok ((a, b), t') : Except PyErr ((String × Extra) × Tabs)).map
      fun r => (some (mk "MACH_vmfault" events r.1.1 r.1.2), r.2)) := good_mk ..

theorem realFault_not_hand (n : String) (h : realFaultClasses.contains n = true) :
    handNames.contains n = false ∧ (n == "MACH_vmfault") = false := by
  simp only [realFaultClasses, List.contains_cons, List.contains_nil, Bool.or_false, Bool.or_eq_true, beq_iff_eq] at h
  rcases h with rfl | rfl | rfl <;> decide

/-- The nested call of `handle_mach_vmfault`: under `vmfaultCodesOK` the in-range records go to one of the three
    generated `RealFaultAddress*` decoders (which returns an object with `pid` and `caller_prot`) or to nothing. -/
theorem nested_good (env : Env) (genv : GoodEnv env) (hg : vmfaultCodesOK env = true) (t : Tabs)
    (r : Kevent) (rest : List Kevent) (hall : ∀ x ∈ r :: rest, wordsOK env x = true)
    (hrange : 0x1320008 ≤ r.eventid ∧ r.eventid ≤ 0x1320014) :
    (∃ t', parseEventList env t (r :: rest) = .ok (none, t')) ∨
    (∃ out t' p l, parseEventList env t (r :: rest) = .ok (some out, t') ∧ pidProtOf out = .ok (some p, some l)) := by
  rw [Composite.parseEventList_unfold]
  simp only [parseEventListWith]
  have hid := vmfaultIdOK_of env hg r.eventid hrange.1 hrange.2
  simp only [vmfaultIdOK] at hid
  cases hn : env.codes r.eventid with
  | none => exact Or.inl ⟨t, rfl⟩
  | some n =>
    simp only [hn, Bool.or_eq_true, Bool.not_eq_true'] at hid
    simp only
    by_cases hh : isHandled env n = true
    · simp only [hh, if_true]
      have hrf : realFaultClasses.contains n = true := by
        rcases hid with h | h
        · exact h
        · rw [hh] at h; cases h
      obtain ⟨hnh, hnv⟩ := realFault_not_hand n hrf
      rw [Composite.handleWith_generated _ env t _ n (by simpa using hrf)]
      cases hfd : findDecoder env n with
      | none => exact Or.inl ⟨t, rfl⟩
      | some d =>
        have hdm : d ∈ env.decoders := List.mem_of_find?_eq_some hfd
        have hdn : d.name = n := by simpa using List.find?_some hfd
        have hsup : d.supported = true := by
          cases hs : d.supported with
          | true => rfl
          | false => have := genv.hand d hdm hs; rw [hdn, hnh] at this; cases this
        obtain ⟨hty, hown⟩ := genv.typed d hdm hsup
        have hshape := genv.realFault d hdm hsup (by rw [hdn]; exact hrf)
        simp only [typed, Option.isSome_iff_exists] at hty
        obtain ⟨k, hk⟩ := hty
        simp only [rfShapeOK, hk, Bool.and_eq_true, Bool.not_eq_true', Bool.or_eq_true, beq_iff_eq,
          List.all_eq_true] at hshape
        obtain ⟨⟨hcls, hnl⟩, ⟨h5, h2⟩, hstart⟩ := hshape
        have hr := hall r (List.mem_cons_self ..)
        have hrn := wordsOK_name env r n hr hn
        simp only [wordsOKFor, hnv, hnh, hfd, hsup, hrf, Bool.false_eq_true, if_false, Bool.and_eq_true, Bool.not_true,
          Bool.false_or] at hrn
        have hlast := hall _ (lastOf_mem (r :: rest) (by simp))
        have hend : condsHoldAs .end_ env.host env.tables d (ownWindow (lastOf (r :: rest))) = true := by
          simp only [condsHoldAs, hk, List.all_eq_true, Bool.or_eq_true]
          intro cd hcd
          exact Or.inl (hstart cd hcd)
        obtain ⟨fs, txt, hrun, hts⟩ := runGeneratedObj_good env t d (r :: rest) k hk hown
          (by simpa [firstOf] using hrn.2) (by simpa [firstOf] using wordsOK_len env r hr) hend
          (wordsOK_len env _ hlast) (by intro hu; rw [hnl] at hu; cases hu)
        simp only [hsup, Bool.not_true, Bool.false_eq_true, if_false, hrun, bind, Except.bind, pure, Except.pure]
        right
        obtain ⟨v2, hv2, ht2⟩ := hts 2 _ h2
        obtain ⟨l, rfl⟩ := val_of_members ht2
        have h5' : ∃ p : Int, fs[5]? = some (.int p) := by
          rcases h5 with h5 | h5
          · obtain ⟨v, hv, ht⟩ := hts 5 _ h5
            cases v <;> simp_all [hasTy]
          · obtain ⟨v, hv, ht⟩ := hts 5 _ h5
            cases v <;> simp_all [hasTy]
        obtain ⟨p, hp⟩ := h5'
        refine ⟨_, t, p.toNat, l.map (·.name), rfl, ?_⟩
        simp only [pidProtOf, hcls, if_true, hp, hv2]
    · have hh' : isHandled env n = false := by simpa using hh
      simp only [hh', Bool.false_eq_true, if_false]
      exact Or.inl ⟨t, rfl⟩

/-- `handle_mach_vmfault`: the result/fault-type words of its END record are own-field conditions (`wordsOK`), and so
    is the fault-type byte of a nested real-fault record (a condition of ITS decoder); under a code table that names
    an id of the hard-coded range 0x1320008..0x1320014 after a handler of another kind it would raise AttributeError
    (`vmfaultCodesOK` excludes that). -/
theorem hMachVmfault_good (env : Env) (genv : GoodEnv env) (t : Tabs) (w : List Kevent)
    (hg : vmfaultCodesOK env = true) (hw : WinOK (fun e => wordsOK env e = true) w)
    (hname : env.codes (firstOf w).eventid = some "MACH_vmfault") :
    Good (hMachVmfault (parseEventList env) env t w) := by
  have hlast := hw.all _ (lastOf_mem w hw.ne)
  have hln : env.codes (lastOf w).eventid = some "MACH_vmfault" := by rw [← hw.eid]; exact hname
  have hwl := wordsOK_name env _ _ hlast hln
  simp only [wordsOKFor, beq_self_eq_true, if_true, Bool.or_eq_true, beq_iff_eq, bne_iff_ne, ne_eq] at hwl
  unfold hMachVmfault vmfaultCore
  simp only
  by_cases hres : arg (lastOf w) 2 ≠ 0
  · rw [if_pos hres]; exact good_vm ..
  · rw [if_neg hres]
    have hft : faultTypeOK env (arg (lastOf w) 3) = true := by
      rcases hwl with (h | h) | h
      · exact absurd h hw.lq
      · exact absurd h hres
      · exact h
    simp only [faultTypeOK, Option.isSome_iff_exists] at hft
    obtain ⟨ft, hft⟩ := hft
    simp only [hft]
    cases hin : realEvents w with
    | nil => simp only [List.isEmpty_nil, if_true]; exact good_vm ..
    | cons r rest =>
      simp only [List.isEmpty_cons, Bool.false_eq_true, if_false]
      have hsub : ∀ x ∈ r :: rest, x ∈ w ∧ (0x1320008 ≤ x.eventid ∧ x.eventid ≤ 0x1320014) := by
        intro x hx
        rw [← hin] at hx
        obtain ⟨hxm, hxr⟩ := List.mem_filter.mp hx
        exact ⟨List.mem_of_mem_drop (List.dropLast_subset _ hxm), by simpa using hxr⟩
      rcases nested_good env genv hg t r rest (fun x hx => hw.all x (hsub x hx).1)
        (hsub r (List.mem_cons_self ..)).2 with ⟨t', hn⟩ | ⟨out, t', p, l, hn, hpp⟩
      · simp only [hn]; exact good_vm ..
      · simp only [hn, hpp]; exact good_vm ..

/-! ### dispatch -/

theorem handle_good (env : Env) (genv : GoodEnv env) (hg : vmfaultCodesOK env = true) (t : Tabs)
    (w : List Kevent) (name : String) (hw : WinOK (fun e => wordsOK env e = true) w)
    (hname : env.codes (firstOf w).eventid = some name) (ht : textOKFor env name w = true) :
    Good (handle env t name w) := by
  rw [Composite.handle_unfold]
  unfold handleWith
  split
  · exact hDataNewthread_good ..
  · exact hDataExec_good ..
  · exact hDataThreadTerminate_good ..
  · exact hDataThreadTerminatePid_good ..
  · apply hStringGlobal_good
    intro hs
    simpa [textOKFor, hs] using ht
  · apply hStringNewthread_good
    simpa [textOKFor, singleStringNames] using ht
  · apply hStringExec_good
    simpa [textOKFor, singleStringNames] using ht
  · apply hStringProcExit_good
    simpa [textOKFor, singleStringNames] using ht
  · apply hStringThreadname_good
    intro hs
    simpa [textOKFor, singleStringNames, threadnameNames, hs] using ht
  · apply hStringThreadname_good
    intro hs
    simpa [textOKFor, singleStringNames, threadnameNames, hs] using ht
  · apply hVfsLookup_good
    intro hs
    simpa [textOKFor, singleStringNames, threadnameNames, hs] using ht
  · exact hPerfEvent_good ..
  · exact hPerfThdData_good ..
  · exact hMachVmfault_good env genv t w hg hw hname
  · exact hDyldLaunch_good env t w (fun x hx => by have := wordsOK_data env x (hw.all x hx); omega)
  · rename_i n1 n2 n3 n4 n5 n6 n7 n8 n9 n10 n11 n12 n13 n14 n15
    replace n5 : ¬ name = "TRACE_STRING_GLOBAL" := n5
    replace n6 : ¬ name = "TRACE_STRING_NEWTHREAD" := n6
    replace n7 : ¬ name = "TRACE_STRING_EXEC" := n7
    replace n8 : ¬ name = "TRACE_STRING_PROC_EXIT" := n8
    replace n9 : ¬ name = "TRACE_STRING_THREADNAME" := n9
    replace n10 : ¬ name = "TRACE_STRING_THREADNAME_PREV" := n10
    replace n11 : ¬ name = "VFS_LOOKUP" := n11
    have hnh : handNames.contains name = false := by
      simp only [handNames, traceDomainNames, List.cons_append, List.nil_append, List.contains_cons,
        List.contains_nil, Bool.or_false, Bool.or_eq_false_iff, beq_eq_false_iff_ne, ne_eq]
      exact ⟨n1, n2, n3, n4, n5, n6, n7, n8, n9, n10, n11, n12, n13, n14, n15⟩
    have hnh' : ¬ name ∈ handNames := by simpa using hnh
    have hnv : (name == "MACH_vmfault") = false := by simpa using n14
    cases hfd : findDecoder env name with
    | none => exact good_none t
    | some d =>
      have hdm : d ∈ env.decoders := List.mem_of_find?_eq_some hfd
      have hdn : d.name = name := by simpa using List.find?_some hfd
      have hsup : d.supported = true := by
        cases hs : d.supported with
        | true => rfl
        | false => have := genv.hand d hdm hs; rw [hdn, hnh] at this; cases this
      obtain ⟨hty, hown⟩ := genv.typed d hdm hsup
      have hfirst := hw.all _ (firstOf_mem w hw.ne)
      have hlast := hw.all _ (lastOf_mem w hw.ne)
      have hwf := wordsOK_name env _ _ hfirst hname
      have hwl := wordsOK_name env _ _ hlast (by rw [← hw.eid]; exact hname)
      simp only [wordsOKFor, hnv, hnh, hfd, hsup, Bool.false_eq_true, if_false, Bool.and_eq_true, Bool.not_true,
        Bool.false_or] at hwf hwl
      have htx : usesLookups d = true → lookupsOK env w = true := by
        intro hu
        simpa [textOKFor, singleStringNames, threadnameNames, n5, n6, n7, n8, n9, n10, n11, hnh', hfd, hu] using ht
      simp only [typed, Option.isSome_iff_exists] at hty
      obtain ⟨k, hk⟩ := hty
      obtain ⟨fs, text, hrun, _⟩ := runGeneratedObj_good env t d w k hk hown
        (decoderWordsOK_start env d _ hwf.1 hw.fq) (wordsOK_len env _ hfirst)
        (decoderWordsOK_end env d _ hwl.1 hw.lq) (wordsOK_len env _ hlast) htx
      simp only [hsup, Bool.not_true, Bool.false_eq_true, if_false, hrun, bind, Except.bind, pure, Except.pure]
      exact ⟨_, _, rfl, by intro tr h; cases h; exact ⟨_, rfl⟩⟩

/-- `parse_event_list` on a delivered window of in-domain records whose strings are valid text: the handler
    returns, and the trace it returns renders. -/
theorem parseEventList_good (env : Env) (genv : GoodEnv env) (hg : vmfaultCodesOK env = true) (t : Tabs)
    (w : List Kevent) (hw : WinOK (fun e => wordsOK env e = true) w) (ht : textOK env w = true) :
    Good (parseEventList env t w) := by
  cases w with
  | nil => exact absurd rfl hw.ne
  | cons e rest =>
    rw [Composite.parseEventList_unfold]
    simp only [parseEventListWith]
    cases hn : env.codes e.eventid with
    | none => exact good_none t
    | some name =>
      simp only
      split
      · have hname : env.codes (firstOf (e :: rest)).eventid = some name := by simpa [firstOf] using hn
        rw [← Composite.handle_unfold]
        apply handle_good env genv hg t (e :: rest) name hw hname
        simpa [textOK, hname] using ht
      · exact good_none t

/-- One `feed`: never raises, the delivered trace renders, and the pairing invariant is preserved. -/
theorem feed_good (env : Env) (genv : GoodEnv env) (hg : vmfaultCodesOK env = true) (s : PState) (e : Kevent)
    (hs : PInv (fun e => wordsOK env e = true) s.pairing) (he : wordsOK env e = true)
    (ht : ∀ w, (Pairing.step env.domOf s.pairing e).2 = some w → textOK env w = true) :
    ∃ r s', feed env s e = .ok (r, s') ∧ s'.pairing = (Pairing.step env.domOf s.pairing e).1 ∧
      (∀ tr, r = some tr → ∃ txt, tr.text = .ok txt) := by
  obtain ⟨hinv, hwin⟩ := step_inv (fun e => wordsOK env e = true) env.domOf s.pairing e hs he
  unfold feed
  cases hstep : Pairing.step env.domOf s.pairing e with
  | mk p' o =>
    cases o with
    | none => exact ⟨none, _, rfl, rfl, by intro tr h; cases h⟩
    | some w =>
      rw [hstep] at hwin ht
      obtain ⟨o, t', hpe, hgood⟩ := parseEventList_good env genv hg s.tabs w (hwin w rfl) (ht w rfl)
      simp only [hpe, bind, Except.bind, pure, Except.pure]
      exact ⟨o, _, rfl, rfl, hgood⟩

/-- The windows the pairing delivers for history `h` from state `s` (what `parse_event_list` is called with). -/
def windowsFrom (env : Env) (s : PState) (h : List Kevent) : List (List Kevent) :=
  (Pairing.runFrom env.domOf s.pairing h).2

/-- Induction over the history: nothing raises, every delivered trace renders. -/
theorem run_good (env : Env) (genv : GoodEnv env) (hg : vmfaultCodesOK env = true) :
    ∀ (h : List Kevent) (s : PState), PInv (fun e => wordsOK env e = true) s.pairing →
      (∀ e ∈ h, wordsOK env e = true) → (∀ w ∈ windowsFrom env s h, textOK env w = true) →
      (run env s h).2.1 = none ∧ ∀ tr ∈ (run env s h).1, ∃ txt, tr.text = .ok txt := by
  intro h
  induction h with
  | nil => intro s _ _ _; exact ⟨rfl, by intro tr hm; simp [run] at hm⟩
  | cons e es ih =>
    intro s hs hw ht
    simp only [windowsFrom, Pairing.runFrom_cons] at ht
    obtain ⟨r, s', hfeed, hp, hr⟩ := feed_good env genv hg s e hs (hw e (List.mem_cons_self ..))
      (by intro w hwm; exact ht w (List.mem_append_left _ (by simp [hwm])))
    have hinv := (step_inv (fun e => wordsOK env e = true) env.domOf s.pairing e hs (hw e (List.mem_cons_self ..))).1
    obtain ⟨h1, h2⟩ := ih s' (by rw [hp]; exact hinv) (fun x hx => hw x (List.mem_cons_of_mem _ hx))
      (by intro w hwm; simp only [windowsFrom, hp] at hwm; exact ht w (List.mem_append_right _ hwm))
    simp only [run, hfeed]
    refine ⟨h1, ?_⟩
    intro tr hm
    cases r with
    | none => exact h2 tr hm
    | some t0 =>
      simp only [List.mem_cons] at hm
      rcases hm with rfl | hm
      · exact hr _ rfl
      · exact h2 tr hm

/-! ### per-record text: an alphabet on which `dec` is total -/

/-- `bytes.decode` succeeds on every byte string over the alphabet `B` (e.g. strict UTF-8 on ASCII bytes;
    any alphabet for a decoder with `errors='replace'`). -/
def DecTotalOn (env : Env) (B : Nat → Bool) : Prop := ∀ bs : Bytes, bs.all B = true → ∃ s, env.dec bs = .ok s

theorem all_stripNul (B : Nat → Bool) (bs : Bytes) (h : bs.all B = true) : (stripNul bs).all B = true := by
  simp only [List.all_eq_true] at h ⊢
  intro x hx
  exact h x (List.mem_filter.mp hx).1

theorem decOK_of_all (env : Env) (B : Nat → Bool) (hd : DecTotalOn env B) (bs : Bytes) (h : bs.all B = true) :
    decOK env (stripNul bs) = true := (decOK_iff _ _).mpr (hd _ (all_stripNul B bs h))

theorem vnodeGen_ok (env : Env) (B : Nat → Bool) (hd : DecTotalOn env B) (l : List Kevent) :
    ∀ (path : Bytes) (vid : Nat) (evs : List Kevent),
      (∀ x ∈ l, (if hasStart x then x.data.drop 8 else x.data).all B = true) → path.all B = true →
      ∃ vs, vnodeGen env.dec l path vid evs = .ok vs := by
  induction l with
  | nil => intro path vid evs _ _; exact ⟨[], rfl⟩
  | cons e rest ih =>
    intro path vid evs hl hp
    have he := hl e (List.mem_cons_self ..)
    have hrest : ∀ x ∈ rest, (if hasStart x then x.data.drop 8 else x.data).all B = true :=
      fun x hx => hl x (List.mem_cons_of_mem _ hx)
    simp only [vnodeGen]
    by_cases hs : hasStart e = true
    · simp only [hs, if_true] at he ⊢
      have hp' : (path ++ e.data.drop 8).all B = true := by simp [List.all_append, hp, he]
      by_cases hen : hasEnd e = true
      · obtain ⟨s, hdec⟩ := hd _ (all_stripNul B _ hp')
        obtain ⟨more, hmore⟩ := ih [] 0 [] hrest rfl
        simp only [hen, if_true, hdec, hmore, bind, Except.bind, pure, Except.pure]
        exact ⟨_, rfl⟩
      · simp only [hen, Bool.false_eq_true, if_false]
        exact ih _ _ _ hrest hp'
    · simp only [hs, Bool.false_eq_true, if_false] at he ⊢
      have hp' : (path ++ e.data).all B = true := by simp [List.all_append, hp, he]
      by_cases hen : hasEnd e = true
      · obtain ⟨s, hdec⟩ := hd _ (all_stripNul B _ hp')
        obtain ⟨more, hmore⟩ := ih [] 0 [] hrest rfl
        simp only [hen, if_true, hdec, hmore, bind, Except.bind, pure, Except.pure]
        exact ⟨_, rfl⟩
      · simp only [hen, Bool.false_eq_true, if_false]
        exact ih _ _ _ hrest hp'

theorem payload_lookup (env : Env) (x : Kevent) (h : isLookup env x = true) :
    payload env x = if hasStart x then x.data.drop 8 else x.data := by
  simp only [isLookup, Env.nameOf, beq_iff_eq] at h
  simp [payload, h]

/-- Lookups reassemble and decode whenever every lookup record's path bytes lie in the alphabet — whichever
    chunks are missing. -/
theorem lookupsOK_of_payload (env : Env) (B : Nat → Bool) (hd : DecTotalOn env B) (w : List Kevent)
    (h : ∀ x ∈ w, payloadOK env B x = true) : lookupsOK env w = true := by
  rw [lookupsOK_iff]
  unfold parseVnodes
  apply vnodeGen_ok env B hd _ [] 0 [] _ rfl
  intro x hx
  obtain ⟨hxw, hxl⟩ := List.mem_filter.mp hx
  rw [← payload_lookup env x hxl]
  exact h x hxw

theorem globalLoop_all (B : Nat → Bool) (own : Nat) (l : List Kevent) :
    ∀ (dbg sid : Nat) (vstr : Bytes) (evs : List Kevent),
    (∀ x ∈ l, x.eventid = own → (if hasStart x then x.data.drop 16 else x.data).all B = true) → vstr.all B = true →
    (globalLoop own l dbg sid vstr evs).2.2.1.all B = true := by
  induction l with
  | nil => intro dbg sid vstr evs _ hv; exact hv
  | cons e rest ih =>
    intro dbg sid vstr evs hl hv
    have hrest : ∀ x ∈ rest, x.eventid = own → (if hasStart x then x.data.drop 16 else x.data).all B = true :=
      fun x hx => hl x (List.mem_cons_of_mem _ hx)
    simp only [globalLoop]
    by_cases ho : e.eventid = own
    · have he := hl e (List.mem_cons_self ..) ho
      simp only [ho, ne_eq, not_true_eq_false, if_false]
      by_cases hs : hasStart e = true
      · simp only [hs, if_true] at he ⊢
        have hv' : (vstr ++ e.data.drop 16).all B = true := by simp [List.all_append, hv, he]
        by_cases hen : hasEnd e = true
        · simp only [hen, if_true]; exact hv'
        · simp only [hen, Bool.false_eq_true, if_false]; exact ih _ _ _ _ hrest hv'
      · simp only [hs, Bool.false_eq_true, if_false] at he ⊢
        have hv' : (vstr ++ e.data).all B = true := by simp [List.all_append, hv, he]
        by_cases hen : hasEnd e = true
        · simp only [hen, if_true]; exact hv'
        · simp only [hen, Bool.false_eq_true, if_false]; exact ih _ _ _ _ hrest hv'
    · simp only [ne_eq, ho, not_false_eq_true, if_true]
      exact ih _ _ _ _ hrest hv

theorem joinData_all (B : Nat → Bool) (l : List Kevent)
    (h : ∀ x ∈ l, x.eventid = (firstOf l).eventid → x.data.all B = true) : (joinData l).all B = true := by
  simp only [joinData, List.all_eq_true, List.mem_flatten, List.mem_map, List.mem_filter, beq_iff_eq] at h ⊢
  rintro b ⟨_, ⟨x, ⟨hx, hxe⟩, rfl⟩, hb⟩
  exact h x hx hxe b hb

/-- Per-record text validity implies validity of everything a handler reassembles from a delivered window —
    whichever chunks are missing, repeated, or separated by records of other codes. -/
theorem textOK_of_payload (env : Env) (B : Nat → Bool) (hd : DecTotalOn env B) (w : List Kevent) (hne : w ≠ [])
    (h : ∀ x ∈ w, payloadOK env B x = true) : textOK env w = true := by
  unfold textOK
  cases hn : env.codes (firstOf w).eventid with
  | none => rfl
  | some name =>
    simp only
    have hlk := lookupsOK_of_payload env B hd w h
    have hfirst := h _ (firstOf_mem w hne)
    unfold textOKFor
    by_cases h1 : name = "TRACE_STRING_GLOBAL"
    · subst h1
      simp only [beq_self_eq_true, if_true]
      simp only [Bool.or_eq_true, Bool.not_eq_true']
      right
      apply decOK_of_all env B hd
      apply globalLoop_all B _ w 0 0 [] [] _ rfl
      intro x hx hxe
      have hx' := h x hx
      simp only [payloadOK, payload, hxe, hn] at hx'
      simpa using hx'
    · have h1' : (name == "TRACE_STRING_GLOBAL") = false := by simpa using h1
      simp only [h1', Bool.false_eq_true, if_false]
      by_cases h2 : singleStringNames.contains name = true
      · simp only [h2, if_true]
        apply decOK_of_all env B hd
        simp only [payloadOK, payload, hn, h1', h2, Bool.true_or, if_true, Bool.false_eq_true, if_false] at hfirst
        have hv : (name == "VFS_LOOKUP") = false := by
          simp only [singleStringNames, List.contains_cons, List.contains_nil, Bool.or_false, Bool.or_eq_true,
            beq_iff_eq] at h2
          rcases h2 with rfl | rfl | rfl <;> decide
        simpa [hv] using hfirst
      · simp only [h2, Bool.false_eq_true, if_false]
        by_cases h3 : threadnameNames.contains name = true
        · simp only [h3, if_true, Bool.or_eq_true, Bool.not_eq_true']
          right
          apply decOK_of_all env B hd
          apply joinData_all
          intro x hx hxe
          have hx' := h x hx
          have hv : (name == "VFS_LOOKUP") = false := by
            simp only [threadnameNames, List.contains_cons, List.contains_nil, Bool.or_false, Bool.or_eq_true,
              beq_iff_eq] at h3
            rcases h3 with rfl | rfl <;> decide
          simp only [payloadOK, payload, hxe, hn, h1', hv, h3, Bool.or_true, if_true, Bool.false_eq_true,
            if_false] at hx'
          exact hx'
        · simp only [h3, Bool.false_eq_true, if_false]
          split
          · simp [hlk]
          · split
            · rfl
            · split
              · simp [hlk]
              · rfl

/-- Every window the pairing delivers for a history of `P`-records is a `WinOK P` window. -/
theorem windowsFrom_ok (env : Env) (P : Kevent → Prop) : ∀ (h : List Kevent) (s : PState), PInv P s.pairing →
    (∀ e ∈ h, P e) → ∀ w ∈ windowsFrom env s h, WinOK P w := by
  intro h
  induction h with
  | nil => intro s _ _ w hw; simp [windowsFrom, Pairing.runFrom] at hw
  | cons e es ih =>
    intro s hs hp w hw
    obtain ⟨hinv, hwin⟩ := step_inv P env.domOf s.pairing e hs (hp e (List.mem_cons_self ..))
    simp only [windowsFrom, Pairing.runFrom_cons, List.mem_append] at hw
    rcases hw with hw | hw
    · apply hwin w
      cases ho : (Pairing.step env.domOf s.pairing e).2 with
      | none => simp [ho] at hw
      | some w' => simp [ho] at hw; rw [hw]
    · exact ih ⟨(Pairing.step env.domOf s.pairing e).1, s.tabs⟩ hinv (fun x hx => hp x (List.mem_cons_of_mem _ hx)) w hw

end KdVerif.Trace
