import Driver.Util
import Driver.Cmd.Trace
import Driver.Cmd.Filters
import KdVerif.Model.TracePipeline
open KdVerif KdVerif.Trace KdVerif.TracePipeline
namespace Driver.TracePipeline

def showFrame (f : Callstacks.Frame) : String :=
  match f.image with
  | some (u, off) => s!"{f.address}/{toHex u}/{off}"
  | none => s!"{f.address}"

def showCallstack (c : Callstacks.Callstack) : String :=
  s!"{c.timestamp}:{c.tid}:" ++ (if c.frames.isEmpty then "-" else ",".intercalate (c.frames.map showFrame))

def errName (e : Option PyErr) : String := match e with | some x => x.name | none => "-"

def listOr (l : List String) : String := if l.isEmpty then "-" else " ".intercalate l

/-- One request: its digest and the object afterwards. -/
def doRequest (env : Env) (obj : Obj) (d : Dump) (c : Char) : Option (String × Obj) :=
  if c = 't' then
    let (r, obj') := traces env obj d
    some ("T " ++ listOr (r.traces.map fun p => Driver.Trace.showTrace p.1) ++ " !" ++ errName r.err, obj')
  else if c = 'c' then
    let (r, obj') := callstacks env obj d
    some ("C " ++ listOr (r.callstacks.map showCallstack) ++ " !" ++ errName r.err, obj')
  else if c = 'k' then
    let (r, obj') := kevents obj d
    some ("K " ++ listOr (r.map Driver.Filters.showEvent) ++ " !-", obj')
  else none

def doAll (env : Env) (d : Dump) : Obj → List Char → Option (List String × Obj)
  | obj, [] => some ([], obj)
  | obj, c :: cs => do
    let (s, obj') ← doRequest env obj d c
    let (ss, objf) ← doAll env d obj' cs
    pure (s :: ss, objf)

def showOptNat : Option Nat → String
  | none => "N"
  | some n => toString n

def showOptText : Option String → String
  | none => "N"
  | some s => hexOfString s

def csv (l : List Nat) : String := if l.isEmpty then "-" else natListC l

/-- `tpipe <codes> <thread map> <tid|N> <classes> <subclasses> <process hex|N> <requests: letters t c k> <record hex>…`
    : every request on ONE parser object and the same dump, then the object's filter attributes and image count. -/
def cmdTpipe : Cmd
  | codes :: tmap :: tid :: cls :: subs :: proc :: reqs :: recs =>
    match Driver.Trace.parseCodes codes, Driver.Trace.parseThreadMap tmap, Driver.Filters.optNat tid, parseNatList cls,
          parseNatList subs, Driver.Filters.optText proc, parseRecs recs with
    | some cs, some tm, some tid, some cls, some subs, some proc, some es =>
      let env := Driver.Trace.mkEnv cs
      let obj : Obj := { cfg := { filterTid := tid, filterClass := cls, filterSubclass := subs, filterProcess := proc } }
      match doAll env { threadMap := tm, events := es } obj reqs.toList with
      | some (outs, objf) =>
        "ok " ++ " # ".intercalate outs ++
          s!" ;tid={showOptNat objf.cfg.filterTid} ;fc={csv objf.cfg.filterClass} ;fs={csv objf.cfg.filterSubclass} ;proc={showOptText objf.cfg.filterProcess} ;img={objf.images.addrs.length}"
      | none => "bad-op"
    | _, _, _, _, _, _, _ => "bad-op"
  | _ => "bad-op"

def commands : List (String × Cmd) := [("tpipe", cmdTpipe)]

end Driver.TracePipeline
