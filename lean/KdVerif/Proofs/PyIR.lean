import KdVerif.Spec.PyIRExpected
import KdVerif.Proofs.Pairing
/-
  The expected IR of the pairing methods (`Spec/PyIRExpected`), run by the interpreter of `Model/PyIR`,
  is `Model/Pairing.step` / `gate` on the abstraction of the heap.  Three layers:
    A. association lists (`AList`) = Python dicts with unique keys;
    B. the append loop `for eventid in d[t]: d[t][eventid].append(e)` executed by `forLoop`/`exec` appends
       `e` to every list of `d[t]` (needs: keys of `d[t]` unique);
    C. closed forms of the five methods, then `abs (heap after feed) = (step (abs heap) e).1`.
  Core Lean only.
-/
namespace KdVerif.PyIR

/-! ### A. association lists -/
namespace AList
variable {β γ : Type}

theorem lookup_set_self (k : Nat) (v : β) (m : AList β) : lookup k (set k v m) = some v := by
  induction m with
  | nil => simp [set, lookup]
  | cons p r ih => by_cases h : p.1 = k <;> simp [set, lookup, h, ih]

theorem lookup_set_ne {k k' : Nat} (h : k' ≠ k) (v : β) (m : AList β) :
    lookup k' (set k v m) = lookup k' m := by
  induction m with
  | nil => simp [set, lookup, Ne.symm h]
  | cons p r ih =>
    obtain ⟨a, b⟩ := p
    by_cases hp : a = k
    · subst hp
      simp [set, lookup, Ne.symm h]
    · by_cases hp' : a = k'
      · subst hp'
        simp [set, lookup, hp]
      · simp [set, lookup, hp, hp', ih]

theorem mem_keys_iff (k : Nat) (m : AList β) : k ∈ keys m ↔ (lookup k m).isSome = true := by
  induction m with
  | nil => simp [keys, lookup]
  | cons p r ih =>
    by_cases hp : p.1 = k
    · simp [keys, lookup, hp]
    · have : ¬ k = p.1 := fun h => hp h.symm
      simpa [keys, lookup, hp, this] using ih

theorem lookup_eq_none_iff (k : Nat) (m : AList β) : lookup k m = none ↔ k ∉ keys m := by
  rw [mem_keys_iff]; cases lookup k m <;> simp

theorem keys_set_of_mem {k : Nat} (v : β) {m : AList β} (h : k ∈ keys m) : keys (set k v m) = keys m := by
  induction m with
  | nil => simp [keys] at h
  | cons p r ih =>
    by_cases hp : p.1 = k
    · simp [set, keys, hp]
    · have hk : k ∈ keys r := by
        simp only [keys, List.map_cons, List.mem_cons] at h
        rcases h with h | h
        · exact absurd h.symm hp
        · exact h
      have := ih hk
      simp only [keys] at this
      simp [set, keys, hp, this]

theorem keys_set_of_not_mem {k : Nat} (v : β) {m : AList β} (h : k ∉ keys m) :
    keys (set k v m) = keys m ++ [k] := by
  induction m with
  | nil => simp [set, keys]
  | cons p r ih =>
    have hp : ¬ p.1 = k := fun h' => h (by simp [keys, h'])
    have hk : k ∉ keys r := fun h' => h (by simp only [keys, List.map_cons, List.mem_cons]; exact Or.inr h')
    have := ih hk
    simp only [keys] at this
    simp [set, keys, hp, this]

theorem nodup_keys_set (k : Nat) (v : β) {m : AList β} (h : (keys m).Nodup) : (keys (set k v m)).Nodup := by
  by_cases hk : k ∈ keys m
  · rw [keys_set_of_mem v hk]; exact h
  · rw [keys_set_of_not_mem v hk]
    rw [List.nodup_append]
    refine ⟨h, by simp, ?_⟩
    intro a ha b hb
    simp only [List.mem_singleton] at hb
    subst hb
    intro hab; subst hab; exact hk ha

theorem set_set (k : Nat) (v v' : β) (m : AList β) : set k v' (set k v m) = set k v' m := by
  induction m with
  | nil => simp [set]
  | cons p r ih => by_cases hp : p.1 = k <;> simp [set, hp, ih]

theorem lookup_erase_ne {k k' : Nat} (h : k' ≠ k) (m : AList β) : lookup k' (erase k m) = lookup k' m := by
  induction m with
  | nil => simp [erase]
  | cons p r ih =>
    obtain ⟨a, b⟩ := p
    by_cases hp : a = k
    · subst hp
      simp [erase, lookup, Ne.symm h]
    · by_cases hp' : a = k'
      · subst hp'
        simp [erase, lookup, hp]
      · simp [erase, lookup, hp, hp', ih]

theorem lookup_erase_self (k : Nat) {m : AList β} (h : (keys m).Nodup) : lookup k (erase k m) = none := by
  induction m with
  | nil => simp [erase, lookup]
  | cons p r ih =>
    have hr : (keys r).Nodup := by simp only [keys, List.map_cons, List.nodup_cons] at h; exact h.2
    by_cases hp : p.1 = k
    · have : k ∉ keys r := by
        simp only [keys, List.map_cons, List.nodup_cons] at h
        rw [← hp]; exact h.1
      simpa [erase, hp] using (lookup_eq_none_iff k r).2 this
    · simp [erase, lookup, hp, ih hr]

theorem keys_erase_sublist (k : Nat) (m : AList β) : (keys (erase k m)).Sublist (keys m) := by
  induction m with
  | nil => simp [erase, keys]
  | cons p r ih =>
    by_cases hp : p.1 = k
    · simp [erase, keys, hp]
    · simp only [keys] at ih
      simp [erase, keys, hp, ih]

theorem nodup_keys_erase (k : Nat) {m : AList β} (h : (keys m).Nodup) : (keys (erase k m)).Nodup :=
  (keys_erase_sublist k m).nodup h

theorem lookup_map_val (f : β → γ) (k : Nat) (m : AList β) :
    lookup k (m.map fun p => (p.1, f p.2)) = (lookup k m).map f := by
  induction m with
  | nil => simp [lookup]
  | cons p r ih => by_cases hp : p.1 = k <;> simp [lookup, hp, ih]

theorem keys_map_val (f : β → γ) (m : AList β) : keys (m.map fun p => (p.1, f p.2)) = keys m := by
  simp [keys, List.map_map, Function.comp_def]

theorem contains_eq (k : Nat) (m : AList β) : contains k m = (lookup k m).isSome := rfl

end AList

/-! ### the heap -/

@[simp] theorem tbl_setTbl_same (w : World) (d : Bool) (t : Tbl) : (w.setTbl d t).tbl d = t := by
  cases d <;> rfl

theorem tbl_setTbl_ne (w : World) {d d' : Bool} (h : d' ≠ d) (t : Tbl) : (w.setTbl d t).tbl d' = w.tbl d' := by
  cases d <;> cases d' <;> first | rfl | exact absurd rfl h

@[simp] theorem setTbl_setTbl (w : World) (d : Bool) (t t' : Tbl) : (w.setTbl d t).setTbl d t' = w.setTbl d t' := by
  cases d <;> rfl

@[simp] theorem calls_setTbl (w : World) (d : Bool) (t : Tbl) : (w.setTbl d t).calls = w.calls := by
  cases d <;> rfl

/-! ### B. the append loop -/
open Expected

/-- `e` appended to the lists of the keys in `ks`. -/
def mapOn (ks : List Nat) (e : Kevent) (m : Inner) : Inner :=
  m.map fun p => if p.1 ∈ ks then (p.1, p.2 ++ [e]) else p

theorem mapOn_set (ks : List Nat) (e : Kevent) (k : Nat) (l : List Kevent) (m : Inner)
    (hnd : (AList.keys m).Nodup) (hl : AList.lookup k m = some l) (hk : k ∉ ks) :
    mapOn ks e (AList.set k (l ++ [e]) m) = mapOn (k :: ks) e m := by
  induction m with
  | nil => simp [AList.lookup] at hl
  | cons p r ih =>
    obtain ⟨a, b⟩ := p
    simp only [AList.keys, List.map_cons, List.nodup_cons] at hnd
    by_cases ha : a = k
    · subst ha
      simp only [AList.lookup, if_true, Option.some.injEq] at hl
      subst hl
      have hr : ∀ p ∈ r, (if p.1 ∈ ks then (p.1, p.2 ++ [e]) else p) =
          (if p.1 ∈ a :: ks then (p.1, p.2 ++ [e]) else p) := by
        intro p hp
        have : p.1 ≠ a := fun h => hnd.1 (h ▸ List.mem_map_of_mem (f := (·.1)) hp)
        simp [this]
      simp only [mapOn, AList.set, if_true, List.map_cons, hk, if_false, List.mem_cons, true_or]
      congr 1
      exact List.map_congr_left (fun p hp => by simpa using hr p hp)
    · have hl' : AList.lookup k r = some l := by simpa [AList.lookup, ha] using hl
      have := ih hnd.2 hl'
      simp only [mapOn] at this
      simp only [mapOn, AList.set, ha, if_false, List.map_cons, this, List.mem_cons, false_or]

theorem mapOn_keys (e : Kevent) (m : Inner) :
    mapOn (AList.keys m) e m = m.map fun p => (p.1, p.2 ++ [e]) := by
  apply List.map_congr_left
  intro p hp
  have : p.1 ∈ AList.keys m := List.mem_map_of_mem (f := (·.1)) hp
  simp [this]

theorem keys_mapOn (ks : List Nat) (e : Kevent) (m : Inner) : AList.keys (mapOn ks e m) = AList.keys m := by
  simp only [AList.keys, mapOn, List.map_map]
  apply List.map_congr_left
  intro p _
  simp only [Function.comp]
  split <;> rfl

/-- the body of the append loop: `state[event.tid][eventid].append(event)` -/
def appendBody : Stmt := .append (.index (.index (.var 1) evTid) (.var 2)) (.var 0) .done

/-- the local variables of a `_feed_*` method: `event` = v0, `state` = v1 -/
structure EnvOK (env : Env) (e : Kevent) (d : Bool) : Prop where
  ev : env 0 = some (.event e)
  st : env 1 = some (.table d)

theorem EnvOK.set {env : Env} {e : Kevent} {d : Bool} (h : EnvOK env e d) (i : Nat) (hi : 2 ≤ i) (v : Val) :
    EnvOK (env.set i v) e d := by
  constructor
  · have : ¬ 0 = i := by omega
    simp [Env.set, this, h.ev]
  · have : ¬ 1 = i := by omega
    simp [Env.set, this, h.st]

variable (acts : List (Nat × Meth)) (cfg : Cfg) (callee : Callee)

theorem exec_appendBody {env : Env} {w : World} {e : Kevent} {d : Bool} (henv : EnvOK env e d) {k : Nat}
    {m : Inner} {l : List Kevent} (hk : env 2 = some (.int k))
    (hm : AList.lookup e.tid (w.tbl d) = some m) (hl : AList.lookup k m = some l) :
    exec acts cfg callee appendBody env w =
      .ok (.normal, env, w.setTbl d (AList.set e.tid (AList.set k (l ++ [e]) m) (w.tbl d))) := by
  simp [appendBody, exec, eval, evTid, henv.ev, henv.st, hk, evalField, evalIndex, AList.contains, hm, hl]


theorem AList.set_lookup_self {β : Type} {k : Nat} {v : β} {m : AList β} (h : AList.lookup k m = some v) :
    AList.set k v m = m := by
  induction m with
  | nil => simp [AList.lookup] at h
  | cons p r ih =>
    obtain ⟨a, b⟩ := p
    by_cases ha : a = k
    · subst ha
      simp only [AList.lookup, if_true, Option.some.injEq] at h
      simp [AList.set, h]
    · have : AList.lookup k r = some v := by simpa [AList.lookup, ha] using h
      simp [AList.set, ha, ih this]

theorem setTbl_tbl (w : World) (d : Bool) : w.setTbl d (w.tbl d) = w := by cases d <;> rfl

theorem mapOn_nil (e : Kevent) (m : Inner) : mapOn [] e m = m := by simp [mapOn]

theorem forLoop_append {e : Kevent} {d : Bool} (ks : List Nat) :
    ∀ {env : Env} {w : World} {m : Inner}, EnvOK env e d → AList.lookup e.tid (w.tbl d) = some m →
      (AList.keys m).Nodup → (∀ k ∈ ks, k ∈ AList.keys m) → ks.Nodup →
      ∃ env', EnvOK env' e d ∧
        forLoop (fun env w => exec acts cfg callee appendBody env w) 2 (.inner d e.tid) (AList.keys m) ks env w =
          .ok (.normal, env', w.setTbl d (AList.set e.tid (mapOn ks e m) (w.tbl d))) := by
  induction ks with
  | nil =>
    intro env w m henv hm _ _ _
    exact ⟨env, henv, by simp [forLoop, mapOn_nil, AList.set_lookup_self hm, setTbl_tbl]⟩
  | cons k ks ih =>
    intro env w m henv hm hnd hks hksnd
    have hk : k ∈ AList.keys m := hks k (by simp)
    obtain ⟨l, hl⟩ := Option.isSome_iff_exists.1 ((AList.mem_keys_iff k m).1 hk)
    have henv1 := henv.set 2 (Nat.le_refl 2) (.int k)
    have hb := exec_appendBody acts cfg callee henv1 (k := k) (by simp [Env.set]) hm hl
    have hkeys : AList.keys (AList.set k (l ++ [e]) m) = AList.keys m := AList.keys_set_of_mem _ hk
    simp only [List.nodup_cons] at hksnd
    obtain ⟨env', henv', h'⟩ := ih (env := env.set 2 (.int k))
      (w := w.setTbl d (AList.set e.tid (AList.set k (l ++ [e]) m) (w.tbl d)))
      (m := AList.set k (l ++ [e]) m) henv1 (by simp [AList.lookup_set_self])
      (by rw [hkeys]; exact hnd) (by intro k' hk'; rw [hkeys]; exact hks k' (by simp [hk'])) hksnd.2
    refine ⟨env', henv', ?_⟩
    rw [hkeys] at h'
    simp only [forLoop, hb, iterKeys, tbl_setTbl_same, AList.lookup_set_self, hkeys, if_true, h',
      setTbl_setTbl, AList.set_set, mapOn_set ks e k l m hnd hl hksnd.1]

/-- `e` appended to every list of `d[t]`. -/
def appendInner (e : Kevent) (m : Inner) : Inner := m.map fun p => (p.1, p.2 ++ [e])

/-- Heap effect of `for eventid in state.get(t, {}): state[t][eventid].append(e)`. -/
def hAppend (w : World) (d : Bool) (t : Nat) (e : Kevent) : World :=
  match AList.lookup t (w.tbl d) with
  | some m => w.setTbl d (AList.set t (appendInner e m) (w.tbl d))
  | none => w

theorem exec_forKeys (v : Nat) (it : Expr) (body next : Stmt) (env : Env) (w : World) :
    exec acts cfg callee (.forKeys v it body next) env w =
      match eval cfg w env it with
      | .error x => .error x
      | .ok itv =>
        match iterKeys w itv with
        | .error x => .error x
        | .ok ks =>
          match forLoop (fun env w => exec acts cfg callee body env w) v itv ks ks env w with
          | .ok (.normal, env', w') => exec acts cfg callee next env' w'
          | r => r := by
  rw [exec]
  rfl

theorem exec_appendLoop_index {env : Env} {w : World} {e : Kevent} {d : Bool} {m : Inner} (next : Stmt)
    (henv : EnvOK env e d) (hm : AList.lookup e.tid (w.tbl d) = some m) (hnd : (AList.keys m).Nodup) :
    ∃ env', EnvOK env' e d ∧
      exec acts cfg callee (appendLoop (.index (.var 1) evTid) next) env w =
        exec acts cfg callee next env' (w.setTbl d (AList.set e.tid (appendInner e m) (w.tbl d))) := by
  obtain ⟨env', henv', h⟩ := forLoop_append acts cfg callee (AList.keys m) henv hm hnd (fun _ h => h) hnd
  refine ⟨env', henv', ?_⟩
  have hit : eval cfg w env (.index (.var 1) evTid) = .ok (.inner d e.tid) := by
    simp [eval, evTid, henv.ev, henv.st, evalField, evalIndex, AList.contains, hm]
  rw [mapOn_keys] at h
  show exec acts cfg callee (.forKeys 2 _ appendBody next) env w = _
  rw [exec_forKeys]
  simp only [hit, iterKeys, hm, h, appendInner]

theorem exec_appendLoop_get {env : Env} {w : World} {e : Kevent} {d : Bool} (next : Stmt)
    (henv : EnvOK env e d) (hwf : ∀ m, AList.lookup e.tid (w.tbl d) = some m → (AList.keys m).Nodup) :
    ∃ env', EnvOK env' e d ∧
      exec acts cfg callee (appendLoop (.getOrEmpty (.var 1) evTid) next) env w =
        exec acts cfg callee next env' (hAppend w d e.tid e) := by
  cases hm : AList.lookup e.tid (w.tbl d) with
  | none =>
    refine ⟨env, henv, ?_⟩
    simp [appendLoop, exec, eval, evTid, henv.ev, henv.st, evalField, evalGet, AList.contains, hm, iterKeys,
      forLoop, hAppend]
  | some m =>
    obtain ⟨env', henv', h⟩ := forLoop_append acts cfg callee (AList.keys m) henv hm (hwf m hm) (fun _ h => h) (hwf m hm)
    refine ⟨env', henv', ?_⟩
    have hit : eval cfg w env (.getOrEmpty (.var 1) evTid) = .ok (.inner d e.tid) := by
      simp [eval, evTid, henv.ev, henv.st, evalField, evalGet, AList.contains, hm]
    rw [mapOn_keys] at h
    show exec acts cfg callee (.forKeys 2 _ appendBody next) env w = _
    rw [exec_forKeys]
    simp only [hit, iterKeys, hm, h, hAppend, appendInner]

/-! ### C. the five methods -/
section methods
variable (cfg : Cfg)

/-- What `parse_event_list(l)` does, as a function of the heap. -/
def hPel (l : List Kevent) (w : World) : Except PyErr (Val × World) :=
  match l with
  | [] => .error .indexError
  | x :: _ =>
    .ok ((match cfg.codes x.eventid with
          | some nm => if cfg.hasHandler nm then Val.result nm l else Val.none
          | none => Val.none),
         { w with calls := w.calls ++ [l] })

theorem invoke_pel (n : Nat) (l : List Kevent) (w : World) :
    invoke prog cfg (n + 1) .parseEventList [.list l] w = hPel cfg l w := by
  cases l with
  | nil =>
    simp [invoke, prog, Prog.method, parseEventList, Val.storable, exec, eval, firstEid, Env.ofArgs, evalIndex,
      hPel, finish]
  | cons x xs =>
    cases hc : cfg.codes x.eventid with
    | none =>
      simp [invoke, prog, Prog.method, parseEventList, Val.storable, exec, eval, firstEid, Env.ofArgs, evalIndex,
        evalField, evalIn, hPel, hc, finish]
    | some nm =>
      cases hh : cfg.hasHandler nm <;>
      simp [invoke, prog, Prog.method, parseEventList, Val.storable, exec, eval, firstEid, Env.ofArgs, evalIndex,
        evalField, evalIn, hPel, hc, hh, doCall, finish]


/-- Unique keys: the two tables and every `table[tid]` are Python dicts. -/
def WF (w : World) : Prop :=
  ∀ d, (AList.keys (w.tbl d)).Nodup ∧ ∀ t m, AList.lookup t (w.tbl d) = some m → (AList.keys m).Nodup

/-- Heap after `_feed_start_event(e, table d)`. -/
def hStart (w : World) (d : Bool) (e : Kevent) : World :=
  w.setTbl d (AList.set e.tid
    (appendInner e (AList.set e.eventid [] ((AList.lookup e.tid (w.tbl d)).getD []))) (w.tbl d))

theorem envOK_ofArgs (e : Kevent) (d : Bool) : EnvOK (Env.ofArgs [.event e, .table d]) e d :=
  ⟨by simp [Env.ofArgs], by simp [Env.ofArgs]⟩

theorem exec_startRest (acts : List (Nat × Meth)) (callee : Callee) {env : Env} {w : World} {e : Kevent} {d : Bool}
    {m : Inner} (henv : EnvOK env e d) (hm : AList.lookup e.tid (w.tbl d) = some m) (hnd : (AList.keys m).Nodup) :
    ∃ env', exec acts cfg callee startRest env w =
      .ok (.ret .none, env', w.setTbl d (AList.set e.tid (appendInner e (AList.set e.eventid [] m)) (w.tbl d))) := by
  have hm1 : AList.lookup e.tid ((w.setTbl d (AList.set e.tid (AList.set e.eventid [] m) (w.tbl d))).tbl d) =
      some (AList.set e.eventid [] m) := by simp [AList.lookup_set_self]
  obtain ⟨env', _, h⟩ := exec_appendLoop_index acts cfg callee (.ret .none) henv hm1 (AList.nodup_keys_set _ _ hnd)
  refine ⟨env', ?_⟩
  have hd : eval cfg w env (.index (.var 1) evTid) = .ok (.inner d e.tid) := by
    simp [eval, evTid, henv.ev, henv.st, evalField, evalIndex, AList.contains, hm]
  have hk : eval cfg w env evEid = .ok (.int e.eventid) := by simp [eval, evEid, henv.ev, evalField]
  rw [startRest, exec]
  simp only [hd, hk, hm, h]
  simp [exec, eval, AList.set_set]

theorem invoke_succ (p : Prog) (n : Nat) (m : Meth) (args : List Val) (w : World)
    (hlen : args.length = (p.method m).params) (hst : args.all Val.storable = true) (hm : m ≠ .parseEventList) :
    invoke p cfg (n + 1) m args w =
      finish (exec p.actions cfg (invoke p cfg n) (p.method m).body (Env.ofArgs args) w) := by
  cases m <;> first | exact absurd rfl hm | simp [invoke, hlen, hst]

theorem exec_feedStart (acts : List (Nat × Meth)) (callee : Callee) {env : Env} {w : World} {e : Kevent} {d : Bool}
    (henv : EnvOK env e d) (hwf : WF w) :
    ∃ env', exec acts cfg callee feedStart.body env w = .ok (.ret .none, env', hStart w d e) := by
  have hk : eval cfg w env evTid = .ok (.int e.tid) := by simp [eval, evTid, henv.ev, evalField]
  have hd : eval cfg w env (.var 1) = .ok (.table d) := by simp [eval, henv.st]
  cases hm : AList.lookup e.tid (w.tbl d) with
  | some m =>
    obtain ⟨env', h⟩ := exec_startRest cfg acts callee henv hm ((hwf d).2 _ _ hm)
    have hc : eval cfg w env (.isIn evTid (.var 1)) = .ok (.bool true) := by
      simp [eval, evTid, henv.ev, henv.st, evalField, evalIn, AList.contains, hm]
    refine ⟨env', ?_⟩
    rw [feedStart, exec]
    simp only [hc, h, hStart, hm, Option.getD_some]
  | none =>
    have hm0 : AList.lookup e.tid ((w.setTbl d (AList.set e.tid [] (w.tbl d))).tbl d) = some [] := by
      simp [AList.lookup_set_self]
    obtain ⟨env', h⟩ := exec_startRest cfg acts callee henv hm0 (by simp [AList.keys])
    have hc : eval cfg w env (.isIn evTid (.var 1)) = .ok (.bool false) := by
      simp [eval, evTid, henv.ev, henv.st, evalField, evalIn, AList.contains, hm]
    refine ⟨env', ?_⟩
    rw [feedStart, exec]
    simp only [hc]
    rw [exec]
    simp only [hd, hk, h, hStart, hm, Option.getD_none, tbl_setTbl_same, setTbl_setTbl, AList.set_set]

theorem invoke_start (n : Nat) (w : World) (e : Kevent) (d : Bool) (hwf : WF w) :
    invoke prog cfg (n + 1) .feedStart [.event e, .table d] w = .ok (.none, hStart w d e) := by
  obtain ⟨env', h⟩ := exec_feedStart cfg prog.actions (invoke prog cfg n) (envOK_ofArgs e d) hwf
  rw [invoke_succ cfg prog n .feedStart _ w rfl rfl (by decide)]
  show finish (exec prog.actions cfg (invoke prog cfg n) feedStart.body _ w) = _
  rw [h]; rfl

/-- What `_feed_end_event(e, table d)` does. -/
def hEnd (w : World) (d : Bool) (e : Kevent) : Except PyErr (Val × World) :=
  match AList.lookup e.tid (w.tbl d) with
  | none => .ok (.none, w)
  | some m =>
    match AList.lookup e.eventid m with
    | none => .ok (.none, w)
    | some l =>
      hPel cfg (l ++ [e]) (w.setTbl d (AList.set e.tid (AList.erase e.eventid (appendInner e m)) (w.tbl d)))

/-- What `_feed_single_event(e, table d)` does. -/
def hSingle (w : World) (d : Bool) (e : Kevent) : Except PyErr (Val × World) :=
  hPel cfg [e] (hAppend w d e.tid e)

theorem finish_exec_feedEnd (acts : List (Nat × Meth)) (callee : Callee)
    (hcallee : ∀ l w, callee .parseEventList [.list l] w = hPel cfg l w)
    {env : Env} {w : World} {e : Kevent} {d : Bool} (henv : EnvOK env e d) (hwf : WF w) :
    finish (exec acts cfg callee feedEnd.body env w) = hEnd cfg w d e := by
  have hk : eval cfg w env evTid = .ok (.int e.tid) := by simp [eval, evTid, henv.ev, evalField]
  cases hm : AList.lookup e.tid (w.tbl d) with
  | none =>
    have hc : eval cfg w env (.isIn evTid (.var 1)) = .ok (.bool false) := by
      simp [eval, evTid, henv.ev, henv.st, evalField, evalIn, AList.contains, hm]
    rw [feedEnd, exec]
    simp only [hc]
    simp [exec, eval, finish, hEnd, hm]
  | some m =>
    have hc : eval cfg w env (.isIn evTid (.var 1)) = .ok (.bool true) := by
      simp [eval, evTid, henv.ev, henv.st, evalField, evalIn, AList.contains, hm]
    cases hl : AList.lookup e.eventid m with
    | none =>
      have hc2 : eval cfg w env (.isIn evEid (.index (.var 1) evTid)) = .ok (.bool false) := by
        simp [eval, evTid, evEid, henv.ev, henv.st, evalField, evalIn, evalIndex, AList.contains, hm, hl]
      rw [feedEnd, exec]
      simp only [hc]
      rw [exec]
      simp only [hc2]
      simp [exec, eval, finish, hEnd, hm, hl]
    | some l =>
      have hc2 : eval cfg w env (.isIn evEid (.index (.var 1) evTid)) = .ok (.bool true) := by
        simp [eval, evTid, evEid, henv.ev, henv.st, evalField, evalIn, evalIndex, AList.contains, hm, hl]
      obtain ⟨env', henv', h⟩ := exec_appendLoop_index acts cfg callee
        (.pop 3 (.index (.var 1) evTid) evEid (.retCall (.self .parseEventList (.var 3)))) henv hm ((hwf d).2 _ _ hm)
      rw [feedEnd, exec]
      simp only [hc]
      rw [exec]
      simp only [hc2, h]
      have hl' : AList.lookup e.eventid (appendInner e m) = some (l ++ [e]) := by
        rw [appendInner, AList.lookup_map_val (fun l => l ++ [e]), hl]; rfl
      simp [exec, eval, evTid, evEid, henv'.ev, henv'.st, evalField, evalIndex, AList.contains,
        AList.lookup_set_self, hl', doCall, Env.set, hcallee, finish, hEnd, hm, hl, AList.set_set]
      cases hPel cfg (l ++ [e]) _ <;> rfl


theorem finish_exec_feedSingle (acts : List (Nat × Meth)) (callee : Callee)
    (hcallee : ∀ l w, callee .parseEventList [.list l] w = hPel cfg l w)
    {env : Env} {w : World} {e : Kevent} {d : Bool} (henv : EnvOK env e d) (hwf : WF w) :
    finish (exec acts cfg callee feedSingle.body env w) = hSingle cfg w d e := by
  obtain ⟨env', henv', h⟩ := exec_appendLoop_get acts cfg callee
    (.retCall (.self .parseEventList (.list1 (.var 0)))) henv (fun m hm => (hwf d).2 _ _ hm)
  rw [feedSingle]
  simp only [h]
  simp [exec, doCall, eval, henv'.ev, hcallee, hSingle, finish, hPel]

theorem invoke_end (n : Nat) (w : World) (e : Kevent) (d : Bool) (hwf : WF w) :
    invoke prog cfg (n + 2) .feedEnd [.event e, .table d] w = hEnd cfg w d e := by
  rw [invoke_succ cfg prog (n + 1) .feedEnd _ w rfl rfl (by decide)]
  exact finish_exec_feedEnd cfg prog.actions _ (invoke_pel cfg n) (envOK_ofArgs e d) hwf

theorem invoke_single (n : Nat) (w : World) (e : Kevent) (d : Bool) (hwf : WF w) :
    invoke prog cfg (n + 2) .feedSingle [.event e, .table d] w = hSingle cfg w d e := by
  rw [invoke_succ cfg prog (n + 1) .feedSingle _ w rfl rfl (by decide)]
  exact finish_exec_feedSingle cfg prog.actions _ (invoke_pel cfg n) (envOK_ofArgs e d) hwf

/-- `domOf`: the event uses `self.on_going_traces` iff its code is known and its name is in `trace_handlers`. -/
def domOf (eid : Nat) : Bool :=
  match cfg.codes eid with
  | some nm => cfg.isTraceName nm
  | none => false

/-- `dec`: `eid in self.trace_codes and self.trace_codes[eid] in self.handlers`. -/
def dec (eid : Nat) : Bool :=
  match cfg.codes eid with
  | some nm => cfg.hasHandler nm
  | none => false

/-- What `feed(e)` does, as a function of the heap. -/
def hFeed (w : World) (e : Kevent) : Except PyErr (Val × World) :=
  if e.qual = 1 then .ok (.none, hStart w (domOf cfg e.eventid) e)
  else if e.qual = 2 then hEnd cfg w (domOf cfg e.eventid) e
  else if e.qual = 3 ∨ e.qual = 0 then hSingle cfg w (domOf cfg e.eventid) e
  else .error .keyError

theorem exec_dispatch (callee : Callee) (env : Env) (w : World) (e : Kevent) (henv : env 0 = some (.event e))
    (a : Attr) (d : Bool) (ha : eval cfg w env (.selfAttr a) = .ok (.table d)) :
    exec actions cfg callee (dispatch a) env w =
      match actions.lookup e.qual with
      | none => .error .keyError
      | some m => match callee m [.event e, .table d] w with
        | .ok (v, w') => .ok (.ret v, env, w')
        | .error x => .error x := by
  rw [dispatch, exec, doCall]
  have hq : eval cfg w env evQual = .ok (.int e.qual) := by simp [eval, evQual, henv, evalField]
  have h0 : eval cfg w env (.var 0) = .ok (.event e) := by simp [eval, henv]
  simp only [hq, h0, ha]
  cases actions.lookup e.qual <;> rfl

theorem feed_eq_hFeed (w : World) (e : Kevent) (hwf : WF w) : feed prog cfg w e = hFeed cfg w e := by
  rw [feed, invoke_succ cfg prog 2 .feed _ w rfl rfl (by decide)]
  have henv : (Env.ofArgs [Val.event e]) 0 = some (.event e) := by simp [Env.ofArgs]
  have key : ∀ (a : Attr) (d : Bool), eval cfg w (Env.ofArgs [Val.event e]) (.selfAttr a) = .ok (.table d) →
      finish (exec actions cfg (invoke prog cfg 2) (dispatch a) (Env.ofArgs [Val.event e]) w) =
        (if e.qual = 1 then .ok (.none, hStart w d e) else if e.qual = 2 then hEnd cfg w d e
         else if e.qual = 3 ∨ e.qual = 0 then hSingle cfg w d e else .error .keyError) := by
    intro a d ha
    rw [exec_dispatch cfg _ _ w e henv a d ha]
    by_cases h1 : e.qual = 1
    · simp [actions, h1, invoke_start cfg 1 w e d hwf, finish]
    · by_cases h2 : e.qual = 2
      · simp [actions, List.lookup, h2, invoke_end cfg 0 w e d hwf]
        cases hEnd cfg w d e with
        | error x => rfl
        | ok r => obtain ⟨v, w'⟩ := r; rfl
      · by_cases h3 : e.qual = 3
        · simp [actions, List.lookup, h3, invoke_single cfg 0 w e d hwf]
          cases hSingle cfg w d e with
          | error x => rfl
          | ok r => obtain ⟨v, w'⟩ := r; rfl
        · by_cases h0 : e.qual = 0
          · simp [actions, List.lookup, h0, invoke_single cfg 0 w e d hwf]
            cases hSingle cfg w d e with
            | error x => rfl
            | ok r => obtain ⟨v, w'⟩ := r; rfl
          · have b1 : (e.qual == 1) = false := by simp [h1]
            have b2 : (e.qual == 2) = false := by simp [h2]
            have b3 : (e.qual == 3) = false := by simp [h3]
            have b0 : (e.qual == 0) = false := by simp [h0]
            simp [actions, List.lookup, h1, h2, h3, h0, b1, b2, b3, b0, finish]
  show finish (exec actions cfg (invoke prog cfg 2) Expected.feed.body _ w) = _
  rw [Expected.feed, exec]
  cases hc : cfg.codes e.eventid with
  | none =>
    have h1 : eval cfg w (Env.ofArgs [Val.event e]) (.isIn evEid (.selfAttr .traceCodes)) = .ok (.bool false) := by
      simp [eval, evEid, henv, evalField, evalIn, hc]
    simp only [h1]
    rw [key .onGoingEvents false (by simp [eval])]
    simp [hFeed, domOf, hc]
  | some nm =>
    have h1 : eval cfg w (Env.ofArgs [Val.event e]) (.isIn evEid (.selfAttr .traceCodes)) = .ok (.bool true) := by
      simp [eval, evEid, henv, evalField, evalIn, hc]
    simp only [h1]
    rw [exec]
    cases ht : cfg.isTraceName nm with
    | false =>
      have h2 : eval cfg w (Env.ofArgs [Val.event e]) (.isIn (.index (.selfAttr .traceCodes) evEid) .traceHandlers) =
          .ok (.bool false) := by
        simp [eval, evEid, henv, evalField, evalIn, evalIndex, hc, ht]
      simp only [h2]
      rw [key .onGoingEvents false (by simp [eval])]
      simp [hFeed, domOf, hc, ht]
    | true =>
      have h2 : eval cfg w (Env.ofArgs [Val.event e]) (.isIn (.index (.selfAttr .traceCodes) evEid) .traceHandlers) =
          .ok (.bool true) := by
        simp [eval, evEid, henv, evalField, evalIn, evalIndex, hc, ht]
      simp only [h2]
      rw [key .onGoingTraces true (by simp [eval])]
      simp [hFeed, domOf, hc, ht]

/-! ### the abstraction to `Pairing.PState` -/

/-- The abstraction: a key `(dom, tid, eid)` is present iff `tid in table_dom and eid in table_dom[tid]`, with the
    list stored there. -/
def abs (w : World) : Pairing.PState :=
  fun k => (AList.lookup k.tid (w.tbl k.dom)).bind (AList.lookup k.eid)

theorem abs_empty : abs World.empty = Pairing.PState.empty := by
  funext k; obtain ⟨d, t, i⟩ := k; cases d <;> rfl

theorem lookup_appendInner (e : Kevent) (k : Nat) (m : Inner) :
    AList.lookup k (appendInner e m) = (AList.lookup k m).map (· ++ [e]) := by
  rw [appendInner, AList.lookup_map_val (fun l => l ++ [e])]

theorem keys_appendInner (e : Kevent) (m : Inner) : AList.keys (appendInner e m) = AList.keys m := by
  rw [appendInner, AList.keys_map_val (fun l => l ++ [e])]

/-- replacing `table_d[t]` by `m'` -/
theorem abs_setInner (w : World) (d : Bool) (t : Nat) (m' : Inner) (k : Pairing.Key) :
    abs (w.setTbl d (AList.set t m' (w.tbl d))) k =
      if k.dom = d ∧ k.tid = t then AList.lookup k.eid m' else abs w k := by
  obtain ⟨kd, kt, ke⟩ := k
  by_cases hd : kd = d
  · subst hd
    by_cases ht : kt = t
    · subst ht; simp [abs, AList.lookup_set_self]
    · simp [abs, AList.lookup_set_ne ht, ht]
  · simp [abs, tbl_setTbl_ne w hd, hd]

theorem wf_setInner {w : World} (hwf : WF w) (d : Bool) (t : Nat) {m' : Inner} (hm' : (AList.keys m').Nodup) :
    WF (w.setTbl d (AList.set t m' (w.tbl d))) := by
  intro d'
  by_cases hd : d' = d
  · subst hd
    rw [tbl_setTbl_same]
    refine ⟨AList.nodup_keys_set _ _ (hwf d').1, ?_⟩
    intro t' m hm
    by_cases ht : t' = t
    · subst ht
      rw [AList.lookup_set_self] at hm
      cases hm; exact hm'
    · rw [AList.lookup_set_ne ht] at hm
      exact (hwf d').2 _ _ hm
  · rw [tbl_setTbl_ne w hd]; exact hwf d'

theorem wf_calls {w : World} (hwf : WF w) (c : List (List Kevent)) : WF { w with calls := c } := by
  intro d; cases d
  · exact hwf false
  · exact hwf true

theorem abs_calls (w : World) (c : List (List Kevent)) : abs { w with calls := c } = abs w := by
  funext k; obtain ⟨d, t, i⟩ := k; cases d <;> rfl

theorem abs_hAppend (w : World) (d : Bool) (t : Nat) (e : Kevent) :
    abs (hAppend w d t e) = Pairing.appendAll (abs w) d t e := by
  funext k
  unfold hAppend
  cases hm : AList.lookup t (w.tbl d) with
  | none =>
    simp only [Pairing.appendAll]
    split
    · next h => obtain ⟨kd, kt, ke⟩ := k; simp only at h; obtain ⟨rfl, rfl⟩ := h; simp [abs, hm]
    · rfl
  | some m =>
    simp only [abs_setInner, Pairing.appendAll]
    split
    · next h =>
      obtain ⟨kd, kt, ke⟩ := k; simp only at h; obtain ⟨rfl, rfl⟩ := h
      simp [abs, hm, lookup_appendInner]
    · rfl

theorem wf_hAppend {w : World} (hwf : WF w) (d : Bool) (t : Nat) (e : Kevent) : WF (hAppend w d t e) := by
  unfold hAppend
  cases hm : AList.lookup t (w.tbl d) with
  | none => exact hwf
  | some m => exact wf_setInner hwf d t (by rw [keys_appendInner]; exact (hwf d).2 _ _ hm)

theorem abs_hStart (w : World) (d : Bool) (e : Kevent) :
    abs (hStart w d e) =
      Pairing.appendAll (Pairing.set (abs w) ⟨d, e.tid, e.eventid⟩ (some [])) d e.tid e := by
  funext k
  simp only [hStart, abs_setInner, Pairing.appendAll, Pairing.set]
  split
  · next h =>
    obtain ⟨kd, kt, ke⟩ := k; simp only at h; obtain ⟨rfl, rfl⟩ := h
    rw [lookup_appendInner]
    by_cases hke : ke = e.eventid
    · subst hke; simp [AList.lookup_set_self]
    · have : ¬ (Pairing.Key.mk kd e.tid ke = ⟨kd, e.tid, e.eventid⟩) := by simp [hke]
      rw [AList.lookup_set_ne hke]
      simp only [this, if_false, abs]
      cases AList.lookup e.tid (w.tbl kd) <;> simp [AList.lookup]
  · next h =>
    have : ¬ (k = ⟨d, e.tid, e.eventid⟩) := by
      intro hk; subst hk; exact h ⟨rfl, rfl⟩
    simp [this]

theorem wf_hStart {w : World} (hwf : WF w) (d : Bool) (e : Kevent) : WF (hStart w d e) := by
  refine wf_setInner hwf d e.tid ?_
  rw [keys_appendInner]
  apply AList.nodup_keys_set
  cases hm : AList.lookup e.tid (w.tbl d) with
  | none => simp [AList.keys]
  | some m => exact (hwf d).2 _ _ hm

/-! ### refinement -/

/-- The name under which the handler of a window is looked up: `trace_codes[events[0].eventid]`. -/
def handlerName (v : List Kevent) : Nat :=
  match v with
  | x :: _ => (cfg.codes x.eventid).getD 0
  | [] => 0

/-- The value `feed` returns when the list `o` (if any) was handed to `parse_event_list`: `None`, or the result of
    the handler that `Pairing.gate` lets through. -/
def retOf : Option (List Kevent) → Val
  | none => .none
  | some l =>
    match Pairing.gate (dec cfg) l with
    | .ok (some v) => .result (handlerName cfg v) v
    | _ => .none

theorem hPel_eq_gate (l : List Kevent) (w : World) :
    hPel cfg l w =
      match Pairing.gate (dec cfg) l with
      | .error x => .error x
      | .ok none => .ok (.none, { w with calls := w.calls ++ [l] })
      | .ok (some v) => .ok (.result (handlerName cfg v) v, { w with calls := w.calls ++ [l] }) := by
  cases l with
  | nil => rfl
  | cons x xs =>
    cases hc : cfg.codes x.eventid with
    | none => simp [hPel, Pairing.gate, dec, hc]
    | some nm => cases hh : cfg.hasHandler nm <;> simp [hPel, Pairing.gate, dec, hc, hh, handlerName]

theorem hPel_cons (x : Kevent) (xs : List Kevent) (w : World) :
    hPel cfg (x :: xs) w = .ok (retOf cfg (some (x :: xs)), { w with calls := w.calls ++ [x :: xs] }) := by
  rw [hPel_eq_gate]
  simp only [retOf, Pairing.gate]
  split <;> simp_all

theorem hFeed_refines (w : World) (e : Kevent) (hwf : WF w) (hq : e.qual < 4) :
    ∃ w', hFeed cfg w e = .ok (retOf cfg (Pairing.step (domOf cfg) (abs w) e).2, w') ∧ WF w' ∧
      abs w' = (Pairing.step (domOf cfg) (abs w) e).1 ∧
      w'.calls = w.calls ++ (Pairing.step (domOf cfg) (abs w) e).2.toList := by
  by_cases h1 : e.qual = 1
  · rw [Pairing.step_start _ _ _ h1]
    refine ⟨hStart w (domOf cfg e.eventid) e, by simp [hFeed, h1, retOf], wf_hStart hwf _ _, ?_, ?_⟩
    · rw [abs_hStart]; rfl
    · simp [hStart]
  · by_cases h2 : e.qual = 2
    · have hk : abs w (Pairing.keyOf (domOf cfg) e) =
          (AList.lookup e.tid (w.tbl (domOf cfg e.eventid))).bind (AList.lookup e.eventid) := rfl
      cases hm : AList.lookup e.tid (w.tbl (domOf cfg e.eventid)) with
      | none =>
        rw [hm] at hk
        rw [Pairing.step_end_closed _ _ _ h2 hk]
        exact ⟨w, by simp [hFeed, h2, hEnd, hm, retOf], hwf, rfl, by simp⟩
      | some m =>
        rw [hm] at hk
        cases hl : AList.lookup e.eventid m with
        | none =>
          rw [Option.bind_some, hl] at hk
          rw [Pairing.step_end_closed _ _ _ h2 hk]
          exact ⟨w, by simp [hFeed, h2, hEnd, hm, hl, retOf], hwf, rfl, by simp⟩
        | some l =>
          rw [Option.bind_some, hl] at hk
          rw [Pairing.step_end_open _ _ _ l h2 hk]
          have hne : l ++ [e] ≠ [] := by simp
          obtain ⟨x, xs, hx⟩ := List.exists_cons_of_ne_nil hne
          have hnd := (hwf (domOf cfg e.eventid)).2 _ _ hm
          have hfe : hFeed cfg w e = hEnd cfg w (domOf cfg e.eventid) e := by simp [hFeed, h2]
          refine ⟨_, by rw [hfe]; simp only [hEnd, hm, hl]; rw [hx, hPel_cons], ?_, ?_, ?_⟩
          · apply wf_calls
            exact wf_setInner hwf _ _ (AList.nodup_keys_erase _ (by rw [keys_appendInner e m]; exact hnd))
          · rw [abs_calls]
            funext k
            rw [abs_setInner]
            have happ := abs_hAppend w (domOf cfg e.eventid) e.tid e
            simp only [hAppend, hm] at happ
            simp only [Pairing.set]
            by_cases hkk : k = Pairing.keyOf (domOf cfg) e
            · subst hkk
              have her : AList.lookup e.eventid (AList.erase e.eventid (appendInner e m)) = none :=
                AList.lookup_erase_self _ (by rw [keys_appendInner e m]; exact hnd)
              simp [Pairing.keyOf, her]
            · simp only [hkk, if_false]
              rw [← happ, abs_setInner]
              split
              · next h =>
                have : k.eid ≠ e.eventid := by
                  intro he; apply hkk
                  obtain ⟨kd, kt, ke⟩ := k
                  simp only at h he; obtain ⟨rfl, rfl⟩ := h; subst he; rfl
                rw [AList.lookup_erase_ne this]
              · rfl
          · simp [hx]
    · have hq' : e.qual = 3 ∨ e.qual = 0 := by omega
      rw [Pairing.step_single _ _ _ h1 h2]
      have hfe : hFeed cfg w e = hSingle cfg w (domOf cfg e.eventid) e := by simp [hFeed, h1, h2, hq']
      refine ⟨_, by rw [hfe, hSingle, hPel_cons], ?_, ?_, ?_⟩
      · exact wf_calls (wf_hAppend hwf _ _ _) _
      · rw [abs_calls, abs_hAppend]
      · simp [hAppend]; split <;> simp

theorem feed_refines_step (w : World) (e : Kevent) (hwf : WF w) (hq : e.qual < 4) :
    ∃ w', feed prog cfg w e = .ok (retOf cfg (Pairing.step (domOf cfg) (abs w) e).2, w') ∧ WF w' ∧
      abs w' = (Pairing.step (domOf cfg) (abs w) e).1 ∧
      w'.calls = w.calls ++ (Pairing.step (domOf cfg) (abs w) e).2.toList := by
  rw [feed_eq_hFeed cfg w e hwf]; exact hFeed_refines cfg w e hwf hq

theorem outputs_cons (domOf : Nat → Bool) (s : Pairing.PState) (e : Kevent) (es : List Kevent) :
    Pairing.outputs domOf s (e :: es) =
      (Pairing.step domOf s e).2 :: Pairing.outputs domOf (Pairing.step domOf s e).1 es := rfl

theorem runFrom_refines (h : List Kevent) : ∀ (w : World), WF w → (∀ e ∈ h, e.qual < 4) →
    ∃ w', runFrom prog cfg w h = .ok ((Pairing.outputs (domOf cfg) (abs w) h).map (retOf cfg), w') ∧ WF w' ∧
      abs w' = (Pairing.runFrom (domOf cfg) (abs w) h).1 ∧
      w'.calls = w.calls ++ (Pairing.runFrom (domOf cfg) (abs w) h).2 := by
  induction h with
  | nil => intro w hwf _; exact ⟨w, rfl, hwf, rfl, by simp [Pairing.runFrom]⟩
  | cons e es ih =>
    intro w hwf hq
    obtain ⟨w1, h1, hwf1, ha1, hc1⟩ := feed_refines_step cfg w e hwf (hq e (by simp))
    obtain ⟨w2, h2, hwf2, ha2, hc2⟩ := ih w1 hwf1 (fun x hx => hq x (by simp [hx]))
    refine ⟨w2, ?_, hwf2, ?_, ?_⟩
    · simp only [runFrom, h1, h2, outputs_cons, List.map_cons, ha1]
    · rw [ha2, ha1, Pairing.runFrom_cons]
    · rw [hc2, hc1, ha1, Pairing.runFrom_cons, List.append_assoc]

theorem wf_empty : WF World.empty := by
  intro d; cases d <;> exact ⟨List.nodup_nil, fun _ _ h => by simp [World.empty, World.tbl, AList.lookup] at h⟩

end methods
end KdVerif.PyIR
