-- Root of the `KdVerif` library: every property module (which pull in models, generated tables and proofs).
import KdVerif.Props.C01
import KdVerif.Props.C15
import KdVerif.Props.C09
import KdVerif.Props.C19
import KdVerif.Props.C04
import KdVerif.Props.C05
import KdVerif.Props.C12
import KdVerif.Props.C14
import KdVerif.Props.C10
import KdVerif.Props.C17
import KdVerif.Props.C16
import KdVerif.Props.C11
import KdVerif.Props.C18
import KdVerif.Props.C02
import KdVerif.Props.C03
import KdVerif.Props.C06
import KdVerif.Props.C20
