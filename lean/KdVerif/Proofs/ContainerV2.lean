import KdVerif.Proofs.Reader
import KdVerif.Spec.ContainerV2
/-
  Round trip of the v2 header, the zero-padding skipper and the record loop on `encodeV2`.
-/
namespace KdVerif
open Reader Spec

/-- a C string ends at its FIRST NUL, whatever follows it. -/
theorem takeWhile_name (name rest : Bytes) (h0 : ∀ b ∈ name, b ≠ 0) :
    (name ++ 0 :: rest).takeWhile (· ≠ 0) = name := by
  induction name with
  | nil => simp
  | cons b t ih =>
    have hb : b ≠ 0 := h0 b (by simp)
    have := ih (fun x hx => h0 x (by simp [hx]))
    simp only [List.cons_append, List.takeWhile_cons]
    simp only [hb, ne_eq, not_false_eq_true, decide_true, if_true, this]

theorem cstringOf_name (name rest : Bytes) (h0 : ∀ b ∈ name, b ≠ 0) (hu : validUtf8 name = true) :
    cstringOf (name ++ 0 :: rest) = .ok name := by
  unfold cstringOf
  simp only [takeWhile_name name rest h0, hu, if_true]
  have : ¬ name.length = (name ++ 0 :: rest).length := by simp
  simp only [this, if_false]

theorem field_length (t : V2Thread) (h : t.name.length + t.junk.length ≤ 19) : (t.name ++ t.fieldTail).length = 20 := by
  simp [V2Thread.fieldTail, zeros]; omega

def toEntry (t : V2Thread) : ThreadEntry := ⟨t.tid, t.pid, t.name⟩

theorem encodeThread_length (t : V2Thread) (h : t.name.length + t.junk.length ≤ 19) : (encodeThread t).length = 32 := by
  simp [encodeThread, toLE_length, V2Thread.fieldTail, zeros]; omega

theorem threadEntry_cont {r : Reader} {t : V2Thread} {s : Bytes} (h : r.rest = encodeThread t ++ s)
    (wf : t.WF) : ∃ r', threadEntry r = (.ok (toEntry t), r') ∧ Cont r r' s := by
  obtain ⟨h1, h2, h3, h4, h5⟩ := wf
  simp only [encodeThread, List.append_assoc] at h
  obtain ⟨r1, e1, c1⟩ := int64ul_cont h h1
  obtain ⟨r2, e2, c2⟩ := int32ul_cont c1.1 h2
  have hl : (t.name ++ t.fieldTail).length = 0x14 := field_length t h4
  have c2' : r2.rest = (t.name ++ t.fieldTail) ++ s := by rw [c2.1]; simp
  obtain ⟨r3, e3, c3⟩ := readExact_cont c2' hl
  have hc : cstringOf (t.name ++ t.fieldTail) = .ok t.name := cstringOf_name _ _ h3 h5
  refine ⟨r3, ?_, c3.1, by rw [c3.2, c2.2, c1.2]⟩
  unfold threadEntry
  rw [RM.bind_ok e1, RM.bind_ok e2]
  have : fixedCString 0x14 r2 = (.ok t.name, r3) := by
    unfold fixedCString; rw [e3]; simp only [hc]
  rw [RM.bind_ok this]; rfl

theorem arrayN_threads_cont (ts : List V2Thread) {r : Reader} {s : Bytes}
    (h : r.rest = (ts.map encodeThread).flatten ++ s) (wf : ∀ t ∈ ts, t.WF) :
    ∃ r', arrayN threadEntry ts.length r = (.ok (ts.map toEntry), r') ∧ Cont r r' s := by
  induction ts generalizing r with
  | nil => exact ⟨r, rfl, by simpa using h, rfl⟩
  | cons t ts ih =>
    simp only [List.map_cons, List.flatten_cons, List.append_assoc] at h
    obtain ⟨r1, e1, c1⟩ := threadEntry_cont h (wf t (by simp))
    obtain ⟨r2, e2, c2⟩ := ih c1.1 (fun x hx => wf x (by simp [hx]))
    refine ⟨r2, ?_, c2.1, c2.2.trans c1.2⟩
    simp only [List.length_cons, arrayN, List.map_cons]
    rw [RM.bind_ok e1, RM.bind_ok e2]; rfl

/-- The greedy zero skipper: consumes exactly the zeros in front of `tail` PROVIDED `tail` is empty or
    starts with a non-zero byte — it cannot tell padding from data (K1). -/
theorem greedyZeros_cont (p : Nat) {r : Reader} {tail : Bytes} {fuel : Nat}
    (h : r.rest = zeros p ++ tail) (ht : tail = [] ∨ tail.head? ≠ some 0 ∧ tail ≠ []) (hf : p + 1 ≤ fuel) :
    ∃ r', greedyRange constZeroByte fuel r = (.ok (List.replicate p ()), r') ∧ Cont r r' tail := by
  induction p generalizing r fuel with
  | zero =>
    obtain ⟨fuel, rfl⟩ : ∃ k, fuel = k + 1 := ⟨fuel - 1, by omega⟩
    simp only [zeros, List.replicate_zero, List.nil_append] at h
    have hfail : ∃ r1, constZeroByte r = (.error .streamError, r1) ∧ r1.data = r.data := by
      rcases ht with rfl | ⟨hh, hne⟩
      · refine ⟨(r.read 1).2, ?_, rfl⟩
        have : readExact 1 r = (.error .streamError, (r.read 1).2) := by
          rw [readExact_small (by decide)]; simp [h]
        unfold constZeroByte; rw [RM.bind_err this]
      · obtain ⟨b, t, rfl⟩ := List.exists_cons_of_ne_nil hne
        have hb : b ≠ 0 := by simpa using hh
        have h' : r.rest = [b] ++ t := by simpa using h
        obtain ⟨r1, e1, c1⟩ := readExact_cont (n := 1) h' rfl
        refine ⟨r1, ?_, c1.2⟩
        unfold constZeroByte; rw [RM.bind_ok e1]
        simp [hb]; rfl
    obtain ⟨r1, e1, d1⟩ := hfail
    refine ⟨r1.seekTo r.pos, ?_, ?_, by simp [d1]⟩
    · simp only [greedyRange, e1, List.replicate_zero]
    · simp [Reader.rest, d1]; exact h
  | succ p ih =>
    obtain ⟨fuel, rfl⟩ : ∃ k, fuel = k + 1 := ⟨fuel - 1, by omega⟩
    have h' : r.rest = [0] ++ (zeros p ++ tail) := by
      rw [h]; simp [zeros, List.replicate_succ]
    obtain ⟨r1, e1, c1⟩ := readExact_cont (n := 1) h' rfl
    have ez : constZeroByte r = (.ok (), r1) := by
      unfold constZeroByte; rw [RM.bind_ok e1]; rfl
    obtain ⟨r2, e2, c2⟩ := ih (fuel := fuel) c1.1 (by omega)
    refine ⟨r2, ?_, c2.1, c2.2.trans c1.2⟩
    simp only [greedyRange, ez, e2, List.replicate_succ]

/-- The record loop over complete records. -/
theorem recordLoop_cont {ε : Type} (dec : Bytes → Except PyErr ε) (spec : Bytes → ε) (recs : List Bytes)
    {r : Reader} {fuel : Nat} (h : r.rest = recs.flatten)
    (hd : ∀ x ∈ recs, x.length = 64 ∧ dec x = .ok (spec x)) (hf : recs.length + 1 ≤ fuel) :
    (recordLoop dec fuel r).1 = recs.map spec ∧ (recordLoop dec fuel r).2.1 = none := by
  induction recs generalizing r fuel with
  | nil =>
    obtain ⟨fuel, rfl⟩ : ∃ k, fuel = k + 1 := ⟨fuel - 1, by omega⟩
    simp only [List.flatten_nil] at h
    simp [recordLoop, h]
  | cons x xs ih =>
    obtain ⟨fuel, rfl⟩ : ∃ k, fuel = k + 1 := ⟨fuel - 1, by omega⟩
    obtain ⟨hx, hdx⟩ := hd x (by simp)
    have h' : r.rest = x ++ xs.flatten := by simpa using h
    obtain ⟨h1, c1⟩ := read_cont h'
    rw [hx] at h1 c1
    have hne : ¬ x = [] := by
      intro hh; rw [hh] at hx; simp at hx
    have := ih c1.1 (fun y hy => hd y (by simp [hy])) (by simp at hf; omega)
    simp only [recordLoop, h1, hdx, List.map_cons, this.1, this.2, hne, if_false, and_self]

end KdVerif

namespace KdVerif
open Reader Spec

/-- every byte string is some zeros followed by something that is empty or starts with a non-zero byte. -/
theorem split_zeros (l : Bytes) :
    ∃ k t, l = zeros k ++ t ∧ (t = [] ∨ t.head? ≠ some 0 ∧ t ≠ []) := by
  induction l with
  | nil => exact ⟨0, [], rfl, Or.inl rfl⟩
  | cons b l ih =>
    by_cases hb : b = 0
    · obtain ⟨k, t, e, c⟩ := ih
      exact ⟨k + 1, t, by subst hb; rw [e]; simp [zeros, List.replicate_succ], c⟩
    · exact ⟨0, b :: l, rfl, Or.inr ⟨by simpa using hb, by simp⟩⟩

theorem zeros_add (a b : Nat) : zeros a ++ zeros b = zeros (a + b) := by
  simp [zeros, List.replicate_append_replicate]

/-- the bytes of `encodeV2 f` behind the magic. -/
def v2Body (f : V2File) : Bytes :=
  toLE 4 f.threads.length ++ (zeros 8 ++ (zeros 4 ++ (toLE 4 f.is64 ++ (toLE 8 f.tick ++
    (zeros 0x100 ++ ((f.threads.map encodeThread).flatten ++ (zeros f.pad ++ f.recs.flatten)))))))

theorem headerV2_cont {r : Reader} {n is64 tick p : Nat} {ts : List V2Thread} {tail : Bytes}
    (h : r.rest = toLE 4 ts.length ++ (zeros 8 ++ (zeros 4 ++ (toLE 4 is64 ++ (toLE 8 tick ++
      (zeros 0x100 ++ ((ts.map encodeThread).flatten ++ (zeros p ++ tail))))))))
    (hn : ts.length < 2 ^ 32) (wts : ∀ t ∈ ts, t.WF) (hi : is64 < 2 ^ 32) (hk : tick < 2 ^ 64)
    (ht : tail = [] ∨ tail.head? ≠ some 0 ∧ tail ≠ []) (_hn' : n = ts.length) :
    ∃ r', headerV2 r = (.ok ⟨ts.length, is64, tick, ts.map toEntry, p⟩, r') ∧ Cont r r' tail := by
  obtain ⟨r1, e1, c1⟩ := int32ul_cont h hn
  obtain ⟨r2, e2, c2⟩ := padding_cont (n := 8) c1.1 (by simp only [zeros, List.length_replicate])
  obtain ⟨r3, e3, c3⟩ := padding_cont (n := 4) c2.1 (by simp only [zeros, List.length_replicate])
  obtain ⟨r4, e4, c4⟩ := int32ul_cont c3.1 hi
  obtain ⟨r5, e5, c5⟩ := int64ul_cont c4.1 hk
  obtain ⟨r6, e6, c6⟩ := padding_cont (n := 0x100) c5.1 (by simp only [zeros, List.length_replicate])
  obtain ⟨r7, e7, c7⟩ := arrayN_threads_cont ts c6.1 wts
  have hf : p + 1 ≤ r7.rest.length + 1 := by rw [c7.1]; simp [zeros]
  obtain ⟨r8, e8, c8⟩ := greedyZeros_cont p c7.1 ht hf
  refine ⟨r8, ?_, c8.1, ?_⟩
  · unfold headerV2
    rw [RM.bind_ok e1, RM.bind_ok e2, RM.bind_ok e3, RM.bind_ok e4, RM.bind_ok e5, RM.bind_ok e6,
      RM.bind_ok e7, RM.bind_ok (m := restFuel) (a := r7.rest.length + 1) (r' := r7) rfl, RM.bind_ok e8]
    simp
  · rw [c8.2, c7.2, c6.2, c5.2, c4.2, c3.2, c2.2, c1.2]

theorem flatten_length_64 (recs : List Bytes) (h : ∀ x ∈ recs, x.length = 64) :
    recs.flatten.length = 64 * recs.length := by
  induction recs with
  | nil => rfl
  | cons x xs ih =>
    have := ih (fun y hy => h y (by simp [hy]))
    simp only [List.flatten_cons, List.length_append, List.length_cons, this, h x (by simp)]
    omega

/-- Whatever the records are, the header of an encoded file parses and gives the file's thread map
    (the padding skipper may eat leading zero bytes of the records, but it never fails). -/
theorem parseV2_tables {ε : Type} (dec : Bytes → Except PyErr ε) (prior : Tables) (f : V2File) (wf : f.WF)
    {r : Reader} (h : r.rest = v2Body f) :
    (parseV2 dec prior r).tables = setThreadMap prior (f.threads.map toEntry) := by
  obtain ⟨hn, wts, hi, hk, _⟩ := wf
  obtain ⟨k, t, e, c⟩ := split_zeros f.recs.flatten
  have h' := h
  simp only [v2Body] at h'
  rw [e, ← List.append_assoc (zeros f.pad), zeros_add] at h'
  obtain ⟨r', e', _⟩ := headerV2_cont (n := f.threads.length) h' hn wts hi hk c rfl
  simp only [parseV2, e']

theorem parseV2_events {ε : Type} (dec : Bytes → Except PyErr ε) (spec : Bytes → ε) (prior : Tables)
    (f : V2File) (wf : f.WF) (hd : ∀ x ∈ f.recs, dec x = .ok (spec x))
    (h0 : ∀ x, f.recs.head? = some x → x.head? ≠ some 0)
    {r : Reader} (h : r.rest = v2Body f) :
    (parseV2 dec prior r).events = f.recs.map spec ∧ (parseV2 dec prior r).err = none := by
  obtain ⟨hn, wts, hi, hk, hr⟩ := wf
  have ht : f.recs.flatten = [] ∨ f.recs.flatten.head? ≠ some 0 ∧ f.recs.flatten ≠ [] := by
    cases hrecs : f.recs with
    | nil => exact Or.inl rfl
    | cons x xs =>
      right
      have hx : x.length = 64 := (hr x (by simp [hrecs])).1
      obtain ⟨b, t, rfl⟩ : ∃ b t, x = b :: t := by
        cases x with
        | nil => simp at hx
        | cons b t => exact ⟨b, t, rfl⟩
      have := h0 (b :: t) (by simp [hrecs])
      simp at this
      simp [this]
  obtain ⟨r', e', c'⟩ := headerV2_cont (n := f.threads.length) h hn wts hi hk ht rfl
  have hl := flatten_length_64 f.recs (fun x hx => (hr x hx).1)
  have hfuel : f.recs.length + 1 ≤ r'.rest.length / 64 + 2 := by
    rw [c'.1, hl]; omega
  have := recordLoop_cont dec spec f.recs (r := r') (fuel := r'.rest.length / 64 + 2) c'.1
    (fun x hx => ⟨(hr x hx).1, hd x hx⟩) hfuel
  simp only [parseV2, e', this.1, this.2, and_self]

end KdVerif
