import KdVerif.Model.ContainerV3
/-
  The Python subset of the READER code of `pykdebugparser/kd_buf_parser.py` as a deep embedding with a big-step
  interpreter — the companion of `Model/PyIR` (pairing, C04) and `Model/PyIRCs` (callstacks, C15) for the
  container readers (C02, C03, C06):

    * `seek_until(reader, data)`                                   (a procedure with one bytes parameter)
    * `KdBufParser.parse_v2`                                        (whole generator)
    * `KdBufParser.parse_v3` up to the end of the chunk loop        (header, both scans, thread map, chunk loop)
    * `KdBufParser.set_thread_map`                                  (`SetTm`)
    * `KdBufParser.parse` + the `self.versions` dict display        (`Dispatch`)

  `tools/gen_pyir_rd.py` translates the source text into terms of this IR (`Gen/PyIRRd.lean`) on every run;
  `Props/C02|C03|C06` prove that the translated code, run by this interpreter, IS `seekUntil` / `parseV2` /
  the prefix of `parseV3` / `setThreadMap` / the dispatch of `parse` of the hand model — for every byte string.

  The reader is the model's positional `Reader` (with its read counters, so the interpreted source makes the SAME
  read calls as the model).  The `construct` parsers (`kd_header_v2.parse_stream`, `Int64ul.parse_stream`, …) are
  PRIMITIVES whose meaning is the existing model function (`headerV2`, `int64ul`, …: tied to the library by the
  correspondence sections).  `from_kd_buf` is the parameter `dec`.  A `while` loop gets `unread bytes + 2`
  iterations of fuel at its entry: every loop of this code consumes at least one byte per iteration that goes on, a
  loop that does not is reported as `.hang` (that is what the pre-fix `seek_until` did at end of file).
  Outside the modelled behaviour: `.error .unmodelled`.  Core Lean only.
-/
namespace KdVerif.PyIRRd
open Gen.Consts

/-- module-level bytes constants of kd_buf_parser.py (values: `Gen/Consts`, reflected on every run) -/
inductive BConst
  | v2 | v3 | stackshotEnd | threadmapTag | eventsTag | moreEvents
  deriving DecidableEq, Repr

def BConst.val : BConst → Bytes
  | .v2 => RAW_VERSION2_BYTES
  | .v3 => RAW_VERSION3_BYTES
  | .stackshotEnd => TRACEV3_STACKSHOT_END
  | .threadmapTag => TRACEV3_THREADMAP_TAG
  | .eventsTag => TRACEV3_EVENTS_TAG
  | .moreEvents => TRACEV3_MORE_EVENTS

/-- module-level int constants -/
inductive IConst
  | keventSize | rawVersionSize
  deriving DecidableEq, Repr

def IConst.val : IConst → Nat
  | .keventSize => Gen.Consts.keventSize
  | .rawVersionSize => Gen.Consts.RAW_VERSION_SIZE

/-- bytes-valued expressions -/
inductive BE
  | var (i : Nat)
  | const (c : BConst)
  | lit (b : Bytes)
  | dropFrom (e : BE) (k : Nat)         -- `e[k:]`
  | cat (a b : BE)                      -- `a + b`
  | unsupported (src : String)
  deriving DecidableEq, Repr

/-- int-valued expressions (all values of this code are non-negative) -/
inductive IE
  | lit (n : Nat)
  | const (c : IConst)
  | var (i : Nat)
  | len (e : BE)                        -- `len(e)`
  | sub (a b : IE)                      -- `a - b` (a negative result is outside the model)
  | div (a b : IE)                      -- `a // b`
  | unsupported (src : String)
  deriving DecidableEq, Repr

inductive Cond
  | tt                                  -- `True`
  | ne (a b : BE)                       -- `a != b`
  | eq (a b : BE)
  | isEmpty (e : BE)                    -- `not e`
  | nonEmpty (e : BE)                   -- `e`
  | unsupported (src : String)
  deriving DecidableEq, Repr

/-- the `construct` parsers the code calls on the reader -/
inductive Prim
  | headerV2                            -- `kd_header_v2.parse_stream(reader)`            → the thread map
  | headerV3                            -- `Aligned(8, kd_header_v3).parse_stream(reader)` → `self.v3_header`
  | threadmapV3                         -- `kd_v3_threadmap.parse_stream(reader).threadmap`
  | int64ul                             -- `Int64ul.parse_stream(reader)`
  deriving DecidableEq, Repr

inductive Stmt
  | skip
  | seq (a b : Stmt)
  | read (v : Nat) (n : IE)             -- `v = reader.read(n)`
  | readDrop (n : IE)                   -- `reader.read(n)`
  | assign (v : Nat) (e : BE)           -- `v = e`
  | ite (c : Cond) (t e : Stmt)
  | while (c : Cond) (body : Stmt)
  | forRange (n : IE) (body : Stmt)     -- `for _ in range(n): body`
  | brk                                 -- `break`
  | raiseEof                            -- `raise EOFError(…)`
  | yieldKd (e : BE)                    -- `yield from_kd_buf(e)`
  | callSeek (e : BE)                   -- `seek_until(reader, e)`
  | prim (p : Prim) (v : Nat)           -- `v = <construct parser>(reader)` (headerV3: `self.v3_header = …`)
  | setThreadMap (v : Nat)              -- `self.set_thread_map(v)` (`v.threadmap` for the v2 header)
  | unsupported (src : String)
  deriving DecidableEq, Repr

inductive Val
  | bytes (b : Bytes)
  | int (n : Nat)
  | tmap (l : List ThreadEntry)
  deriving DecidableEq, Repr

abbrev Env := Nat → Option Val
def Env.empty : Env := fun _ => none
def Env.set (env : Env) (i : Nat) (v : Val) : Env := fun j => if j = i then some v else env j

def evalB (env : Env) : BE → Except PyErr Bytes
  | .var i => match env i with | some (.bytes b) => .ok b | _ => .error .unmodelled
  | .const c => .ok c.val
  | .lit b => .ok b
  | .dropFrom e k => match evalB env e with | .ok b => .ok (b.drop k) | .error x => .error x
  | .cat a b =>
    match evalB env a with
    | .error x => .error x
    | .ok x => match evalB env b with | .ok y => .ok (x ++ y) | .error e => .error e
  | .unsupported _ => .error .unmodelled

def evalI (env : Env) : IE → Except PyErr Nat
  | .lit n => .ok n
  | .const c => .ok c.val
  | .var i => match env i with | some (.int n) => .ok n | _ => .error .unmodelled
  | .len e => match evalB env e with | .ok b => .ok b.length | .error x => .error x
  | .sub a b =>
    match evalI env a with
    | .error x => .error x
    | .ok x => match evalI env b with
      | .ok y => if y ≤ x then .ok (x - y) else .error .unmodelled
      | .error e => .error e
  | .div a b =>
    match evalI env a with
    | .error x => .error x
    | .ok x => match evalI env b with
      | .ok y => if y = 0 then .error .unmodelled else .ok (x / y)
      | .error e => .error e
  | .unsupported _ => .error .unmodelled

def evalC (env : Env) : Cond → Except PyErr Bool
  | .tt => .ok true
  | .ne a b =>
    match evalB env a with
    | .error x => .error x
    | .ok x => match evalB env b with | .ok y => .ok (decide (x ≠ y)) | .error e => .error e
  | .eq a b =>
    match evalB env a with
    | .error x => .error x
    | .ok x => match evalB env b with | .ok y => .ok (decide (x = y)) | .error e => .error e
  | .isEmpty e => match evalB env e with | .ok b => .ok (decide (b = [])) | .error x => .error x
  | .nonEmpty e => match evalB env e with | .ok b => .ok (decide (b ≠ [])) | .error x => .error x
  | .unsupported _ => .error .unmodelled

/-- what the interpreted generator has done so far -/
structure St (ε : Type) where
  env : Env
  rd : Reader
  tables : Tables
  hdr : Option (List Nat × Bytes)       -- `self.v3_header`
  outs : List ε                         -- the values yielded so far, oldest first

inductive Signal
  | normal
  | brk
  | err (e : PyErr)
  deriving DecidableEq, Repr

/-- the meaning of what the interpreted code calls -/
structure Params (ε : Type) where
  dec : Bytes → Except PyErr ε                    -- `from_kd_buf`
  plist : Bytes → Option PView                    -- `plistlib.loads` (cpu_info of the v3 header)
  seek : Bytes → RM Unit                          -- `seek_until(reader, data)`
  setTm : Tables → List ThreadEntry → Tables      -- `self.set_thread_map(threadmap)`

def whileLoop {σ : Type} (cond : σ → Except PyErr Bool) (body : σ → Signal × σ) : Nat → σ → Signal × σ
  | 0, st => (.err .hang, st)
  | fuel + 1, st =>
    match cond st with
    | .error e => (.err e, st)
    | .ok false => (.normal, st)
    | .ok true =>
      match body st with
      | (.normal, st') => whileLoop cond body fuel st'
      | (.brk, st') => (.normal, st')
      | (.err e, st') => (.err e, st')

def forLoop {σ : Type} (body : σ → Signal × σ) : Nat → σ → Signal × σ
  | 0, st => (.normal, st)
  | n + 1, st =>
    match body st with
    | (.normal, st') => forLoop body n st'
    | (.brk, st') => (.normal, st')
    | (.err e, st') => (.err e, st')

/-- the fuel a `while` loop gets at its entry -/
def loopFuel {ε : Type} (st : St ε) : Nat := st.rd.rest.length + 2

def execPrim {ε : Type} (P : Params ε) (p : Prim) (v : Nat) (st : St ε) : Signal × St ε :=
  match p with
  | .headerV2 =>
    match headerV2 st.rd with
    | (.ok h, r) => (.normal, { st with rd := r, env := st.env.set v (.tmap h.threadmap) })
    | (.error e, r) => (.err e, { st with rd := r })
  | .headerV3 =>
    match headerV3 P.plist st.rd with
    | (.ok h, r) => (.normal, { st with rd := r, hdr := some h })
    | (.error e, r) => (.err e, { st with rd := r })
  | .threadmapV3 =>
    match prefixedBytes st.rd with
    | (.ok payload, r) => (.normal, { st with rd := r, env := st.env.set v (.tmap (greedyEntries payload)) })
    | (.error e, r) => (.err e, { st with rd := r })
  | .int64ul =>
    match int64ul st.rd with
    | (.ok n, r) => (.normal, { st with rd := r, env := st.env.set v (.int n) })
    | (.error e, r) => (.err e, { st with rd := r })

def exec {ε : Type} (P : Params ε) : Stmt → St ε → Signal × St ε
  | .skip, st => (.normal, st)
  | .seq a b, st =>
    match exec P a st with
    | (.normal, st') => exec P b st'
    | r => r
  | .read v n, st =>
    match evalI st.env n with
    | .error e => (.err e, st)
    | .ok k => (.normal, { st with rd := (st.rd.read k).2, env := st.env.set v (.bytes (st.rd.read k).1) })
  | .readDrop n, st =>
    match evalI st.env n with
    | .error e => (.err e, st)
    | .ok k => (.normal, { st with rd := (st.rd.read k).2 })
  | .assign v e, st =>
    match evalB st.env e with
    | .error x => (.err x, st)
    | .ok b => (.normal, { st with env := st.env.set v (.bytes b) })
  | .ite c t e, st =>
    match evalC st.env c with
    | .error x => (.err x, st)
    | .ok true => exec P t st
    | .ok false => exec P e st
  | .while c body, st => whileLoop (fun s => evalC s.env c) (fun s => exec P body s) (loopFuel st) st
  | .forRange n body, st =>
    match evalI st.env n with
    | .error e => (.err e, st)
    | .ok k => forLoop (fun s => exec P body s) k st
  | .brk, st => (.brk, st)
  | .raiseEof, st => (.err .eof, st)
  | .yieldKd e, st =>
    match evalB st.env e with
    | .error x => (.err x, st)
    | .ok b =>
      match P.dec b with
      | .error x => (.err x, st)
      | .ok ev => (.normal, { st with outs := st.outs ++ [ev] })
  | .callSeek e, st =>
    match evalB st.env e with
    | .error x => (.err x, st)
    | .ok b =>
      match P.seek b st.rd with
      | (.ok _, r) => (.normal, { st with rd := r })
      | (.error x, r) => (.err x, { st with rd := r })
  | .prim p v, st => execPrim P p v st
  | .setThreadMap v, st =>
    match st.env v with
    | some (.tmap l) => (.normal, { st with tables := P.setTm st.tables l })
    | _ => (.err .unmodelled, st)
  | .unsupported _, st => (.err .unmodelled, st)

/-! ### `seek_until` as a procedure: one bytes parameter (variable 0), no calls, no yields -/

structure Proc where
  params : Nat
  body : Stmt
  deriving DecidableEq, Repr

/-- the callee-less parameters `seek_until` itself runs under -/
def leafParams : Params Unit :=
  { dec := fun _ => .error .unmodelled, plist := fun _ => none,
    seek := fun _ => RM.throw' .unmodelled, setTm := fun t _ => t }

/-- `seek_until(reader, data)` interpreted: an `RM Unit` like the model's. -/
def runSeek (p : Proc) (data : Bytes) : RM Unit := fun r =>
  if p.params ≠ 1 then (.error .unmodelled, r)
  else
    match exec leafParams p.body ⟨Env.empty.set 0 (.bytes data), r, Tables.empty, none, []⟩ with
    | (.normal, st) => (.ok (), st.rd)
    | (.brk, st) => (.error .unmodelled, st.rd)
    | (.err e, st) => (.error e, st.rd)

/-! ### `set_thread_map` -/

inductive Field | tid | pid | process
  deriving DecidableEq, Repr

inductive DictId | threadsPids | pidsNames
  deriving DecidableEq, Repr

inductive TmStmt
  | clear (d : DictId)                              -- `self.<d>.clear()`
  | forThreads (body : List (DictId × Field × Field))   -- `for thread in parsed_threadmap: self.<d>[thread.<k>] = thread.<v>`
  | unsupported (src : String)
  deriving DecidableEq, Repr

def natField (e : ThreadEntry) : Field → Option Nat
  | .tid => some e.tid
  | .pid => some e.pid
  | .process => none

def storeOne (t : Tables) (e : ThreadEntry) : DictId × Field × Field → Except PyErr Tables
  | (.threadsPids, k, v) =>
    match natField e k, natField e v with
    | some kk, some vv => .ok { t with threadsPids := dictSet kk vv t.threadsPids }
    | _, _ => .error .unmodelled
  | (.pidsNames, k, .process) =>
    match natField e k with
    | some kk => .ok { t with pidsNames := dictSet kk e.name t.pidsNames }
    | none => .error .unmodelled
  | (.pidsNames, _, _) => .error .unmodelled

def storeAll (t : Tables) (e : ThreadEntry) : List (DictId × Field × Field) → Except PyErr Tables
  | [] => .ok t
  | s :: ss => match storeOne t e s with | .ok t' => storeAll t' e ss | .error x => .error x

def forThreads (body : List (DictId × Field × Field)) : Tables → List ThreadEntry → Except PyErr Tables
  | t, [] => .ok t
  | t, e :: es => match storeAll t e body with | .ok t' => forThreads body t' es | .error x => .error x

def execTm (tm : List ThreadEntry) : List TmStmt → Tables → Except PyErr Tables
  | [], t => .ok t
  | .clear .threadsPids :: ss, t => execTm tm ss { t with threadsPids := [] }
  | .clear .pidsNames :: ss, t => execTm tm ss { t with pidsNames := [] }
  | .forThreads body :: ss, t => match forThreads body t tm with | .ok t' => execTm tm ss t' | .error x => .error x
  | .unsupported _ :: _, _ => .error .unmodelled

/-! ### `parse`: `version = reader.read(RAW_VERSION_SIZE); return self.versions[version](reader)` -/

inductive Method | parseV2 | parseV3
  deriving DecidableEq, Repr

structure Dispatch where
  readLen : IE
  versions : List (BConst × Method)     -- the `self.versions` dict display, in source order
  deriving DecidableEq, Repr

/-- which generator `parse` returns for a dump (`none`: the `KeyError` of the dict lookup), and the reader behind the
    magic -/
def runDispatch (d : Dispatch) (data : Bytes) : Except PyErr (Option Method × Reader) :=
  match evalI Env.empty d.readLen with
  | .error e => .error e
  | .ok n =>
    let p := (Reader.ofBytes data).read n
    .ok ((d.versions.find? (fun kv => kv.1.val == p.1)).map (·.2), p.2)

/-! ### the whole translated program -/

structure Program where
  seekUntil : Proc
  setThreadMap : List TmStmt
  parseV2 : Stmt
  parseV3 : Stmt                        -- up to the end of the chunk loop
  parse : Dispatch
  deriving DecidableEq, Repr

/-- parameters of the generator bodies: calls resolved to the translated callees -/
def Program.params {ε : Type} (p : Program) (dec : Bytes → Except PyErr ε) (plist : Bytes → Option PView) :
    Params ε :=
  { dec := dec, plist := plist, seek := runSeek p.seekUntil,
    setTm := fun t l => match execTm l p.setThreadMap t with | .ok t' => t' | .error _ => t }

/-- what running a generator body to its end gives: events, final exception, tables, v3 header, reader -/
structure Result (ε : Type) where
  events : List ε
  err : Option PyErr
  tables : Tables
  hdr : Option (List Nat × Bytes)
  rd : Reader

def runGen {ε : Type} (P : Params ε) (body : Stmt) (prior : Tables) (hdr : Option (List Nat × Bytes)) (r : Reader) :
    Result ε :=
  match exec P body ⟨Env.empty, r, prior, hdr, []⟩ with
  | (.normal, st) => ⟨st.outs, none, st.tables, st.hdr, st.rd⟩
  | (.brk, st) => ⟨st.outs, some .unmodelled, st.tables, st.hdr, st.rd⟩
  | (.err e, st) => ⟨st.outs, some e, st.tables, st.hdr, st.rd⟩

/-! ### the whole `KdBufParser.parse(reader)`, exhausted, through the translated program

  The hand-modelled remainder is `tailV3` (`reader.seek(-8, 1)`, the additional-data blocks, the log records). -/

def viaV2 {ε : Type} (p : Program) (plist : Bytes → Option PView) (dec : Bytes → Except PyErr ε) (prior : PState)
    (r : Reader) : Run3 ε :=
  let x := runGen (p.params dec plist) p.parseV2 prior.tables prior.md.header r
  ⟨x.events.map .ev, x.err, x.tables, x.tables, prior.md, x.rd⟩

def viaV3 {ε : Type} (p : Program) (plist : Bytes → Option PView) (dec : Bytes → Except PyErr ε) (prior : PState)
    (r : Reader) : Run3 ε :=
  let x := runGen (p.params dec plist) p.parseV3 prior.tables prior.md.header r
  match x.err with
  | some e => ⟨x.events.map .ev, some e, x.tables, x.tables, { prior.md with header := x.hdr }, x.rd⟩
  | none => tailV3 plist x.events x.tables { prior.md with header := x.hdr } x.rd

def parseVia {ε : Type} (p : Program) (plist : Bytes → Option PView) (dec : Bytes → Except PyErr ε) (prior : PState)
    (data : Bytes) : Run3 ε :=
  match runDispatch p.parse data with
  | .ok (some .parseV2, r) => viaV2 p plist dec prior r
  | .ok (some .parseV3, r) => viaV3 p plist dec prior r
  | .ok (none, r) => ⟨[], some .keyError, prior.tables, prior.tables, prior.md, r⟩
  | .error e => ⟨[], some e, prior.tables, prior.tables, prior.md, Reader.ofBytes data⟩

/-! ### unsupported nodes -/

def BE.hasUnsupported : BE → Bool
  | .unsupported _ => true
  | .dropFrom e _ => e.hasUnsupported
  | .cat a b => a.hasUnsupported || b.hasUnsupported
  | _ => false

def IE.hasUnsupported : IE → Bool
  | .unsupported _ => true
  | .len e => e.hasUnsupported
  | .sub a b | .div a b => a.hasUnsupported || b.hasUnsupported
  | _ => false

def Cond.hasUnsupported : Cond → Bool
  | .unsupported _ => true
  | .ne a b | .eq a b => a.hasUnsupported || b.hasUnsupported
  | .isEmpty e | .nonEmpty e => e.hasUnsupported
  | .tt => false

def Stmt.hasUnsupported : Stmt → Bool
  | .unsupported _ => true
  | .seq a b => a.hasUnsupported || b.hasUnsupported
  | .read _ n | .readDrop n => n.hasUnsupported
  | .assign _ e | .yieldKd e | .callSeek e => e.hasUnsupported
  | .ite c t e => c.hasUnsupported || t.hasUnsupported || e.hasUnsupported
  | .while c b => c.hasUnsupported || b.hasUnsupported
  | .forRange n b => n.hasUnsupported || b.hasUnsupported
  | _ => false

def Program.hasUnsupported (p : Program) : Bool :=
  p.seekUntil.body.hasUnsupported || p.parseV2.hasUnsupported || p.parseV3.hasUnsupported ||
  p.parse.readLen.hasUnsupported ||
  p.setThreadMap.any (fun s => match s with | .unsupported _ => true | _ => false)

end KdVerif.PyIRRd
