import KdVerif.Model.Kevent
import KdVerif.Model.Pairing
import KdVerif.Model.Enum
import KdVerif.Gen.Enums
/-
  L6: `CallstacksParser` (callstacks_parser.py), the user-stack part of `handle_event`
  (trace_handlers/perf.py), `handle_uuid_map_a` / `handle_uuid_shared_cache_a` /
  `handle_timing_launch_executable` (trace_handlers/dyld.py) and `PyKdebugParser.callstacks`.

  * `bisect` is Python's `bisect.bisect` (= `bisect_right`) on an ARBITRARY list: the `lo`/`hi`
    loop with fuel; nothing about sortedness is built in.
  * `Images` are the two parallel lists `dyld_addresses` / `dyld_uuids`.
  * Where the Python could raise (`a[mid]`, `dyld_uuids[index_]`) the model returns the error;
    `Props/C15` proves that none is reachable from the empty lists.
  Core Lean only.
-/
namespace KdVerif.Callstacks

abbrev Uuid := Bytes

/-- The loop of `bisect.bisect_right(a, x, lo, hi)`:
    `while lo < hi: mid = (lo + hi) // 2; if x < a[mid]: hi = mid else: lo = mid + 1`; `return lo`. -/
def bisectGo (a : List Nat) (x : Nat) : Nat → Nat → Nat → Except PyErr Nat
  | 0, _, _ => .error .hang
  | fuel + 1, lo, hi =>
    if lo < hi then
      match a[(lo + hi) / 2]? with
      | none => .error .indexError
      | some v => if x < v then bisectGo a x fuel lo ((lo + hi) / 2)
                  else bisectGo a x fuel ((lo + hi) / 2 + 1) hi
    else .ok lo

/-- `bisect(a, x)` (`lo = 0`, `hi = len(a)`). -/
def bisect (a : List Nat) (x : Nat) : Except PyErr Nat := bisectGo a x (a.length + 1) 0 a.length

/-- `dyld_addresses`, `dyld_uuids`. -/
structure Images where
  addrs : List Nat
  uuids : List Uuid
  deriving DecidableEq, Repr

def Images.empty : Images := ⟨[], []⟩

/-- `l.insert(i, x)` for `i ≥ 0` (appends when `i ≥ len(l)`). -/
def pyInsert {α : Type} (l : List α) (i : Nat) (x : α) : List α := l.take i ++ x :: l.drop i

/-- `CallstacksParser.insert_image`. -/
def insertImage (st : Images) (a : Nat) (u : Uuid) : Except PyErr Images :=
  if a ∈ st.addrs then .ok st
  else
    match bisect st.addrs a with
    | .error e => .error e
    | .ok i => .ok ⟨pyInsert st.addrs i a, pyInsert st.uuids i u⟩

/-- `for image in …: self.insert_image(image.load_addr, image.uuid)`. -/
def insertAll (st : Images) : List (Nat × Uuid) → Except PyErr Images
  | [] => .ok st
  | (a, u) :: rest =>
    match insertImage st a u with
    | .error e => .error e
    | .ok st' => insertAll st' rest

/-- `Frame(address, uuid, offset)`; `image = none` is `Frame(frame, None, None)`. -/
structure Frame where
  address : Nat
  image : Option (Uuid × Int)
  deriving DecidableEq, Repr

/-- The body of the `for frame in trace.cs_frames` loop. -/
def lookupFrame (st : Images) (f : Nat) : Except PyErr Frame :=
  match bisect st.addrs f with
  | .error e => .error e
  | .ok i =>
    if i = 0 then .ok ⟨f, none⟩                    -- index_ = -1
    else
      match st.uuids[i - 1]?, st.addrs[i - 1]? with
      | some u, some a => .ok ⟨f, some (u, (f : Int) - (a : Int))⟩
      | _, _ => .error .indexError

def lookupAll (st : Images) : List Nat → Except PyErr (List Frame)
  | [] => .ok []
  | f :: fs =>
    match lookupFrame st f with
    | .error e => .error e
    | .ok fr =>
      match lookupAll st fs with
      | .error e => .error e
      | .ok frs => .ok (fr :: frs)

/-- One record of a window as the handlers see it: its code name `trace_codes.get(eventid, '')`,
    timestamp, thread, the four argument words and `data[:16]`. -/
structure Rec where
  name : String
  ts : Nat
  tid : Nat
  a0 : Nat
  a1 : Nat
  a2 : Nat
  a3 : Nat
  uuid : Uuid
  deriving DecidableEq, Repr

/-- `list(events[0].values)`. -/
def Rec.words (r : Rec) : List Nat := [r.a0, r.a1, r.a2, r.a3]

/-- `SamplerAction.SAMPLER_USTACK in to_sampler_action(flags)` over the reflected enum. -/
def ustackSet (flags : Nat) : Bool :=
  (Gen.Enums.SamplerAction.flagsOf flags).any (·.name = "SAMPLER_USTACK")

/-- `PerfEvent.cs_frames` computed by `handle_event` on the window `first :: rest`
    (`none` = the attribute stays `None`). -/
def csFrames (first : Rec) (rest : List Rec) : Option (List Nat) :=
  if ustackSet first.a0 then
    match (first :: rest).filter (·.name = "PERF_STK_UHdr") with
    | [] => none
    | h :: _ =>
      some ((((first :: rest).filter (·.name = "PERF_STK_UData")).flatMap Rec.words).take h.a1)
  else none

/-- `sorted(map_a, key=lambda x: x.load_addr)`: stable insertion sort (the result of a stable
    sort is unique, so the algorithm does not matter). -/
def insertByAddr (x : Nat × Uuid) : List (Nat × Uuid) → List (Nat × Uuid)
  | [] => [x]
  | y :: ys => if y.1 < x.1 then y :: insertByAddr x ys else x :: y :: ys

def sortByAddr : List (Nat × Uuid) → List (Nat × Uuid)
  | [] => []
  | x :: xs => insertByAddr x (sortByAddr xs)

/-- What `CallstacksParser.feed_generator` distinguishes in the trace stream. -/
inductive Item
  /-- a `PerfEvent` whose window is `first :: rest` -/
  | sample (first : Rec) (rest : List Rec)
  /-- a `DyldUuidMapA(load_addr, uuid)` -/
  | image (addr : Nat) (uuid : Uuid)
  /-- a `DyldLaunchExecutable`; `imgs` is `map_a` BEFORE `sorted` (map records, then shared-cache records) -/
  | launch (imgs : List (Nat × Uuid))
  | other
  deriving Repr

structure Callstack where
  timestamp : Nat
  tid : Nat
  frames : List Frame
  deriving DecidableEq, Repr

/-- One iteration of `feed_generator`. -/
def step (st : Images) : Item → Except PyErr (Images × Option Callstack)
  | .sample first rest =>
    match csFrames first rest with
    | none => .ok (st, none)
    | some frs =>
      match lookupAll st frs with
      | .error e => .error e
      | .ok frames => .ok (st, some ⟨first.ts, first.tid, frames⟩)
  | .image a u =>
    match insertImage st a u with
    | .error e => .error e
    | .ok st' => .ok (st', none)
  | .launch imgs =>
    match insertAll st (sortByAddr imgs) with
    | .error e => .error e
    | .ok st' => .ok (st', none)
  | .other => .ok (st, none)

def feedFrom (st : Images) : List Item → Except PyErr (Images × List Callstack)
  | [] => .ok (st, [])
  | it :: rest =>
    match step st it with
    | .error e => .error e
    | .ok (st', o) =>
      match feedFrom st' rest with
      | .error e => .error e
      | .ok (st'', cs) => .ok (st'', o.toList ++ cs)

/-- `CallstacksParser([], []).feed_generator(traces)`; `PyKdebugParser.callstacks` clears both
    lists at the start of every request, so every request is `feed` of its own dump. -/
def feed (s : List Item) : Except PyErr (List Callstack) :=
  match feedFrom Images.empty s with
  | .error e => .error e
  | .ok (_, cs) => .ok cs

/-! ### From decoded events to trace items (used by the driver for the correspondence) -/

def tag (nameOf : Nat → String) (e : Kevent) : Option Rec :=
  match e.values with
  | [a, b, c, d] => some ⟨nameOf e.eventid, e.timestamp, e.tid, a, b, c, d, e.data.take 16⟩
  | _ => none

/-- `handle_uuid_map_a` / `handle_uuid_shared_cache_a`: `(args[2], UUID(bytes=data[:16]))`. -/
def Rec.img (r : Rec) : Nat × Uuid := (r.a2, r.uuid)

/-- `map_a` of `handle_timing_launch_executable` before sorting. -/
def launchImgs (w : List Rec) : List (Nat × Uuid) :=
  (w.filter (·.name = "DYLD_uuid_map_a")).map Rec.img ++
  (w.filter (·.name = "DYLD_uuid_shared_cache_a")).map Rec.img

/-- `parse_event_list` as far as `CallstacksParser` can tell the results apart. -/
def itemOf : List Rec → Item
  | [] => .other
  | f :: r =>
    if f.name = "PERF_Event" then .sample f r
    else if f.name = "DYLD_uuid_map_a" then .image f.a2 f.uuid
    else if f.name = "DBG_DYLD_TIMING_LAUNCH_EXECUTABLE" then .launch (launchImgs (f :: r))
    else .other

def windowItem (nameOf : Nat → String) (w : List Kevent) : Item :=
  match w.mapM (tag nameOf) with
  | some recs => itemOf recs
  | none => .other

/-- `CallstacksParser([], []).feed_generator(TracesParser(codes, {}, {}).feed_generator(events))`. -/
def callstacksOf (nameOf : Nat → String) (domOf : Nat → Bool) (events : List Kevent) :
    Except PyErr (List Callstack) :=
  feed ((Pairing.run domOf events).map (windowItem nameOf))

end KdVerif.Callstacks
