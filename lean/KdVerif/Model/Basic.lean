/-
  Basic vocabulary shared by all model layers: Python exception kinds and hex I/O
  for the line protocol.  Core Lean only (no Mathlib) so that the driver links.
-/
namespace KdVerif

/-- The Python exception kinds the modelled code can raise.  `hang` stands for a
    non-terminating loop (only the pre-fix `seek_until` model produces it). -/
inductive PyErr
  | indexError | keyError | valueError | attributeError | typeError
  | unicodeError | structError | streamError | eof | hang
  | unmodelled     -- the input left the modelled domain (never a Python exception)
  deriving DecidableEq, Repr, Inhabited

def PyErr.name : PyErr → String
  | .indexError => "IndexError" | .keyError => "KeyError" | .valueError => "ValueError"
  | .attributeError => "AttributeError" | .typeError => "TypeError"
  | .unicodeError => "UnicodeError" | .structError => "StructError"
  | .streamError => "StreamError" | .eof => "EOF" | .hang => "Hang" | .unmodelled => "Unmodelled"

abbrev Bytes := List Nat

def hexDigit (n : Nat) : Char :=
  if n < 10 then Char.ofNat (48 + n) else Char.ofNat (87 + n)

def byteHex (b : Nat) : String :=
  String.ofList [hexDigit (b / 16 % 16), hexDigit (b % 16)]

def toHex (bs : Bytes) : String := String.join (bs.map byteHex)

def hexVal (c : Char) : Option Nat :=
  if '0' ≤ c ∧ c ≤ '9' then some (c.toNat - 48)
  else if 'a' ≤ c ∧ c ≤ 'f' then some (c.toNat - 87)
  else if 'A' ≤ c ∧ c ≤ 'F' then some (c.toNat - 55)
  else none

def ofHexChars : List Char → Option Bytes
  | [] => some []
  | [_] => none
  | a :: b :: rest => do
    let x ← hexVal a
    let y ← hexVal b
    let r ← ofHexChars rest
    pure ((x * 16 + y) :: r)

def ofHex (s : String) : Option Bytes := ofHexChars s.toList

/-- Python's `hex(n)` for a natural number. -/
def pyHexDigits : Nat → Nat → List Char
  | 0, _ => []
  | fuel + 1, n => if n < 16 then [hexDigit n] else pyHexDigits fuel (n / 16) ++ [hexDigit (n % 16)]

def pyHex (n : Nat) : String := "0x" ++ String.ofList (pyHexDigits (n + 1) n)

end KdVerif
