import KdVerif.Proofs.IR
import KdVerif.Gen.Decoders
import KdVerif.Gen.Host
/-
  Definitions and non-reflective lemmas shared by the property files that reason about the generated
  decoder table (C09, C10, C18, …).  No `decide` over the table here: each property file states the
  reflective facts it needs itself, so that a change breaking one property does not break the build of another.
-/
namespace KdVerif.DecoderFacts
open KdVerif.IR

abbrev decoders := Gen.Decoders.decoders

/-- BSD syscalls (BSC_*) and Mach traps (MSC_*) rendered as `name(p0, p1, …)`. -/
def syscallLike (d : Decoder) : Bool := (d.kind == 0 || d.kind == 1) && d.shape.isSome

/-- What a call part may read: START words, nested lookups, host constant tables — not the END record,
    not the context tables. -/
def callSel : Sel := { startAll := true, lookups := true, host := true }

/-- What the parameter at position `k` may read: START word `k` only (plus lookups / host tables). -/
def paramSel (k : Nat) : Sel := { start := [k], lookups := true, host := true }

/-- The four parameters whose *form* is chosen by another argument (the value shown is still word `k`):
    `(decoder key, position, START words read)`.
    set/getsockopt: the option at position 2 is shown by name when the level (word 1) is SOL_SOCKET;
    shm_open/sem_open: the mode (word 2) is shown only when the flags (word 1) contain O_CREAT. -/
def crossArg : List (Nat × Nat × List Nat) :=
  [ (6537532680753076367895112599957620, 2, [1, 2])   -- BSC_setsockopt
  , (6537532680696407970100676857393268, 2, [1, 2])   -- BSC_getsockopt
  , (99754832164812182588115412334, 2, [1, 2])        -- BSC_shm_open
  , (99754832164811338163185280366, 2, [1, 2]) ]      -- BSC_sem_open

def selFor (key k : Nat) : Sel :=
  match crossArg.find? (fun x => x.1 == key && x.2.1 == k) with
  | some x => { start := x.2.2, lookups := true, host := true }
  | none => paramSel k

def paramsOK (fs : List Expr) (key : Nat) : Nat → List (Option Expr × Expr) → Bool
  | _, [] => true
  | k, (c, p) :: rest =>
    within (selFor key k) (subst fs p)
      && (match c with | none => true | some c => within (selFor key k) (subst fs c))
      && paramsOK fs key (k + 1) rest

/-- All pieces of the call part (name, parentheses, parameters), with the constructor arguments inlined. -/
def callPiecesOf (d : Decoder) (s : Shape) : List Expr := s.callPieces.map (subst d.fields)

def shapeAgrees (d : Decoder) : Bool :=
  match d.shape with | some s => s.agrees d.str | none => true

def callReadsStartOnly (d : Decoder) : Bool :=
  match d.shape with
  | some s => !syscallLike d || (callPiecesOf d s).all (within callSel)
  | none => true

def wellIndexed (d : Decoder) : Bool :=
  match d.shape with
  | some s => !syscallLike d || paramsOK d.fields d.key 0 s.params
  | none => true

def fieldsClosed (d : Decoder) : Bool :=
  d.fields.all (within { startAll := true, endA := true, tid := true, data := true, lookups := true,
                         gstr := true, tpids := true, tnames := true, host := true, hostErrno := true })


/-- The fifteen handlers that keep state or look inside their window: modelled by hand in `Model/Trace.lean`
    (the translator flags them `supported := false`): DBG_DYLD_TIMING_LAUNCH_EXECUTABLE, MACH_vmfault, PERF_Event, PERF_THD_Data, TRACE_DATA_EXEC, TRACE_DATA_NEWTHREAD, TRACE_DATA_THREAD_TERMINATE, TRACE_DATA_THREAD_TERMINATE_PID, TRACE_STRING_EXEC, TRACE_STRING_GLOBAL, TRACE_STRING_NEWTHREAD, TRACE_STRING_PROC_EXIT, TRACE_STRING_THREADNAME, TRACE_STRING_THREADNAME_PREV, VFS_LOOKUP. -/
def handModelled : List Nat :=
  [ 37546615664547125651042111325787225986218523288483642591170362114896390145592389,
    103137406182381590122369215604,
    1587993892115998174441076,
    26642116534711866307916144407649,
    1767049260139265681342534041007048003,
    1942891208376100481746263316617007171995661844804,
    140000065953024301223128056095114041869180602355049241755728827461,
    601295704706082446046587799748568275218505397432517073810452934591020812612,
    115805340312486933916040246495158147237187,
    7589418782719143701121613594306686484987658572,
    127329318232136141208756753540219778027995684091019588,
    127329318232136141208756753540219815855962161059219796,
    32596305467426852149441728906296291564341506714900712773,
    35840016883974226753044359759421547713261427485660917055673234244950,
    1616346616830909783692624 ]

/-! ### Semantics -/

def ctx (h : Host) (t : Tables) (w : Window) : Ctx := { host := h, tables := t, win := w }

theorem evalS_subst (c : Ctx) (hc : c.fields = []) (fs : List Expr) (vs : List Val)
    (h : evalFields c fs = .ok vs) (e : Expr) :
    evalS { c with fields := vs } e = evalS c (subst fs e) := by
  simp only [evalS, eval_subst c hc fs vs h e]

theorem evalPieces_subst (c : Ctx) (hc : c.fields = []) (fs : List Expr) (vs : List Val)
    (h : evalFields c fs = .ok vs) (ps : List Expr) :
    evalPieces { c with fields := vs } ps = evalPieces c (ps.map (subst fs)) := by
  induction ps with
  | nil => rfl
  | cons p ps ih => simp only [evalPieces, List.map_cons, evalS_subst c hc fs vs h, ih]

/-- The rendered text of a shaped decoder is `callText ++ tailText`, where the call text is the
    concatenation of the call pieces (`name`, `(`, parameters joined by `", "`, `)`) and the tail text the
    rest, both evaluated directly on the window. -/
theorem render_splits (h : Host) (t : Tables) (d : Decoder) (s : Shape) (w : Window)
    (hs : d.shape = some s) (hag : shapeAgrees d = true) (text : String)
    (hr : render h t d w = .ok text) :
    ∃ call tail, text = call ++ tail ∧
      evalPieces (ctx h t w) (callPiecesOf d s) = .ok call ∧
      evalS (ctx h t w) (subst d.fields s.tail) = .ok tail := by
  have hag' : s.agrees d.str = true := by simpa [shapeAgrees, hs] using hag
  unfold render at hr
  cases hf : evalFields { host := h, tables := t, win := w } d.fields with
  | error e => simp [hf, bind, Except.bind] at hr
  | ok vs =>
    simp only [hf, bind, Except.bind] at hr
    have hstr : evalS { host := h, tables := t, win := w, fields := vs } d.str = .ok text := by
      unfold evalS
      cases he : eval { host := h, tables := t, win := w, fields := vs } d.str with
      | error e => simp [he] at hr
      | ok v => cases v <;> simp_all [pure, Except.pure]
    rw [evalS_of_agrees _ s d.str hag', Shape.pieces, evalPieces_append, evalS_flatten] at hstr
    have e1 := evalPieces_subst (ctx h t w) rfl d.fields vs hf s.callPieces
    have e2 := evalS_subst (ctx h t w) rfl d.fields vs hf s.tail
    simp only [ctx] at e1 e2
    rw [e1, e2] at hstr
    cases hc : evalPieces { host := h, tables := t, win := w } (s.callPieces.map (subst d.fields)) with
    | error e => simp [hc, bind, Except.bind] at hstr
    | ok call =>
      cases ht : evalS { host := h, tables := t, win := w } (subst d.fields s.tail) with
      | error e => simp [hc, ht, bind, Except.bind] at hstr
      | ok tail =>
        simp [hc, ht, bind, Except.bind, pure, Except.pure] at hstr
        exact ⟨call, tail, hstr.symm, by simpa [callPiecesOf, ctx] using hc, by simpa [ctx] using ht⟩

theorem evalS_congr (s : Sel) (c c' : Ctx) (h : Agree s c c') (e : Expr) (hw : within s e = true) :
    evalS c e = evalS c' e := by simp only [evalS, eval_congr s c c' h e hw]

theorem evalPieces_congr (s : Sel) (c c' : Ctx) (h : Agree s c c') (ps : List Expr)
    (hw : ps.all (within s) = true) : evalPieces c ps = evalPieces c' ps := by
  induction ps with
  | nil => rfl
  | cons p ps ih =>
    simp only [List.all_cons, Bool.and_eq_true] at hw
    simp only [evalPieces, evalS_congr s c c' h p hw.1, ih hw.2]

/-- Two windows that agree on the START words and the lookups (anything else — END record, thread id,
    context tables — may differ). -/
structure SameStart (w w' : Window) : Prop where
  start : w.startArgs = w'.startArgs
  lookups : w.lookups = w'.lookups
  rest : w.restFirst = w'.restFirst


end KdVerif.DecoderFacts
