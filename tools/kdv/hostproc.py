"""A fresh interpreter in which the host tables ARE Darwin's before the package under test is imported:
   python -m kdv.hostproc [host|darwin] [stream|fresh|search]   (stdin: one JSON object per line; stdout: one JSON answer per line)
An in-process swap of the objects a handler module imported cannot see a table captured at import time (a module-level
tuple or dict built from errno.errorcode); replacing the tables before the import can."""
import enum
import errno
import json
import signal
import socket
import sys

from .darwin_tables import DARWIN_ERRNO, DARWIN_SIGNALS, DARWIN_AF, DARWIN_SK, DARWIN_SOL


def install_darwin():
    errno.errorcode.clear()
    errno.errorcode.update(DARWIN_ERRNO)
    signal.Signals = enum.IntEnum('Signals', {v: k for k, v in DARWIN_SIGNALS.items()})
    socket.AddressFamily = enum.IntEnum('AddressFamily', {v: k for k, v in DARWIN_AF.items()})
    socket.SocketKind = enum.IntEnum('SocketKind', {v: k for k, v in DARWIN_SK.items()})
    socket.SOL_SOCKET = DARWIN_SOL


def main():
    """argv: [host|darwin] [stream|fresh|search]
    stream - one decoder case per line, rendered one after the other in this interpreter (the first line is rendered first
             thing, every later one after the earlier ones);
    fresh  - every line rendered in its own fork of this interpreter, in which nothing was rendered before;
    search - one request per line for kdv.neighbours.search (history dependence of renderings)."""
    host = sys.argv[1] if len(sys.argv) > 1 else 'darwin'
    mode = sys.argv[2] if len(sys.argv) > 2 else 'stream'
    if host != 'host':
        install_darwin()
    from . import core
    from . import decoders as D
    from . import neighbours as N

    def text(c):
        try:
            return D.text_of(D.impl_fn(c))
        except Exception as e:
            return 'raise ' + core.err_name(e)
    out = sys.stdout
    for ln in sys.stdin:
        c = json.loads(ln)
        if mode == 'search':
            t = N.search(c)
        elif mode == 'fresh':
            t = N.in_child(lambda: text(c))
        else:
            t = text(c)
        out.write(json.dumps(t) + '\n')
        out.flush()


if __name__ == '__main__':
    main()
