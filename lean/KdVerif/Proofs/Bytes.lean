import KdVerif.Model.Bytes
namespace KdVerif

theorem leNat_lt (bs : Bytes) (h : IsBytes bs) : leNat bs < 256 ^ bs.length := by
  induction bs with
  | nil => simp [leNat]
  | cons b bs ih =>
    have hb : b < 256 := h b (by simp)
    have := ih (fun x hx => h x (by simp [hx]))
    simp only [leNat, List.length_cons, Nat.pow_succ]
    omega

theorem toLE_length (n v : Nat) : (toLE n v).length = n := by
  induction n generalizing v with
  | zero => rfl
  | succ n ih => simp [toLE, ih]

theorem toLE_isBytes (n v : Nat) : IsBytes (toLE n v) := by
  induction n generalizing v with
  | zero => intro b hb; simp [toLE] at hb
  | succ n ih =>
    intro b hb
    simp only [toLE, List.mem_cons] at hb
    rcases hb with rfl | hb
    · omega
    · exact ih _ b hb

/-- `to_bytes` after `from_bytes` is the identity on byte strings of that length. -/
theorem toLE_leNat (bs : Bytes) (h : IsBytes bs) : toLE bs.length (leNat bs) = bs := by
  induction bs with
  | nil => rfl
  | cons b bs ih =>
    have hb : b < 256 := h b (by simp)
    have ih' := ih (fun x hx => h x (by simp [hx]))
    simp only [List.length_cons, toLE, leNat]
    have h1 : (b + 256 * leNat bs) % 256 = b := by omega
    have h2 : (b + 256 * leNat bs) / 256 = leNat bs := by omega
    rw [h1, h2, ih']

theorem leNat_toLE (n v : Nat) : leNat (toLE n v) = v % 256 ^ n := by
  induction n generalizing v with
  | zero => simp [toLE, leNat, Nat.mod_one]
  | succ n ih =>
    simp only [toLE, leNat, ih, Nat.pow_succ]
    rw [Nat.mul_comm (256 ^ n) 256, Nat.mod_mul]

theorem IsBytes.take {bs : Bytes} (h : IsBytes bs) (n : Nat) : IsBytes (bs.take n) :=
  fun b hb => h b (List.mem_of_mem_take hb)

theorem IsBytes.drop {bs : Bytes} (h : IsBytes bs) (n : Nat) : IsBytes (bs.drop n) :=
  fun b hb => h b (List.mem_of_mem_drop hb)

theorem IsBytes.append {a b : Bytes} (ha : IsBytes a) (hb : IsBytes b) : IsBytes (a ++ b) := by
  intro x hx
  rcases List.mem_append.mp hx with h | h
  · exact ha x h
  · exact hb x h

/-- For a 32-bit word, masking with `0xfffffffc` clears exactly the two low bits. -/
theorem and_fffffffc (x : Nat) (h : x < 2 ^ 32) : x &&& 0xfffffffc = x - x % 4 := by
  have e : x - x % 4 = (x >>> 2) <<< 2 := by
    rw [Nat.shiftLeft_eq, Nat.shiftRight_eq_div_pow]; omega
  rw [e]
  apply Nat.eq_of_testBit_eq
  intro i
  rw [Nat.testBit_and, Nat.testBit_shiftLeft, Nat.testBit_shiftRight]
  by_cases hi : i < 32
  · have hm : ∀ j < 32, Nat.testBit 0xfffffffc j = decide (2 ≤ j) := by decide
    rw [hm i hi]
    by_cases h2 : 2 ≤ i
    · have : 2 + (i - 2) = i := by omega
      simp [h2, this]
    · simp [h2]
  · have hx : x.testBit i = false :=
      Nat.testBit_lt_two_pow (Nat.lt_of_lt_of_le h (Nat.pow_le_pow_right (by decide) (by omega)))
    have h2 : 2 ≤ i := by omega
    have : 2 + (i - 2) = i := by omega
    simp [hx, h2, this]

theorem and_three (x : Nat) : x &&& 3 = x % 4 := by
  have := Nat.and_two_pow_sub_one_eq_mod x 2
  simpa using this

end KdVerif
