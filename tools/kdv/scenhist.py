"""History independence of the WHOLE trace pipeline (shared by C10 / C11 / C20 …).

Statement used (on the real code alone): what `TracesParser.feed_generator` reports for a stream — trace names, windows,
texts, composite payloads, final tables, aborting exception — is the same whether the interpreter has decoded another
stream before or not.  tools/kdv/neighbours.py checks that for single windows of single decoders; a value that one handler
caches and ANOTHER handler (a composite one: sampler window with lost stack records, page fault with nested records, launch
window) later modifies in place only shows when whole scenarios precede each other.  Pairs are built from ONE base scenario so
that the same words recur: S = the complete scenario, S0 = the same with a record dropped / duplicated / truncated (what a
wrapped trace buffer does), in both orders.

Everything runs in one helper interpreter (`python -m kdv.scenhist`) that imports the package and never decodes anything
itself: for each pair a forked child decodes S alone (= first thing in a fresh interpreter), another decodes S0 and then S."""
import json
import os
import subprocess
import sys

from . import core


def _answer(case):
    from . import pipeline as PL
    outs, err, parser = PL.run_traces(case)
    return PL.answer(outs, err, parser)


def _helper_main():
    """stdin: one JSON job per line {'first': case, 'then': case}; stdout: {'fresh': answer, 'after': answer}"""
    from . import pipeline as PL  # noqa: F401  (imports the package, decodes nothing)
    from .neighbours import in_child
    out = sys.stdout
    for ln in sys.stdin:
        job = json.loads(ln)
        fresh = in_child(lambda: _answer(job['then']))
        after = in_child(lambda: (_answer(job['first']), _answer(job['then']))[1])
        out.write(json.dumps({'fresh': fresh, 'after': after}) + '\n')
        out.flush()


def run_jobs(jobs):
    if not jobs:
        return []
    tools = os.path.dirname(os.path.dirname(os.path.abspath(__file__)))
    env = dict(os.environ)
    env['REPO_DIR'] = core.REPO
    env['PYTHONPATH'] = tools
    p = subprocess.run([sys.executable, '-m', 'kdv.scenhist'], input='\n'.join(json.dumps(j) for j in jobs) + '\n',
                       capture_output=True, text=True, cwd=tools, env=env)
    out = [json.loads(l) for l in p.stdout.splitlines()]
    if p.returncode != 0 or len(out) != len(jobs):
        raise core.Infra('scenario-history helper failed: rc=%s, %d of %d answers\n%s'
                         % (p.returncode, len(out), len(jobs), p.stderr[-1500:]))
    return out


def variants(rng, recs, k):
    """k damaged copies of a record list: one record dropped / duplicated, the tail cut, two neighbours swapped."""
    out = []
    n = len(recs)
    for _ in range(k):
        if n == 0:
            break
        r = rng.random()
        i = rng.randrange(n)
        if r < 0.55:
            out.append(recs[:i] + recs[i + 1:])
        elif r < 0.7:
            out.append(recs[:i] + [recs[i]] + recs[i:])
        elif r < 0.85:
            out.append(recs[:max(1, i)])
        elif n > 1:
            j = min(i, n - 2)
            out.append(recs[:j] + [recs[j + 1], recs[j]] + recs[j + 2:])
    return out


def section(rep, rng, tier, prop, name='scenario-history'):
    from . import pipeline as PL
    sec = rep.section(name)
    n = 40 if tier == 'quick' else 1500
    sec['rule'] = ('%d base scenarios (complete operations of every kind: syscalls with lookups, new-thread / exec pairs, strings, '
                   'terminate records, sampler windows, page faults and launch windows with nested records), each with 3 damaged '
                   'copies (a record dropped / duplicated / the tail cut / two records swapped); in a fresh interpreter: the '
                   'complete scenario decoded first thing vs. decoded after a damaged copy, and vice versa; everything '
                   'feed_generator reports and the final tables must be the same (oracle on the code alone)' % n)
    jobs, meta = [], []
    for _ in range(n):
        base = PL.random_scenario(rng, perturb=False)
        recs = base['events']
        for v in variants(rng, recs, 3):
            dam = dict(base, events=v)
            jobs.append({'first': dam, 'then': base})
            meta.append(('damaged-then-complete', dam, base))
            jobs.append({'first': base, 'then': dam})
            meta.append(('complete-then-damaged', base, dam))
    seen = set()
    for (kind, first, then), res in zip(meta, run_jobs(jobs)):
        sec['cases'] += 1
        if res['fresh'] == res['after']:
            sec['distinct_nontrivial'] += 1
            continue
        fa, aa = PL.parse_answer(res['fresh']), PL.parse_answer(res['after'])
        what = 'tables / exception'
        for x, y in zip(fa[0], aa[0]):
            if x != y:
                tx = lambda t: (t['text'] if t.get('text') is not None else t.get('raw', ''))[:160] + ' ' + str(t.get('extra', ''))[:120]  # noqa: E731
                what = 'trace %s: %r when decoded first thing, %r after the other stream' % (x.get('name', '?'), tx(x), tx(y))
                break
        names = sorted({v for v in then['codes'].values()})
        sig = 'render:depends-on-history:pipeline'
        if sig in seen:
            continue
        seen.add(sig)
        rep.add_failure(sig, '%s (%s; codes of the stream: %s): %s' % (prop, kind, ', '.join(names)[:200], what),
                        {'section': name, 'first': first, 'then': then, 'fresh': res['fresh'][:3000],
                         'after': res['after'][:3000]})


def replay(rp):
    res = run_jobs([{'first': rp['first'], 'then': rp['then']}])[0]
    lines = ['decoded first thing in a fresh interpreter: ' + res['fresh'][:1500],
             'decoded after the other stream            : ' + res['after'][:1500]]
    return res['fresh'] != res['after'], lines


if __name__ == '__main__':
    _helper_main()
