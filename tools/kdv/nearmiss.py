"""Texts that differ, but not after a NORMALISATION somebody might apply (shared by C08 / C19 / C17 generators).

A change that keys, de-duplicates or 'unifies' texts after case folding, unicode normalisation, whitespace stripping or path
normalisation is invisible while every generated text is unrelated to every other.  `twins(rng, text)` returns texts that are
different from `text` as strings (and as UTF-8 bytes) and equal to it under at least one such normalisation."""
import unicodedata

COMPOSED = 'éüñÅçö'           # each has a canonical decomposition (NFD differs from NFC)


def twins(rng, text, path=True):
    out = []
    if text.swapcase() != text:
        out += [text.swapcase(), text.upper(), text.lower(), text.capitalize()]
    nfd, nfc = unicodedata.normalize('NFD', text), unicodedata.normalize('NFC', text)
    out += [nfd, nfc, unicodedata.normalize('NFKC', text)]
    c = rng.choice(COMPOSED)
    base = text + c                                            # a pair that differs ONLY in the normal form
    out += [text + ' ', ' ' + text, text + '\t', text.replace('a', 'а', 1)]      # trailing blank; a Cyrillic look-alike
    if path:
        out += [text + '/', text + '/.', text.replace('/', '//', 1), './' + text if not text.startswith('/') else '/.' + text,
                text.rstrip('/') or '/']
    out = [t for t in dict.fromkeys(out) if t != text and t.encode('utf-8', 'surrogateescape') != text.encode('utf-8', 'surrogateescape')]
    if rng.random() < 0.3 or not out:
        return base, unicodedata.normalize('NFD', base)        # (text', twin): both replace the pair
    return text, rng.choice(out)
