/-
  `print_with_count(generator, count)` of `pykdebugparser/__main__.py` (part of L6, see `Model/Pipeline`): on its own so that
  the embedding of the command-line glue (`Model/PyIRCli`) can refer to it without importing the container models.
-/
namespace KdVerif

/-- `print_with_count(generator, count)`, literally: the items printed. -/
def printWithCountAux {α : Type} (count : Int) : Int → List α → List α
  | _, [] => []
  | i, obj :: rest => if i = count then [] else obj :: printWithCountAux count (i + 1) rest

def printWithCount {α : Type} (gen : List α) (count : Int) : List α := printWithCountAux count 0 gen

end KdVerif
