/-
  Reference constants of Darwin (XNU, macOS 11 / xnu-7195 era — the release pykdebugparser was
  written against), WRITTEN BY HAND from the published headers.  Part of the trusted base: these
  tables are the meaning of "the names carry Darwin's numeric values" and of "_IOC packing" in
  property C11.  Nothing here is derived from the repository.  Core Lean only.

  Only constants whose value is certain are listed; a repository member that is absent here is
  reported as "unchecked", never as wrong.
-/
namespace KdVerif.Spec.Darwin

abbrev Table := List (String × Nat)

/-- bsd/sys/fcntl.h — open(2) flags. -/
def openFlags : Table := [
  ("O_RDONLY", 0x0000), ("O_WRONLY", 0x0001), ("O_RDWR", 0x0002), ("O_ACCMODE", 0x0003),
  ("O_NONBLOCK", 0x00000004), ("O_NDELAY", 0x00000004), ("O_APPEND", 0x00000008), ("O_SHLOCK", 0x00000010),
  ("O_EXLOCK", 0x00000020), ("O_ASYNC", 0x00000040), ("O_FSYNC", 0x00000080), ("O_SYNC", 0x00000080),
  ("O_NOFOLLOW", 0x00000100), ("O_CREAT", 0x00000200), ("O_TRUNC", 0x00000400), ("O_EXCL", 0x00000800),
  ("O_EVTONLY", 0x00008000), ("O_NOCTTY", 0x00020000), ("O_DIRECTORY", 0x00100000),
  ("O_SYMLINK", 0x00200000), ("O_DSYNC", 0x00400000), ("O_CLOEXEC", 0x01000000)]

/-- bsd/sys/_types/_s_ifmt.h (included by sys/stat.h) — `S_IFMT`, the file-type field of `st_mode`. -/
def S_IFMT : Nat := 0o170000

/-- bsd/sys/fcntl.h — `O_ACCMODE`, the mask of the access-mode field of the open flags. -/
def O_ACCMODE : Nat := 0x0003

/-- bsd/sys/_types/_s_ifmt.h — the seven file types of `st_mode` (S_IFWHT, whiteout, is obsolete). -/
def fileTypes : Table := [
  ("S_IFIFO", 0o010000), ("S_IFCHR", 0o020000), ("S_IFDIR", 0o040000), ("S_IFBLK", 0o060000),
  ("S_IFREG", 0o100000), ("S_IFLNK", 0o120000), ("S_IFSOCK", 0o140000)]

/-- bsd/sys/_types/_s_ifmt.h — permission and special bits (`S_ISTXT` is BSD's name of `S_ISVTX`). -/
def modeBits : Table := [
  ("S_IXOTH", 0o000001), ("S_IWOTH", 0o000002), ("S_IROTH", 0o000004),
  ("S_IXGRP", 0o000010), ("S_IWGRP", 0o000020), ("S_IRGRP", 0o000040),
  ("S_IXUSR", 0o000100), ("S_IWUSR", 0o000200), ("S_IRUSR", 0o000400),
  ("S_ISVTX", 0o001000), ("S_ISTXT", 0o001000), ("S_ISGID", 0o002000), ("S_ISUID", 0o004000)]

def statModes : Table := modeBits ++ fileTypes

/-- bsd/sys/unistd.h — access(2) modes. -/
def accessModes : Table := [("F_OK", 0), ("X_OK", 1 <<< 0), ("W_OK", 1 <<< 1), ("R_OK", 1 <<< 2)]

/-- bsd/sys/socket.h — `MSG_*` (incl. the KERNEL_PRIVATE ones xnu passes through the trace point). -/
def msgFlags : Table := [
  ("MSG_OOB", 0x1), ("MSG_PEEK", 0x2), ("MSG_DONTROUTE", 0x4), ("MSG_EOR", 0x8), ("MSG_TRUNC", 0x10),
  ("MSG_CTRUNC", 0x20), ("MSG_WAITALL", 0x40), ("MSG_DONTWAIT", 0x80), ("MSG_EOF", 0x100),
  ("MSG_WAITSTREAM", 0x200), ("MSG_FLUSH", 0x400), ("MSG_HOLD", 0x800), ("MSG_SEND", 0x1000),
  ("MSG_HAVEMORE", 0x2000), ("MSG_RCVMORE", 0x4000), ("MSG_COMPAT", 0x8000), ("MSG_NEEDSA", 0x10000),
  ("MSG_NBIO", 0x20000), ("MSG_SKIPCFIL", 0x40000), ("MSG_NOSIGNAL", 0x80000),
  ("MSG_USEUPCALL", 0x80000000)]

/-- bsd/sys/fcntl.h (also sys/file.h) — flock(2) operations. -/
def lockOps : Table := [("LOCK_SH", 0x01), ("LOCK_EX", 0x02), ("LOCK_NB", 0x04), ("LOCK_UN", 0x08)]

/-- bsd/sys/stat.h — chflags(2) file flags. -/
def fileFlags : Table := [
  ("UF_NODUMP", 0x00000001), ("UF_IMMUTABLE", 0x00000002), ("UF_APPEND", 0x00000004),
  ("UF_OPAQUE", 0x00000008), ("UF_COMPRESSED", 0x00000020), ("UF_TRACKED", 0x00000040),
  ("UF_DATAVAULT", 0x00000080), ("UF_HIDDEN", 0x00008000),
  ("SF_ARCHIVED", 0x00010000), ("SF_IMMUTABLE", 0x00020000), ("SF_APPEND", 0x00040000),
  ("SF_RESTRICTED", 0x00080000), ("SF_NOUNLINK", 0x00100000)]

/-- osfmk/mach/vm_prot.h (xnu-7195: VM_PROT_NO_CHANGE is 0x08; later releases renamed that bit
    VM_PROT_NO_CHANGE_LEGACY). -/
def vmProt : Table := [
  ("VM_PROT_NONE", 0x00), ("VM_PROT_READ", 0x01), ("VM_PROT_WRITE", 0x02), ("VM_PROT_EXECUTE", 0x04),
  ("VM_PROT_NO_CHANGE", 0x08), ("VM_PROT_COPY", 0x10), ("VM_PROT_WANTS_COPY", 0x10),
  ("VM_PROT_TRUSTED", 0x20), ("VM_PROT_IS_MASK", 0x40), ("VM_PROT_STRIP_READ", 0x80)]

/-- osfmk/kern/ast.h — asynchronous system trap reasons. -/
def astReasons : Table := [
  ("AST_NONE", 0x00), ("AST_PREEMPT", 0x01), ("AST_QUANTUM", 0x02), ("AST_URGENT", 0x04),
  ("AST_HANDOFF", 0x08), ("AST_YIELD", 0x10), ("AST_APC", 0x20), ("AST_LEDGER", 0x40), ("AST_BSD", 0x80),
  ("AST_KPERF", 0x100), ("AST_MACF", 0x200), ("AST_RESET_PCS", 0x400), ("AST_ARCADE", 0x800),
  ("AST_GUARD", 0x1000), ("AST_TELEMETRY_USER", 0x2000), ("AST_TELEMETRY_KERNEL", 0x4000),
  ("AST_TELEMETRY_PMI", 0x8000), ("AST_SFI", 0x10000), ("AST_DTRACE", 0x20000),
  ("AST_TELEMETRY_IO", 0x40000), ("AST_KEVENT", 0x80000), ("AST_REBALANCE", 0x100000),
  ("AST_UNQUIESCE", 0x200000)]

/-- osfmk/kern/thread.h — scheduler thread state bits. -/
def threadState : Table := [
  ("TH_WAIT", 0x01), ("TH_SUSP", 0x02), ("TH_RUN", 0x04), ("TH_UNINT", 0x08), ("TH_TERMINATE", 0x10),
  ("TH_TERMINATE2", 0x20), ("TH_WAIT_REPORT", 0x40), ("TH_IDLE", 0x80)]

/-- osfmk/kperf/action.h — sampler bits of a kperf action. -/
def samplerActions : Table := [
  ("SAMPLER_TH_INFO", 1 <<< 0), ("SAMPLER_TH_SNAPSHOT", 1 <<< 1), ("SAMPLER_KSTACK", 1 <<< 2),
  ("SAMPLER_USTACK", 1 <<< 3), ("SAMPLER_PMC_THREAD", 1 <<< 4), ("SAMPLER_PMC_CPU", 1 <<< 5),
  ("SAMPLER_PMC_CONFIG", 1 <<< 6), ("SAMPLER_MEMINFO", 1 <<< 7), ("SAMPLER_TH_SCHEDULING", 1 <<< 8),
  ("SAMPLER_TH_DISPATCH", 1 <<< 9), ("SAMPLER_TK_SNAPSHOT", 1 <<< 10), ("SAMPLER_SYS_MEM", 1 <<< 11),
  ("SAMPLER_TH_INSCYC", 1 <<< 12), ("SAMPLER_TK_INFO", 1 <<< 13)]

/-- osfmk/kperf/thread_samplers.h — kperf thread-info run mode bits. -/
def kperfTiState : Table := [
  ("KPERF_TI_RUNNING", 1 <<< 0), ("KPERF_TI_RUNNABLE", 1 <<< 1), ("KPERF_TI_WAIT", 1 <<< 2),
  ("KPERF_TI_UNINT", 1 <<< 3), ("KPERF_TI_SUSP", 1 <<< 4), ("KPERF_TI_TERMINATE", 1 <<< 5),
  ("KPERF_TI_IDLE", 1 <<< 6)]

/-- osfmk/kperf/callstack.h — callstack header flags. -/
def callstackFlags : Table := [
  ("CALLSTACK_VALID", 0x01), ("CALLSTACK_DEFERRED", 0x02), ("CALLSTACK_64BIT", 0x04),
  ("CALLSTACK_KERNEL", 0x08), ("CALLSTACK_TRUNCATED", 0x10), ("CALLSTACK_CONTINUATION", 0x20),
  ("CALLSTACK_KERNEL_WORDS", 0x40), ("CALLSTACK_TRANSLATED", 0x80), ("CALLSTACK_FIXUP_PC", 0x100)]

/-- dyld include/dlfcn.h — dlopen(3) modes. -/
def rtldFlags : Table := [
  ("RTLD_LAZY", 0x1), ("RTLD_NOW", 0x2), ("RTLD_LOCAL", 0x4), ("RTLD_GLOBAL", 0x8),
  ("RTLD_NOLOAD", 0x10), ("RTLD_NODELETE", 0x80), ("RTLD_FIRST", 0x100)]

/-! ### bsd/sys/ioccom.h — ioctl request words -/

def IOCPARM_MASK : Nat := 0x1fff
def IOC_VOID : Nat := 0x20000000
def IOC_OUT : Nat := 0x40000000
def IOC_IN : Nat := 0x80000000
def IOC_INOUT : Nat := IOC_IN ||| IOC_OUT
def IOC_DIRMASK : Nat := 0xe0000000

/-- `#define _IOC(inout, group, num, len) (inout | ((len & IOCPARM_MASK) << 16) | ((group) << 8) | (num))` -/
def _IOC (dir group num len : Nat) : Nat :=
  dir ||| ((len &&& IOCPARM_MASK) <<< 16) ||| (group <<< 8) ||| num

/-- The four directions a request word can carry, with the text under which the tool shows them
    (`IOC_INOUT` is defined as `IOC_IN | IOC_OUT`, and is shown spelled out). -/
def directions : List (Nat × String) :=
  [(IOC_VOID, "IOC_VOID"), (IOC_OUT, "IOC_OUT"), (IOC_IN, "IOC_IN"), (IOC_INOUT, "IOC_IN | IOC_OUT")]

end KdVerif.Spec.Darwin
