import KdVerif.Model.PyIR
/-
  The rest of `TracesParser` (`pykdebugparser/traces_parser.py`) as terms translated from the source text
  (`tools/gen_pyir.py`, into `Gen/PyIR.lean` beside the five pairing methods):

  * `feed_generator(self, generator)` — a generator method: `for event in generator: ret = self.feed(event);
    if ret is not None: yield ret`.  Statements in continuation form (`GStmt`), a big-step interpreter `execG` whose
    answer is (values yielded in order, then the final heap — or the exception that ended the stream; what was yielded
    before the exception stays delivered).  `self.feed(x)` is answered by the interpreter of `Model/PyIR` running the
    TRANSLATED `feed` (`PyIR.feed prog cfg`).  The argument `generator` is a list of events plus the exception the
    generator itself ends with (if any).

  * `__init__(self, trace_codes_map, threads_pids, pids_names)` — the attribute initialisers
    (`self.<attr> = <parameter>` / `self.<attr> = {}`), the handler registry (`self.handlers = {}` followed by
    `self.handlers.update(<family>_handlers)` calls, each name bound by
    `from pykdebugparser.trace_handlers.<family> import handlers as <family>_handlers`), in an `InitDef`:
    the initialisers SORTED by attribute (they do not depend on each other — the translator checks that every value is a
    bare parameter or an empty dict display), the updates IN SOURCE ORDER (a later family wins on a duplicate name).
    `runInit` builds the object: which OBJECT every attribute is (`Ref.arg k`: the caller's k-th argument itself — shared,
    not copied; `Ref.fresh n`: the n-th dict the constructor made, empty), and the sequence of updates applied to
    `self.handlers`; `merge` is the registry that sequence builds from the families' dicts.
  Core Lean only.
-/
namespace KdVerif.PyIRTp
open KdVerif.PyIR

/-! ### `feed_generator` -/

inductive GExpr
  | none                              -- `None`
  | var (i : Nat)                     -- parameter / local
  | isNotNone (e : GExpr)             -- `e is not None`
  | unsupported (src : String)
  deriving DecidableEq, Repr

/-- Statements in continuation form (as in `Model/PyIR`); `done` ends a loop body and the method. -/
inductive GStmt
  | done
  | forIn (v : Nat) (it : GExpr) (body next : GStmt)   -- `for v in it: body`
  | callFeed (v : Nat) (a : GExpr) (next : GStmt)      -- `v = self.feed(a)`
  | ite (c : GExpr) (t e : GStmt)                      -- `if c: t else: e`
  | yield (e : GExpr) (next : GStmt)                   -- `yield e`
  | unsupported (src : String)
  deriving DecidableEq, Repr

structure GenDef where
  params : Nat          -- after `self`; the variables `0 … params-1`
  body : GStmt
  deriving DecidableEq, Repr

inductive GVal
  | gen (es : List Kevent) (err : Option PyErr)   -- a generator: the events it delivers, then the exception it ends with
  | v (x : Val)                                   -- a value of `Model/PyIR` (an event, `None`, a handler's result, a bool)
  deriving DecidableEq, Repr

abbrev GEnv := Nat → Option GVal

def GEnv.set (env : GEnv) (i : Nat) (x : GVal) : GEnv := fun j => if j = i then some x else env j

def GEnv.ofArgs (args : List GVal) : GEnv := fun j => args[j]?

def evalG (env : GEnv) : GExpr → Except PyErr GVal
  | .none => .ok (.v .none)
  | .var i => match env i with | some x => .ok x | Option.none => .error .unmodelled
  | .isNotNone e =>
    match evalG env e with
    | .ok (.v .none) => .ok (.v (.bool false))
    | .ok _ => .ok (.v (.bool true))
    | .error x => .error x
  | .unsupported _ => .error .unmodelled

/-- What running a statement gives: the values yielded (in order), then the environment and heap — or the exception. -/
abbrev GRes := List Val × Except PyErr (GEnv × World)

/-- `for v in <events>: body` -/
def forEvents (body : GEnv → World → GRes) (v : Nat) : List Kevent → GEnv → World → GRes
  | [], env, w => ([], .ok (env, w))
  | e :: es, env, w =>
    match body (env.set v (.v (.event e))) w with
    | (o, .error x) => (o, .error x)
    | (o, .ok (env', w')) =>
      let r := forEvents body v es env' w'
      (o ++ r.1, r.2)

/-- The interpreter; `feed w e` answers `self.feed(e)` on the heap `w`. -/
def execG (feed : World → Kevent → Except PyErr (Val × World)) : GStmt → GEnv → World → GRes
  | .done, env, w => ([], .ok (env, w))
  | .forIn v it body next, env, w =>
    match evalG env it with
    | .error x => ([], .error x)
    | .ok (.gen es err) =>
      (match forEvents (fun env w => execG feed body env w) v es env w with
       | (o, .error x) => (o, .error x)
       | (o, .ok (env', w')) =>
         match err with
         | some x => (o, .error x)              -- the generator's own exception, after everything it delivered was consumed
         | Option.none =>
           let r := execG feed next env' w'
           (o ++ r.1, r.2))
    | .ok (.v .none) => ([], .error .typeError)  -- `for x in None`
    | .ok _ => ([], .error .unmodelled)
  | .callFeed v a next, env, w =>
    match evalG env a with
    | .ok (.v (.event e)) =>
      (match feed w e with
       | .error x => ([], .error x)
       | .ok (r, w') => execG feed next (env.set v (.v r)) w')
    | .ok _ => ([], .error .unmodelled)
    | .error x => ([], .error x)
  | .ite c t e, env, w =>
    match evalG env c with
    | .ok (.v (.bool true)) => execG feed t env w
    | .ok (.v (.bool false)) => execG feed e env w
    | .ok _ => ([], .error .unmodelled)
    | .error x => ([], .error x)
  | .yield e next, env, w =>
    match evalG env e with
    | .ok (.v x) =>
      let r := execG feed next env w
      (x :: r.1, r.2)
    | .ok _ => ([], .error .unmodelled)
    | .error x => ([], .error x)
  | .unsupported _, _, _ => ([], .error .unmodelled)

/-- What consuming a generator method to its end gives: the values delivered, then the heap — or the exception. -/
abbrev GenRes := List Val × Except PyErr World

/-- `parser.feed_generator(<a generator delivering es, then raising err>)` consumed to its end on the heap `w`; `self.feed`
    is the translated `feed` of `p`. -/
def runFeedGen (p : Prog) (g : GenDef) (cfg : Cfg) (es : List Kevent) (err : Option PyErr) (w : World) : GenRes :=
  if g.params ≠ 1 then ([], .error .unmodelled)
  else
    match execG (PyIR.feed p cfg) g.body (GEnv.ofArgs [.gen es err]) w with
    | (o, .ok (_, w')) => (o, .ok w')
    | (o, .error x) => (o, .error x)

/-- `self.feed` as the step function of the pipeline model `feedGen` (`Model/Pipeline`): the state is the heap, the item
    delivered is the value returned unless it is `None`. -/
def feedStep (p : Prog) (cfg : Cfg) (w : World) (e : Kevent) : Except PyErr (World × Option Val) :=
  match PyIR.feed p cfg w e with
  | .ok (v, w') => .ok (w', if v = .none then Option.none else some v)
  | .error x => .error x

/-- The state a state machine fed item by item ends in (`.error`: the exception of the first failing `feed`). -/
def finalState {σ ε τ : Type} (feed : σ → ε → Except PyErr (σ × Option τ)) : σ → List ε → Except PyErr σ
  | s, [] => .ok s
  | s, e :: es =>
    match feed s e with
    | .error x => .error x
    | .ok (s', _) => finalState feed s' es

/-- the exception a run stopped with -/
def errOf {σ : Type} : Except PyErr σ → Option PyErr
  | .ok _ => Option.none
  | .error x => some x

/-- How consuming `feed_generator(generator)` ends, given how the state machine ends (`fin`) and the exception the event
    generator itself ends with (`err`): an exception of `feed` first; else the generator's own, raised when everything it
    delivered has been fed; else the final state. -/
def outcome {σ : Type} : Except PyErr σ → Option PyErr → Except PyErr σ
  | .error x, _ => .error x
  | .ok _, some x => .error x
  | .ok s, Option.none => .ok s

/-! ### `__init__` -/

/-- The attributes `__init__` binds (beside `qualifiers_actions`, which is `Prog.actions`). -/
inductive IAttr
  | traceCodes | onGoingEvents | onGoingTraces | globalStrings | threadsPids | pidsNames | tidsNames
  | lastDataNewthread | lastDataExec | handlers
  deriving DecidableEq, Repr

/-- position in the normal form (declaration order) -/
def IAttr.idx : IAttr → Nat
  | .traceCodes => 0 | .onGoingEvents => 1 | .onGoingTraces => 2 | .globalStrings => 3 | .threadsPids => 4
  | .pidsNames => 5 | .tidsNames => 6 | .lastDataNewthread => 7 | .lastDataExec => 8 | .handlers => 9

def IAttr.all : List IAttr :=
  [.traceCodes, .onGoingEvents, .onGoingTraces, .globalStrings, .threadsPids, .pidsNames, .tidsNames,
   .lastDataNewthread, .lastDataExec, .handlers]

inductive IVal
  | param (k : Nat)                   -- `self.a = <parameter k>`: the caller's object itself
  | emptyDict                         -- `self.a = {}` (also written `dict()`): a new empty dict
  | unsupported (src : String)
  deriving DecidableEq, Repr

/-- The seven handler families, `pykdebugparser.trace_handlers.<family>`; `idx` is the family number of the reflected
    decoder table (`IR.Decoder.family`). -/
inductive Family
  | bsd | dyld | fsystem | mach | perf | trace | turnstile
  deriving DecidableEq, Repr

def Family.idx : Family → Nat
  | .bsd => 0 | .dyld => 1 | .fsystem => 2 | .mach => 3 | .perf => 4 | .trace => 5 | .turnstile => 6

def Family.all : List Family := [.bsd, .dyld, .fsystem, .mach, .perf, .trace, .turnstile]

structure InitDef where
  params : Nat                        -- after `self`
  sets : List (IAttr × IVal)          -- the initialisers, sorted by attribute
  updates : List Family               -- `self.handlers.update(<family>_handlers)`, in source order (all behind `self.handlers = {}`)
  deriving DecidableEq, Repr

/-- An object alive when the constructor returns. -/
inductive Ref
  | arg (k : Nat)                     -- the caller's k-th argument (the same object, not a copy)
  | fresh (n : Nat)                   -- the n-th dict made by the constructor; empty
  deriving DecidableEq, Repr

/-- A `TracesParser` right after construction. -/
structure Obj where
  attrs : List (IAttr × Ref) := []    -- bindings in the order they were made
  made : Nat := 0                     -- dicts made so far
  updates : List Family := []         -- the updates applied to `self.handlers`, oldest first
  deriving DecidableEq, Repr

/-- `self.<a>` (`none`: AttributeError — never bound) -/
def Obj.get (o : Obj) (a : IAttr) : Option Ref := (o.attrs.reverse.find? (·.1 = a)).map (·.2)

def runSet (nargs : Nat) (o : Obj) : IAttr × IVal → Except PyErr Obj
  | (a, .param k) =>
    if o.attrs.any (·.1 = a) then .error .unmodelled           -- bound twice: outside the normal form
    else if k < nargs then .ok { o with attrs := o.attrs ++ [(a, .arg k)] } else .error .unmodelled
  | (a, .emptyDict) =>
    if o.attrs.any (·.1 = a) then .error .unmodelled
    else .ok { o with attrs := o.attrs ++ [(a, .fresh o.made)], made := o.made + 1 }
  | (_, .unsupported _) => .error .unmodelled

def runSets (nargs : Nat) : List (IAttr × IVal) → Obj → Except PyErr Obj
  | [], o => .ok o
  | s :: rest, o =>
    match runSet nargs o s with
    | .ok o' => runSets nargs rest o'
    | .error x => .error x

/-- `TracesParser(a0, a1, …)` with `nargs` positional arguments.  The updates need `self.handlers` bound to a dict the
    constructor made (the translator has checked that `self.handlers = {}` precedes them in the source). -/
def runInit (d : InitDef) (nargs : Nat) : Except PyErr Obj :=
  if nargs ≠ d.params then .error .typeError
  else
    match runSets nargs d.sets {} with
    | .error x => .error x
    | .ok o =>
      match o.get .handlers with
      | some (.fresh _) => .ok { o with updates := d.updates }
      | some (.arg _) => .error .unmodelled
      | Option.none => if d.updates.isEmpty then .ok o else .error .attributeError

/-- The dicts the constructor made that the parser keeps in `attrs`, as object identities. -/
def Obj.freshOf (o : Obj) (as : List IAttr) : Option (List Nat) :=
  as.mapM fun a => match o.get a with | some (.fresh n) => some n | _ => Option.none

/-- The heap of `Model/PyIR` the new parser has: defined when `on_going_events` and `on_going_traces` are two DIFFERENT
    dicts made by the constructor (a `World` keeps the two tables apart; one object under both names has no `World`). -/
def Obj.world (o : Obj) : Option World :=
  match o.freshOf [.onGoingEvents, .onGoingTraces] with
  | some [a, b] => if a ≠ b then some World.empty else Option.none
  | _ => Option.none

/-! #### the registry -/

/-- `d.update(other)` on insertion-ordered dicts: every entry of `other`, in its order, stored into `d`. -/
def dictUpdate {β : Type} (d other : AList β) : AList β := other.foldl (fun r kv => AList.set kv.1 kv.2 r) d

/-- `self.handlers = {}` followed by `self.handlers.update(fam f)` for every `f` of `us`, in order. -/
def merge {β : Type} (fam : Family → AList β) (us : List Family) : AList β :=
  us.foldl (fun r f => dictUpdate r (fam f)) []

/-! ### unsupported nodes -/

def GExpr.hasUnsupported : GExpr → Bool
  | .unsupported _ => true
  | .isNotNone e => e.hasUnsupported
  | _ => false

def GStmt.hasUnsupported : GStmt → Bool
  | .unsupported _ => true
  | .done => false
  | .forIn _ it b n => it.hasUnsupported || b.hasUnsupported || n.hasUnsupported
  | .callFeed _ a n | .yield a n => a.hasUnsupported || n.hasUnsupported
  | .ite c t e => c.hasUnsupported || t.hasUnsupported || e.hasUnsupported

def InitDef.hasUnsupported (d : InitDef) : Bool :=
  d.sets.any fun s => match s.2 with | .unsupported _ => true | _ => false

end KdVerif.PyIRTp
