import Driver.Util
import KdVerif.Model.PyIR
import KdVerif.Gen.PyIR
import KdVerif.Spec.PyIRExpected
import KdVerif.Spec.PyIRTpExpected
import KdVerif.Model.PyIRCs
import KdVerif.Gen.PyIRCs
import KdVerif.Spec.PyIRCsExpected
import Driver.Cmd.Callstacks
open KdVerif
namespace Driver.PyIR
open KdVerif.PyIR

/-- `eid:name:t:h` — an entry of `trace_codes` (`name` = number of the trace name), `t` = 1 iff the name is in
    `trace_handlers`, `h` = 1 iff the name is in `self.handlers`. -/
def parseCode (s : String) : Option (Nat × Nat × Bool × Bool) :=
  match (s.splitOn ":").mapM String.toNat? with
  | some [eid, n, t, h] => some (eid, n, t != 0, h != 0)
  | _ => none

def parseCodes (s : String) : Option (List (Nat × Nat × Bool × Bool)) :=
  if s = "-" then some [] else (s.splitOn ",").mapM parseCode

def cfgOf (cs : List (Nat × Nat × Bool × Bool)) : Cfg :=
  { codes := fun eid => (cs.find? fun c => c.1 == eid).map (·.2.1)
    isTraceName := fun n => cs.any fun c => c.2.1 == n && c.2.2.1
    hasHandler := fun n => cs.any fun c => c.2.1 == n && c.2.2.2 }

def unsupported : Bool := Gen.PyIR.prog.hasUnsupported || !Gen.PyIR.notes.isEmpty

/-- One event's answer in the format of `pairg`: `-` (parse_event_list not called, `None` returned), the window
    handed to `parse_event_list` as timestamps, `*` appended when `None` came back; anything else is made visible. -/
def showEvent (before : Nat) (r : Val) (w' : World) : String :=
  let ts (l : List Kevent) := natListC (l.map (·.timestamp))
  match w'.calls.drop before, r with
  | [], .none => "-"
  | [], _ => "?unseen"
  | [l], .none => ts l ++ "*"
  | [l], .result _ v => if v = l then ts l else ts v ++ "!=" ++ ts l
  | [_], _ => "?value"
  | _, _ => "?multi"

def runShow (cfg : Cfg) : World → List Kevent → Except PyErr (List String)
  | _, [] => .ok []
  | w, e :: es =>
    match feed Gen.PyIR.prog cfg w e with
    | .error x => .error x
    | .ok (r, w') =>
      match runShow cfg w' es with
      | .ok rest => .ok (showEvent w.calls.length r w' :: rest)
      | .error x => .error x

/-- `pyir <codes> <record hex>…` : the program GENERATED from traces_parser.py (`Gen/PyIR`), run by the
    interpreter of `Model/PyIR` from empty tables; per event the answer of `pairg`.  `unsupported` when the
    translation contains a node outside the IR. -/
def cmdPyIR : Cmd
  | codes :: recs =>
    if unsupported then "unsupported" else
    match parseCodes codes, parseRecs recs with
    | some cs, some es =>
      match runShow (cfgOf cs) World.empty es with
      | .ok parts => "ok " ++ ";".intercalate parts
      | .error x => "err " ++ x.name
    | _, _ => "bad-op"
  | _ => "bad-op"

/-- `pyircheck` : is the generated program the expected one (`C04.source_is_expected_ir`)?  `same`, or `differs`
    followed by the parts that differ. -/
def cmdCheck : Cmd := fun _ =>
  let g := Gen.PyIR.prog
  let x := KdVerif.PyIR.Expected.prog
  let d : List String :=
    (if g.feed = x.feed then [] else ["feed"]) ++
    (if g.parseEventList = x.parseEventList then [] else ["parse_event_list"]) ++
    (if g.feedStart = x.feedStart then [] else ["_feed_start_event"]) ++
    (if g.feedEnd = x.feedEnd then [] else ["_feed_end_event"]) ++
    (if g.feedSingle = x.feedSingle then [] else ["_feed_single_event"]) ++
    (if g.actions = x.actions then [] else ["qualifiers_actions"]) ++
    (if Gen.PyIR.feedGenerator = KdVerif.PyIRTp.Expected.feedGenerator then [] else ["feed_generator"]) ++
    (if Gen.PyIR.init.sets = KdVerif.PyIRTp.Expected.init.sets ∧
        Gen.PyIR.init.params = KdVerif.PyIRTp.Expected.init.params then [] else ["__init__"]) ++
    (if Gen.PyIR.init.updates = KdVerif.PyIRTp.Expected.init.updates then [] else ["__init__-registry"]) ++
    (if Gen.PyIR.notes.isEmpty then [] else ["notes"])
  if d.isEmpty then "same" else
    "differs " ++ ",".intercalate d ++ (if unsupported then " unsupported" else "")

/-! ### `TracesParser.feed_generator` and `TracesParser.__init__` (`Model/PyIRTp`) -/

def genUnsupported : Bool := unsupported || Gen.PyIR.feedGenerator.body.hasUnsupported

def parseErr (s : String) : Option (Option PyErr) :=
  if s = "-" then some none
  else ([PyErr.eof, .keyError, .valueError, .indexError, .structError, .streamError, .typeError].find? (·.name == s)).map some

/-- one window table, sorted by thread and code: `tid.eid=ts,ts/…` (`-` = empty) -/
def showTbl (t : Tbl) : String :=
  let rows : List (Nat × Nat × List Kevent) := t.flatMap fun p => p.2.map fun q => (p.1, q.1, q.2)
  let sorted := rows.toArray.qsort (fun a b => a.1 < b.1 || (a.1 == b.1 && a.2.1 < b.2.1)) |>.toList
  if sorted.isEmpty then "-" else
    "/".intercalate (sorted.map fun r => s!"{r.1}.{r.2.1}=" ++ natListC (r.2.2.map (·.timestamp)))

def showYield : Val → String
  | .result _ w => natListC (w.map (·.timestamp))
  | _ => "?"

def showYields (o : List Val) : String := if o.isEmpty then "-" else ";".intercalate (o.map showYield)

/-- `pyirgen <codes> <err|-> <k> <record hex>…` : the first `k` records are fed one by one through the GENERATED `feed`
    (answers dropped), the others through the GENERATED `feed_generator` as a generator that ends with the exception `err`;
    answer: `ok <windows yielded> <on_going_events> <on_going_traces>` or `err <E> after <windows yielded>`. -/
def cmdPyIRGen : Cmd
  | codes :: err :: k :: recs =>
    if genUnsupported then "unsupported" else
    match parseCodes codes, parseErr err, k.toNat?, parseRecs recs with
    | some cs, some er, some k, some es =>
      match runFrom Gen.PyIR.prog (cfgOf cs) World.empty (es.take k) with
      | .error x => "err " ++ x.name ++ " before"
      | .ok (_, w) =>
        match KdVerif.PyIRTp.runFeedGen Gen.PyIR.prog Gen.PyIR.feedGenerator (cfgOf cs) (es.drop k) er w with
        | (o, .ok w') => "ok " ++ showYields o ++ " " ++ showTbl w'.events ++ " " ++ showTbl w'.traces
        | (o, .error x) => "err " ++ x.name ++ " after " ++ showYields o
    | _, _, _, _ => "bad-op"
  | _ => "bad-op"

def showRef : KdVerif.PyIRTp.Ref → String
  | .arg k => s!"arg{k}"
  | .fresh n => s!"new{n}"

def attrName : KdVerif.PyIRTp.IAttr → String
  | .traceCodes => "trace_codes" | .onGoingEvents => "on_going_events" | .onGoingTraces => "on_going_traces"
  | .globalStrings => "global_strings" | .threadsPids => "threads_pids" | .pidsNames => "pids_names"
  | .tidsNames => "tids_names" | .lastDataNewthread => "last_data_newthread" | .lastDataExec => "last_data_exec"
  | .handlers => "handlers"

def familyName : KdVerif.PyIRTp.Family → String
  | .bsd => "bsd" | .dyld => "dyld" | .fsystem => "fsystem" | .mach => "mach" | .perf => "perf" | .trace => "trace"
  | .turnstile => "turnstile"

/-- `pyirinit <nargs>` : the GENERATED `__init__` run on `nargs` arguments: every attribute with the object it is bound to
    (`arg<k>` = the caller's k-th argument itself, `new<n>` = the n-th dict the constructor made, empty; `unbound`), sorted
    by attribute name, then the families merged into `self.handlers`, in order. -/
def cmdPyIRInit : Cmd
  | [n] =>
    if Gen.PyIR.init.hasUnsupported || !Gen.PyIR.notes.isEmpty then "unsupported" else
    match n.toNat? with
    | some n =>
      match KdVerif.PyIRTp.runInit Gen.PyIR.init n with
      | .error x => "err " ++ x.name
      | .ok o =>
        let rows := KdVerif.PyIRTp.IAttr.all.map fun a =>
          (attrName a, match o.get a with | some r => showRef r | none => "unbound")
        let sorted := rows.toArray.qsort (fun a b => a.1 < b.1) |>.toList
        "ok " ++ ",".intercalate (sorted.map fun r => r.1 ++ "=" ++ r.2) ++ " " ++
          (if o.updates.isEmpty then "-" else ",".intercalate (o.updates.map familyName))
    | none => "bad-op"
  | _ => "bad-op"

/-! ### callstacks_parser.py, PyKdebugParser.callstacks -/

def csUnsupported : Bool :=
  Gen.PyIRCs.prog.hasUnsupported || Gen.PyIRCs.frameLoop.body.hasUnsupported || !Gen.PyIRCs.notes.isEmpty

def parseAnn (s : String) : Option (Nat × Bytes) :=
  match s.splitOn ":" with
  | [a, u] => do let n ← a.toNat?; let b ← ofHex u; pure (n, b)
  | _ => none

def parseAnns (s : String) : Option (List (Nat × Bytes)) :=
  if s = "-" then some [] else (s.splitOn ",").mapM parseAnn

def showFrameV (f : PyIRCs.FrameV) : String :=
  match f.uuid, f.offset with
  | none, none => s!"{f.address}"
  | some u, some o => s!"{f.address}:{toHex u}:{o}"
  | _, _ => s!"{f.address}:?"

def csInsertAll (st : Callstacks.Images) : List (Nat × Bytes) → Except PyErr Callstacks.Images
  | [] => .ok st
  | (a, u) :: rest =>
    match PyIRCs.run Gen.PyIRCs.insertImage [.int a, .uuid u] st with
    | .ok (.none, st') => csInsertAll st' rest
    | .ok _ => .error .unmodelled
    | .error e => .error e

/-- `csir <addr:uuidhex,… or -> <frame,… or ->` : the GENERATED `insert_image` run for every announcement from two
    empty lists, then the GENERATED frame loop on the frames; answer `ok <addresses>|<uuids>|<frames>`. -/
def cmdCsIR : Cmd
  | [anns, frs] =>
    if csUnsupported then "unsupported" else
    match parseAnns anns, parseNatList frs with
    | some as, some fs =>
      match csInsertAll Callstacks.Images.empty as with
      | .error e => "err " ++ e.name
      | .ok st =>
        match PyIRCs.run Gen.PyIRCs.frameLoop [.trace (.sample [] (some fs))] st with
        | .ok (.frames l, st') =>
          "ok " ++ natListC st'.addrs ++ "|" ++ ",".intercalate (st'.uuids.map toHex) ++ "|" ++
            ",".intercalate (l.map showFrameV)
        | .ok _ => "err Unmodelled"
        | .error e => "err " ++ e.name
    | _, _ => "bad-op"
  | _ => "bad-op"

/-- One trace object: `s:<ts>.<tid>,…:<frame,… | - | N>` (a PerfEvent: its ktraces, its cs_frames — `-` the empty list,
    `N` None), `i:<addr>:<uuidhex>` (a DyldUuidMapA), `l:<addr>.<uuidhex>,… | l:-` (a DyldLaunchExecutable with its
    uuid_map_a), `o` (any other trace). -/
def parseImgPair (p : String) : Option (Nat × Bytes) :=
  match p.splitOn "." with
  | [a, u] => do let n ← a.toNat?; let b ← ofHex (unDash u); pure (n, b)
  | _ => none

def parseKT (p : String) : Option PyIRCs.KT :=
  match p.splitOn "." with
  | [a, b] => do let x ← a.toNat?; let y ← b.toNat?; pure ⟨x, y⟩
  | _ => none

def parseTrace (s : String) : Option PyIRCs.Trace :=
  match s.splitOn ":" with
  | ["o"] => some .other
  | ["i", a, u] => do let n ← a.toNat?; let b ← ofHex (unDash u); pure (.image n b)
  | ["l", l] => if l = "-" then some (.launch []) else ((l.splitOn ",").mapM parseImgPair).map .launch
  | ["s", k, f] => do
    let kts ← if k = "-" then some [] else (k.splitOn ",").mapM parseKT
    let cs ← if f = "N" then some none else (parseNatList f).map some
    pure (.sample kts cs)
  | _ => none

def parseTraces (s : String) : Option (List PyIRCs.Trace) :=
  if s = "-" then some [] else (s.splitOn ";").mapM parseTrace

/-- the two lists `a,b,…|u,v,…` (`-` = empty) -/
def parseImages (s : String) : Option Callstacks.Images :=
  match s.splitOn "|" with
  | [a, u] => do
    let as ← parseNatList a
    let us ← if u = "-" then some [] else (u.splitOn ",").mapM fun h => ofHex (unDash h)
    pure ⟨as, us⟩
  | _ => none

def showVal : PyIRCs.Val → String
  | .callstack c => s!"{c.timestamp}/{c.tid}/" ++ ",".intercalate (c.frames.map showFrameV)
  | _ => "?"

def showOuts (o : List PyIRCs.Val) : String := if o.isEmpty then "-" else ";".intercalate (o.map showVal)

def showLists (st : Callstacks.Images) : String :=
  (if st.addrs.isEmpty then "-" else natListC st.addrs) ++ "|" ++
    (if st.uuids.isEmpty then "-" else ",".intercalate (st.uuids.map fun u => if u.isEmpty then "-" else toHex u))

/-- the callstacks delivered, then the two lists — or the exception -/
def showGenRes : PyIRCs.GenRes → String
  | (o, .ok st) => "ok " ++ showOuts o ++ " " ++ showLists st
  | (o, .error e) => "err " ++ e.name ++ " after " ++ showOuts o

/-- `csfeed <lists> <trace;…>` : the GENERATED whole `feed_generator` (calling the GENERATED `insert_image`) on a
    `CallstacksParser` whose two lists hold `<lists>`, over the trace objects; answer: callstacks yielded, final lists /
    exception. -/
def cmdCsFeed : Cmd
  | [lists, traces] =>
    if csUnsupported then "unsupported" else
    match parseImages lists, parseTraces traces with
    | some st, some ts => showGenRes (PyIRCs.runFeed Gen.PyIRCs.prog ts none st)
    | _, _ => "bad-op"
  | _ => "bad-op"

/-- `csreq <lists> <trace;…>` : the GENERATED `PyKdebugParser.callstacks` on an object whose two lists hold `<lists>`
    (left by earlier requests), `self.traces(…)` delivering the trace objects; the result consumed to its end. -/
def cmdCsReq : Cmd
  | [lists, traces] =>
    if csUnsupported then "unsupported" else
    match parseImages lists, parseTraces traces with
    | some st, some ts => showGenRes (PyIRCs.runRequest Gen.PyIRCs.prog ts none st)
    | _, _ => "bad-op"
  | _ => "bad-op"

/-- The requests of a `cs` line through the GENERATED `callstacks()` / `feed_generator` on ONE object: every request starts
    from the lists the previous one left. -/
def csGenRequests (traceOfWindow : List Kevent → PyIRCs.Trace) (domOf : Nat → Bool) :
    Callstacks.Images → List (List Kevent) → List String
  | _, [] => []
  | st, evs :: rest =>
    let r := PyIRCs.runRequest Gen.PyIRCs.prog ((Pairing.run domOf evs).map traceOfWindow) none st
    match r with
    | (o, .ok st') => ("ok " ++ showOuts o) :: csGenRequests traceOfWindow domOf st' rest
    | (_, .error e) => ("err " ++ e.name) :: csGenRequests traceOfWindow domOf st rest

/-- `csgen …` : the arguments of `cs`, answered by the GENERATED `callstacks()` and `feed_generator` over the trace objects
    of the windows (`PyIRCs.traceOf ∘ Callstacks.windowItem`; pairing and handlers as in `cs`). -/
def cmdCsGen : Cmd
  | ids :: doms :: recs =>
    if csUnsupported then "unsupported" else
    match (ids.splitOn "/").mapM parseNatList, parseNatList doms, (Callstacks.splitBar recs).mapM parseRecs with
    | some groups, some ds, some reqs =>
      if groups.length ≠ Callstacks.codeNames.length then "bad-op"
      else
        " | ".intercalate (csGenRequests
          (fun w => PyIRCs.traceOf (KdVerif.Callstacks.windowItem (Callstacks.nameOfGroups groups) w))
          (fun eid => ds.contains eid) KdVerif.Callstacks.Images.empty reqs)
    | _, _, _ => "bad-op"
  | _ => "bad-op"

/-- `csircheck` : are the generated terms the expected ones (`C15.source_is_expected_ir`)? -/
def cmdCsCheck : Cmd := fun _ =>
  let d : List String :=
    (if Gen.PyIRCs.insertImage = KdVerif.PyIRCs.Expected.insertImage then [] else ["insert_image"]) ++
    (if Gen.PyIRCs.frameLoop = KdVerif.PyIRCs.Expected.frameLoop then [] else ["feed_generator-frame-loop"]) ++
    (if Gen.PyIRCs.init = KdVerif.PyIRCs.Expected.init then [] else ["__init__"]) ++
    (if Gen.PyIRCs.feedGenerator = KdVerif.PyIRCs.Expected.feedGenerator then [] else ["feed_generator"]) ++
    (if Gen.PyIRCs.callstacks = KdVerif.PyIRCs.Expected.callstacks then [] else ["PyKdebugParser.callstacks"]) ++
    (if Gen.PyIRCs.notes.isEmpty then [] else ["notes"])
  if d.isEmpty then "same" else "differs " ++ ",".intercalate d ++ (if csUnsupported then " unsupported" else "")

def commands : List (String × Cmd) :=
  [("pyir", cmdPyIR), ("pyircheck", cmdCheck), ("pyirgen", cmdPyIRGen), ("pyirinit", cmdPyIRInit), ("csir", cmdCsIR), ("csircheck", cmdCsCheck), ("csfeed", cmdCsFeed),
   ("csreq", cmdCsReq), ("csgen", cmdCsGen)]

end Driver.PyIR
