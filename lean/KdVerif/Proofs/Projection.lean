import KdVerif.Proofs.Pairing
/-
  C05 (window level): a step of an event of thread `t` touches only table entries of thread `t`, hence the
  windows of a thread are a function of that thread's own subsequence.  Core Lean only.
-/
namespace KdVerif.Pairing
section
variable (domOf : Nat → Bool)

/-- Every stored list holds events of the key's own thread only. -/
def TidInv (s : PState) : Prop := ∀ k w, s k = some w → ∀ x ∈ w, x.tid = k.tid

/-- The two tables restricted to thread `t` coincide. -/
def Agree (t : Nat) (s₁ s₂ : PState) : Prop := ∀ k, k.tid = t → s₁ k = s₂ k

/-- A window belongs to thread `t`: its first event has thread id `t`. -/
def ofThread (t : Nat) (w : List Kevent) : Bool :=
  match w with
  | [] => false
  | x :: _ => x.tid == t

theorem tidInv_empty : TidInv PState.empty := by
  intro k w h; simp [PState.empty] at h

theorem appendAll_apply (s : PState) (d : Bool) (tid : Nat) (e : Kevent) (k : Key) :
    appendAll s d tid e k = if k.dom = d ∧ k.tid = tid then (s k).map (· ++ [e]) else s k := rfl

theorem set_apply (s : PState) (k k' : Key) (v : Option (List Kevent)) :
    set s k v k' = if k' = k then v else s k' := rfl

theorem tidInv_appendAll (s : PState) (d : Bool) (e : Kevent) (hs : TidInv s) :
    TidInv (appendAll s d e.tid e) := by
  intro k w hw x hx
  rw [appendAll_apply] at hw
  by_cases hc : k.dom = d ∧ k.tid = e.tid
  · simp only [hc, and_self, if_true, Option.map_eq_some_iff] at hw
    obtain ⟨w', hw', rfl⟩ := hw
    rcases List.mem_append.1 hx with hx | hx
    · exact hs k w' hw' x hx
    · simp only [List.mem_singleton] at hx; subst hx; exact hc.2.symm
  · simp only [hc, if_false] at hw
    exact hs k w hw x hx

theorem tidInv_set (s : PState) (k : Key) (v : Option (List Kevent)) (hs : TidInv s)
    (hv : ∀ w, v = some w → ∀ x ∈ w, x.tid = k.tid) : TidInv (set s k v) := by
  intro k' w hw x hx
  rw [set_apply] at hw
  by_cases hc : k' = k
  · subst hc; simp only [if_true] at hw; exact hv w hw x hx
  · simp only [hc, if_false] at hw; exact hs k' w hw x hx

theorem step_tidInv (s : PState) (e : Kevent) (hs : TidInv s) : TidInv (step domOf s e).1 := by
  by_cases h1 : e.qual = 1
  · rw [step_start domOf s e h1]
    exact tidInv_appendAll _ _ _ (tidInv_set _ _ _ hs (by simp))
  · by_cases h2 : e.qual = 2
    · cases hst : s (keyOf domOf e) with
      | none => rw [step_end_closed domOf s e h2 hst]; exact hs
      | some w =>
        rw [step_end_open domOf s e w h2 hst]
        exact tidInv_set _ _ _ (tidInv_appendAll _ _ _ hs) (by simp)
    · rw [step_single domOf s e h1 h2]; exact tidInv_appendAll _ _ _ hs

/-- Every emitted window is non-empty, ends with the event that caused it and consists of events of that
    event's thread only. -/
theorem step_output (s : PState) (e : Kevent) (hs : TidInv s) (w : List Kevent)
    (hw : (step domOf s e).2 = some w) :
    (∃ b, w = b ++ [e]) ∧ ∀ x ∈ w, x.tid = e.tid := by
  by_cases h1 : e.qual = 1
  · rw [step_start domOf s e h1] at hw; cases hw
  · by_cases h2 : e.qual = 2
    · cases hst : s (keyOf domOf e) with
      | none => rw [step_end_closed domOf s e h2 hst] at hw; cases hw
      | some w' =>
        rw [step_end_open domOf s e w' h2 hst] at hw
        simp only [Option.some.injEq] at hw
        subst hw
        refine ⟨⟨w', rfl⟩, ?_⟩
        intro x hx
        rcases List.mem_append.1 hx with hx | hx
        · exact hs _ _ hst x hx
        · simp only [List.mem_singleton] at hx; rw [hx]
    · rw [step_single domOf s e h1 h2] at hw
      simp only [Option.some.injEq] at hw
      subst hw
      exact ⟨⟨[], rfl⟩, by simp⟩

theorem ofThread_of_all (t : Nat) (w : List Kevent) (hne : w ≠ []) (h : ∀ x ∈ w, x.tid = t) :
    ofThread t w = true := by
  cases w with
  | nil => exact absurd rfl hne
  | cons x xs => simp [ofThread, h x (by simp)]

theorem ofThread_of_all_ne (t t' : Nat) (w : List Kevent) (h : ∀ x ∈ w, x.tid = t') (hne : t' ≠ t) :
    ofThread t w = false := by
  cases w with
  | nil => rfl
  | cons x xs => simp [ofThread, h x (by simp), hne]

/-- FRAME: a step of an event of thread `e.tid` changes no table entry of another thread, and what it
    emits consists of events of thread `e.tid` only. -/
theorem step_other_thread_frame (s : PState) (e : Kevent) :
    (∀ k, k.tid ≠ e.tid → (step domOf s e).1 k = s k) ∧
    (TidInv s → ∀ w, (step domOf s e).2 = some w → ∀ x ∈ w, x.tid = e.tid) := by
  refine ⟨?_, fun hs w hw => (step_output domOf s e hs w hw).2⟩
  intro k hk
  have hk' : k ≠ keyOf domOf e := fun h => hk (by rw [h]; rfl)
  by_cases h1 : e.qual = 1
  · rw [step_start domOf s e h1]; simp [appendAll_apply, set_apply, hk, hk']
  · by_cases h2 : e.qual = 2
    · cases hst : s (keyOf domOf e) with
      | none => rw [step_end_closed domOf s e h2 hst]
      | some w => rw [step_end_open domOf s e w h2 hst]; simp [appendAll_apply, set_apply, hk, hk']
    · rw [step_single domOf s e h1 h2]; simp [appendAll_apply, hk]

/-- A step of an event of thread `t` reads and writes only entries of thread `t`. -/
theorem step_agree (t : Nat) (s₁ s₂ : PState) (e : Kevent) (he : e.tid = t) (ha : Agree t s₁ s₂) :
    Agree t (step domOf s₁ e).1 (step domOf s₂ e).1 ∧ (step domOf s₁ e).2 = (step domOf s₂ e).2 := by
  have hke : s₁ (keyOf domOf e) = s₂ (keyOf domOf e) := ha _ he
  by_cases h1 : e.qual = 1
  · rw [step_start domOf s₁ e h1, step_start domOf s₂ e h1]
    refine ⟨?_, rfl⟩
    intro k hk
    simp only [appendAll_apply, set_apply, ha k hk]
  · by_cases h2 : e.qual = 2
    · cases hst : s₂ (keyOf domOf e) with
      | none =>
        rw [step_end_closed domOf s₁ e h2 (hke.trans hst), step_end_closed domOf s₂ e h2 hst]
        exact ⟨ha, rfl⟩
      | some w =>
        rw [step_end_open domOf s₁ e w h2 (hke.trans hst), step_end_open domOf s₂ e w h2 hst]
        refine ⟨?_, rfl⟩
        intro k hk
        simp only [appendAll_apply, set_apply, ha k hk]
    · rw [step_single domOf s₁ e h1 h2, step_single domOf s₂ e h1 h2]
      refine ⟨?_, rfl⟩
      intro k hk
      simp only [appendAll_apply, ha k hk]

/-- PROJECTION, from any pair of tables that coincide on thread `t`. -/
theorem projection_from (t : Nat) (m : List Kevent) (s₁ s₂ : PState) (hs : TidInv s₁)
    (ha : Agree t s₁ s₂) :
    (runFrom domOf s₁ m).2.filter (ofThread t) =
      (runFrom domOf s₂ (m.filter fun e => e.tid == t)).2 := by
  induction m generalizing s₁ s₂ with
  | nil => rfl
  | cons e es ih =>
    rw [runFrom_cons, List.filter_append]
    have hinv := step_tidInv domOf s₁ e hs
    by_cases he : e.tid = t
    · obtain ⟨ha', ho⟩ := step_agree domOf t s₁ s₂ e he ha
      have hf : (e :: es).filter (fun e => e.tid == t) = e :: es.filter (fun e => e.tid == t) := by
        simp [he]
      rw [hf, runFrom_cons, ih _ _ hinv ha', ← ho]
      congr 1
      cases hw : (step domOf s₁ e).2 with
      | none => rfl
      | some w =>
        obtain ⟨⟨b, hb⟩, hall⟩ := step_output domOf s₁ e hs w hw
        have : ofThread t w = true :=
          ofThread_of_all t w (by rw [hb]; simp) (fun x hx => (hall x hx).trans he)
        simp [this]
    · have hf : (e :: es).filter (fun e => e.tid == t) = es.filter (fun e => e.tid == t) := by
        simp [he]
      have ha' : Agree t (step domOf s₁ e).1 s₂ := by
        intro k hk
        rw [(step_other_thread_frame domOf s₁ e).1 k (by rw [hk]; exact fun h => he h.symm)]
        exact ha k hk
      rw [hf, ih _ _ hinv ha']
      cases hw : (step domOf s₁ e).2 with
      | none => simp
      | some w =>
        obtain ⟨_, hall⟩ := step_output domOf s₁ e hs w hw
        have : ofThread t w = false := ofThread_of_all_ne t e.tid w hall he
        simp [this]

/-- PROJECTION: the windows of thread `t` in a history are the windows of `t`'s own subsequence. -/
theorem projection_windows (m : List Kevent) (t : Nat) :
    (run domOf m).filter (ofThread t) = run domOf (m.filter fun e => e.tid == t) :=
  projection_from domOf t m _ _ tidInv_empty (fun _ _ => rfl)

/-- All events of an emitted window belong to one thread, so "first event has tid `t`" = "all have". -/
theorem run_window_tid (m : List Kevent) (w : List Kevent) (hw : w ∈ run domOf m) :
    w ≠ [] ∧ ∃ t, ∀ x ∈ w, x.tid = t := by
  induction m using snoc_induction with
  | nil => simp [run, runFrom] at hw
  | snoc h e ih =>
    rw [run_snoc, List.mem_append] at hw
    rcases hw with hw | hw
    · exact ih hw
    · have hinv : TidInv (stateAfter domOf h) := by
        clear hw ih
        induction h using snoc_induction with
        | nil => exact tidInv_empty
        | snoc h e ih => rw [stateAfter_snoc]; exact step_tidInv domOf _ _ ih
      cases hem : emitAt domOf h e with
      | none => simp [hem] at hw
      | some w' =>
        simp only [hem, Option.toList_some, List.mem_singleton] at hw
        subst hw
        obtain ⟨⟨b, hb⟩, hall⟩ := step_output domOf _ e hinv w hem
        exact ⟨by rw [hb]; simp, e.tid, hall⟩

end
end KdVerif.Pairing
