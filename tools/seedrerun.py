#!/venv/bin/python
"""tools/seedrerun.py <seed id prefix> … — re-runs stored seeded changes (seeded/<id>-*/) against the current checks with
tools/seedsave.py, keeping change / needs / history of their meta.json; the property's own check plus any extra check that
was recorded as catching it."""
import glob
import json
import os
import subprocess
import sys

root = os.path.dirname(os.path.dirname(os.path.abspath(__file__)))
for sid in sys.argv[1:]:
    ds = glob.glob(os.path.join(root, 'seeded', sid + '-*'))
    if not ds:
        print('no such seed', sid)
        continue
    d = ds[0]
    m = json.load(open(os.path.join(d, 'meta.json')))
    prop = m['breaks_property']
    extra = [c for c in (m.get('checks') or {}) if c != prop]
    subprocess.run([os.path.join(root, 'tools', 'seedsave.py'), os.path.basename(d), os.path.join(d, 'patch.diff'),
                    os.path.join(d, 'demo.py'), prop, m.get('change', ''), m.get('needs_to_manifest', '')] + extra)
