import KdVerif.Model.PyIRTp
import KdVerif.Model.Pipeline
import KdVerif.Spec.PyIRTpExpected
import KdVerif.Proofs.PyIR
/-
  Lemmas of the translation tie of `TracesParser.feed_generator` / `__init__` (`Model/PyIRTp`): the expected terms
  (`Spec/PyIRTpExpected`), interpreted, are the pipeline model `feedGen`, the initial state of the hand models, and a
  registry that does not depend on the order of the `update` calls when no two families share a name.
-/
namespace KdVerif.PyIRTp
open KdVerif.PyIR

/-! ### `feed_generator` -/

/-- `feedGen` of `Model/Pipeline` with the state it ends in: items delivered before the first exception, then the final
    state — or that exception. -/
def feedGenS {σ ε τ : Type} (feed : σ → ε → Except PyErr (σ × Option τ)) : σ → List ε → List τ × Except PyErr σ
  | s, [] => ([], .ok s)
  | s, e :: es =>
    match feed s e with
    | .error err => ([], .error err)
    | .ok (s', o) =>
      let q := feedGenS feed s' es
      (match o with | some t => t :: q.1 | none => q.1, q.2)

theorem feedGenS_fst {σ ε τ : Type} (feed : σ → ε → Except PyErr (σ × Option τ)) (es : List ε) :
    ∀ s, (feedGenS feed s es).1 = (feedGen feed s es).1 := by
  induction es with
  | nil => intro s; rfl
  | cons e es ih =>
    intro s
    simp only [feedGenS, feedGen]
    cases feed s e with
    | error x => rfl
    | ok p => obtain ⟨s', o⟩ := p; cases o <;> simp [ih s']

theorem feedGenS_snd {σ ε τ : Type} (feed : σ → ε → Except PyErr (σ × Option τ)) (es : List ε) :
    ∀ s, (feedGenS feed s es).2 = finalState feed s es := by
  induction es with
  | nil => intro s; rfl
  | cons e es ih =>
    intro s
    simp only [feedGenS, finalState]
    cases feed s e with
    | error x => rfl
    | ok p => obtain ⟨s', o⟩ := p; exact ih s'

/-- the exception `feedGen` reports is the one the state machine stops with -/
theorem feedGen_err {σ ε τ : Type} (feed : σ → ε → Except PyErr (σ × Option τ)) (es : List ε) :
    ∀ s, (feedGen feed s es).2 = errOf (finalState feed s es) := by
  induction es with
  | nil => intro s; rfl
  | cons e es ih =>
    intro s
    simp only [feedGen, finalState]
    cases feed s e with
    | error x => rfl
    | ok p => obtain ⟨s', o⟩ := p; exact ih s'

/-- the generator's own exception surfaces when everything it delivered was consumed without one -/
def thenRaise (err : Option PyErr) (r : GenRes) : GenRes :=
  match r.2, err with
  | .ok _, some e => (r.1, .error e)
  | _, _ => r

theorem thenRaise_eq (err : Option PyErr) (r : GenRes) : thenRaise err r = (r.1, outcome r.2 err) := by
  obtain ⟨o, f⟩ := r
  cases f <;> cases err <;> rfl

theorem exec_forIn (feed : World → Kevent → Except PyErr (Val × World)) (v : Nat) (it : GExpr) (body next : GStmt)
    (env : GEnv) (w : World) :
    execG feed (.forIn v it body next) env w =
      match evalG env it with
      | .error x => ([], .error x)
      | .ok (.gen es err) =>
        (match forEvents (fun env w => execG feed body env w) v es env w with
         | (o, .error x) => (o, .error x)
         | (o, .ok (env', w')) =>
           match err with
           | some x => (o, .error x)
           | Option.none => (o ++ (execG feed next env' w').1, (execG feed next env' w').2))
      | .ok (.v .none) => ([], .error .typeError)
      | .ok _ => ([], .error .unmodelled) := by
  rw [execG]; rfl

/-- one round of the loop: `ret = self.feed(event); if ret is not None: yield ret` -/
theorem exec_loopBody (feed : World → Kevent → Except PyErr (Val × World)) (env : GEnv) (w : World) (e : Kevent)
    (h : env 1 = some (.v (.event e))) :
    execG feed Expected.loopBody env w =
      match feed w e with
      | .error x => ([], .error x)
      | .ok (r, w') => (if r = .none then [] else [r], .ok (env.set 2 (.v r), w')) := by
  simp only [Expected.loopBody, execG, evalG, h]
  cases feed w e with
  | error x => rfl
  | ok p =>
    obtain ⟨r, w'⟩ := p
    cases r <;> simp [GEnv.set]

/-- the loop over the events is `feedGenS` of `self.feed` -/
theorem forEvents_loop (p : Prog) (cfg : Cfg) (es : List Kevent) : ∀ (env : GEnv) (w : World),
    match (feedGenS (feedStep p cfg) w es).2 with
    | .error x => forEvents (fun env w => execG (PyIR.feed p cfg) Expected.loopBody env w) 1 es env w =
        ((feedGenS (feedStep p cfg) w es).1, .error x)
    | .ok w' => ∃ env', forEvents (fun env w => execG (PyIR.feed p cfg) Expected.loopBody env w) 1 es env w =
        ((feedGenS (feedStep p cfg) w es).1, .ok (env', w')) := by
  induction es with
  | nil => intro env w; exact ⟨env, rfl⟩
  | cons e rest ih =>
    intro env w
    have hb := exec_loopBody (PyIR.feed p cfg) (env.set 1 (.v (.event e))) w e (by simp [GEnv.set])
    simp only [feedGenS, feedStep, forEvents, hb]
    cases hf : PyIR.feed p cfg w e with
    | error x => simp
    | ok q =>
      obtain ⟨r, w1⟩ := q
      have := ih ((env.set 1 (.v (.event e))).set 2 (.v r)) w1
      simp only []
      cases hr : (feedGenS (feedStep p cfg) w1 rest).2 with
      | error x =>
        rw [hr] at this
        simp only [this]
        by_cases hn : r = .none <;> simp [hn]
      | ok w2 =>
        rw [hr] at this
        obtain ⟨env2, he2⟩ := this
        refine ⟨env2, ?_⟩
        simp only [he2]
        by_cases hn : r = .none <;> simp [hn]

/-- **The expected `feed_generator`, interpreted, is `feedGenS` of the translated `feed`** — for every program `p` that
    answers `self.feed`, every event list, every exception of the event generator, every heap. -/
theorem runFeedGen_expected (p : Prog) (cfg : Cfg) (es : List Kevent) (err : Option PyErr) (w : World) :
    runFeedGen p Expected.feedGenerator cfg es err w = thenRaise err (feedGenS (feedStep p cfg) w es) := by
  have h := forEvents_loop p cfg es (GEnv.ofArgs [.gen es err]) w
  have hit : evalG (GEnv.ofArgs [.gen es err]) (.var 0) = .ok (.gen es err) := by simp [evalG, GEnv.ofArgs]
  simp only [runFeedGen, Expected.feedGenerator, ne_eq, not_true_eq_false, if_false]
  rw [exec_forIn]
  simp only [hit]
  cases hr : (feedGenS (feedStep p cfg) w es).2 with
  | error x =>
    rw [hr] at h
    rw [h]
    cases err <;> simp [thenRaise, hr] <;> exact Prod.ext rfl hr.symm
  | ok w' =>
    rw [hr] at h
    obtain ⟨env', he⟩ := h
    rw [he]
    cases err with
    | none => simp [thenRaise, hr, execG]; exact Prod.ext rfl hr.symm
    | some x => simp [thenRaise, hr]

/-- feeding a history event by event (`PyIR.runFrom`) and through the generator deliver the same values: the generator
    drops the `None`s -/
theorem feedGenS_of_runFrom (p : Prog) (cfg : Cfg) (es : List Kevent) : ∀ (w : World) (vs : List Val) (w' : World),
    PyIR.runFrom p cfg w es = .ok (vs, w') →
      feedGenS (feedStep p cfg) w es = (vs.filter (fun v => decide (v ≠ .none)), .ok w') := by
  induction es with
  | nil => intro w vs w' h; simp only [PyIR.runFrom, Except.ok.injEq, Prod.mk.injEq] at h; simp [feedGenS, ← h.1, ← h.2]
  | cons e rest ih =>
    intro w vs w' h
    simp only [PyIR.runFrom] at h
    cases hf : PyIR.feed p cfg w e with
    | error x => simp [hf] at h
    | ok q =>
      obtain ⟨v, w1⟩ := q
      simp only [hf] at h
      cases hr : PyIR.runFrom p cfg w1 rest with
      | error x => simp [hr] at h
      | ok q2 =>
        obtain ⟨vs2, w2⟩ := q2
        simp only [hr, Except.ok.injEq, Prod.mk.injEq] at h
        obtain ⟨h1, h2⟩ := h
        subst h1 h2
        simp only [feedGenS, feedStep, hf, ih w1 vs2 w2 hr]
        by_cases hn : v = .none <;> simp [hn]

/-! ### `__init__` -/

/-- the object the expected constructor builds from three arguments -/
def expectedObj : Obj :=
  { attrs := [(.traceCodes, .arg 0), (.onGoingEvents, .fresh 0), (.onGoingTraces, .fresh 1), (.globalStrings, .fresh 2),
              (.threadsPids, .arg 1), (.pidsNames, .arg 2), (.tidsNames, .fresh 3), (.lastDataNewthread, .fresh 4),
              (.lastDataExec, .fresh 5), (.handlers, .fresh 6)]
    made := 7
    updates := [.bsd, .dyld, .fsystem, .mach, .perf, .trace, .turnstile] }

theorem runInit_expected : runInit Expected.init 3 = .ok expectedObj := by rfl

/-! ### the registry -/

section registry
variable {β : Type}

theorem lookup_set (k k' : Nat) (v : β) (m : AList β) :
    AList.lookup k (AList.set k' v m) = if k' = k then some v else AList.lookup k m := by
  by_cases h : k' = k
  · subst h; simp [AList.lookup_set_self]
  · have h' : k ≠ k' := fun e => h e.symm
    simp [h, AList.lookup_set_ne h']

theorem lookup_isSome_of_mem (k : Nat) (v : β) : ∀ (m : AList β), (k, v) ∈ m → (AList.lookup k m).isSome
  | [], h => by simp at h
  | p :: r, h => by
    simp only [AList.lookup]
    split
    · rfl
    · rename_i hk
      rcases List.mem_cons.mp h with h | h
      · exact absurd (by rw [← h]) hk
      · exact lookup_isSome_of_mem k v r h

/-- after `d.update(other)` a binding comes from `other` or was in `d` -/
theorem dictUpdate_sound (k : Nat) (v : β) (other : AList β) : ∀ (d : AList β),
    AList.lookup k (dictUpdate d other) = some v → (k, v) ∈ other ∨ AList.lookup k d = some v := by
  induction other with
  | nil => intro d h; exact Or.inr h
  | cons kv rest ih =>
    intro d h
    have h' : AList.lookup k (dictUpdate (AList.set kv.1 kv.2 d) rest) = some v := h
    rcases ih _ h' with hm | hl
    · exact Or.inl (List.mem_cons_of_mem _ hm)
    · rw [lookup_set] at hl
      by_cases hk : kv.1 = k
      · simp only [hk, if_true, Option.some.injEq] at hl
        refine Or.inl (List.mem_cons.mpr (Or.inl ?_))
        rw [← hk, ← hl]
      · simp only [hk, if_false] at hl
        exact Or.inr hl

/-- … and every key of `d` or of `other` is bound afterwards -/
theorem dictUpdate_complete (k : Nat) (other : AList β) : ∀ (d : AList β),
    ((AList.lookup k d).isSome ∨ ∃ v, (k, v) ∈ other) → (AList.lookup k (dictUpdate d other)).isSome := by
  induction other with
  | nil =>
    intro d h
    rcases h with h | ⟨v, h⟩
    · exact h
    · simp at h
  | cons kv rest ih =>
    intro d h
    show (AList.lookup k (dictUpdate (AList.set kv.1 kv.2 d) rest)).isSome
    apply ih
    by_cases hk : kv.1 = k
    · left; rw [lookup_set]; simp [hk]
    · rcases h with h | ⟨v, h⟩
      · left; rw [lookup_set]; simpa [hk] using h
      · rcases List.mem_cons.mp h with h | h
        · exact absurd (by rw [← h]) hk
        · exact Or.inr ⟨v, h⟩

/-- the updates applied to a dict `acc` -/
def mergeFrom (fam : Family → AList β) (acc : AList β) (us : List Family) : AList β :=
  us.foldl (fun r f => dictUpdate r (fam f)) acc

theorem mergeFrom_sound (fam : Family → AList β) (k : Nat) (v : β) (us : List Family) : ∀ (acc : AList β),
    AList.lookup k (mergeFrom fam acc us) = some v → (∃ f ∈ us, (k, v) ∈ fam f) ∨ AList.lookup k acc = some v := by
  induction us with
  | nil => intro acc h; exact Or.inr h
  | cons f rest ih =>
    intro acc h
    have h' : AList.lookup k (mergeFrom fam (dictUpdate acc (fam f)) rest) = some v := h
    rcases ih _ h' with ⟨g, hg, hm⟩ | hl
    · exact Or.inl ⟨g, List.mem_cons_of_mem _ hg, hm⟩
    · rcases dictUpdate_sound k v (fam f) acc hl with hm | hl
      · exact Or.inl ⟨f, by simp, hm⟩
      · exact Or.inr hl

theorem mergeFrom_complete (fam : Family → AList β) (k : Nat) (us : List Family) : ∀ (acc : AList β),
    ((AList.lookup k acc).isSome ∨ ∃ f ∈ us, ∃ v, (k, v) ∈ fam f) → (AList.lookup k (mergeFrom fam acc us)).isSome := by
  induction us with
  | nil =>
    intro acc h
    rcases h with h | ⟨f, hf, _⟩
    · exact h
    · simp at hf
  | cons f rest ih =>
    intro acc h
    show (AList.lookup k (mergeFrom fam (dictUpdate acc (fam f)) rest)).isSome
    apply ih
    rcases h with h | ⟨g, hg, v, hm⟩
    · exact Or.inl (dictUpdate_complete k (fam f) acc (Or.inl h))
    · rcases List.mem_cons.mp hg with hg | hg
      · subst hg; exact Or.inl (dictUpdate_complete k (fam g) acc (Or.inr ⟨v, hm⟩))
      · exact Or.inr ⟨g, hg, v, hm⟩

/-- every binding of the merged registry is a binding of one of the merged families -/
theorem merge_sound (fam : Family → AList β) (k : Nat) (v : β) (us : List Family)
    (h : AList.lookup k (merge fam us) = some v) : ∃ f ∈ us, (k, v) ∈ fam f := by
  rcases mergeFrom_sound fam k v us [] h with h | h
  · exact h
  · simp [AList.lookup] at h

/-- a key of a merged family is bound in the merged registry -/
theorem merge_complete (fam : Family → AList β) (k : Nat) (us : List Family) (f : Family) (v : β)
    (hf : f ∈ us) (hm : (k, v) ∈ fam f) : (AList.lookup k (merge fam us)).isSome :=
  mergeFrom_complete fam k us [] (Or.inr ⟨f, hf, v, hm⟩)

/-- **Disjoint families: the merged registry does not depend on the order (or the multiplicity) of the updates.**  If a
    name is bound to one value across all families (`huniq`), then for any sequence of updates the registry binds `k` to
    `v` exactly when some merged family does. -/
theorem merge_lookup_iff (fam : Family → AList β)
    (huniq : ∀ f g k v v', (k, v) ∈ fam f → (k, v') ∈ fam g → v = v') (us : List Family) (k : Nat) (v : β) :
    AList.lookup k (merge fam us) = some v ↔ ∃ f ∈ us, (k, v) ∈ fam f := by
  constructor
  · exact merge_sound fam k v us
  · rintro ⟨f, hf, hmem⟩
    have hs := merge_complete fam k us f v hf hmem
    cases hl : AList.lookup k (merge fam us) with
    | none => rw [hl] at hs; exact absurd hs (by simp)
    | some v' =>
      obtain ⟨g, _, hg⟩ := merge_sound fam k v' us hl
      rw [huniq g f k v' v hg hmem]

theorem option_ext_some {α : Type} (a b : Option α) (h : ∀ x, a = some x ↔ b = some x) : a = b := by
  cases a with
  | none =>
    cases b with
    | none => rfl
    | some y => exact absurd ((h y).mpr rfl) (by simp)
  | some x => exact ((h x).mp rfl).symm

/-- … hence two update sequences that mention the same families build the same registry (as a dict: same lookups). -/
theorem merge_order_independent (fam : Family → AList β)
    (huniq : ∀ f g k v v', (k, v) ∈ fam f → (k, v') ∈ fam g → v = v') (us us' : List Family)
    (hsame : ∀ f, f ∈ us ↔ f ∈ us') (k : Nat) :
    AList.lookup k (merge fam us) = AList.lookup k (merge fam us') := by
  apply option_ext_some
  intro v
  rw [merge_lookup_iff fam huniq, merge_lookup_iff fam huniq]
  constructor
  · rintro ⟨f, hf, hm⟩; exact ⟨f, (hsame f).mp hf, hm⟩
  · rintro ⟨f, hf, hm⟩; exact ⟨f, (hsame f).mpr hf, hm⟩

end registry

end KdVerif.PyIRTp
