import KdVerif.Model.PyIRFl
/-
  The IR the proofs of `Proofs/PyIRFl` / `Proofs/PyIRFlTraces` were done for: a hand-written copy of what
  `tools/gen_pyir_fl.py` produces from `pykdebugparser/pykdebugparser.py` (same normal form: aliases of pure expressions
  inlined where nothing is mutated or rebound in between, `x is not None` / `!=` / `not in` as `not (…)`, conditionals in
  one spelling — never `not c` as a condition —, every lambda parameter its own variable, variables numbered by first
  binding after the parameters, `DBG_*` replaced by their values).  `C12.source_is_expected_ir` /
  `C13.source_is_expected_ir` state that the generated blocks ARE these terms.  Core Lean only.
-/
namespace KdVerif.PyIRFl.Expected
open KdVerif.PyIRFl Expr Stmt

/-- `self.filter_class if filter_class is None else filter_class` with `filter_class` = v1 -/
def classOrOwn : Expr := ifExp (isNone (var 1)) (self .filterClass) (var 1)

/--
```python
def _is_eventid_allowed(self, event_id, filter_class=None):                       # event_id = v0, filter_class = v1
    filter_class = self.filter_class if filter_class is None else filter_class   # inlined
    return (event_id >> 24 in filter_class) or (event_id >> 16 in self.filter_subclass)
```
-/
def isEventidAllowed : Block :=
  { params := 2, optional := 1
    body := ret (or (isIn (shr (var 0) 24) classOrOwn) (isIn (shr (var 0) 16) (self .filterSubclass))) }

/--
```python
def kevents(self, kdebug, filter_class=None):                                     # kdebug = v0, filter_class = v1
    filter_class = self.filter_class if filter_class is None else filter_class   # inlined
    events_generator = KdBufParser(self.threads_pids, self.pids_names).parse(kdebug)            # events_generator = v2
    events_generator = filter(lambda e: not isinstance(e, OsLogEvent), events_generator)        # e = v3
    if self.filter_tid is not None:
        events_generator = filter(lambda e: e.tid == self.filter_tid, events_generator)         # e = v4
    if filter_class or self.filter_subclass:
        events_generator = filter(lambda e: self._is_eventid_allowed(e.eventid, filter_class), events_generator)  # e = v5
    return events_generator
```
-/
def kevents : Block :=
  { params := 2, optional := 1
    body :=
      assign 2 (parseStream (self .threadsPids) (self .pidsNames) (var 0))
        (assignFilter 2 3 (not (isLog (var 3))) (var 2)
          (ite (isNone (self .filterTid)) done
              (assignFilter 2 4 (eq (field (var 4) .tid) (self .filterTid)) (var 2) done)
            (ite (or classOrOwn (self .filterSubclass))
                (assignFilter 2 5 (call2 .isEventidAllowed (field (var 5) .eventid) classOrOwn) (var 2) done)
                done
              (ret (var 2))))) }

/--
```python
def os_log_events(self, kdebug):                                                  # kdebug = v0
    events_generator = KdBufParser(self.threads_pids, self.pids_names).parse(kdebug)            # events_generator = v1
    events_generator = filter(lambda e: isinstance(e, OsLogEvent), events_generator)            # e = v2
    if self.filter_tid is not None:
        events_generator = filter(lambda e: e.thread_identifier == self.filter_tid, events_generator)      # e = v3
    if self.filter_process is not None:
        events_generator = filter(lambda e: self.filter_process in (e.process, str(e.process_identifier)),
                                  events_generator)                                                       # e = v4
    return events_generator
```
-/
def osLogEvents : Block :=
  { params := 1
    body :=
      assign 1 (parseStream (self .threadsPids) (self .pidsNames) (var 0))
        (assignFilter 1 2 (isLog (var 2)) (var 1)
          (ite (isNone (self .filterTid)) done
              (assignFilter 1 3 (eq (field (var 3) .threadIdentifier) (self .filterTid)) (var 1) done)
            (ite (isNone (self .filterProcess)) done
                (assignFilter 1 4
                  (inPair (self .filterProcess) (field (var 4) .process) (strOf (field (var 4) .processIdentifier)))
                  (var 1) done)
              (ret (var 1))))) }

/-- `t.ktraces[0]` -/
def firstRecord (t : Nat) : Expr := index (field (var t) .ktraces) (int 0)

/-- `sc >> 8 == DBG_BSD` (sc = v6) -/
def bsdTest : Expr := eq (shr (var 6) 8) (int 4)

/--
```python
def traces(self, kdebug, trace_codes=None):                                       # kdebug = v0, trace_codes = v1
    trace_codes_map = default_trace_codes() if trace_codes is None else trace_codes             # v2
    filter_class = list(self.filter_class)                                                      # v3 (a new list)
    has_filters = filter_class or self.filter_subclass                                          # v4
    add_trace_class = has_filters and DBG_TRACE not in filter_class                             # v5
    if add_trace_class:
        filter_class.append(DBG_TRACE)
    has_bsd = DBG_BSD in filter_class or any(filter(lambda sc: sc >> 8 == DBG_BSD, self.filter_subclass))  # sc = v6, has_bsd = v7
    add_fs_class = has_filters and has_bsd and DBG_FSYSTEM not in filter_class                  # v8
    if add_fs_class:
        filter_class.append(DBG_FSYSTEM)
    traces_parser = TracesParser(trace_codes_map, self.threads_pids, self.pids_names)
    trace_generator = traces_parser.feed_generator(self.kevents(kdebug, filter_class))          # v9
    if self.filter_process is not None:
        trace_generator = filter(self._filter_process_callback, trace_generator)                # lambda v10: self._filter_process_callback(v10)
    if add_trace_class:
        trace_generator = filter(lambda t: t.ktraces[0].eventid >> 24 != DBG_TRACE, trace_generator)       # t = v11
    if add_fs_class:
        trace_generator = filter(lambda t: t.ktraces[0].eventid >> 24 != DBG_FSYSTEM, trace_generator)     # t = v12
    return trace_generator
```
(`has_filters`, `add_trace_class`, `add_fs_class` are read again after an `append`, `has_bsd` would be evaluated later if
inlined: they stay variables.)
-/
def traces : Block :=
  { params := 2, optional := 1
    body :=
      assign 2 (ifExp (isNone (var 1)) defaultTraceCodes (var 1))
        (assignList 3 (self .filterClass)
          (assign 4 (or (var 3) (self .filterSubclass))
            (assign 5 (and (var 4) (not (isIn (int 7) (var 3))))
              (ite (var 5) (append (var 3) (int 7) done) done
                (assign 7 (or (isIn (int 4) (var 3))
                              (anyFilter 6 bsdTest (self .filterSubclass)))
                  (assign 8 (and (var 4) (and (var 7) (not (isIn (int 3) (var 3)))))
                    (ite (var 8) (append (var 3) (int 3) done) done
                      (assign 9 (feedKevents (var 2) (self .threadsPids) (self .pidsNames) (var 0) (var 3))
                        (ite (isNone (self .filterProcess)) done
                            (assignFilter 9 10 (call1 .filterProcessCallback (var 10)) (var 9) done)
                          (ite (var 5)
                              (assignFilter 9 11 (not (eq (shr (field (firstRecord 11) .eventid) 24) (int 7))) (var 9) done)
                              done
                            (ite (var 8)
                                (assignFilter 9 12 (not (eq (shr (field (firstRecord 12) .eventid) 24) (int 3))) (var 9) done)
                                done
                              (ret (var 9))))))))))))) }

/-- `self.threads_pids.get(trace.ktraces[0].tid, -1)` (trace = v0) -/
def pidOf : Expr := get (self .threadsPids) (field (firstRecord 0) .tid) (int (-1))

/-- `self.pids_names.get(self.threads_pids.get(trace.ktraces[0].tid, -1), '')` -/
def nameOf : Expr := get (self .pidsNames) pidOf (str "")

/--
```python
def _filter_process_callback(self, trace):                                        # trace = v0
    tid = trace.ktraces[0].tid                                                    # inlined
    pid = self.threads_pids.get(tid, -1)                                          # inlined
    process_name = self.pids_names.get(pid, '')                                   # inlined
    return self.filter_process == str(pid) or self.filter_process == process_name
```
-/
def filterProcessCallback : Block :=
  { params := 1
    body :=
      ret (or (eq (self .filterProcess) (strOf pidOf))
              (eq (self .filterProcess) nameOf)) }

def prog : Prog :=
  { isEventidAllowed := isEventidAllowed, kevents := kevents, osLogEvents := osLogEvents, traces := traces,
    filterProcessCallback := filterProcessCallback }

end KdVerif.PyIRFl.Expected
