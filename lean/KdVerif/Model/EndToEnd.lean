import KdVerif.Model.ContainerV2
import KdVerif.Model.TracePipeline
import KdVerif.Model.Format
import KdVerif.Gen.Consts
/-
  The layers composed: bytes of a version-2 dump -> `KdBufParser.parse` (Model/ContainerV2) -> event filter,
  `TracesParser`, post-filters (Model/TracePipeline) -> `_format_trace` (Model/Format) = the lines
  `PyKdebugParser.formatted_traces(BytesIO(file), codes)` yields (colour off).  No new logic: only the glue between
  the layer models, so that the tie to the code also covers the glue of the real pipeline.
-/
namespace KdVerif.EndToEnd
open KdVerif.Trace KdVerif.Filters

def decodeRecord (bs : Bytes) : Except PyErr Kevent :=
  decodeWith Gen.Consts.kdBufFormat Gen.Consts.eventidMask Gen.Consts.funcMask bs

/-- Thread names were validated as UTF-8 by the container model (`CString('utf8')`); the default is unreachable. -/
def utf8 (bs : Bytes) : String :=
  (String.fromUTF8? (ByteArray.mk (bs.map UInt8.ofNat).toArray)).getD ""

def threadMapOf (tm : List ThreadEntry) : Declared.ThreadMap := tm.map fun e => (e.tid, e.pid, utf8 e.name)

/-- The version-2 dump as the trace layer sees it, and the exception the container reader ends with, if any
    (raised after the last complete record was delivered). `none`: not a version-2 dump / unreadable header. -/
def dumpOf (file : Bytes) : Except PyErr (TracePipeline.Dump × Option PyErr) :=
  let p := (Reader.ofBytes file).read Gen.Consts.RAW_VERSION_SIZE
  if p.1 = Gen.Consts.RAW_VERSION2_BYTES then
    match headerV2 p.2 with
    | (.error e, _) => .error e
    | (.ok h, _) =>
      let run := parseV2 decodeRecord Tables.empty p.2
      .ok ({ threadMap := threadMapOf h.threadmap, events := run.events }, run.err)
  else .error .keyError

def fmtTables (t : Tabs) : Format.Tables :=
  { threadsPids := t.threadsPids.map fun (k, v) => (k, (v : Int)),
    pidsNames := t.pidsNames.map fun (k, v) => ((k : Int), v) }

/-- Lines until the first trace whose `str()` raises. -/
def formatAll (sh : Format.Show) : List (TraceOut × Tabs) → List String × Option PyErr
  | [] => ([], none)
  | (o, t) :: rest =>
    match o.text with
    | .error e => ([], some e)
    | .ok body =>
      let line := Format.formatTrace sh Format.Colour.off (fmtTables t)
        { timestamp := (firstOf o.events).timestamp, tid := (firstOf o.events).tid, body := body }
      let (ls, err) := formatAll sh rest
      (line :: ls, err)

/-- `list(parser.formatted_traces(BytesIO(file), codes))` up to the first exception. -/
def formattedTraces (env : Env) (obj : TracePipeline.Obj) (sh : Format.Show) (file : Bytes) : List String × Option PyErr :=
  match dumpOf file with
  | .error e => ([], some e)
  | .ok (d, cerr) =>
    let res := (TracePipeline.traces env obj d).1
    let (lines, lerr) := formatAll sh res.traces
    (lines, match lerr with
            | some e => some e
            | none => match res.err with
              | some e => some e
              | none => cerr)

end KdVerif.EndToEnd
