"""C08 — paths and strings split over several records are reassembled exactly, once."""
import json
import random

from .. import core
from .. import decoders as D
from .. import pipeline as PL
from ..pipeline import Stream, NONE, START, END

MODULE = 'KdVerif.Props.C08'
NAMESPACE = 'KdVerif.C08'
TRUSTED = ['Spec/Reassembly.lean: kernel-side encoders (8/16/0-byte header, 32-byte NUL-padded payloads, START/END bits) as '
           'the specification; the harness encodes its texts with an independent Python encoder of the same layout',
           'Model/Trace.lean (vnodeGen, parseVnodes, mkWindow, hVfsLookup, globalLoop/hStringGlobal, hStringThreadname, '
           'feed, run): hand model of TracesParser, tied to the code by the sections `reassembly`, `syscall-paths`, `pipeline`',
           'tools/gen_decoders.py (decoder IR), validated by rendering every path-taking decoder with 0-6 lookups',
           'Model/Trace.vnodeGen / parseVnodes / parseVnode are ALSO tied to the source text of vnode_generator / parse_vnodes / '
           'parse_vnode by translation (tools/gen_pyir_vn.py -> Gen/PyIRVn, source_is_expected_ir, vnode_generator_ir_eq_model, '
           'parse_vnodes_ir_eq_model, parse_vnode_ir_eq_model); trusted for that: the translator and the interpreter '
           'Model/PyIRVn (section vnodes-ir tests both against CPython)']
ASSUMPTIONS = ['texts are NUL-free byte strings; `bytes.decode()` is a parameter of the model (strict UTF-8 in the driver), '
               'invalid UTF-8 in global strings (backslashreplace) is outside the model',
               'one-trace theorems assume the stream raises no exception (an exception ends the stream) and start from a '
               'well-formed state (every reachable state is: wf_start, wf_reachable)',
               'the second-phase lookup equals lookups[1] only when no later lookup record is value-equal to a record of the '
               'first (finding K5: explicit hypothesis of syscall_paths_partial)',
               'translation tie: every record carries its argument words (PyIRVn.HasWords: event.values[0] exists, as for '
               'every record from_kd_buf makes); bytes.decode() and self.trace_codes are parameters of the interpreter']
LEVEL_TEXT = ('Lean theorems for ALL NUL-free byte strings of any length: the kernel encoders composed with the reassembly loops '
              'are the identity (one Vnode / string / name, vnode and string ids of the first record); through the whole '
              'parser, with arbitrary other-thread records and unrelated same-thread records interleaved, exactly one trace '
              'per text and none for continuation records; mkWindow yields the lookups in order; a kernel-checked table '
              '(regenerated decoders) says which decoder shows which lookup at which parameter position, lifted to all '
              'windows by an evaluation lemma.  TRANSLATION TIE: the source text of vnode_generator, parse_vnodes and parse_vnode is '
              'translated on every run (tools/gen_pyir_vn.py, pure ast + the reflected DgbFuncQual values) into a deep embedding '
              'of the Python subset they use (Model/PyIRVn: bytes / int / list locals, for, append, &, slices, +=, yield, the '
              'comprehension, list(generator), try/except IndexError; generator = yielded vnodes + optional exception); '
              'source_is_expected_ir: the generated program is that of Spec/PyIRVnExpected; vnode_generator_ir_eq_model / '
              'parse_vnodes_ir_eq_model / parse_vnode_ir_eq_model: interpreted on ANY records, for ANY decode and code table, it '
              'is Trace.vnodeGen / parseVnodes / parseVnode (same vnodes, same exception), so the reassembly theorems speak '
              'about the translated source.')
LEVEL_NOTE = ('syscall_paths_partial / syscall_shows_looked_up_paths_partial carry the K5 proviso (value-equal records of a '
              'later lookup); global strings / thread names: the interleaved records must not be records of the same thread with '
              'the text\'s own event id (another string of the same code started in between re-opens the key).  For the translation '
              'tie the translator tools/gen_pyir_vn.py and the interpreter Model/PyIRVn are trusted (tested against CPython by '
              'the section vnodes-ir); handle_vfs_lookup, the string / thread-name handlers and the pairing stay hand-modelled '
              '(tied by the sections reassembly / histories / pipeline; pairing: C04).')
TECHNIQUE = ('Lean 4 proof: induction over chunk lists and over interleaved streams with a pairing-table invariant; reflective '
             'decide over the regenerated decoder IR; translation validation of vnode_generator / parse_vnodes / parse_vnode '
             '(source text -> IR -> proved equal to the model); differential correspondence through the whole TracesParser')

K5_SIG = 'reassembly:identical-lookups-second-path-empty'

# which lookup a decoder shows at which parameter position (the property's reference table, written from the Darwin
# syscall signatures; the Lean side proves the same table against the regenerated decoders: C08.path_table_exact)
EXPECT = {
    'BSC_acct': [(0, 'first')],
    'BSC_link': [(0, 'first'), (1, 'second')],
    'BSC_open': [(0, 'first')],
    'BSC_chdir': [(0, 'first')],
    'BSC_chmod': [(0, 'first')],
    'BSC_chown': [(0, 'first')],
    'BSC_fsctl': [(0, 'first')],
    'BSC_getfh': [(0, 'first')],
    'BSC_mkdir': [(0, 'first')],
    'BSC_mknod': [(0, 'first')],
    'BSC_mount': [(0, 'first'), (1, 'second')],
    'BSC_rmdir': [(0, 'first')],
    'BSC_access': [(0, 'first')],
    'BSC_chroot': [(0, 'first')],
    'BSC_lchown': [(0, 'first')],
    'BSC_linkat': [(1, ('nth', 0, 0)), (3, ('nth', 1, 1))],
    'BSC_mkfifo': [(0, 'first')],
    'BSC_openat': [(1, 'first')],
    'BSC_rename': [(0, 'first'), (1, 'second')],
    'BSC_revoke': [(0, 'first')],
    'BSC_stat64': [(0, 'first')],
    'BSC_statfs': [(0, 'first')],
    'BSC_unlink': [(0, 'first')],
    'BSC_utimes': [(0, 'first')],
    'BSC_chflags': [(0, 'first')],
    'BSC_fstatat': [(1, 'first')],
    'BSC_lstat64': [(0, 'first')],
    'BSC_mkdirat': [(1, 'first')],
    'BSC_symlink': [(1, 'first')],
    'BSC_unmount': [(0, 'first')],
    'BSC_fchmodat': [(1, 'first')],
    'BSC_fchownat': [(1, 'first')],
    'BSC_getxattr': [(0, 'first')],
    'BSC_pathconf': [(0, 'first')],
    'BSC_quotactl': [(0, 'first')],
    'BSC_readlink': [(0, 'first')],
    'BSC_renameat': [(1, ('nth', 0, 0)), (3, ('nth', 1, 1))],
    'BSC_searchfs': [(0, 'first')],
    'BSC_setxattr': [(0, 'first')],
    'BSC_statfs64': [(0, 'first')],
    'BSC_truncate': [(0, 'first')],
    'BSC_undelete': [(0, 'first')],
    'BSC_unlinkat': [(1, 'first')],
    'BSC_faccessat': [(1, 'first')],
    'BSC_fstatat64': [(1, 'first')],
    'BSC_listxattr': [(0, 'first')],
    'BSC_symlinkat': [(0, ('nth', 0, 1)), (2, 'last')],
    'BSC_pivot_root': [(0, ('nth', 0, 0)), (1, ('nth', 1, 1))],
    'BSC_readlinkat': [(1, 'first')],
    'BSC_clonefileat': [(1, 'first'), (3, 'second')],
    'BSC_fs_snapshot': [(2, ('nth', 0, 0)), (3, ('nth', 1, 1))],
    'BSC_getattrlist': [(0, 'first')],
    'BSC_posix_spawn': [(1, 'spawn')],
    'BSC_removexattr': [(0, 'first')],
    'BSC_setattrlist': [(0, 'first')],
    'BSC_exchangedata': [(0, 'first'), (1, 'second')],
    'BSC_fclonefileat': [(2, 'first')],
    'BSC_renameatx_np': [(1, ('nth', 0, 0)), (3, ('nth', 1, 1))],
    'BSC_getattrlistat': [(1, 'first')],
    'BSC_open_nocancel': [(0, 'first')],
    'BSC_setattrlistat': [(1, 'first')],
    'BSC_guarded_open_np': [(0, 'first')],
    'BSC_openat_nocancel': [(1, 'first')],
    'BSC_open_dprotected_np': [(0, 'first')],
    'BSC_guarded_open_dprotected_np': [(0, 'first')],
}
TAIL_PATH = {'BSC_fsgetpath'}          # shows ` path: "<first lookup>"` in its result part


def shown(kind, paths):
    """The path a parameter of that kind must show, given the encoded paths in lookup order."""
    n = len(paths)
    if kind == 'first':
        return paths[0] if n else ''
    if kind == 'second':
        return paths[1] if n > 1 else ''
    if kind == 'last':
        return paths[-1] if n else ''
    if kind == 'spawn':
        return paths[3] if n >= 6 else (paths[0] if n else '')
    _, i, m = kind
    return paths[i] if n > m else ''


# ---------------------------------------------------------------------------------------------------------
# texts

ASCII = 'abcdefghijklmnopqrstuvwxyz/._-0123456789 ABCXYZ~+='
MULTI = {2: 'é', 3: '€', 4: '\U0001F600'}
ROOM = {'lookup': 24, 'gstring': 16, 'threadname': 32, 'threadname_prev': 32}


def boundaries(kind, length):
    b = ROOM[kind]
    out = []
    while b < length:
        out.append(b)
        b += 32
    return out


def ascii_text(rng, length):
    return ''.join(rng.choice(ASCII) for _ in range(length))


def utf8_text(rng, kind, length, fixed=None):
    """A text of exactly `length` UTF-8 bytes with a multi-byte character straddling every record boundary
    (fixed = (k, j): character size and how many of its bytes lie before the boundary)."""
    raw = bytearray()
    chars = []
    bs = boundaries(kind, length)

    def pad_to(pos):
        while len(raw) < pos:
            if pos - len(raw) >= 2 and rng.random() < 0.15:
                c = MULTI[2]
            else:
                c = rng.choice(ASCII)
            chars.append(c)
            raw.extend(c.encode())

    for b in bs:
        k, j = fixed if fixed else (rng.choice([2, 3, 4]), None)
        if j is None:
            j = rng.randrange(1, k)
        start = b - j
        if start < len(raw) or start + k > length:
            continue
        pad_to(start)
        if len(raw) != start:        # a 2-byte filler overshot
            continue
        chars.append(MULTI[k])
        raw.extend(MULTI[k].encode())
    pad_to(length)
    if len(raw) != length:           # overshoot by a 2-byte filler at the very end
        while len(raw) > length or len(''.join(chars).encode()) != length:
            c = chars.pop()
            del raw[len(raw) - len(c.encode()):]
            while len(raw) < length:
                chars.append('x')
                raw.extend(b'x')
    text = ''.join(chars)
    assert len(text.encode()) == length and '\0' not in text
    return text


def emphasis(kind, hi):
    out = set()
    for b in [ROOM[kind] + 32 * k for k in range(0, hi // 32 + 2)]:
        out.update(x for x in (b - 1, b, b + 1) if 0 <= x <= hi)
    return sorted(out)


# ---------------------------------------------------------------------------------------------------------
# section `reassembly`: one text through the whole parser, with other records interleaved

OTHER_TID = 4242
NOISE_SAME_LOOKUP = ['MACH_SCHED', 'MACH_MKRUNNABLE', 'DecrSet', '#undecodable', 'TRACE_DATA_THREAD_TERMINATE', 'BSC_getpid#pair']
NOISE_SAME_TRACE = ['MACH_SCHED', 'DecrSet', '#undecodable', 'BSC_getpid#pair', '#lookup',
                    '#td-terminate', '#td-terminate', '#proc-exit', '#exec-all', '#name', '#name', '#gstring', '#gstring']
UNDECODABLE = 0x7f0f0000


def emit_text(s, kind, tid, text, ident):
    if kind == 'lookup':
        return s.lookup(tid, text, ident)
    if kind == 'gstring':
        return s.gstring(tid, ident, text, debugid=0x1f2e3d4c)
    return s.threadname(tid, text, prev=(kind == 'threadname_prev'))


def noise_same(s, rng, kind, tid, trailing=False):
    """An unrelated record (or whole operation) of the SAME thread.  For strings / names this includes other
    trace-domain records — they land in the string's window — but never a record of the text's own code."""
    nm = rng.choice(NOISE_SAME_LOOKUP if kind == 'lookup' else NOISE_SAME_TRACE)
    if nm == '#name' and (trailing or kind == 'lookup'):
        nm = '#td-terminate'
    if nm == '#gstring' and kind == 'gstring':
        nm = '#name'
        if trailing:
            nm = '#proc-exit'
    if nm == '#td-terminate':
        s.ev('TRACE_DATA_THREAD_TERMINATE', NONE, tid, [0x41424344, 0, 0, 0])
    elif nm == '#proc-exit':
        s.ev('TRACE_STRING_PROC_EXIT', NONE, tid, data=s.name32('xyz' + ascii_text(rng, rng.choice([0, 5, 29]))))
    elif nm == '#exec-all':
        s.ev('TRACE_DATA_EXEC', 3, tid, [rng.randrange(1, 50), 1, 2, 0])
    elif nm == '#name':
        # a WHOLE thread name of the other kind (another event id) inside the text
        s.threadname(tid, 'in' + ascii_text(rng, rng.choice([3, 31, 32, 40, 70])), prev=(kind == 'threadname'))
    elif nm == '#gstring':
        s.gstring(tid, 900 + rng.randrange(5), 'inner' + ascii_text(rng, rng.choice([2, 11, 12, 50])))
    elif nm == '#undecodable':
        s.ev(None, rng.choice([NONE, 3]), tid, [1, 2, 3, 4], eid=UNDECODABLE)
    elif nm == 'BSC_getpid#pair':
        s.ev('BSC_getpid', START, tid, [0, 0, 0, 0])
        s.ev('BSC_getpid', END, tid, [0, 7, 0, 0])
    elif nm == '#lookup':
        s.lookup(tid, '/noise/' + ascii_text(rng, rng.choice([3, 20, 40])), 5)
    elif nm == 'TRACE_DATA_THREAD_TERMINATE':
        s.ev(nm, NONE, tid, [991, 0, 0, 0])
    else:
        s.ev(nm, NONE, tid, PL.good_args(nm) or [1, 2, 3, 4])


def noise_other(s, rng):
    r = rng.random()
    t = OTHER_TID
    if r < 0.3:
        s.lookup(t, '/other/' + ascii_text(rng, rng.choice([2, 30, 60])), 6)
    elif r < 0.45:
        s.ev('VFS_LOOKUP', START, t, data=(8).to_bytes(8, 'little') + b'/dangling'.ljust(24, b'\0'))
    elif r < 0.6:
        s.gstring(t, 3, 'other' + ascii_text(rng, rng.choice([2, 30])))
    elif r < 0.7:
        s.threadname(t, 'oth' + ascii_text(rng, rng.choice([2, 40])))
    elif r < 0.85:
        s.ev('BSC_open', rng.choice([START, END]), t, [1, 2, 3, 4])
    else:
        s.ev('MACH_SCHED', NONE, t, [1, 2, 3, 4])


def reassembly_case(rng, kind, text, style):
    """style: contiguous | other | same | both | window (lookups inside an enclosing syscall window)."""
    s = Stream(rng)
    tid = rng.choice([5, 77, 0x1234])
    ident = rng.choice([0, 1, 7, 0xdeadbeef, (1 << 64) - 1, rng.randrange(1 << 64)])
    if kind == 'gstring':
        ident = rng.choice([0, 1, 5, 0xfeedface, rng.randrange(1 << 64)])
    if style in ('both', 'other') and rng.random() < 0.5:
        noise_other(s, rng)
    if style == 'window':
        s.ev('BSC_open', START, tid, [0, 0x601, 0x1a4, 0])
    pre = len(s.recs)
    # build the text's records on a side stream, then splice the noise between them
    side = Stream(rng)
    side.ts = 100000
    chunks = emit_text(side, kind, tid, text, ident)
    # an unrelated operation of the SAME thread that CROSSES the text: its START in front of the first chunk, its END between
    # two chunks (a syscall interrupted by a lookup that outlives it; intervals that overlap without nesting)
    cross_at = None
    if style in ('same', 'both', 'window') and len(chunks) >= 2 and rng.random() < 0.3:
        cross_name = rng.choice(['BSC_getpid', 'BSC_read', 'BSC_write'])
        s.ev(cross_name, START, tid, PL.good_args(cross_name) or [0, 0, 0, 0])
        cross_at = rng.randrange(len(chunks) - 1)
    chunk_ts = []
    for i, c in enumerate(chunks):
        s.ts += 1
        rec = s.ts.to_bytes(8, 'little') + c[8:]
        s.recs.append(rec)
        chunk_ts.append(s.ts)
        if cross_at == i:
            s.ev(cross_name, END, tid, [0, 7, 0, 0])
        if i < len(chunks) - 1 or rng.random() < 0.3:
            if style in ('other', 'both'):
                for _ in range(rng.randrange(1, 3)):
                    noise_other(s, rng)
            if style in ('same', 'both', 'window') and rng.random() < 0.8:
                noise_same(s, rng, kind, tid, trailing=(i == len(chunks) - 1))
    if style == 'window':
        s.ev('BSC_open', END, tid, [0, 3, 0, 0])
    case = PL.make_case_from(s.recs, extra=('VFS_LOOKUP', 'TRACE_STRING_GLOBAL', 'TRACE_STRING_THREADNAME',
                                            'TRACE_STRING_THREADNAME_PREV', 'TRACE_DATA_THREAD_TERMINATE',
                                            'TRACE_STRING_PROC_EXIT', 'TRACE_DATA_EXEC'))
    case['meta'] = {'kind': kind, 'tid': tid, 'text': text, 'ident': ident, 'chunk_ts': chunk_ts, 'style': style,
                    'len': len(text.encode())}
    del pre
    return case


def expected_text(kind, text, ident):
    if kind == 'lookup':
        return 'lookup("%s"), vnode id: %d' % (text, ident)
    if kind == 'gstring':
        return 'New global string: "%s", id: %d' % (text, ident)
    if kind == 'threadname':
        return 'New thread name: ' + text
    return 'Thread terminated name: ' + text


def text_traces(traces, chunk_ts):
    cs = set(chunk_ts)
    return [t for t in traces if t['ts'] and t['ts'][0] in cs]


def reassembly_oracle(case, ans):
    """Stated on the implementation's answer only: the harness knows the text it encoded."""
    m = case['meta']
    kind = m['kind']
    if not ans.startswith('ok '):
        return ('reassembly:%s:exception' % kind, 'the pipeline raised: %s' % ans)
    traces, err, tabs = PL.parse_answer(ans)
    if err != '-':
        return ('reassembly:%s:exception' % kind,
                'a %d-byte %s raised %s and ended the stream (style %s)' % (m['len'], kind, err, m['style']))
    mine = text_traces(traces, m['chunk_ts'])
    want = expected_text(kind, m['text'], m['ident'])
    if len(mine) > 1:
        extra = [t for t in mine if t['ts'][0] != m['chunk_ts'][0]]
        return ('reassembly:%s:continuation-trace' % kind,
                '%d traces begin with a record of one %d-byte %s (%d records); e.g. a trace for record at %s: %r'
                % (len(mine), m['len'], kind, len(m['chunk_ts']), (extra or mine)[0]['ts'], (extra or mine)[0]['text']))
    if not mine:
        return ('reassembly:%s:no-trace' % kind, 'no trace for a %d-byte %s of %d records' % (m['len'], kind, len(m['chunk_ts'])))
    t = mine[0]
    if t['ts'][0] != m['chunk_ts'][0]:
        return ('reassembly:%s:continuation-trace' % kind, 'the only trace begins with a continuation record')
    if [x for x in t['ts'] if x in set(m['chunk_ts'])] != m['chunk_ts']:
        return ('reassembly:%s:wrong-records' % kind, 'ktraces %s do not hold the records %s in order' % (t['ts'], m['chunk_ts']))
    if kind == 'gstring' and t['ts'] != m['chunk_ts'] and t['text'] == want:
        return ('reassembly:gstring:wrong-records', 'ktraces %s are not exactly the records of the string %s' % (t['ts'], m['chunk_ts']))
    if t['text'] != want:
        return ('reassembly:%s:wrong-text' % kind,
                '%d-byte %s (%d records): shown %r, encoded %r' % (m['len'], kind, len(m['chunk_ts']), t['text'], want))
    if kind == 'gstring' and m['text']:
        gs = dict(x.split(':') for x in tabs['gs'].split(',')) if tabs['gs'] != '-' else {}
        if gs.get(str(m['ident'])) != core.hs(m['text']):
            return ('reassembly:gstring:wrong-table', 'global_strings[%d] is not the encoded text' % m['ident'])
    if kind.startswith('threadname'):
        tn = dict(x.split(':') for x in tabs['tn'].split(',')) if tabs['tn'] != '-' else {}
        if tn.get(str(m['tid'])) != core.hs(m['text']):
            return ('reassembly:threadname:wrong-table', 'tids_names[%d] is not the encoded name' % m['tid'])
    return None


def reassembly_cases(rng, tier):
    hi = 200 if tier == 'quick' else 400
    cases = []
    kinds = ['lookup', 'gstring', 'threadname', 'threadname_prev']
    for kind in kinds:
        styles = ['contiguous', 'other', 'same', 'both'] + (['window'] if kind == 'lookup' else [])
        emph = set(emphasis(kind, hi))
        for length in range(0, hi + 1):
            full = length in emph or tier != 'quick'
            cases.append(reassembly_case(rng, kind, ascii_text(rng, length), 'contiguous'))
            cases.append(reassembly_case(rng, kind, utf8_text(rng, kind, length), styles[length % len(styles)]))
            if full:
                for st in styles:
                    cases.append(reassembly_case(rng, kind, ascii_text(rng, length), st))
                    cases.append(reassembly_case(rng, kind, utf8_text(rng, kind, length), st))
            else:
                cases.append(reassembly_case(rng, kind, ascii_text(rng, length), rng.choice(styles[1:])))
        # a multi-byte character across EVERY boundary, every size and every split point
        for nb in range(1, 5 if tier == 'quick' else 13):
            for rep in range(1 if tier == 'quick' else 3):
                length = ROOM[kind] + 32 * (nb - 1) + rng.randrange(3, 20)
                for k in (2, 3, 4):
                    for j in range(1, k):
                        cases.append(reassembly_case(rng, kind, utf8_text(rng, kind, length, fixed=(k, j)),
                                                     rng.choice(styles)))
    return cases


# ---------------------------------------------------------------------------------------------------------
# section `syscall-paths`: every path-taking decoder x number of lookups, through the whole parser

def discover_path_decoders():
    """Handlers whose text changes with the lookups in their window (found on the real code)."""
    out = []
    for n in D.supported_names():
        base = PL.good_args(n)
        if base is None:
            continue
        c0 = {'name': n, 'start': base, 'end': [0, 1, 0, 0], 'tid': 9, 'lookups': [], 'gs': {}, 'tp': {}, 'tn': {}}
        c1 = dict(c0, lookups=[['/QQ1', 1], ['/QQ2', 2], ['/QQ3', 3], ['/QQ4', 4], ['/QQ5', 5], ['/QQ6', 6]])
        try:
            if D.impl_fn(c0) != D.impl_fn(c1):
                out.append(n)
        except Exception:
            out.append(n)
    return out


def distinct_paths(rng, n):
    lens = [rng.choice([1, 5, 23, 24, 25, 30, 56, 57, 70, 120]) for _ in range(n)]
    out = []
    for i, ln in enumerate(lens):
        body = utf8_text(rng, 'lookup', max(ln - 3, 0)) if rng.random() < 0.3 else ascii_text(rng, max(ln - 3, 0))
        body = body.replace('"', 'q').replace(',', 'c')
        out.append('/%d/' % i + body)
    return out


def syscall_case(rng, name, nlookups, style, same_ts=False):
    s = Stream(rng)
    tid = rng.choice([6, 88])
    a = PL.good_args(name) or [1, 2, 3, 4]
    paths = distinct_paths(rng, nlookups)
    vnodes = [rng.randrange(1, 1 << 48) for _ in range(nlookups)]
    if nlookups >= 2 and rng.random() < 0.3:
        # two lookups of ONE vnode under spellings that differ only in case / unicode normal form / blanks / redundant
        # separators (a case-insensitive volume, a rename that changes the case): still two different texts
        from .. import nearmiss
        i, j = rng.sample(range(nlookups), 2)
        a_, b_ = nearmiss.twins(rng, paths[i][:100])
        if len(b_.encode()) <= 184 and len(a_.encode()) <= 184 and '"' not in b_ and ',' not in b_:
            paths[i], paths[j], vnodes[j] = a_, b_, vnodes[i]
    if style != 'contiguous':
        noise_other(s, rng)
    s.ev(name, START, tid, a)
    start_ts = s.ts
    lk_ts = []
    for p, v in zip(paths, vnodes):
        if same_ts:
            s.ts = 5000
        recs = s.lookup(tid, p, v)
        lk_ts.append(list(range(s.ts - len(recs) + 1, s.ts + 1)))
        if style != 'contiguous':
            if rng.random() < 0.6:
                noise_same(s, rng, 'lookup', tid)
            if rng.random() < 0.6:
                noise_other(s, rng)
    if same_ts:
        s.ts = 9000
    s.ev(name, END, tid, [0, 3, 0, 0])
    case = PL.make_case_from(s.recs)
    case['meta'] = {'name': name, 'tid': tid, 'paths': paths, 'vnodes': vnodes, 'start_ts': start_ts, 'lookup_ts': lk_ts,
                    'style': style}
    return case


def syscall_oracle(case, ans):
    m = case['meta']
    name = m['name']
    if not ans.startswith('ok '):
        return ('paths:%s:exception' % name, ans)
    traces, err, _ = PL.parse_answer(ans)
    if err != '-':
        return ('paths:%s:exception' % name, '%s with %d lookups raised %s' % (name, len(m['paths']), err))
    # one lookup trace per lookup, exact text and vnode id
    for p, v, ts in zip(m['paths'], m['vnodes'], m['lookup_ts']):
        mine = text_traces(traces, ts)
        want = expected_text('lookup', p, v)
        if len(mine) != 1 or mine[0]['text'] != want or mine[0]['ts'][0] != ts[0]:
            return ('reassembly:lookup:in-window', 'lookup %r inside %s: traces %r' % (p, name, [(t['ts'], t['text']) for t in mine]))
    sys_tr = [t for t in traces if t['ts'] and t['ts'][0] == m['start_ts']]
    if len(sys_tr) != 1 or sys_tr[0]['text'] is None:
        return ('paths:%s:no-trace' % name, 'no rendered trace for the syscall window: %r' % sys_tr)
    text = sys_tr[0]['text']
    sp = D.split_call(text)
    if sp is None:
        return ('paths:%s:not-call-shaped' % name, text)
    params = sp[1]
    for pos, kind in EXPECT.get(name, []):
        want = '"%s"' % shown(kind, m['paths'])
        got = params[pos] if pos < len(params) else None
        if got != want:
            idx = {'first': 0, 'second': 1, 'last': -1, 'spawn': 3 if len(m['paths']) >= 6 else 0}.get(kind, kind[1] if isinstance(kind, (list, tuple)) else 0)
            return ('paths:%s:param-%d' % (name, pos),
                    '%s with %d lookups %r: parameter %d shows %s, the looked-up path (lookup %s) is %s; text %r'
                    % (name, len(m['paths']), m['paths'], pos, got, idx, want, text))
    if name in TAIL_PATH and m['paths']:
        if (' path: "%s"' % m['paths'][0]) not in sp[2]:
            return ('paths:%s:tail' % name, 'result part %r does not show the looked-up path %r' % (sp[2], m['paths'][0]))
    return None


def k5_oracle(case, ans):
    """Finding stream: two byte-identical lookups (same timestamps)."""
    r = syscall_oracle(case, ans)
    if r is None:
        return None
    m = case['meta']
    second = [pos for pos, kind in EXPECT.get(m['name'], []) if kind == 'second']
    if second and r[0] == 'paths:%s:param-%d' % (m['name'], second[0]) and 'shows ""' in r[1]:
        return (K5_SIG, r[1])
    return r


def k5_case(rng, name):
    """`name(old, new)` where both lookups are the same path/vnode with the same timestamps."""
    s = Stream(rng)
    tid = 6
    a = PL.good_args(name) or [1, 2, 3, 4]
    s.ev(name, START, tid, a)
    start_ts = s.ts
    path, vn = '/tmp/a', 0x77
    s.ts = 5000
    r1 = s.lookup(tid, path, vn)
    s.ts = 5000
    s.lookup(tid, path, vn)
    s.ts = 9000
    s.ev(name, END, tid, [0, 0, 0, 0])
    case = PL.make_case_from(s.recs)
    ts = list(range(5001, 5001 + len(r1)))
    case['meta'] = {'name': name, 'tid': tid, 'paths': [path, path], 'vnodes': [vn, vn], 'start_ts': start_ts,
                    'lookup_ts': [], 'style': 'k5', 'ts': ts}
    return case


# ---------------------------------------------------------------------------------------------------------
# section `histories`: SEQUENCES of texts on one parser — vnode ids, string ids and thread ids repeat, empty texts (one
# START|END record holding only NULs behind the header) follow non-empty ones of the same id and vice versa, on the
# same and on different threads, inside syscall windows and on their own; fed to one TracesParser and, packed into a
# version-2 dump, through PyKdebugParser.traces

HIST_EXTRA = ('VFS_LOOKUP', 'TRACE_STRING_GLOBAL', 'TRACE_STRING_THREADNAME', 'TRACE_STRING_THREADNAME_PREV')
HIST_TIDS = [5, 77, 0x1234]
HIST_PATTERNS = [['A', ''], ['', 'A'], ['A', '', 'B'], ['A', '', ''], ['', '', 'A'], ['A', 'A'], ['A', 'B', ''], ['', ''],
                 ['A', '', 'A', ''], ['A', 'B', 'A']]


def hist_text(rng, kind, used, p_empty=0.35, p_repeat=0.2):
    r = rng.random()
    if r < p_empty:
        return ''
    if r < p_empty + p_repeat and used:
        return rng.choice(used)
    ln = rng.choice([1, 2, 5, 15, 16, 17, 23, 24, 25, 31, 32, 33, 56, 57, 70, 120])
    k = 'lookup' if kind == 'lookup' else kind
    body = utf8_text(rng, k, ln) if rng.random() < 0.3 else ascii_text(rng, ln)
    t = body.replace('"', 'q').replace(',', 'c')
    used.append(t)
    return t


class History:
    """Per-thread programs of operations (each a list of records built by the kernel-side encoders); `build` merges the
    threads, stamps the records and notes for every text which records carry it."""

    def __init__(self, rng):
        self.rng = rng
        self.side = Stream(rng)
        self.prog = {}            # tid -> list of operations; operation = list of (record, tag)
        self.order = []
        self.items = []           # dict(kind, tid, text, ident, chunk_ts, win)
        self.windows = []         # dict(name, tid, start_ts, paths, vnodes)

    def _op(self, tid):
        if tid not in self.prog:
            self.prog[tid] = []
            self.order.append(tid)
        op = []
        self.prog[tid].append(op)
        return op

    def _text(self, op, kind, tid, text, ident, win=None):
        item = {'kind': kind, 'tid': tid, 'text': text, 'ident': ident, 'chunk_ts': [], 'win': win, 'len': len(text.encode())}
        self.items.append(item)
        for r in emit_text(self.side, kind, tid, text, ident):
            op.append((r, item))
        return item

    def text(self, kind, tid, text, ident):
        self._text(self._op(tid), kind, tid, text, ident)

    def window(self, name, tid, lookups, noisy=False):
        op = self._op(tid)
        w = {'name': name, 'tid': tid, 'start_ts': None, 'paths': [p for p, _ in lookups], 'vnodes': [v for _, v in lookups]}
        self.windows.append(w)
        wi = len(self.windows) - 1
        op.append((self.side.ev(name, START, tid, PL.good_args(name) or [1, 2, 3, 4]), w))
        for p, v in lookups:
            self._text(op, 'lookup', tid, p, v, win=wi)
            if noisy and self.rng.random() < 0.5:
                before = len(self.side.recs)
                noise_same(self.side, self.rng, 'lookup', tid)
                op.extend((r, None) for r in self.side.recs[before:])
        op.append((self.side.ev(name, END, tid, [0, 3, 0, 0]), None))

    def build(self, grain):
        """grain 'op': whole operations of the threads alternate; 'record': single records do."""
        rng = self.rng
        queues = {t: [list(op) for op in self.prog[t]] for t in self.order}
        live = [t for t in self.order if queues[t]]
        ts, recs = 100, []
        while live:
            t = rng.choice(live)
            n = len(queues[t][0]) if grain == 'op' else 1
            for _ in range(n):
                r, tag = queues[t][0].pop(0)
                ts += 1
                recs.append(ts.to_bytes(8, 'little') + r[8:])
                if isinstance(tag, dict) and 'chunk_ts' in tag:
                    tag['chunk_ts'].append(ts)
                elif isinstance(tag, dict):
                    tag['start_ts'] = ts
            if not queues[t][0]:
                queues[t].pop(0)
            if not queues[t]:
                live.remove(t)
        return recs


def hist_flags(items):
    """Which orders of the family the history holds: e = an empty text after a non-empty one of the same id, f = a
    non-empty text after an empty one of the same id, r = a different non-empty text under a repeated id."""
    seen, fl = {}, set()
    for it in items:
        fam = 'threadname' if it['kind'].startswith('threadname') else it['kind']
        key = (fam, it['tid'] if fam == 'threadname' else it['ident'])
        for prev in seen.get(key, []):
            if prev and not it['text']:
                fl.add('e')
            if not prev and it['text']:
                fl.add('f')
            if prev and it['text'] and prev != it['text']:
                fl.add('r')
        seen.setdefault(key, []).append(it['text'])
    return ''.join(sorted(fl)) or '-'


def finish_history(h, rng, route, grain, tag):
    recs = h.build(grain)
    case = PL.make_case_from(recs, extra=HIST_EXTRA + ('TRACE_DATA_THREAD_TERMINATE', 'TRACE_STRING_PROC_EXIT', 'TRACE_DATA_EXEC'))
    case['route'] = route
    case['meta'] = {'items': h.items, 'windows': h.windows, 'grain': grain, 'tag': tag, 'flags': hist_flags(h.items)}
    return case


def window_decoders():
    return [n for n in sorted(EXPECT) if n in PL.IDS]


def scripted_history(rng, pattern, fam, threads, route):
    """One id, the texts of `pattern` in a row.  fam: lookup (each on its own) | window-each (each in a syscall of its own)
    | window-one (all in one syscall) | gstring | threadname | threadname_prev | threadname-mixed."""
    h = History(rng)
    used = []
    names = {'A': hist_text(rng, 'lookup', used, 0, 0), 'B': hist_text(rng, 'lookup', used, 0, 0), '': ''}
    if names['A'] == names['B']:
        names['B'] += 'x'
    ident = rng.choice([0, 1, 7, 0xcafe, (1 << 64) - 1, rng.randrange(1 << 64)])
    tids = [HIST_TIDS[0]] * len(pattern) if threads == 'same' else [HIST_TIDS[i % 2] for i in range(len(pattern))]
    if fam.startswith('threadname'):
        tids = [HIST_TIDS[0]] * len(pattern)          # the id of a thread name IS the thread
    decs = window_decoders()
    if fam == 'window-one':
        many = [n for n in decs if len(EXPECT[n]) > 1]
        h.window(rng.choice(many), tids[0], [(names[p], ident) for p in pattern], noisy=rng.random() < 0.3)
    else:
        for i, (p, tid) in enumerate(zip(pattern, tids)):
            if fam == 'window-each':
                h.window(rng.choice(decs), tid, [(names[p], ident)], noisy=rng.random() < 0.3)
            elif fam == 'threadname-mixed':
                h.text(rng.choice(['threadname', 'threadname_prev']), tid, names[p], 0)
            else:
                h.text(fam, tid, names[p], ident)
            if threads != 'same' and rng.random() < 0.5:       # something of yet another thread in between
                h.text(rng.choice(['lookup', 'gstring']), HIST_TIDS[2], hist_text(rng, 'lookup', used, 0.2, 0), ident)
    return finish_history(h, rng, route, rng.choice(['op', 'record']) if threads != 'same' else 'op',
                          'scripted/%s/%s' % (fam, threads))


def random_history(rng, route):
    h = History(rng)
    used = []
    tids = rng.sample(HIST_TIDS, rng.choice([1, 2, 2, 3]))
    vnodes = rng.sample([0, 1, 7, 0xcafe, (1 << 64) - 1, rng.randrange(1 << 64)], 2)
    sids = rng.sample([0, 1, 5, 0xfeedface, rng.randrange(1 << 64)], 2)
    decs = window_decoders()
    for _ in range(rng.randrange(3, 9)):
        tid = rng.choice(tids)
        r = rng.random()
        if r < 0.35:
            k = rng.choice([0, 1, 1, 2, 2, 3, 6])
            h.window(rng.choice(decs), tid, [(hist_text(rng, 'lookup', used), rng.choice(vnodes)) for _ in range(k)],
                     noisy=rng.random() < 0.3)
        elif r < 0.55:
            h.text('lookup', tid, hist_text(rng, 'lookup', used), rng.choice(vnodes))
        elif r < 0.8:
            h.text('gstring', tid, hist_text(rng, 'gstring', used), rng.choice(sids))
        else:
            h.text(rng.choice(['threadname', 'threadname_prev']), tid, hist_text(rng, 'threadname', used), 0)
    return finish_history(h, rng, route, rng.choice(['op', 'op', 'record']), 'random')


def history_cases(rng, tier):
    cases = []
    fams = ['lookup', 'window-each', 'window-one', 'gstring', 'threadname', 'threadname_prev', 'threadname-mixed']
    for route in PL.ROUTES:
        for _ in range(1 if tier == 'quick' else 6):
            for fam in fams:
                for pattern in HIST_PATTERNS:
                    for threads in ('same', 'other'):
                        if threads == 'other' and (fam.startswith('threadname') or fam == 'window-one'):
                            continue
                        cases.append(scripted_history(rng, pattern, fam, threads, route))
        for _ in range(200 if tier == 'quick' else 4000):
            cases.append(random_history(rng, route))
    return cases


def history_oracle(case, ans):
    """Each text trace carries exactly its own text (and vnode / string id); each syscall shows exactly the paths looked up
    inside its own window — whatever the same parser has read before."""
    m = case['meta']
    if not ans.startswith('ok '):
        return ('history:exception', 'the pipeline raised: %s' % ans)
    traces, err, tabs = PL.parse_answer(ans)
    if err != '-':
        return ('history:exception', 'a history of %d texts raised %s and ended the stream' % (len(m['items']), err))
    by_first = {}
    for t in traces:
        if t['ts']:
            by_first.setdefault(t['ts'][0], []).append(t)
    for n, it in enumerate(m['items']):
        kind = it['kind']
        where = 'text %d of the history (%s, id %d, thread %d, %d bytes%s)' % (
            n, kind, it['ident'], it['tid'], it['len'], ', in window %d' % it['win'] if it['win'] is not None else '')
        mine = [t for ts in it['chunk_ts'] for t in by_first.get(ts, [])]
        want = expected_text(kind, it['text'], it['ident'])
        if len(mine) > 1 or (mine and mine[0]['ts'][0] != it['chunk_ts'][0]):
            return ('history:%s:continuation-trace' % kind, '%s: %d traces begin with its records: %r'
                    % (where, len(mine), [(t['ts'], t['text']) for t in mine]))
        if not mine:
            return ('history:%s:no-trace' % kind, '%s: no trace' % where)
        if mine[0]['text'] != want:
            earlier = [(j, x['text']) for j, x in enumerate(m['items'][:n])
                       if x['text'] and mine[0]['text'] == expected_text(kind, x['text'], it['ident'])]
            return ('history:%s:wrong-text' % kind, '%s: shown %r, encoded %r%s'
                    % (where, mine[0]['text'], want, '; that is the text of earlier text %d' % earlier[0][0] if earlier else ''))
    for wi, w in enumerate(m['windows']):
        sys_tr = by_first.get(w['start_ts'], [])
        if len(sys_tr) != 1 or sys_tr[0]['text'] is None:
            return ('history:window:no-trace', 'window %d (%s): no rendered trace: %r' % (wi, w['name'], sys_tr))
        sp = D.split_call(sys_tr[0]['text'])
        if sp is None:
            return ('history:window:not-call-shaped', sys_tr[0]['text'])
        for pos, kind in EXPECT.get(w['name'], []):
            want = '"%s"' % shown(kind, w['paths'])
            got = sp[1][pos] if pos < len(sp[1]) else None
            if got != want:
                return ('history:window:param', 'window %d of the history: %s with the lookups %r shows %s at parameter %d, the '
                        'looked-up path there is %s; text %r' % (wi, w['name'], w['paths'], got, pos, want, sys_tr[0]['text']))
    # tables: the last text of an id, when that text is not empty
    last_gs, last_tn = {}, {}
    order = sorted(m['items'], key=lambda it: it['chunk_ts'][-1])
    for it in order:
        if it['kind'] == 'gstring':
            last_gs[it['ident']] = it['text']
        elif it['kind'].startswith('threadname'):
            last_tn[it['tid']] = it['text']
    gs = dict(x.split(':') for x in tabs['gs'].split(',')) if tabs['gs'] != '-' else {}
    tn = dict(x.split(':') for x in tabs['tn'].split(',')) if tabs['tn'] != '-' else {}
    for ident, text in last_gs.items():
        if text and gs.get(str(ident)) != core.hs(text):
            return ('history:gstring:wrong-table', 'global_strings[%d] is not the last text of that id' % ident)
    for tid, text in last_tn.items():
        if text and tn.get(str(tid)) != core.hs(text):
            return ('history:threadname:wrong-table', 'tids_names[%d] is not the last name of that thread' % tid)
    return None


# ---------------------------------------------------------------------------------------------------------
# translation tie: the program GENERATED from traces_parser.py (Gen/PyIRVn) against the real methods

def translation_tie(rep):
    """Is the IR translated from traces_parser.py the program the *_ir_eq_model theorems are about?  Returns whether the
    generated program can be run (no `.unsupported` node)."""
    ans = core.drive(['vnircheck'])[0]
    if ans == 'same':
        rep.notes.append('translation tie: Gen/PyIRVn (from traces_parser.py) = Spec/PyIRVnExpected')
        return True
    rep.broken.append('theorem source_is_expected_ir: the IR that tools/gen_pyir_vn.py translates from the source text of '
                      'traces_parser.py (vnode_generator, parse_vnodes, parse_vnode) is not the program of Spec/PyIRVnExpected '
                      'that vnode_generator_ir_eq_model / parse_vnodes_ir_eq_model / parse_vnode_ir_eq_model are proved for (%s)'
                      % ans)
    return 'unsupported' not in ans


VN_TID = 0x51
VN_NOISE = ['MACH_SCHED', 'MACH_MKRUNNABLE', 'DecrSet', 'BSC_getpid', 'TRACE_DATA_THREAD_TERMINATE']
VN_BAD_UTF8 = [b'\xff', b'/tmp/\xc3', b'\xe2\x82', b'ab\xf0\x9f\x98', b'/x\x80y', b'\xed\xa0\x80']


class VnBuilder:
    """A list of records for `vnode_generator` / `parse_vnodes` / `parse_vnode`, with what the harness knows about it:
    `lookups` = [(path text, vnode id, timestamps of its records)] while the VFS_LOOKUP records are exactly a sequence of
    complete kernel-encoded lookups of valid NUL-free texts (None once something else was put among them)."""

    def __init__(self, rng, lookup_eid=None):
        self.s = Stream(rng)
        self.rng = rng
        self.eid = PL.IDS['VFS_LOOKUP'] if lookup_eid is None else lookup_eid
        self.lookups = []
        self.pure = True
        self.tags = set()

    def chunks(self, raw, vnode):
        out = [vnode.to_bytes(8, 'little') + raw[:24].ljust(24, b'\0')]
        raw = raw[24:]
        while raw:
            out.append(raw[:32].ljust(32, b'\0'))
            raw = raw[32:]
        return out

    def lookup(self, text, vnode, quals=None, drop=(), between=None, tid=VN_TID):
        """One lookup; `quals` overrides the qualifier of record i, `drop` leaves records out: anything but the kernel's
        own shape makes the stream one the property says nothing about."""
        raw = text if isinstance(text, bytes) else text.encode()
        cs = self.chunks(raw, vnode)
        ts = []
        for i, c in enumerate(cs):
            q = (START if i == 0 else 0) | (END if i == len(cs) - 1 else 0)
            if quals and i in quals:
                q = quals[i]
            if i in drop:
                continue
            if i and between:
                between()
            self.s.ev(None, q, tid, data=c, eid=self.eid)
            ts.append(self.s.ts)
        ok = not quals and not drop and isinstance(text, str) and '\0' not in text
        if ok and self.lookups is not None:
            self.lookups.append([text, vnode, ts])
        else:
            self.lookups = None
        return ts

    def noise(self):
        """a record that is not a VFS_LOOKUP record: other codes of the table (same and other threads, all qualifiers) and
        codes the table does not name"""
        self.pure = False
        self.tags.add('interleaved')
        rng = self.rng
        r = rng.random()
        tid = rng.choice([VN_TID, VN_TID, 0x77])
        if r < 0.2:
            self.s.ev(None, rng.choice([NONE, START, END, 3]), tid, [1, 2, 3, 4], eid=UNDECODABLE)
        elif r < 0.4:
            self.s.ev('BSC_open', rng.choice([START, END]), tid, [rng.randrange(1 << 64), 0x2f746d70, 0x41414141, 0])
        else:
            self.s.ev(rng.choice(VN_NOISE), rng.choice([NONE, NONE, START, END, 3]), tid,
                      [rng.randrange(1 << 64), 0x2f2f2f2f2f2f2f2f, 0, rng.randrange(256)])

    def case(self, kind, extra_codes=None):
        codes = PL.restricted_codes(self.s.recs, extra=('VFS_LOOKUP',))
        if extra_codes is not None:
            codes = extra_codes
        return {'codes': {str(k): v for k, v in codes.items()}, 'events': [r.hex() for r in self.s.recs],
                'meta': {'kind': kind, 'lookups': self.lookups, 'pure': self.pure, 'tags': sorted(self.tags),
                         'records': len(self.s.recs)}}


def vn_vnode(rng):
    return rng.choice([0, 1, 7, 0xdeadbeef, (1 << 64) - 1, rng.randrange(1 << 64), rng.randrange(1 << 32)])


def vn_cases(rng, tier):
    hi = 200 if tier == 'quick' else 400
    cases = []
    emph = set(emphasis('lookup', hi))
    # 1. one lookup of every length; on its own, and inside a window of other records
    for length in range(0, hi + 1):
        b = VnBuilder(rng)
        b.lookup(ascii_text(rng, length), vn_vnode(rng))
        cases.append(b.case('one'))
        b = VnBuilder(rng)
        b.noise()
        b.lookup(utf8_text(rng, 'lookup', length), vn_vnode(rng), between=(b.noise if length % 2 else None))
        b.noise()
        cases.append(b.case('one-in-window'))
        if length in emph or tier != 'quick':
            for _ in range(2):
                b = VnBuilder(rng)
                b.lookup(utf8_text(rng, 'lookup', length), vn_vnode(rng))
                cases.append(b.case('one'))
    # 2. a multi-byte character across every record boundary, every size and split point
    for nb in range(1, 5 if tier == 'quick' else 13):
        length = 24 + 32 * (nb - 1) + rng.randrange(3, 20)
        for k in (2, 3, 4):
            for j in range(1, k):
                b = VnBuilder(rng)
                if rng.random() < 0.5:
                    b.noise()
                b.lookup(utf8_text(rng, 'lookup', length, fixed=(k, j)), vn_vnode(rng), between=rng.choice([None, b.noise]))
                cases.append(b.case('utf8-boundary'))
    # 3. several lookups in one list (the reset after the yield; parse_vnode takes the first)
    lens = [0, 1, 5, 23, 24, 25, 31, 32, 33, 55, 56, 57, 88, 120, 184]
    for _ in range(150 if tier == 'quick' else 2500):
        b = VnBuilder(rng)
        noisy = rng.random() < 0.6
        n = rng.choice([2, 2, 3, 4, 6])
        for i in range(n):
            if noisy and rng.random() < 0.7:
                b.noise()
            ln = rng.choice(lens)
            text = '' if rng.random() < 0.15 else (utf8_text(rng, 'lookup', ln) if rng.random() < 0.3 else ascii_text(rng, ln))
            b.lookup(text, rng.choice([0, 5, vn_vnode(rng)]), between=(b.noise if noisy and rng.random() < 0.5 else None))
        if noisy:
            b.noise()
        cases.append(b.case('several'))
    # 4. streams the kernel does not produce: missing START / missing END / two STARTs / END twice / ALL in the middle
    for _ in range(150 if tier == 'quick' else 2500):
        b = VnBuilder(rng)
        if rng.random() < 0.4:
            b.lookup(ascii_text(rng, rng.choice(lens)), vn_vnode(rng))
        ln = rng.choice([30, 57, 60, 90, 120])
        nrec = 1 + (max(ln - 24, 0) + 31) // 32
        how = rng.choice(['no-start', 'no-end', 'two-starts', 'drop-first', 'drop-last', 'drop-middle', 'end-twice',
                          'all-middle', 'random'])
        b.tags.add(how)
        quals, drop = {}, ()
        if how == 'no-start':
            quals = {0: NONE}
        elif how == 'no-end':
            quals = {nrec - 1: NONE}
        elif how == 'two-starts':
            quals = {1: START if nrec > 2 else 3}
        elif how == 'drop-first':
            drop = (0,)
        elif how == 'drop-last':
            drop = (nrec - 1,)
        elif how == 'drop-middle':
            drop = (1,)
        elif how == 'end-twice':
            quals = {nrec - 2: END if nrec > 2 else 3}
        elif how == 'all-middle':
            quals = {1: 3}
        else:
            quals = {i: rng.randrange(4) for i in range(nrec)}
        b.lookup(ascii_text(rng, ln), vn_vnode(rng), quals=quals, drop=drop,
                 between=(b.noise if rng.random() < 0.3 else None))
        if rng.random() < 0.7:
            b.lookup(ascii_text(rng, rng.choice(lens)), vn_vnode(rng))
        cases.append(b.case('malformed'))
    # 5. paths that are not UTF-8 (decode raises inside the generator: the vnodes before it were yielded)
    for bad in VN_BAD_UTF8:
        for pos in range(3):
            for pad in (0, 22, 40):
                b = VnBuilder(rng)
                for i in range(3):
                    if i == pos:
                        b.tags.add('invalid-utf8')
                        b.lookup(b'p' * pad + bad, vn_vnode(rng))
                    else:
                        b.lookup(ascii_text(rng, rng.choice([3, 30])), vn_vnode(rng))
                    if rng.random() < 0.3:
                        b.noise()
                cases.append(b.case('invalid-utf8'))
    # 6. no records / no lookup records
    b = VnBuilder(rng)
    cases.append(b.case('empty'))
    for _ in range(5):
        b = VnBuilder(rng)
        for _ in range(rng.randrange(1, 5)):
            b.noise()
        cases.append(b.case('no-lookups'))
    # 7. another code table: the records of the bundled VFS_LOOKUP id are NOT lookups, those of another id are
    other = PL.IDS['MACH_SCHED']
    for _ in range(20 if tier == 'quick' else 300):
        b = VnBuilder(rng, lookup_eid=other)
        b.tags.add('remapped-table')
        b.pure = False
        for _ in range(rng.randrange(1, 4)):
            b.lookup(ascii_text(rng, rng.choice(lens)), vn_vnode(rng))
            if rng.random() < 0.6:       # a record of the bundled VFS_LOOKUP id, here named otherwise / not at all
                b.s.ev('VFS_LOOKUP', rng.choice([START, END, 3, NONE]), VN_TID, data=b'\x09' * 8 + b'/not/a/lookup'.ljust(24, b'\0'))
        table = {other: 'VFS_LOOKUP'}
        if rng.random() < 0.5:
            table[PL.IDS['VFS_LOOKUP']] = 'VFS_LOOKUP_RENAMED'
        cases.append(b.case('remapped-table', extra_codes=table))
    # 8. arbitrary qualifiers and payloads on lookup records
    for _ in range(100 if tier == 'quick' else 3000):
        b = VnBuilder(rng)
        b.lookups = None
        b.tags.add('soup')
        for _ in range(rng.randrange(1, 9)):
            if rng.random() < 0.2:
                b.noise()
            data = bytes(rng.choice([0, 0, 0x2f, 0x61, 0x62, rng.randrange(128)]) for _ in range(32))
            b.s.ev('VFS_LOOKUP', rng.randrange(4), rng.choice([VN_TID, 0x77]), data=data)
        cases.append(b.case('soup'))
    return cases


def vn_line(case):
    codes = {int(k): v for k, v in case['codes'].items()}
    return ('vnir %s %s' % (PL.codes_arg(codes), ' '.join(case['events']))).rstrip()


def vn_show(v):
    return '%s:%d:%s' % ('+'.join(str(e.timestamp) for e in v.ktraces) or '-', v.vnode_id, core.hs(v.path))


def vn_show_list(vs):
    return ','.join(vn_show(v) for v in vs) or '-'


def vn_impl(case):
    """The real TracesParser through vnode_generator / parse_vnodes / parse_vnode, one parser object for the three calls."""
    codes = {int(k): v for k, v in case['codes'].items()}
    evs = [PL.from_kd_buf(bytes.fromhex(h)) for h in case['events']]
    p = PL.TracesParser(codes, {}, {})
    ys, err = [], '-'
    try:
        for v in p.vnode_generator(list(evs)):
            ys.append(v)
    except Exception as e:  # noqa: BLE001
        err = core.err_name(e)
    g = 'G=%s err=%s' % (vn_show_list(ys), err)
    try:
        v = vn_show_list(p.parse_vnodes(list(evs)))
    except Exception as e:  # noqa: BLE001
        v = '!' + core.err_name(e)
    try:
        f = vn_show(p.parse_vnode(list(evs)))
    except Exception as e:  # noqa: BLE001
        f = '!' + core.err_name(e)
    return 'ok %s ;V=%s ;F=%s' % (g, v, f)


def vn_parse(ans):
    g, v, f = ans[3:].split(' ;')
    gy, ge = g.split(' err=')
    return gy[2:], ge, v[2:], f[2:]


def vn_oracle(case, ans):
    """Stated on the implementation's answer only: the harness knows the lookups it encoded.  A list whose VFS_LOOKUP
    records are complete kernel-encoded lookups gives exactly one vnode per lookup — its records, its vnode id, its path."""
    m = case['meta']
    if m['lookups'] is None:
        return None
    want = ['%s:%d:%s' % ('+'.join(map(str, ts)), vn, core.hs(text)) for text, vn, ts in m['lookups']]
    want_all = ','.join(want) or '-'
    where = '%d lookups %r among %d records (%s)' % (len(want), [(t, v) for t, v, _ in m['lookups']][:4], m['records'],
                                                     ', '.join(m['tags']) or 'lookup records only')
    if not ans.startswith('ok G='):
        return ('vnodes:exception', '%s: %s' % (where, ans))
    gy, ge, v, f = vn_parse(ans)
    if m['pure'] and (gy != want_all or ge != '-'):
        return ('vnodes:generator:wrong-vnodes', 'vnode_generator on %s yields %s (ends with %s), encoded %s' % (where, gy, ge, want_all))
    if v != want_all:
        return ('vnodes:parse_vnodes:wrong-vnodes', 'parse_vnodes on %s gives %s, encoded %s' % (where, v, want_all))
    first = want[0] if want else '-:0:-'
    if f != first:
        return ('vnodes:parse_vnode:wrong-vnode', 'parse_vnode on %s gives %s, the first lookup is %s' % (where, f, first))
    return None


def vn_nontrivial(case, got):
    m = case['meta']
    return m['records'] > 1 and got.startswith('ok G=') and got != 'ok G=- err=- ;V=- ;F=-:0:-'


def section_vnodes_ir(rep, rng, tier):
    runnable = translation_tie(rep)
    if not runnable:
        rep.notes.append('section vnodes-ir: the translation contains .unsupported nodes; the generated program is not run, the '
                         'property is still checked on the real methods')
    core.run_section(
        rep, 'vnodes-ir', vn_cases(rng, tier), line_fn=vn_line, impl_fn=vn_impl, oracle_fn=vn_oracle,
        skip_fn=lambda m: m == 'unsupported' or 'Unmodelled' in m, nontrivial_fn=vn_nontrivial,
        kind_fn=lambda c, got: c['meta']['kind'] + ('/raises' if ' err=-' not in got else ''),
        rule='the program GENERATED from traces_parser.py (Gen/PyIRVn: vnode_generator, parse_vnodes, parse_vnode) run by the '
             'interpreter of Model/PyIRVn (`vnir`) vs. the real TracesParser.vnode_generator / parse_vnodes / parse_vnode on the '
             'same record lists: one lookup of every byte length 0..%d (extra at 24+32k±1), alone and inside other records; '
             'a 2/3/4-byte character across every record boundary at every split point; 2-6 lookups in a row (empty paths, '
             'repeated vnode ids) with non-lookup records of the table and of unknown codes in between; missing START / '
             'missing END / two STARTs / dropped first, middle, last record / END twice / random qualifiers; paths that are '
             'not UTF-8 in the first, second, third lookup; no records; no lookup records; a code table that names another id '
             'VFS_LOOKUP; random qualifiers and payloads.  Compared: the vnodes yielded (record timestamps, vnode id, path) and '
             'the exception that ends the generator, the list / exception of parse_vnodes, the vnode of parse_vnode.  Oracle '
             '(code only): when the lookup records are complete kernel-encoded lookups of valid texts, each gives exactly '
             '(its records, its vnode id, its path), parse_vnode the first; non-trivial = more than one record and at least '
             'one vnode or an exception' % (200 if tier == 'quick' else 400),
        sample_fn=lambda c: {'kind': c['meta']['kind'], 'records': c['meta']['records'], 'tags': c['meta']['tags']})


def line(case):
    return PL.line(case)


def impl_fn(case):
    return PL.impl_route_fn(case)


def correspondence(rep, rng, tier):
    # 0. translation tie of vnode_generator / parse_vnodes / parse_vnode (own random stream: the sections below keep theirs)
    section_vnodes_ir(rep, random.Random(rng.getrandbits(64) ^ 0x766e6972), tier)
    # 1. one text, whole parser
    cases = reassembly_cases(rng, tier)
    core.run_section(
        rep, 'reassembly', cases, line_fn=line, impl_fn=impl_fn, oracle_fn=reassembly_oracle, skip_fn=PL.unmodelled,
        nontrivial_fn=lambda c, got: len(c['meta']['chunk_ts']) > 1,
        kind_fn=lambda c, got: '%s/%d-records' % (c['meta']['kind'], min(len(c['meta']['chunk_ts']), 5)),
        rule='lookups / global strings / thread names (+_PREV) of every byte length 0..%d (extra cases at 24+32k±1, 16+32k±1, '
             '32k±1), ASCII and UTF-8 texts with a 2/3/4-byte character straddling every record boundary at every split point; '
             'fed contiguously, with other-thread records (lookups, dangling STARTs, strings, syscall STARTs/ENDs), with unrelated '
             'same-thread records (scheduler records, undecodable codes, whole getpid windows; for strings also whole lookups) '
             'and inside an enclosing syscall window; Lean `Trace.run` vs TracesParser.feed_generator; non-trivial = more than '
             'one record' % (200 if tier == 'quick' else 400),
        sample_fn=lambda c: {'kind': c['meta']['kind'], 'len': c['meta']['len'], 'records': len(c['meta']['chunk_ts']),
                             'style': c['meta']['style']})
    # 2. every path-taking decoder x number of lookups
    found = discover_path_decoders()
    listed = sorted(set(EXPECT) | TAIL_PATH)
    if sorted(found) != listed:
        rep.broken.append('path-taking decoders found on the real code differ from the reference table: only found %s, only '
                          'listed %s' % (sorted(set(found) - set(listed)), sorted(set(listed) - set(found))))
    names = sorted(set(found) | set(listed), key=lambda n: (len(n), n))
    names = [n for n in names if n in PL.IDS]
    counts = [0, 1, 2, 3, 4, 6]
    scases = []
    for n in names:
        for k in counts:
            scases.append(syscall_case(rng, n, k, 'contiguous'))
            if tier != 'quick' or k in (2, 6):
                scases.append(syscall_case(rng, n, k, 'noisy'))
        if tier != 'quick':
            for k in (0, 1, 2, 2, 3, 5, 6, 7, 9):
                scases.append(syscall_case(rng, n, k, rng.choice(['noisy', 'contiguous'])))
    core.run_section(
        rep, 'syscall-paths', scases, line_fn=line, impl_fn=impl_fn, oracle_fn=syscall_oracle, skip_fn=PL.unmodelled,
        nontrivial_fn=lambda c, got: len(c['meta']['paths']) > 0,
        kind_fn=lambda c, got: '%d-lookups' % len(c['meta']['paths']),
        rule='every path-taking decoder (%d, found by rendering all handlers of the real code with and without lookups) x '
             '0,1,2,3,4,6 kernel-encoded lookups with distinct paths (1..120 bytes, some UTF-8) inside its START/END window, '
             'contiguous and with unrelated same-thread / other-thread records in between, through the whole parser; oracle: one '
             'lookup trace per lookup with exactly its path and vnode id, and the syscall text shows at each path position the '
             'encoded path of the lookup the reference table names' % len(names),
        sample_fn=lambda c: {'decoder': c['meta']['name'], 'lookups': len(c['meta']['paths'])})
    # 2b. sequences of texts on one parser: repeated ids, empty texts after non-empty ones and vice versa
    hcases = history_cases(rng, tier)
    core.run_section(
        rep, 'histories', hcases, line_fn=line, impl_fn=impl_fn, oracle_fn=history_oracle, skip_fn=PL.unmodelled,
        nontrivial_fn=lambda c, got: c['meta']['flags'] != '-',
        kind_fn=lambda c, got: '%s/%s/%s' % (c['route'], c['meta']['tag'].split('/')[0], c['meta']['flags']),
        rule='histories of 2..15 texts on ONE parser in which vnode ids, string ids and thread ids REPEAT: lookups on their own, '
             'inside a syscall window of their own and several inside one window (0..6 lookups; decoders drawn from the whole '
             'reference table), global strings, thread names of both kinds; texts of length 0 (one START|END record holding only '
             'NULs behind its header) follow non-empty texts of the same id and vice versa, the same text / another text is '
             'repeated under the same id (scripted orders A·∅, ∅·A, A·∅·B, A·∅·∅, ∅·∅·A, A·A, A·B·∅, ∅·∅, A·∅·A·∅, A·B·A for every '
             'kind, on one thread and alternating between threads with texts of a third thread in between; random histories on '
             '1-3 threads with 2 vnode ids / 2 string ids), threads merged operation by operation or record by record, unrelated '
             'same-thread records inside windows; every history fed to TracesParser.feed_generator (route parser) and, packed '
             'into a version-2 / version-3 dump, read through PyKdebugParser.traces (routes dump, dump3); Lean `Trace.run` vs the code, oracle: every '
             'text has exactly one trace, beginning at its first record, with exactly its own text and id; every syscall shows '
             'at its path positions the paths looked up inside its own window; the string / name tables hold the last non-empty '
             'text of an id; non-trivial = the history holds an empty text after a non-empty one of the same id (e), the reverse '
             '(f) or another text under a repeated id (r)',
        sample_fn=lambda c: {'route': c['route'], 'tag': c['meta']['tag'], 'texts': len(c['meta']['items']),
                             'windows': len(c['meta']['windows']), 'flags': c['meta']['flags']})
    # 3. finding stream K5: two byte-identical lookups
    knames = [n for n, e in sorted(EXPECT.items()) if any(k == 'second' for _, k in e) and n in PL.IDS]
    kcases = [k5_case(rng, n) for n in knames]
    core.run_section(
        rep, 'identical-lookups', kcases, line_fn=line, impl_fn=impl_fn, oracle_fn=k5_oracle, skip_fn=PL.unmodelled,
        nontrivial_fn=lambda c, got: True, kind_fn=lambda c, got: c['meta']['name'],
        rule='finding stream (K5): every decoder with a second-phase lookup (%s) on a window whose two lookups are '
             'byte-identical records (same path, vnode and timestamps)' % ', '.join(knames))
    # 4. the whole-parser model on random scenarios (keeps Model/Trace tied)
    PL.section_pipeline(rep, rng, tier, n=150 if tier == 'quick' else 4000)
    rep.notes.append('reference table: %d decoders with path parameters + %s (result path)' % (len(EXPECT), sorted(TAIL_PATH)))


ORACLES = {'reassembly': reassembly_oracle, 'syscall-paths': syscall_oracle, 'identical-lookups': k5_oracle,
           'histories': history_oracle, 'vnodes-ir': vn_oracle}


def replay(path):
    with open(path) as fd:
        r = json.load(fd)
    rp = r.get('replay') or {}
    if 'case' not in rp:
        print('nothing to replay (no failing input was recorded):', r.get('no_longer_checks'))
        return 1
    case, sec = rp['case'], rp.get('section', 'reassembly')
    if sec == 'vnodes-ir':
        try:
            got = vn_impl(case)
        except Exception as e:
            got = 'err ' + core.err_name(e)
        model = core.drive([vn_line(case)])[0]
        print('meta :', json.dumps(case.get('meta'), ensure_ascii=False)[:600])
        print('impl :', got[:3000])
        print('IR   :', model[:3000])
        res = vn_oracle(case, got)
        if res:
            print('oracle:', res[0], '-', res[1][:1500])
            print(f'VIOLATION property=C08 replay={path}')
            return 1
        print('oracle: property holds on this input')
        return 0 if got == model or model == 'unsupported' or 'Unmodelled' in model else 1
    try:
        got = impl_fn(case)
    except Exception as e:
        got = 'err ' + core.err_name(e)
    model = core.drive([line(case)])[0]
    print('meta :', json.dumps(case.get('meta'), ensure_ascii=False)[:600])
    for nm, a in (('impl ', got), ('model', model)):
        print(nm + ':')
        try:
            traces, err, tabs = PL.parse_answer(a)
            for t in traces:
                print('    %-28s %s %r' % (t['name'], t['ts'], t['text'] if t['text'] is not None else t['raw']))
            print('    err=%s' % err)
        except Exception:
            print('   ', a[:500])
    oracle = ORACLES.get(sec)
    res = oracle(case, got) if oracle else None
    if res:
        print('oracle:', res[0], '-', res[1])
        if core.Findings().known('C08', res[0]):
            print('KNOWN-FINDING: property=C08', res[0])
            return 0
        print(f'VIOLATION property=C08 replay={path}')
        return 1
    print('oracle: property holds on this input')
    return 0 if got == model else 1
