"""C18 — output is a function of the dump, not of the host operating system."""
import errno
import signal
import socket

from .. import core
from .. import decoders as D

MODULE = 'KdVerif.Props.C18'
NAMESPACE = 'KdVerif.C18'
TRUSTED = ['Spec/DarwinHost.lean: Darwin errno / signal / socket tables written by hand from the XNU headers',
           'Gen/Host.lean: reflection of the running interpreter\'s tables', 'IR translator + IR.eval']
ASSUMPTIONS = ['another platform is modelled by a FRESH interpreter whose errno.errorcode / signal.Signals / socket.AddressFamily / '
               'SocketKind / SOL_SOCKET are replaced by Darwin\'s before the package is imported (tools/kdv/hostproc.py), so tables '
               'captured at import time are seen too']
LEVEL_TEXT = ('Host tables are a parameter of the Lean rendering function; theorems: exactly six decoders read host enum tables, '
              'errno is read only in BSD result parts, every other decoder renders identically on any two hosts '
              '(host_free_independent, non_bsd_decoders_host_independent), and host-reading decoders depend on the host only '
              'through the tables (errno_only_decoders, host_dependence_only_through_tables). The known finding K2 (names come '
              'from the running interpreter) is demonstrated on the real code wherever the host tables differ from Darwin\'s.')
LEVEL_NOTE = ('Trusted: Lean kernel, Darwin reference tables, reflection, AST translator (validated differentially). The property '
              'is violated by design of the current code (K2, recorded as known finding); what is proved is the exact extent.')
TECHNIQUE = 'Lean 4 proof: host as parameter, reflective footprint classification + congruence lemma; table-swap differential run'

from ..darwin_tables import DARWIN_ERRNO, DARWIN_SIGNALS, DARWIN_AF, DARWIN_SK, DARWIN_SOL  # noqa: E402
# which START word a known reader looks up in which table (the call site of the known findings K2b–K2e)
READER_POS = {'addressFamily': 0, 'socketKind': 1, 'signals': 0, 'solSocket': 1}
ENUM_READERS = {'BSC_socket': ['addressFamily', 'socketKind'], 'BSC_socketpair': ['addressFamily', 'socketKind'],
                'BSC_socket_delegate': ['addressFamily', 'socketKind'], 'BSC_sigaction': ['signals'],
                'BSC_setsockopt': ['solSocket'], 'BSC_getsockopt': ['solSocket']}


def host_tables():
    return {'errno': dict(errno.errorcode),
            'signals': {m.value: signal.Signals(m.value).name for m in signal.Signals},
            'addressFamily': {m.value: socket.AddressFamily(m.value).name for m in socket.AddressFamily},
            'socketKind': {m.value: socket.SocketKind(m.value).name for m in socket.SocketKind},
            'solSocket': socket.SOL_SOCKET}



def run(c):
    try:
        if c.get('unprinted'):
            D.trace_of(c)
            return 'decoded'
        return D.text_of(D.impl_fn(c))
    except Exception as e:
        return 'raise ' + core.err_name(e)


def host_texts(cases):
    return [run(c) for c in cases]


def darwin_texts(cases):
    """The same windows rendered by the package imported in a fresh interpreter that has Darwin's tables."""
    from .. import neighbours
    return neighbours.texts(cases, 'darwin')


def demo_case(name, start=None, end=None):
    return {'name': name, 'start': start or [3, 4, 5, 6], 'end': end or [0, 0, 0, 0], 'tid': 9, 'lookups': [], 'gs': {},
            'tp': {}, 'tn': {}}


NEGATIVES = [(1 << 64) - 1, (1 << 64) - 2, (1 << 64) - 9, (1 << 32) - 1, (1 << 32) - 2, 1 << 31, 1 << 63, (1 << 31) - 1]


def ambient_answer(case):
    """One case of the ambient section (tools/kdv/ambient.py): the text a decoder renders for a window."""
    return run(case)


def ambient_section(rep, rng, tier):
    from .. import ambient
    names = D.all_handler_names()
    pick = names if tier != 'quick' else rng.sample(names, 120)
    cases = []
    for i, n in enumerate(pick):
        c = D.make_case(rng, n)
        if i % 4 == 3:
            c['end'] = [rng.choice(NEGATIVES)] + list(c['end'][1:])
        cases.append(c)
    ambient.section(rep, rng, tier, 'C18', 'kdv.props.C18:ambient_answer', cases)


# tables a known reader consults while DECODING (in the handler): a record that is never printed can differ between hosts only
# through these; SOL_SOCKET (K2e) and the errno names (K2a) are consulted when the text is built
READ_WHILE_DECODING = ('addressFamily', 'socketKind', 'signals')


def unprinted_section(rep, rng, tier):
    """A record that a request DECODES but never prints — a process filter hides its thread, or the request is for callstacks —
    cannot make the request end differently on another host, unless a known reader consults its table while decoding (the
    socket family / kind lookups of K2c / K2d happen in the handler).  Every known reader and candidate decoder on windows with
    small numbers, both SOL_SOCKET values and unnamed option numbers in every START position: decoded without str() on this
    host and with Darwin's tables; `decoded` / the same exception on both."""
    sec = rep.section('unprinted-records')
    names = sorted(set(ENUM_READERS) | set(candidates() if rep.broken or tier != 'quick' else ()))
    grid = sorted(set(range(0, 48)) | {0xffff, 0x1131, 0x80, 0x100, 0x1001, 0x1002, 0x4000, (1 << 32) - 1})
    sec['rule'] = ('%d decoders (known host readers%s) x 4 START positions x %d numbers (0..47, both SOL_SOCKET values, unnamed '
                   'option numbers), the handler run WITHOUT str() on this host and in a fresh interpreter with Darwin tables: same '
                   'outcome, unless a known reader that consults its table while decoding (%s) meets a differing code at its own '
                   'position' % (len(names), ' and candidates' if len(names) > len(ENUM_READERS) else '', len(grid),
                                 ', '.join(READ_WHILE_DECODING)))
    ht = host_tables()
    cases = []
    for n in names:
        if n not in D.all_handler_names():
            continue
        base = dict(D.make_case(rng, n), end=[0, 3, 0, 0], unprinted=True)
        for pos in range(4):
            for v in grid:
                c = dict(base, start=list(base['start']))
                c['start'][pos] = v
                if pos != 0:
                    c['start'][0] = 2        # a family / signal every host names alike
                if pos != 1 and n in ('BSC_socket', 'BSC_socketpair', 'BSC_socket_delegate'):
                    c['start'][1] = 1
                cases.append(c)
    A = host_texts(cases)
    B = darwin_texts(cases)
    for c, a, b in zip(cases, A, B):
        sec['cases'] += 1
        if a == b:
            sec['distinct_nontrivial'] += 1 if a == 'decoded' else 0
            continue
        n = c['name']
        known = explained_by_known_reader(n, c, ht)
        if known in READ_WHILE_DECODING:
            rep.add_failure('host:' + known, 'decoder %s (never printed): %r on this host, %r with Darwin tables' % (n, a, b),
                            {'section': 'unprinted-records', 'case': c, 'table': known})
        else:
            rep.add_failure('host:new-dependence:' + n,
                            'decoder %s on START words %s, decoded but never printed: %r on this host, %r with Darwin tables — a '
                            'request that hides this record ends differently on the two hosts' % (n, c['start'], a, b),
                            {'section': 'unprinted-records', 'case': c})


def correspondence(rep, rng, tier):
    D.section_decoders(rep, rng, tier, per=2 if tier == 'quick' else 30, name='decoders', syntax=2 if tier == 'quick' else 40)
    ht = host_tables()
    ref = {'errno': DARWIN_ERRNO, 'signals': DARWIN_SIGNALS, 'addressFamily': DARWIN_AF, 'socketKind': DARWIN_SK}
    sec = rep.section('host-vs-darwin')
    sec['rule'] = ('failing-input search on the real code: every code at which the running interpreter\'s table differs from '
                   'Darwin\'s, rendered by a decoder that consults that table, on this host and in a fresh interpreter with '
                   'Darwin\'s tables; then every decoder on random windows under both (any difference outside the known readers '
                   'is a new host dependence)')
    diffs = {}
    for tname, table in ref.items():
        codes = sorted(set(table) | set(ht[tname]))
        d = [k for k in codes if table.get(k) != ht[tname].get(k) and k in table]
        diffs[tname] = d
    diffs['solSocket'] = [] if ht['solSocket'] == DARWIN_SOL else [DARWIN_SOL]
    sec['dist'] = {k: len(v) for k, v in diffs.items()}
    demos = {
        'errno': lambda code: demo_case('BSC_read', end=[code, 0, 0, 0]),
        'signals': lambda code: demo_case('BSC_sigaction', start=[code, 4, 5, 6]),
        'addressFamily': lambda code: demo_case('BSC_socket', start=[code, 1, 0, 0]),
        'socketKind': lambda code: demo_case('BSC_socket', start=[2, code, 0, 0]),
        'solSocket': lambda code: demo_case('BSC_setsockopt', start=[3, code, 4, 8]),
    }
    items = [(tname, code, demos[tname](code)) for tname, codes in diffs.items() for code in codes[:200]]
    A = host_texts([c for _, _, c in items])
    B = darwin_texts([c for _, _, c in items])
    for (tname, code, c), a, b in zip(items, A, B):
        sec['cases'] += 1
        if a != b:
            sec['distinct_nontrivial'] += 1
            rep.add_failure('host:' + tname, 'code %d: on this host %r, with Darwin tables %r' % (code, a, b),
                            {'section': 'host-vs-darwin', 'case': c, 'table': tname, 'code': code})
    darwin_names(rep)
    scramble_search(rep, rng, tier)
    unprinted_section(rep, rng, tier)
    ambient_section(rep, rng, tier)      # the host is also the process environment: terminal, locale, time zone, hash seed
    if rep.broken or tier == 'thorough':       # the theorems rule a new dependence out; search only when they no longer check
        targeted_search(rep, diffs, tier, ht)
        if rep.broken and not any(f['signature'].startswith('host:new-dependence') for f in rep.failures):
            pairwise_search(rep, diffs, ht)
    # "the text depends only on the dump and the options": not on what the interpreter rendered before, under this host's
    # tables and under Darwin's (tools/kdv/neighbours.py; oracle: same text as first thing in a fresh interpreter)
    from .. import neighbours
    neighbours.history_section(rep, rng, tier, 'decoders-history', select='all', hosts=('host', 'darwin'))
    # every decoder on random windows under both hosts: differences only where a known reader meets a differing code
    from pykdebugparser.trace_handlers.bsd import handlers as bsd_handlers
    per = 3 if tier == 'quick' else 40
    sec2 = rep.section('table-swap')
    sec2['rule'] = ('every decoder x %d random windows (one in four with a negative / boundary error word) on this host and in a '
                    'fresh interpreter with Darwin tables' % per)
    cases = []
    for n in D.all_handler_names():
        for k in range(per):
            c = D.make_case(rng, n)
            if k % 4 == 3:
                c['end'] = [rng.choice(NEGATIVES)] + list(c['end'][1:])
            cases.append(c)
    # a kind / family / signal number with ONE flag bit on top (socket types carry SOCK_NONBLOCK / SOCK_CLOEXEC on some hosts):
    # the known readers and the candidate decoders on every (position, small number, bit 8..31)
    flagged = sorted(set(ENUM_READERS) | set(candidates() if rep.broken or tier != 'quick' else ()))
    for n in flagged:
        if n not in D.all_handler_names():
            continue
        base = D.make_case(rng, n)
        from .C09 import find_base
        good = find_base(n, base['lookups'], base['end'])       # START words this host decodes (a valid family, kind, signal …)
        if good is not None:
            # … and on which the two hosts AGREE (so that a difference under a flag bit is not explained by the base)
            cands = [list(good)] + [[a, b_] + list(good[2:]) for a in (2, 1, 3) for b_ in (1, 2, 3)] + \
                    [[a] + list(good[1:]) for a in (1, 2, 3, 14, 15)]
            cc = [dict(base, start=c_) for c_ in cands]
            ha, da = host_texts(cc), darwin_texts(cc)
            agree = [c_ for c_, x, y in zip(cands, ha, da) if x == y and not x.startswith('raise')]
            base = dict(base, start=list(agree[0] if agree else good))
        base = dict(base, end=[0, 3, 0, 0])          # a plain success: no errno name in the text
        for pos in range(4):
            for small in (1, 2, 3, 5):
                for b in range(8, 32):
                    c = dict(base, start=list(base['start']))
                    c['start'][pos] = small | (1 << b)
                    cases.append(c)
    A = host_texts(cases)
    B = darwin_texts(cases)
    for c, a, b in zip(cases, A, B):
        n = c['name']
        sec2['cases'] += 1
        if a == b:
            continue
        sec2['distinct_nontrivial'] += 1
        reason = None
        if n in bsd_handlers and ht['errno'].get(c['end'][0]) != DARWIN_ERRNO.get(c['end'][0]):
            # the errno table explains a difference in the RESULT part only: same call name and parameters on both hosts
            sa, sb = D.split_call(a), D.split_call(b)
            if sa is not None and sb is not None and sa[:2] == sb[:2]:
                reason = 'errno'
        reason = reason or explained_by_known_reader(n, c, ht)
        if reason is None:
            rep.add_failure('host:new-dependence:' + n, 'decoder %s renders %r on this host and %r with Darwin tables'
                            % (n, a, b), {'section': 'table-swap', 'case': c})
        else:
            rep.add_failure('host:' + reason, 'decoder %s: %r on this host, %r with Darwin tables' % (n, a, b),
                            {'section': 'table-swap', 'case': c, 'table': reason})


def darwin_names(rep):
    """With Darwin's tables in place the names shown ARE Darwin's: every code of the reference tables, rendered by a decoder
    that consults the table in a fresh interpreter with Darwin's tables, shows exactly the reference name (an alias table, a
    fallback or a "fix-up" keyed on another platform's numbering shows here; the host comparison cannot see it when this
    host gives both numbers one name)."""
    sec = rep.section('darwin-names')
    sec['rule'] = ('every code of the Darwin reference tables (errno, signals, address families, socket kinds) in a decoder that '
                   'consults the table (read / pipe results, sigaction, socket), rendered in a fresh interpreter with Darwin\'s '
                   'tables: the text must show the reference name of that code')
    items = []
    for code, nm in sorted(DARWIN_ERRNO.items()):
        items.append(('errno', code, 'errno: %s(%d)' % (nm, code), demo_case('BSC_read', end=[code, 0, 0, 0])))
        items.append(('errno', code, 'errno: %s(%d)' % (nm, code), demo_case('BSC_pipe', end=[code, 3, 4, 0])))
    for code, nm in sorted(DARWIN_SIGNALS.items()):
        items.append(('signals', code, nm, demo_case('BSC_sigaction', start=[code, 4, 5, 6])))
    for code, nm in sorted(DARWIN_AF.items()):
        items.append(('addressFamily', code, nm, demo_case('BSC_socket', start=[code, 1, 0, 0])))
    for code, nm in sorted(DARWIN_SK.items()):
        items.append(('socketKind', code, nm, demo_case('BSC_socket', start=[2, code, 0, 0])))
    B = darwin_texts([it[3] for it in items])
    seen = set()
    for (tname, code, want, c), b in zip(items, B):
        sec['cases'] += 1
        if want in b:
            sec['distinct_nontrivial'] += 1
        elif (tname, c['name']) not in seen:
            seen.add((tname, c['name']))
            rep.add_failure('host:darwin-name-not-shown:' + tname,
                            'with Darwin\'s tables installed, %s on code %d renders %r, which does not show Darwin\'s name %r'
                            % (c['name'], code, b, want), {'section': 'darwin-names', 'case': c, 'want': want})


def scramble_search(rep, rng, tier):
    """A host dependence NOBODY listed: every registered decoder on windows that put every small number (protocol numbers,
    option levels, flag words, descriptors: 0..300 in the first tier that escalates, fewer otherwise) into every START / END
    position, rendered on this host and in a fresh interpreter that is another host in every respect EXCEPT the five known
    tables (`hostproc scrambled`: the platform modules' integer constants rotated within their name prefix, the message
    functions and platform names changed).  Any difference is a read of the host outside the known readers."""
    from .. import neighbours
    sec = rep.section('host-scramble')
    grid = list(range(0, 8)) + [17, 41, 255, 0xffff] if tier == 'quick' and not rep.broken else \
        list(range(0, 301)) + [0xffff, 0x10000, (1 << 32) - 1]
    names = D.all_handler_names()
    if len(grid) > 100:
        # the full grid only for decoders that render differently somewhere on the thin grid first would miss a sparse table:
        # keep the full grid for all BSC_/MSC_ decoders (the ones that take numeric arguments from user space)
        names_full = [n for n in names if n.startswith(('BSC_', 'MSC_'))]
    else:
        names_full = names
    sec['rule'] = ('%d decoders x 8 START/END positions x %d small numbers, this host vs. `hostproc scrambled` (all platform '
                   'constants rotated except errno.errorcode / Signals / AddressFamily / SocketKind / SOL_SOCKET)'
                   % (len(names_full), len(grid)))
    items = []
    for n in names_full:
        base = D.make_case(rng, n)
        for pos in range(8):
            for v in grid:
                c = dict(base, start=list(base['start']), end=list(base['end']))
                if pos < 4:
                    c['start'][pos] = v
                else:
                    c['end'][pos - 4] = v
                items.append((n, pos, v, c))
    new_for = set()
    step = 40000
    for i in range(0, len(items), step):
        part = items[i:i + step]
        A = host_texts([it[3] for it in part])
        B = neighbours.texts([it[3] for it in part], 'scrambled')
        for (n, pos, v, c), a, b in zip(part, A, B):
            sec['cases'] += 1
            if a == b:
                continue
            sec['distinct_nontrivial'] += 1
            if n not in new_for:
                new_for.add(n)
                rep.add_failure('host:new-dependence:' + n,
                                'decoder %s, %s word %d = %d: %r on this host, %r on a host whose platform constants differ '
                                '(the five known tables unchanged)' % (n, 'START' if pos < 4 else 'END', pos % 4, v, a, b),
                                {'section': 'host-scramble', 'case': c})


def candidates():
    """Decoders that may hide a new host dependence: untranslated ones (outside the hand-modelled set), and every
    decoder whose generated IR mentions a host enum table or SOL_SOCKET."""
    import os
    import re
    st = D.stats()
    hand = {'DBG_DYLD_TIMING_LAUNCH_EXECUTABLE', 'MACH_vmfault', 'PERF_Event', 'PERF_THD_Data', 'TRACE_DATA_EXEC',
            'TRACE_DATA_NEWTHREAD', 'TRACE_DATA_THREAD_TERMINATE', 'TRACE_DATA_THREAD_TERMINATE_PID', 'TRACE_STRING_EXEC',
            'TRACE_STRING_GLOBAL', 'TRACE_STRING_NEWTHREAD', 'TRACE_STRING_PROC_EXIT', 'TRACE_STRING_THREADNAME',
            'TRACE_STRING_THREADNAME_PREV', 'VFS_LOOKUP'}
    out = {n for n in st['unsupported'] if n not in hand} | set(ENUM_READERS)
    with open(os.path.join(core.LEAN, 'KdVerif', 'Gen', 'Decoders.lean')) as fd:
        text = fd.read()
    for m in re.finditer(r'\{ key := \d+, name := "([^"]+)"(.*?)\n  \{ key', text, flags=re.S):
        if '.hostEnum' in m.group(2) or '.hostSolSocket' in m.group(2):
            out.add(m.group(1))
    return sorted(out)



def targeted_search(rep, diffs, tier, ht):
    """For every candidate decoder put every small code (0..130), 0xffff, negative / boundary words and every code at
    which a host table differs from Darwin's into every START / END position and compare the rendering on this host with
    the rendering in a fresh interpreter with Darwin's tables.  A difference at a code on which the consulted tables
    AGREE, or in a decoder outside the known readers, is a NEW host dependence."""
    from pykdebugparser.trace_handlers.bsd import handlers as bsd_handlers
    sec = rep.section('new-dependence-search')
    ref = {'errno': DARWIN_ERRNO, 'signals': DARWIN_SIGNALS, 'addressFamily': DARWIN_AF, 'socketKind': DARWIN_SK}
    cands = candidates()
    codes = sorted(set(range(0, 131)) | {0xffff} | set(NEGATIVES) | {c for t in ref for c in diffs[t]})
    if len(cands) > 60:                                # many decoders left the translatable subset: thinner code grid
        codes = sorted(set(range(0, 12)) | {35, 0xffff} | set(NEGATIVES) | {c for t in ref for c in diffs[t][:12]})
    sec['rule'] = ('%d codes (0..130, 0xffff, negative and boundary words, all differing codes; thinned when more than 60 '
                   'candidates) x every START/END position x %d candidate decoders' % (len(codes), len(cands)))
    items = []
    for n in cands:
        for code in codes:
            for pos in range(8):
                c = demo_case(n, start=[2, 1, 0, 6], end=[0, 1, 2, 3])
                if pos < 4:
                    c['start'][pos] = code
                else:
                    c['end'][pos - 4] = code
                items.append((n, code, pos, c))
    A = host_texts([it[3] for it in items])
    B = darwin_texts([it[3] for it in items])
    new_for = set()
    for (n, code, pos, c), a, b in zip(items, A, B):
        sec['cases'] += 1
        if a == b or n in new_for:
            continue
        sec['distinct_nontrivial'] += 1
        known_tables = ENUM_READERS.get(n, [])
        explained = None                               # a known reader meeting a code its table names differently?
        if n in bsd_handlers and pos == 4 and ht['errno'].get(code) != DARWIN_ERRNO.get(code):
            explained = 'errno'
        explained = explained or explained_by_known_reader(n, c, ht)
        if explained:
            rep.add_failure('host:' + explained, 'decoder %s: %r on this host, %r with Darwin tables' % (n, a, b),
                            {'section': 'new-dependence-search', 'case': c, 'table': explained})
        else:
            new_for.add(n)
            rep.add_failure('host:new-dependence:' + n,
                            'decoder %s renders %r on this host and %r with Darwin tables although the tables agree '
                            'on every word of the window' % (n, a, b),
                            {'section': 'new-dependence-search', 'case': c})


def explained_by_known_reader(n, c, ht):
    """A known host reader (K2b–K2e) meeting, AT ITS OWN ARGUMENT POSITION, a word its table names differently on this host:
    not a new dependence.  A difference while that word is named alike by both hosts is not explained by the known reader."""
    ref = {'signals': DARWIN_SIGNALS, 'addressFamily': DARWIN_AF, 'socketKind': DARWIN_SK}
    for t in ENUM_READERS.get(n, []):
        w = c['start'][READER_POS[t]]
        if t == 'solSocket':
            if ht['solSocket'] != DARWIN_SOL and w in (ht['solSocket'], DARWIN_SOL):
                return t
        elif ht[t].get(w) != ref[t].get(w):
            return t
    return None


def pairwise_search(rep, diffs, ht):
    """Two cooperating words: for the UNTRANSLATED decoders (the translator met a construct outside its subset, so the
    theorems say nothing about them) sweep a single flag bit in every START word against every differing errno /
    signal code, plain and negated, in the END error and return words."""
    from pykdebugparser.trace_handlers.bsd import handlers as bsd_handlers
    st = D.stats()
    hand = sorted(set(candidates()) & set(st['unsupported']))
    sec = rep.section('new-dependence-pairs')
    ref = {'errno': DARWIN_ERRNO, 'signals': DARWIN_SIGNALS}
    codes = sorted({c for t in ref for c in diffs[t]})[:80]
    bits = list(range(32))
    if len(hand) > 12:                                 # keep the sweep within minutes when many decoders are untranslated
        codes, bits = codes[:10], [0, 3, 24, 31]
    sec['rule'] = ('%d untranslated decoders x (START position x single bit from %d) x (END word 0/1 x +-code for %d differing '
                   'codes)' % (len(hand), len(bits), len(codes)))
    ends = [c for c in codes] + [(1 << 64) - c for c in codes] + [(1 << 32) - c for c in codes]
    for n in hand:
        items = []
        for pos in range(4):
            for bit in bits:
                for epos in (1, 0):
                    for ev in ends:
                        c = demo_case(n, start=[2, 1, 0, 6], end=[0, 1, 2, 3])
                        c['start'][pos] |= 1 << bit
                        c['end'][epos] = ev
                        items.append((epos, ev, c))
        A = host_texts([it[2] for it in items])
        B = darwin_texts([it[2] for it in items])
        for (epos, ev, c), a, b in zip(items, A, B):
            sec['cases'] += 1
            if a == b:
                continue
            if n in bsd_handlers and epos == 0 and ht['errno'].get(ev) != DARWIN_ERRNO.get(ev):
                continue                               # the error word of a result part: K2a
            known = explained_by_known_reader(n, c, ht)
            if known:                                  # e.g. getsockopt whose level word equals the host's SOL_SOCKET: K2e
                rep.add_failure('host:' + known, 'decoder %s: %r on this host, %r with Darwin tables' % (n, a, b),
                                {'section': 'new-dependence-pairs', 'case': c, 'table': known})
                continue
            sec['distinct_nontrivial'] += 1
            rep.add_failure('host:new-dependence:' + n,
                            'decoder %s renders %r on this host and %r with Darwin tables' % (n, a, b),
                            {'section': 'new-dependence-pairs', 'case': c})
            break


def replay(path):
    import json
    with open(path) as fd:
        r = json.load(fd)
    if 'replay' not in r or 'case' not in r['replay']:
        print(json.dumps(r, indent=1)[:4000])
        return 1
    if r['replay'].get('section', '').startswith('decoders-history'):
        from .. import neighbours
        bad, lines = neighbours.replay(r['replay'])
        print('\n'.join(lines))
        if bad:
            print(f'VIOLATION property=C18 replay={path}')
        return 1 if bad else 0
    if r['replay'].get('section') == 'ambient':
        from .. import ambient
        bad, lines = ambient.replay(r['replay'])
        print('\n'.join(lines))
        if bad:
            print(f'VIOLATION property=C18 replay={path}')
        return 1 if bad else 0
    if r['replay'].get('section') == 'unprinted-records':
        c = r['replay']['case']
        a, b = run(c), darwin_texts([c])[0]
        print('decoded, never printed, on this host   :', a)
        print('decoded, never printed, Darwin\'s tables:', b)
        if a != b and explained_by_known_reader(c['name'], c, host_tables()) not in READ_WHILE_DECODING:
            print(f'VIOLATION property=C18 replay={path}')
            return 1
        return 0
    c = r['replay']['case']
    if r['replay'].get('section') == 'darwin-names':
        b = darwin_texts([c])[0]
        print('with Darwin tables:', b, '   expected to show:', r['replay']['want'])
        if r['replay']['want'] not in b:
            print(f'VIOLATION property=C18 replay={path}')
            return 1
        return 0
    if r['replay'].get('section') == 'host-scramble':
        from .. import neighbours
        a, b = run(c), neighbours.texts([c], 'scrambled')[0]
        print('this host                                   :', a)
        print('host with other platform constants (scrambled):', b)
        if a != b:
            print(f'VIOLATION property=C18 replay={path}')
            return 1
        return 0
    a = run(c)
    b = darwin_texts([c])[0]
    print('host  :', a)
    print('darwin:', b)
    if a != b:
        print(f'VIOLATION property=C18 replay={path}')
        return 1
    return 0
