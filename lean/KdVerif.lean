-- Root of the `KdVerif` library: every property module (which pull in models, generated tables and proofs).
import KdVerif.Props.C01
import KdVerif.Props.C15
