import KdVerif.Proofs.TraceProjection
/-
  C05 / C13: whether a handler call raises does not depend on the tables other threads write (for decoder tables whose
  constructor arguments are `errFree`), hence a merged run that raises no exception implies that the run of one thread's
  own subsequence raises none.  Core Lean only.
-/
namespace KdVerif.Trace
open KdVerif.IR

def okB {α : Type} (x : Except PyErr α) : Bool :=
  match x with
  | .ok _ => true
  | .error _ => false

theorem okB_map {α β : Type} (x : Except PyErr α) (f : α → β) : okB (x.map f) = okB x := by
  cases x <;> rfl

theorem okB_of_eq {α : Type} {x y : Except PyErr α} (h : x = y) : okB x = okB y := by rw [h]

/-- An `errFree` expression raises in one context iff it raises in any context that agrees on everything but the
    three cross-thread tables. -/
theorem eval_errFree (c c' : Ctx) (h : Agree ownSel c c') (e : Expr) (he : errFree e = true) :
    okB (eval c e) = okB (eval c' e) := by
  induction e with
  | globalStrGet x d _ _ =>
    simp only [errFree, Bool.and_eq_true] at he
    simp only [eval, eval_congr ownSel c c' h x he.1, eval_congr ownSel c c' h d he.2]
    cases eval c' x with
    | error e => rfl
    | ok v =>
      simp only [bind, Except.bind]
      cases asNat v with
      | error e => rfl
      | ok i =>
        simp only
        cases eval c' d with
        | error e => rfl
        | ok dv =>
          simp only
          split
          · rfl
          · cases c.win.globalStrings i.toNat <;> cases c'.win.globalStrings i.toNat <;> rfl
  | tidsNamesGet x d _ _ =>
    simp only [errFree, Bool.and_eq_true] at he
    simp only [eval, eval_congr ownSel c c' h x he.1, eval_congr ownSel c c' h d he.2]
    cases eval c' x with
    | error e => rfl
    | ok v =>
      simp only [bind, Except.bind]
      cases asNat v with
      | error e => rfl
      | ok i =>
        simp only
        cases eval c' d with
        | error e => rfl
        | ok dv =>
          simp only
          split
          · rfl
          · cases c.win.tidsNames i.toNat <;> cases c'.win.tidsNames i.toNat <;> rfl
  | threadsPidsGet x _ =>
    simp only [errFree] at he
    simp only [eval, eval_congr ownSel c c' h x he]
    cases eval c' x with
    | error e => rfl
    | ok v =>
      simp only [bind, Except.bind]
      cases asNat v with
      | error e => rfl
      | ok i =>
        simp only
        split
        · rfl
        · cases c.win.threadsPids i.toNat <;> cases c'.win.threadsPids i.toNat <;> rfl
  | ite cnd a b _ iha ihb =>
    simp only [errFree, Bool.and_eq_true] at he
    simp only [eval, eval_congr ownSel c c' h cnd he.1.1]
    cases eval c' cnd with
    | error e => rfl
    | ok v =>
      simp only [bind, Except.bind]
      by_cases hv : truthy v = true
      · simp only [hv, if_true]; exact iha he.1.2
      · simp only [hv, if_false, Bool.false_eq_true]; exact ihb he.2
  | _ =>
    simp only [errFree] at he
    exact okB_of_eq (eval_congr ownSel c c' h _ he)

theorem evalFields_errFree (c c' : Ctx) (h : Agree ownSel c c') (fs : List Expr) (he : fs.all errFree = true) :
    okB (evalFields c fs) = okB (evalFields c' fs) := by
  induction fs with
  | nil => rfl
  | cons f fs ih =>
    simp only [List.all_cons, Bool.and_eq_true] at he
    have h1 := eval_errFree c c' h f he.1
    have h2 := ih he.2
    simp only [evalFields, bind, Except.bind]
    cases hf : eval c f <;> cases hf' : eval c' f <;> simp only [hf, hf', okB] at h1 ⊢ <;> try (cases h1)
    cases hr : evalFields c fs <;> cases hr' : evalFields c' fs <;> simp only [hr, hr', okB] at h2 ⊢ <;> try (cases h2)
    all_goals rfl

/-- The handler call of a generated decoder with `errFree` constructor arguments raises independently of the tables. -/
theorem runGeneratedObj_okB (env : Env) (a b : Tabs) (d : Decoder) (w : List Kevent) (h : d.fields.all errFree = true) :
    okB (runGeneratedObj env a d w) = okB (runGeneratedObj env b d w) := by
  unfold runGeneratedObj
  rw [mkWindow_eq, mkWindow_eq]
  cases (if usesLookups d = true then parseVnodes env w else .ok []) with
  | error e => rfl
  | ok vnodes =>
    simp only [Except.map, bind, Except.bind]
    have := evalFields_errFree _ _ (agree_winOf env a b w vnodes []) d.fields h
    cases hf : evalFields { host := env.host, tables := env.tables, win := winOf env a w vnodes } d.fields <;>
      cases hf' : evalFields { host := env.host, tables := env.tables, win := winOf env b w vnodes } d.fields <;>
      simp only [hf, hf', okB] at this ⊢ <;> first | rfl | cases this


theorem okB_handleOut {nested : Nested} {env : Env} {t : Tabs} {name : String} {w : List Kevent} :
    okB (handleOutWith nested env t name w) = okB (handleWith nested env t name w) := okB_map _ _

/-- Whether a handler call raises does not depend on the tables (decoder table with `errFree` arguments, nested call
    benign). -/
theorem handleWith_okB (nested : Nested) (env : Env) (hdec : ErrFreeDecoders env) (a b : Tabs) (name : String)
    (w : List Kevent) (hnw : NW nested (realEvents w)) (hni : NI nested (realEvents w)) :
    okB (handleWith nested env a name w) = okB (handleWith nested env b name w) := by
  rw [← okB_handleOut, ← okB_handleOut]
  cases hex : excluded env name with
  | false => rw [handleOutWith_indep nested env a b name w hnw hni hex]
  | true =>
    by_cases hh : handNames.contains name = true
    · have : name = "TRACE_DATA_THREAD_TERMINATE" := by
        simp only [excluded, Bool.or_eq_true, beq_iff_eq, Bool.and_eq_true, Bool.not_eq_true'] at hex
        rcases hex with h | h
        · exact h
        · rw [hh] at h; cases h.1
      subst this
      simp only [handleOutWith, handleWith, hDataThreadTerminate, Except.map, okB]
    · have hh' : handNames.contains name = false := by simpa using hh
      rw [handleOut_generated nested env a name w hh', handleOut_generated nested env b name w hh']
      cases hd : findDecoder env name with
      | none => rfl
      | some d =>
        have hmem : d ∈ env.decoders := List.mem_of_find?_eq_some hd
        simp only
        by_cases hs : (!d.supported) = true
        · simp only [hs, if_true]
        · simp only [hs, if_false, Bool.false_eq_true, okB_map]
          exact runGeneratedObj_okB env a b d w (hdec d hmem)

theorem handle_okB (env : Env) (hbn : BenignNested env) (hdec : ErrFreeDecoders env) (a b : Tabs) (name : String)
    (w : List Kevent) : okB (handle env a name w) = okB (handle env b name w) :=
  handleWith_okB _ env hdec a b name w (parseFuel_benign env hbn _ _ (realEvents_range w)).1
    (parseFuel_benign env hbn _ _ (realEvents_range w)).2

theorem parseEventList_okB (env : Env) (hbn : BenignNested env) (hdec : ErrFreeDecoders env) (a b : Tabs)
    (w : List Kevent) : okB (parseEventList env a w) = okB (parseEventList env b w) := by
  cases w with
  | nil => rfl
  | cons x xs =>
    rw [parseEventList_eq, parseEventList_eq]
    cases handlerOf env (x :: xs) with
    | none => rfl
    | some n => exact handle_okB env hbn hdec a b n (x :: xs)

theorem feed_okB (env : Env) (s : PState) (e : Kevent) :
    okB (feed env s e) =
      match (Pairing.step env.domOf s.pairing e).2 with
      | none => true
      | some w => okB (parseEventList env s.tabs w) := by
  unfold feed
  generalize Pairing.step env.domOf s.pairing e = ps
  rcases ps with ⟨p', o⟩
  cases o with
  | none => rfl
  | some w =>
    simp only [bind, Except.bind]
    cases parseEventList env s.tabs w <;> rfl

/-- From two states that agree on thread `t`, a `feed` of an event of thread `t` raises in both or in neither. -/
theorem feed_okB_own (env : Env) (hbn : BenignNested env) (hdec : ErrFreeDecoders env) (t : Nat) (s₁ s₂ : PState)
    (e : Kevent) (he : e.tid = t) (hs : Sim t s₁ s₂) : okB (feed env s₁ e) = okB (feed env s₂ e) := by
  rw [feed_okB, feed_okB, (Pairing.step_agree env.domOf t s₁.pairing s₂.pairing e he hs.pair).2]
  cases (Pairing.step env.domOf s₂.pairing e).2 with
  | none => rfl
  | some w => exact parseEventList_okB env hbn hdec _ _ w

/-- **noexc_own.**  If `feed_generator` over the merged history raises no exception, it raises none over thread `t`'s
    own subsequence (from any two states that agree on thread `t`). -/
theorem noexc_own (env : Env) (hbn : BenignNested env) (hdec : ErrFreeDecoders env) (t : Nat) (m : List Kevent)
    (s₁ s₂ : PState) (hs : Sim t s₁ s₂) (h₁ : (run env s₁ m).2.1 = none) :
    (run env s₂ (m.filter fun e => e.tid == t)).2.1 = none := by
  induction m generalizing s₁ s₂ with
  | nil => rfl
  | cons e es ih =>
    obtain ⟨r₁, s₁', hf₁, hrest₁⟩ := feed_ok_of_run env s₁ e es h₁
    by_cases he : e.tid = t
    · have hfil : (e :: es).filter (fun e => e.tid == t) = e :: es.filter (fun e => e.tid == t) := by simp [he]
      rw [hfil]
      have hok := feed_okB_own env hbn hdec t s₁ s₂ e he hs
      rw [hf₁] at hok
      cases hf₂ : feed env s₂ e with
      | error err => rw [hf₂] at hok; cases hok
      | ok p =>
        rcases p with ⟨r₂, s₂'⟩
        rw [run_cons_ok env s₂ s₂' e _ r₂ hf₂]
        exact ih s₁' s₂' (feed_own env hbn t s₁ s₂ s₁' s₂' e r₁ r₂ he hs hf₁ hf₂).1 hrest₁
    · have hfil : (e :: es).filter (fun e => e.tid == t) = es.filter (fun e => e.tid == t) := by simp [he]
      rw [hfil]
      obtain ⟨hinv', hframe, htabs, _⟩ := feed_other env hbn t s₁ s₁' e r₁ he hs.inv hf₁
      exact ih s₁' s₂ ⟨hinv', fun k hk => (hframe k hk).trans (hs.pair k hk),
        ⟨htabs.1.trans hs.tabs.1, htabs.2.trans hs.tabs.2⟩⟩ hrest₁

end KdVerif.Trace
