import KdVerif.Model.Callstacks
/-
  The Python subset of `CallstacksParser.__init__` / `insert_image` / `feed_generator`
  (`pykdebugparser/callstacks_parser.py`) and of `PyKdebugParser.callstacks` (`pykdebugparser/pykdebugparser.py`) as a
  deep embedding with a big-step interpreter — the companion of `Model/PyIR` for C15.  `tools/gen_pyir.py` translates the
  source text into terms of this IR (`Gen/PyIRCs.lean`); `Props/C15` proves that the translated code, run by this
  interpreter, is `Callstacks.insertImage` / `Callstacks.lookupAll` / `Callstacks.feedFrom`, and that a `callstacks()`
  request is the translated `feed_generator` run from EMPTY image lists.

  The heap is the pair of parallel lists (`Callstacks.Images`); `self.dyld_addresses` / `self.dyld_uuids`
  evaluate to PATHS (`addrsRef`/`uuidsRef`).  Integers are Python ints (`Int`); `l[i]` and `l.insert(i, x)` have
  Python's meaning for negative `i` as well.  `bisect` is a primitive whose meaning is the existing model function
  `Callstacks.bisect` (the lo/hi loop on an arbitrary list, tied to the C implementation by the section `bisect`).

  `feed_generator` is a generator: statements deliver the values they `yield` besides their outcome, and the values
  delivered before an exception stay delivered (`Res`).  `self.insert_image(a, u)` is answered by interpreting the
  translated `insert_image` (the interpreter is parametrised by the callee).  The traces the loop dispatches on are
  `Trace` values: a `PerfEvent` with its `ktraces` and its `cs_frames` (`None` or a list), a `DyldUuidMapA`, a
  `DyldLaunchExecutable` with its `uuid_map_a`, or any other trace; `isinstance` is decided by the constructor.
  Outside the modelled behaviour: `.error .unmodelled`.  Core Lean only.
-/
namespace KdVerif.PyIRCs
open KdVerif.Callstacks

/-- The classes `feed_generator` tests with `isinstance`. -/
inductive Cls
  | perfEvent | dyldUuidMapA | dyldLaunchExecutable
  deriving DecidableEq, Repr

inductive Expr
  | none
  | int (n : Int)
  | var (i : Nat)
  | addrs                               -- `self.dyld_addresses`
  | uuids                               -- `self.dyld_uuids`
  | csFrames (e : Expr)                 -- `e.cs_frames`
  | bisect (l x : Expr)                 -- `bisect(l, x)`
  | sub (a b : Expr)                    -- `a - b`
  | gt (a b : Expr)                     -- `a > b`
  | isIn (x l : Expr)                   -- `x in l`
  | index (l i : Expr)                  -- `l[i]`
  | mkFrame (a u o : Expr)              -- `Frame(a, u, o)`
  | isinstance (e : Expr) (c : Cls)     -- `isinstance(e, C)`
  | isNotNone (e : Expr)                -- `e is not None`
  | and (a b : Expr)                    -- `a and b` (left to right, `b` only when `a` is true)
  | loadAddr (e : Expr)                 -- `e.load_addr`
  | uuidOf (e : Expr)                   -- `e.uuid`
  | uuidMapA (e : Expr)                 -- `e.uuid_map_a`
  | ktraces (e : Expr)                  -- `e.ktraces`
  | timestamp (e : Expr)                -- `e.timestamp`
  | tid (e : Expr)                      -- `e.tid`
  | mkCallstack (ts tid frames : Expr)  -- `Callstack(ts, tid, frames)`
  | unsupported (src : String)
  deriving DecidableEq, Repr

/-- Continuation form, as in `Model/PyIR`. -/
inductive Stmt
  | done
  | ret (e : Expr)
  | ite (c : Expr) (t e : Stmt)
  | assign (v : Nat) (e : Expr) (next : Stmt)          -- `v = e`
  | assignNewList (v : Nat) (next : Stmt)              -- `v = []`
  | insert (l i x : Expr) (next : Stmt)                -- `l.insert(i, x)`
  | forIn (v : Nat) (it : Expr) (body next : Stmt)     -- `for v in it: body`
  | append (v : Nat) (x : Expr) (next : Stmt)          -- `v.append(x)`, `v` a local list
  | yield (e : Expr) (next : Stmt)                     -- `yield e`
  | callInsert (a u : Expr) (next : Stmt)              -- `self.insert_image(a, u)` (the value is dropped)
  | unsupported (src : String)
  deriving DecidableEq, Repr

structure Block where
  params : Nat
  body : Stmt
  deriving DecidableEq, Repr

/-- A `Frame(address, uuid, offset)` namedtuple. -/
structure FrameV where
  address : Int
  uuid : Option Uuid
  offset : Option Int
  deriving DecidableEq, Repr

/-- A `Callstack(timestamp, tid, frames)` namedtuple. -/
structure CallstackV where
  timestamp : Int
  tid : Int
  frames : List FrameV
  deriving DecidableEq, Repr

/-- What is read of an element of `trace.ktraces`. -/
structure KT where
  timestamp : Nat
  tid : Nat
  deriving DecidableEq, Repr

/-- A trace as `feed_generator` can tell it apart. -/
inductive Trace
  /-- a `PerfEvent`: its `ktraces`, its `cs_frames` (`none` = the attribute is `None`) -/
  | sample (ktraces : List KT) (cs : Option (List Nat))
  /-- a `DyldUuidMapA(load_addr, uuid)` -/
  | image (addr : Nat) (uuid : Uuid)
  /-- a `DyldLaunchExecutable` with its `uuid_map_a` (objects with `load_addr` and `uuid`) -/
  | launch (imgs : List (Nat × Uuid))
  /-- an instance of none of the three classes -/
  | other
  deriving DecidableEq, Repr

def Trace.isA : Trace → Cls → Bool
  | .sample _ _, .perfEvent => true
  | .image _ _, .dyldUuidMapA => true
  | .launch _, .dyldLaunchExecutable => true
  | _, _ => false

inductive Val
  | none
  | bool (b : Bool)
  | int (n : Int)
  | uuid (u : Uuid)
  | addrsRef | uuidsRef                 -- paths: the two lists of the parser
  | trace (t : Trace)
  | gen (l : List Trace) (err : Option PyErr)   -- a generator of traces: what it delivers, then the exception that ends it (if any)
  | img (a : Nat) (u : Uuid)            -- an element of `uuid_map_a`
  | imgs (l : List (Nat × Uuid))        -- `trace.uuid_map_a`
  | kt (k : KT)                         -- an element of `trace.ktraces`
  | kts (l : List KT)                   -- `trace.ktraces`
  | nats (l : List Nat)                 -- a list of ints that is only iterated (`trace.cs_frames`)
  | frame (f : FrameV)
  | frames (l : List FrameV)            -- a local list of frames
  | callstack (c : CallstackV)
  deriving DecidableEq, Repr

abbrev Env := Nat → Option Val
def Env.set (env : Env) (i : Nat) (v : Val) : Env := fun j => if j = i then some v else env j
def Env.ofArgs (args : List Val) : Env := fun j => args[j]?

/-- `l[i]` for a Python int `i`. -/
def pyIndex {α : Type} (l : List α) (i : Int) : Option α :=
  if 0 ≤ i then l[i.toNat]? else if 0 ≤ (l.length : Int) + i then l[((l.length : Int) + i).toNat]? else Option.none

/-- the position `l.insert(i, x)` inserts at, for a Python int `i` -/
def pyInsertPos (len : Nat) (i : Int) : Nat :=
  if 0 ≤ i then i.toNat else ((len : Int) + i).toNat

def eval (st : Images) (env : Env) : Expr → Except PyErr Val
  | .none => .ok .none
  | .int n => .ok (.int n)
  | .var i => match env i with | some v => .ok v | Option.none => .error .unmodelled
  | .addrs => .ok .addrsRef
  | .uuids => .ok .uuidsRef
  | .csFrames e =>
    match eval st env e with
    | .ok (.trace (.sample _ (some cs))) => .ok (.nats cs)
    | .ok (.trace (.sample _ Option.none)) => .ok .none
    | .ok (.trace (.image _ _)) => .error .attributeError        -- the dataclasses of dyld.py have no such field
    | .ok (.trace (.launch _)) => .error .attributeError
    | .ok _ => .error .unmodelled
    | .error x => .error x
  | .bisect l x =>
    match eval st env l with
    | .error e => .error e
    | .ok lv =>
      match eval st env x with
      | .error e => .error e
      | .ok xv =>
        match lv, xv with
        | .addrsRef, .int n =>
          if 0 ≤ n then (match Callstacks.bisect st.addrs n.toNat with | .ok r => .ok (.int r) | .error e => .error e)
          else .error .unmodelled
        | _, _ => .error .unmodelled
  | .sub a b =>
    match eval st env a with
    | .error e => .error e
    | .ok av =>
      match eval st env b with
      | .error e => .error e
      | .ok bv => match av, bv with | .int x, .int y => .ok (.int (x - y)) | _, _ => .error .unmodelled
  | .gt a b =>
    match eval st env a with
    | .error e => .error e
    | .ok av =>
      match eval st env b with
      | .error e => .error e
      | .ok bv => match av, bv with | .int x, .int y => .ok (.bool (decide (x > y))) | _, _ => .error .unmodelled
  | .isIn x l =>
    match eval st env x with
    | .error e => .error e
    | .ok xv =>
      match eval st env l with
      | .error e => .error e
      | .ok lv =>
        match xv, lv with
        | .int n, .addrsRef => .ok (.bool (decide (0 ≤ n ∧ n.toNat ∈ st.addrs)))
        | _, _ => .error .unmodelled
  | .index l i =>
    match eval st env l with
    | .error e => .error e
    | .ok lv =>
      match eval st env i with
      | .error e => .error e
      | .ok iv =>
        match lv, iv with
        | .addrsRef, .int k => (match pyIndex st.addrs k with | some a => .ok (.int a) | Option.none => .error .indexError)
        | .uuidsRef, .int k => (match pyIndex st.uuids k with | some u => .ok (.uuid u) | Option.none => .error .indexError)
        | .kts l, .int k => (match pyIndex l k with | some x => .ok (.kt x) | Option.none => .error .indexError)
        | _, _ => .error .unmodelled
  | .mkFrame a u o =>
    match eval st env a with
    | .error e => .error e
    | .ok av =>
      match eval st env u with
      | .error e => .error e
      | .ok uv =>
        match eval st env o with
        | .error e => .error e
        | .ok ov =>
          match av, uv, ov with
          | .int x, .uuid w, .int y => .ok (.frame ⟨x, some w, some y⟩)
          | .int x, .none, .none => .ok (.frame ⟨x, Option.none, Option.none⟩)
          | _, _, _ => .error .unmodelled
  | .isinstance e c =>
    match eval st env e with
    | .ok (.trace t) => .ok (.bool (t.isA c))
    | .ok _ => .error .unmodelled
    | .error x => .error x
  | .isNotNone e =>
    match eval st env e with
    | .ok .none => .ok (.bool false)
    | .ok _ => .ok (.bool true)
    | .error x => .error x
  | .and a b =>
    match eval st env a with
    | .ok (.bool false) => .ok (.bool false)
    | .ok (.bool true) => eval st env b
    | .ok _ => .error .unmodelled
    | .error x => .error x
  | .loadAddr e =>
    match eval st env e with
    | .ok (.trace (.image a _)) => .ok (.int a)
    | .ok (.img a _) => .ok (.int a)
    | .ok _ => .error .unmodelled
    | .error x => .error x
  | .uuidOf e =>
    match eval st env e with
    | .ok (.trace (.image _ u)) => .ok (.uuid u)
    | .ok (.img _ u) => .ok (.uuid u)
    | .ok _ => .error .unmodelled
    | .error x => .error x
  | .uuidMapA e =>
    match eval st env e with
    | .ok (.trace (.launch l)) => .ok (.imgs l)
    | .ok _ => .error .unmodelled
    | .error x => .error x
  | .ktraces e =>
    match eval st env e with
    | .ok (.trace (.sample k _)) => .ok (.kts k)
    | .ok _ => .error .unmodelled
    | .error x => .error x
  | .timestamp e =>
    match eval st env e with
    | .ok (.kt k) => .ok (.int k.timestamp)
    | .ok _ => .error .unmodelled
    | .error x => .error x
  | .tid e =>
    match eval st env e with
    | .ok (.kt k) => .ok (.int k.tid)
    | .ok _ => .error .unmodelled
    | .error x => .error x
  | .mkCallstack a b c =>
    match eval st env a with
    | .error e => .error e
    | .ok av =>
      match eval st env b with
      | .error e => .error e
      | .ok bv =>
        match eval st env c with
        | .error e => .error e
        | .ok cv =>
          match av, bv, cv with
          | .int x, .int y, .frames l => .ok (.callstack ⟨x, y, l⟩)
          | _, _, _ => .error .unmodelled
  | .unsupported _ => .error .unmodelled

inductive Outcome
  | normal
  | ret (v : Val)
  deriving DecidableEq, Repr

/-- What running a statement gives: the values yielded (in order), then the outcome — or the exception that ended it;
    the values yielded before the exception stay delivered. -/
abbrev Res := List Val × Except PyErr (Outcome × Env × Images)

/-- What `for v in x` iterates: the elements, and the exception that ends the iteration (a generator's own). -/
def items : Val → Option (List Val × Option PyErr)
  | .nats l => some (l.map (fun (k : Nat) => Val.int (k : Int)), Option.none)
  | .imgs l => some (l.map (fun p => Val.img p.1 p.2), Option.none)
  | .gen l e => some (l.map Val.trace, e)
  | _ => Option.none

/-- `for v in <elements>: body` -/
def forLoop (body : Env → Images → Res) (v : Nat) : List Val → Env → Images → Res
  | [], env, st => ([], .ok (.normal, env, st))
  | x :: xs, env, st =>
    match body (env.set v x) st with
    | (o, .error e) => (o, .error e)
    | (o, .ok (.ret r, env', st')) => (o, .ok (.ret r, env', st'))
    | (o, .ok (.normal, env', st')) =>
      let r := forLoop body v xs env' st'
      (o ++ r.1, r.2)

/-- The interpreter; `call a u st` answers `self.insert_image(a, u)` on the lists `st` (the lists afterwards). -/
def exec (call : Val → Val → Images → Except PyErr Images) : Stmt → Env → Images → Res
  | .done, env, st => ([], .ok (.normal, env, st))
  | .ret e, env, st => match eval st env e with | .ok v => ([], .ok (.ret v, env, st)) | .error x => ([], .error x)
  | .ite c t e, env, st =>
    match eval st env c with
    | .ok (.bool true) => exec call t env st
    | .ok (.bool false) => exec call e env st
    | .ok _ => ([], .error .unmodelled)
    | .error x => ([], .error x)
  | .assign v e next, env, st =>
    match eval st env e with
    | .ok (.int n) => exec call next (env.set v (.int n)) st
    | .ok _ => ([], .error .unmodelled)
    | .error x => ([], .error x)
  | .assignNewList v next, env, st => exec call next (env.set v (.frames [])) st
  | .insert l i x next, env, st =>
    match eval st env l with
    | .error e => ([], .error e)
    | .ok lv =>
      match eval st env i with
      | .error e => ([], .error e)
      | .ok iv =>
        match eval st env x with
        | .error e => ([], .error e)
        | .ok xv =>
          match lv, iv, xv with
          | .addrsRef, .int k, .int a =>
            if 0 ≤ a then exec call next env { st with addrs := pyInsert st.addrs (pyInsertPos st.addrs.length k) a.toNat }
            else ([], .error .unmodelled)
          | .uuidsRef, .int k, .uuid u =>
            exec call next env { st with uuids := pyInsert st.uuids (pyInsertPos st.uuids.length k) u }
          | _, _, _ => ([], .error .unmodelled)
  | .forIn v it body next, env, st =>
    match eval st env it with
    | .error x => ([], .error x)
    | .ok iv =>
      match items iv with
      | Option.none => ([], .error (if iv = .none then .typeError else .unmodelled))    -- `for x in None`: TypeError
      | some (l, err) =>
        match forLoop (fun env st => exec call body env st) v l env st with
        | (o, .error e) => (o, .error e)
        | (o, .ok (.ret r, env', st')) => (o, .ok (.ret r, env', st'))
        | (o, .ok (.normal, env', st')) =>
          match err with
          | some e => (o, .error e)
          | Option.none =>
            let r := exec call next env' st'
            (o ++ r.1, r.2)
  | .append v x next, env, st =>
    match eval st env x with
    | .ok (.frame f) =>
      (match env v with
       | some (.frames l) => exec call next (env.set v (.frames (l ++ [f]))) st
       | _ => ([], .error .unmodelled))
    | .ok _ => ([], .error .unmodelled)
    | .error e => ([], .error e)
  | .yield e next, env, st =>
    match eval st env e with
    | .ok v =>
      let r := exec call next env st
      (v :: r.1, r.2)
    | .error x => ([], .error x)
  | .callInsert a u next, env, st =>
    match eval st env a with
    | .error e => ([], .error e)
    | .ok av =>
      match eval st env u with
      | .error e => ([], .error e)
      | .ok uv =>
        match call av uv st with
        | .error e => ([], .error e)
        | .ok st' => exec call next env st'
  | .unsupported _, _, _ => ([], .error .unmodelled)

/-- no method can be called -/
def noCall : Val → Val → Images → Except PyErr Images := fun _ _ _ => .error .unmodelled

/-- Running a plain method (no `yield`, calls no method) on arguments: the returned value (falling off the end: `None`)
    and the lists afterwards. -/
def run (b : Block) (args : List Val) (st : Images) : Except PyErr (Val × Images) :=
  if args.length ≠ b.params then .error .unmodelled
  else
    match exec noCall b.body (Env.ofArgs args) st with
    | ([], .ok (.ret v, _, st')) => .ok (v, st')
    | ([], .ok (.normal, _, st')) => .ok (.none, st')
    | ([], .error x) => .error x
    | (_ :: _, _) => .error .unmodelled

/-- `self.insert_image(a, u)` answered by the translated `insert_image`. -/
def callInsertImage (ins : Block) (a u : Val) (st : Images) : Except PyErr Images :=
  match run ins [a, u] st with
  | .ok (_, st') => .ok st'
  | .error e => .error e

/-! ### `CallstacksParser.__init__` and `PyKdebugParser.callstacks` -/

/-- The two list objects a `PyKdebugParser` owns. -/
inductive ListRef
  | objAddrs                            -- `self.dyld_addresses`
  | objUuids                            -- `self.dyld_uuids`
  deriving DecidableEq, Repr

/-- The attributes of a `CallstacksParser`. -/
inductive Attr
  | dyldAddresses | dyldUuids
  deriving DecidableEq, Repr

/-- `__init__(self, p0, p1, …)`: the assignments `self.<attr> = <parameter k>`, in order. -/
structure InitDef where
  params : Nat
  sets : List (Attr × Nat)
  deriving DecidableEq, Repr

/-- The body of `PyKdebugParser.callstacks(self, kdebug, trace_codes=None)`. -/
inductive ReqStmt
  | clear (l : ListRef) (next : ReqStmt)               -- `l.clear()`
  | newParser (v : Nat) (a b : ListRef) (next : ReqStmt)   -- `v = CallstacksParser(a, b)`
  | retFeed (v : Nat) (k c : Nat)                      -- `return v.feed_generator(self.traces(<parameter k>, <parameter c>))`
  | unsupported (src : String)
  deriving DecidableEq, Repr

structure RequestDef where
  params : Nat                          -- after `self`
  defaults : List Expr                  -- the defaults of the last parameters
  body : ReqStmt
  deriving DecidableEq, Repr

structure Prog where
  init : InitDef
  insertImage : Block
  feedGenerator : Block
  callstacks : RequestDef
  deriving DecidableEq, Repr

/-- A `CallstacksParser` object: which list object each attribute IS. -/
structure ParserObj where
  addrs : Option ListRef := Option.none
  uuids : Option ListRef := Option.none
  deriving DecidableEq, Repr

def ParserObj.set (p : ParserObj) : Attr → ListRef → ParserObj
  | .dyldAddresses, r => { p with addrs := some r }
  | .dyldUuids, r => { p with uuids := some r }

def runInit (d : InitDef) (args : List ListRef) : Except PyErr ParserObj :=
  if args.length ≠ d.params then .error .unmodelled
  else
    d.sets.foldl (fun acc s =>
      match acc with
      | .error e => .error e
      | .ok p => match args[s.2]? with | some r => .ok (p.set s.1 r) | Option.none => .error .unmodelled) (.ok {})

/-- What consuming a generator to its end gives: the values delivered, then the lists afterwards — or the exception. -/
abbrev GenRes := List Val × Except PyErr Images

/-- A generator method of `CallstacksParser` run to its end on the lists `st`. -/
def runGen (p : Prog) (b : Block) (args : List Val) (st : Images) : GenRes :=
  if args.length ≠ b.params then ([], .error .unmodelled)
  else
    match exec (callInsertImage p.insertImage) b.body (Env.ofArgs args) st with
    | (o, .ok (_, _, st')) => (o, .ok st')
    | (o, .error x) => (o, .error x)

/-- `CallstacksParser(<the two lists st>).feed_generator(<a generator delivering ts, then raising err>)`, consumed. -/
def runFeed (p : Prog) (ts : List Trace) (err : Option PyErr) (st : Images) : GenRes :=
  runGen p p.feedGenerator [.gen ts err] st

/-- The body of `callstacks()`; `st` are the contents of the object's two lists.  The typed heap can hold the parser
    only when its `dyld_addresses` IS the object's address list and its `dyld_uuids` the object's identity list. -/
def execReq (p : Prog) (ts : List Trace) (err : Option PyErr) :
    ReqStmt → (Nat → Option ParserObj) → Images → GenRes
  | .clear .objAddrs next, env, st => execReq p ts err next env { st with addrs := [] }
  | .clear .objUuids next, env, st => execReq p ts err next env { st with uuids := [] }
  | .newParser v a b next, env, st =>
    match runInit p.init [a, b] with
    | .error e => ([], .error e)
    | .ok po => execReq p ts err next (fun j => if j = v then some po else env j) st
  | .retFeed v k c, env, st =>
    if k = 0 ∧ c = 1 then
      match env v with
      | some ⟨some .objAddrs, some .objUuids⟩ => runFeed p ts err st
      | _ => ([], .error .unmodelled)
    else ([], .error .unmodelled)
  | .unsupported _, _, _ => ([], .error .unmodelled)

/-- `PyKdebugParser.callstacks(kdebug, trace_codes)` called on an object whose two lists hold `st`, the result consumed
    to its end; `ts` / `err` is what `self.traces(kdebug, trace_codes)` delivers. -/
def runRequest (p : Prog) (ts : List Trace) (err : Option PyErr) (st : Images) : GenRes :=
  if p.callstacks.params = 2 ∧ p.callstacks.defaults = [.none] then
    execReq p ts err p.callstacks.body (fun _ => Option.none) st
  else ([], .error .unmodelled)

/-- `Frame(frame, None, None)` / `Frame(frame, uuid, offset)` as the model's `Frame`. -/
def ofFrame (f : Frame) : FrameV :=
  match f.image with
  | Option.none => ⟨f.address, Option.none, Option.none⟩
  | some (u, o) => ⟨f.address, some u, some o⟩

def ofCallstack (c : Callstack) : CallstackV := ⟨c.timestamp, c.tid, c.frames.map ofFrame⟩

/-- A trace item of the hand model as the trace object `feed_generator` sees: the sample's `ktraces` are the records of
    its window, its `cs_frames` what `handle_event` computed; a launch's `uuid_map_a` is the SORTED list. -/
def traceOf : Item → Trace
  | .sample first rest => .sample ((first :: rest).map fun r => ⟨r.ts, r.tid⟩) (csFrames first rest)
  | .image a u => .image a u
  | .launch imgs => .launch (sortByAddr imgs)
  | .other => .other

def Expr.hasUnsupported : Expr → Bool
  | .unsupported _ => true
  | .csFrames e | .isinstance e _ | .isNotNone e | .loadAddr e | .uuidOf e | .uuidMapA e | .ktraces e | .timestamp e
  | .tid e => e.hasUnsupported
  | .bisect a b | .sub a b | .gt a b | .isIn a b | .index a b | .and a b => a.hasUnsupported || b.hasUnsupported
  | .mkFrame a b c | .mkCallstack a b c => a.hasUnsupported || b.hasUnsupported || c.hasUnsupported
  | _ => false

def Stmt.hasUnsupported : Stmt → Bool
  | .unsupported _ => true
  | .done => false
  | .ret e => e.hasUnsupported
  | .ite c t e => c.hasUnsupported || t.hasUnsupported || e.hasUnsupported
  | .assign _ e n | .append _ e n | .yield e n => e.hasUnsupported || n.hasUnsupported
  | .assignNewList _ n => n.hasUnsupported
  | .insert a b c n => a.hasUnsupported || b.hasUnsupported || c.hasUnsupported || n.hasUnsupported
  | .callInsert a b n => a.hasUnsupported || b.hasUnsupported || n.hasUnsupported
  | .forIn _ it b n => it.hasUnsupported || b.hasUnsupported || n.hasUnsupported

def ReqStmt.hasUnsupported : ReqStmt → Bool
  | .unsupported _ => true
  | .clear _ n | .newParser _ _ _ n => n.hasUnsupported
  | .retFeed _ _ _ => false

def Prog.hasUnsupported (p : Prog) : Bool :=
  p.insertImage.body.hasUnsupported || p.feedGenerator.body.hasUnsupported || p.callstacks.body.hasUnsupported
    || p.callstacks.defaults.any Expr.hasUnsupported

end KdVerif.PyIRCs
