"""The command-line glue tied to the source text (tools/gen_pyir_cli.py -> Gen/PyIRCli, interpreter Model/PyIRCli; theorems
`cli_source_is_expected_ir`, `print_with_count_ir_eq_model`, `<cmd>_command_ir_eq_model`, `init_defaults_ir_eq_model`,
`formatted_*_ir_eq_model`, `*_lines_ir_eq_model` in Props/C06, C12, C13, C14).

Sections (shared by the check modules C06 / C12 / C13 / C14, each with the commands of its property):

  cli-glue       the REAL tool (click CliRunner, dump on stdin) on random option sets x small dumps, against the real library API
                 called directly on a parser object whose attributes are the ones the GENERATED glue says it hands to the method
                 (driver `cliglue`: translated callback + translated __init__ under the interpreter), the items printed chosen by
                 the GENERATED print_with_count (driver `clirun` on abstract items): "CLI = API under the translated glue" - tests
                 the translator and the interpreter against click / CPython.  Oracle (the property itself, in this module's own
                 words, independent of Lean and of the translator): the DOCUMENTED glue - the tables DOC_* below - applied to the API.
  cli-pwc-raise  print_with_count of the source on generators that raise while producing item k, against the generated loop
                 (driver `clipwc`); oracle on the code alone: the first `count` items are printed (all for a negative count), the
                 exception surfaces exactly when the loop asks the generator for the raising item.
  cli-decls      the generated option declarations against click's own view of the commands (cli.commands[c].params).
  cli-init       the generated __init__ against vars(PyKdebugParser()); oracle: the documented defaults.
  cli-formatted  the generated formatted_* maps (driver `clifmt`, probe methods) against the real methods on a parser whose
                 listing / builder methods are stubs that name themselves and their arguments.
"""
import contextlib
import io
import json
import os

from . import core
from .core import hs

PRINTING = ('kevents', 'traces', 'callstacks', 'logs')
TABLES = {'processes': 'processes', 'kexts': 'kernel_extensions', 'images': 'images'}
ALL_COMMANDS = ('kevents', 'traces', 'callstacks', 'processes', 'kexts', 'images', 'logs')

# ---------------------------------------------------------------- the documented glue (the property, in this module's words)

DOC_DEFAULTS = {'filter_tid': None, 'filter_process': None, 'filter_class': [], 'filter_subclass': [],
                'show_timestamp': True, 'show_name': True, 'show_func_qual': True, 'show_tid': False, 'show_process': True,
                'show_args': True, 'color': True, 'numer': None, 'denom': None, 'mach_absolute_time': None,
                'usecs_since_epoch': None, 'timezone': None, 'threads_pids': {}, 'pids_names': {}, 'dyld_addresses': [],
                'dyld_uuids': []}
DOC_OPTION_DEFAULTS = {'count': -1, 'tid': None, 'show_tid': False, 'process': None, 'class_filters': (), 'subclass_filters': (),
                       'color': True}
DOC_COMMANDS = {
    'kevents': ('formatted_kevents', {'filter_class': 'class_filters', 'filter_subclass': 'subclass_filters', 'filter_tid': 'tid',
                                      'show_tid': 'show_tid'}),
    'traces': ('formatted_traces', {'filter_tid': 'tid', 'filter_process': 'process', 'filter_class': 'class_filters',
                                    'filter_subclass': 'subclass_filters', 'show_tid': 'show_tid', 'color': 'color'}),
    'callstacks': ('formatted_callstacks', {'filter_tid': 'tid', 'filter_process': 'process', 'show_tid': 'show_tid'}),
    'logs': ('formatted_logs', {'filter_tid': 'tid', 'filter_process': 'process', 'show_tid': 'show_tid'}),
}
# spellings used when the generated declarations cannot be read (translation outside the subset)
DOC_SPELL = {'count': ['-c', '--count'], 'tid': ['--tid'], 'show_tid': ['--show-tid/--no-show-tid'], 'process': ['--process'],
             'class_filters': ['-cf', '--class-filters'], 'subclass_filters': ['-sf', '--subclass-filters'],
             'color': ['--color/--no-color']}
DOC_KIND = {'count': 'int', 'tid': 'int', 'show_tid': 'flag', 'process': 'str', 'class_filters': 'basedInt',
            'subclass_filters': 'basedInt', 'color': 'flag'}


def doc_options(cmd):
    if cmd not in DOC_COMMANDS:
        return set()
    return set(DOC_COMMANDS[cmd][1].values()) | {'count'}


# ---------------------------------------------------------------- environment

@contextlib.contextmanager
def force_colour():
    """termcolor 2.x emits escapes only on a terminal or when FORCE_COLOR is set (decision cached): without it `color = True`
    and `color = False` print the same log lines and the colour default of __init__ would be invisible."""
    import termcolor
    saved = {k: os.environ.get(k) for k in ('FORCE_COLOR', 'NO_COLOR', 'ANSI_COLORS_DISABLED')}
    os.environ['FORCE_COLOR'] = '1'
    os.environ.pop('NO_COLOR', None)
    os.environ.pop('ANSI_COLORS_DISABLED', None)
    cc = getattr(getattr(termcolor, 'termcolor', termcolor), 'can_colorize', None)
    if cc is not None and hasattr(cc, 'cache_clear'):
        cc.cache_clear()
    try:
        yield
    finally:
        for k, v in saved.items():
            if v is None:
                os.environ.pop(k, None)
            else:
                os.environ[k] = v
        if cc is not None and hasattr(cc, 'cache_clear'):
            cc.cache_clear()


# ---------------------------------------------------------------- dumps

NAMES = ['launchd', 'kernel_task', 'a', 'Finder', '42', 'naïve']


def dump_info(data):
    """thread ids / classes / subclasses / process texts that occur in the dump (read with the library: inputs only), so that the
    generated options select something"""
    from pykdebugparser.pykdebugparser import PyKdebugParser
    tids, classes, subs, procs = set(), set(), set(), set()
    p = PyKdebugParser()
    try:
        for i, e in enumerate(p.kevents(io.BytesIO(data))):
            if i < 200:
                tids.add(e.tid)
                classes.add(e.eventid >> 24)
                subs.add(e.eventid >> 16)
    except Exception:
        pass
    q = PyKdebugParser()
    try:
        for lg in q.os_log_events(io.BytesIO(data)):
            tids.add(lg.thread_identifier)
            if lg.process:
                procs.add(lg.process)
            procs.add(str(lg.process_identifier))
    except Exception:
        pass
    for pid, name in list(p.pids_names.items())[:8]:
        procs.add(str(pid))
        if name:
            procs.add(name)
    return {'tids': sorted(tids) or [7], 'classes': sorted(classes) or [4], 'subs': sorted(subs) or [0x040c],
            'procs': sorted(procs) or ['launchd']}


def gen_dump(rng, kind):
    """-> (bytes, info)"""
    from . import streams
    from .impl import record_args
    if kind == 'events':
        from .props import C12
        items = C12.gen_items(rng, rng.randrange(1, 9), False)
        tmap = [(7, 42, 'launchd'), (8, 1, 'kernel_task'), (0, 0, 'kernel_task')][:rng.randrange(0, 4)]
        data = streams.v2_file(tmap, [record_args(it[1], it[4], it[2], it[3]) for it in items])
    elif kind == 'logs':
        from .props import C12
        evs = C12.gen_items(rng, rng.randrange(0, 4), False)
        recs = [record_args(it[1], it[4], it[2], it[3]) for it in evs]
        strings = []
        raw = [streams.raw_log_event(strings, 'm%d' % i, rng.choice([7, 8, 0x1234]), rng.choice(NAMES + [None]), rng.choice([0, 1, 42, 7]))
               for i in range(rng.randrange(1, 6))]
        data = streams.v3_file([(7, 42, 'launchd')], recs, raw, strings)
    elif kind == 'callstacks':
        from .props import C15
        nodes = C15.gen_announce_case(rng)
        data = C15.v2_file(nodes, [(t, 42, 'launchd') for t in C15.TIDS_C[:rng.randrange(0, 3)]])
    else:
        from . import pipeline as PL
        tail = rng.choice([None, None, 'badplist', 'nostring', 'badcodes']) if kind == 'traces-v3' else None
        data = bytes.fromhex(PL.e2e_case(rng, cut=None, v3=(kind == 'traces-v3'), tail=tail)['whole'])
    if rng.random() < 0.12:                           # a truncated dump: the listing may end in an exception behind some lines
        data = data[:rng.randrange(4, len(data) + 1)]
    return data, dump_info(data)


DUMP_MIX = {'kevents': ['events', 'events', 'traces', 'logs'], 'traces': ['traces', 'traces', 'traces-v3', 'events', 'callstacks'],
            'callstacks': ['callstacks', 'callstacks', 'traces'], 'logs': ['logs', 'logs', 'logs', 'traces-v3'],
            'processes': ['logs', 'traces-v3', 'events'], 'kexts': ['logs', 'traces-v3', 'events'],
            'images': ['logs', 'traces-v3', 'callstacks']}


def based_text(rng, v):
    """an integer as a `-cf` / `-sf` value: decimal, hex, octal or binary text"""
    if v < 0:
        return str(v)
    return rng.choice([str(v), hex(v), hex(v), '0o%o' % v, '0b%s' % bin(v)[2:], '0X%X' % v])


def gen_case(rng, cmd, emphasis=None):
    kind = rng.choice(DUMP_MIX[cmd])
    data, info = gen_dump(rng, kind)
    opts = {}
    allowed = doc_options(cmd)
    pool = list(allowed)
    if rng.random() < 0.06:                          # an option the command does not have: click must reject the line
        pool = list(set(DOC_OPTION_DEFAULTS) - allowed) or pool
        pool = [rng.choice(pool)] + list(allowed)
    for name in pool:
        p = {'count': 0.6, 'tid': 0.3, 'show_tid': 0.5, 'process': 0.25, 'class_filters': 0.35, 'subclass_filters': 0.25,
             'color': 0.5}[name]
        if emphasis and name in emphasis:
            p = 0.8
        if name not in allowed:
            p = 1.0
        if rng.random() >= p:
            continue
        if name == 'count':
            opts[name] = str(rng.choice([-1, 0, 1, 1, 2, 3, 3, 5, 8, 1000, -7]))
        elif name == 'tid':
            opts[name] = str(rng.choice(info['tids'] * 3 + [12345, -1]))
        elif name in ('show_tid', 'color'):
            opts[name] = rng.random() < (0.7 if name == 'show_tid' else 0.4)
        elif name == 'process':
            opts[name] = rng.choice(info['procs'] * 3 + ['nosuch', '', '-1'])
        else:
            vals = info['classes'] if name == 'class_filters' else info['subs']
            texts = [based_text(rng, rng.choice(vals * 3 + [2, 300, -1])) for _ in range(rng.randrange(1, 4))]
            if rng.random() < 0.04:
                texts.append(rng.choice(['010', '4x', '0x', '']))       # int(text, 0) raises ValueError: a usage error
            opts[name] = texts
    return {'cmd': cmd, 'kind': kind, 'dump': data.hex(), 'opts': opts, 'long': rng.random() < 0.5}


# ---------------------------------------------------------------- the generated glue (through the driver)

_decl_cache = {}
_conv_cache = {}


def generated_decls(cmd):
    """{param: (kind, [spellings])} as the translator read them, or None"""
    if cmd not in _decl_cache:
        ans = core.drive(['clidecls ' + cmd])[0]
        out = None
        if ans.startswith('ok'):
            out = {}
            for ent in ans[3:].split(' '):
                if not ent:
                    continue
                param, ao, kind, default, multiple, flags = ent.split(';')
                out[param] = (kind, [bytes.fromhex(f).decode() for f in flags.split(',') if f], ao, default, multiple)
        _decl_cache[cmd] = out
    return _decl_cache[cmd]


def spelling(case, name, value=None):
    d = generated_decls(case['cmd']) or {}
    flags = d[name][1] if name in d and d[name][1] else DOC_SPELL[name]
    if DOC_KIND[name] == 'flag':
        f = next((x for x in flags if '/' in x), None)
        if f is None:
            return flags[0]
        on, off = f.split('/', 1)
        return on if value else off
    return flags[-1] if case['long'] else flags[0]


def argv_of(case):
    argv = [case['cmd'], '-']
    for name, v in case['opts'].items():
        if DOC_KIND[name] == 'flag':
            argv.append(spelling(case, name, v))
        elif isinstance(v, list):
            for t in v:
                argv += [spelling(case, name), t]
        else:
            argv += [spelling(case, name), v]
    return argv


def convert(case, name, text):
    """the text of an option value -> the value click hands to the callback, by the GENERATED kind of the option
    (`basedInt`: the generated BASED_INT through the driver); None = the conversion fails (usage error)"""
    d = generated_decls(case['cmd']) or {}
    kind = d[name][0] if name in d else DOC_KIND[name]
    if kind == 'basedInt':
        if text not in _conv_cache:
            _conv_cache[text] = core.drive(['cliconv ' + hs(text)])[0]
        ans = _conv_cache[text]
        if ans.startswith('ok '):
            return int(ans[3:])
        if ans == 'err Unmodelled':                    # outside the modelled grammar of int(text, 0): ask Python
            try:
                return int(text, 0)
            except ValueError:
                return None
        return None
    if kind == 'int':
        try:
            return int(text)
        except ValueError:
            return None
    return text


def values_of(case, conv=convert):
    """option name -> converted value; None when some text does not convert"""
    out = {}
    for name, v in case['opts'].items():
        if DOC_KIND[name] == 'flag':
            out[name] = bool(v)
        elif isinstance(v, list):
            xs = [conv(case, name, t) for t in v]
            if any(x is None for x in xs):
                return None
            out[name] = tuple(xs)
        elif name == 'process':
            out[name] = v
        else:
            x = conv(case, name, v)
            if x is None:
                return None
            out[name] = x
    return out


def show_val(v):
    if v is None:
        return 'N'
    if isinstance(v, bool):
        return 'b%d' % v
    if isinstance(v, int):
        return 'i%d' % v
    if isinstance(v, str):
        return 's' + hs(v)
    if isinstance(v, tuple):
        return 't' + (','.join(str(x) for x in v) or '-')
    if isinstance(v, list):
        return 'l' + (','.join(str(x) for x in v) or '-')
    if isinstance(v, dict) and not v:
        return 'd'
    return '?' + repr(v)


def parse_val(s):
    if s == 'N':
        return None
    if s in ('b0', 'b1'):
        return s == 'b1'
    if s[0] == 'i':
        return int(s[1:])
    if s[0] == 's':
        return bytes.fromhex(s[1:] if s[1:] != '-' else '').decode()
    if s[0] in 'tl':
        xs = [] if s[1:] == '-' else [int(x) for x in s[1:].split(',')]
        return tuple(xs) if s[0] == 't' else xs
    if s == 'd':
        return {}
    raise ValueError(s)


def opts_text(vals):
    return ' '.join('%s=%s' % (k, show_val(v)) for k, v in vals.items())


# ---------------------------------------------------------------- running the real code

def run_cli(case):
    from click.testing import CliRunner
    from pykdebugparser.__main__ import cli
    r = CliRunner().invoke(cli, argv_of(case), input=bytes.fromhex(case['dump']))
    out = getattr(r, 'stdout', r.output)
    if isinstance(r.exception, SystemExit) and r.exit_code == 2:
        return 'usage'
    exc = '-'
    if r.exception is not None and not isinstance(r.exception, SystemExit):
        exc = core.err_name(r.exception)
    elif r.exit_code == 1:
        exc = 'EOF'                                    # click turns an EOFError of the callback into Abort: exit code 1
    elif r.exit_code != 0:
        exc = 'exit%d' % r.exit_code
    return 'ran %s | %s' % (hs(out), exc)


def api_items(method, attrs, data):
    """The real method on a parser object with exactly these attributes, consumed to the end: (items, exception name | None)."""
    from pykdebugparser.pykdebugparser import PyKdebugParser
    p = PyKdebugParser()
    p.__dict__.clear()
    for k, v in attrs.items():
        setattr(p, k, json.loads(json.dumps(v)) if isinstance(v, (list, dict)) else v)   # fresh containers
    items, exc = [], None
    try:
        for x in getattr(p, method)(io.BytesIO(data)):
            items.append(str(x))
    except Exception as e:  # the listing's own exception: surfaces through print_with_count or not
        exc = core.err_name(e)
    return items, exc


def api_table(attr, indent, data):
    from pykdebugparser.kd_buf_parser import KdBufParser
    p = KdBufParser({}, {})
    try:
        list(p.parse(io.BytesIO(data)))
        return 'ran %s | -' % hs(json.dumps(getattr(p, attr), indent=indent) + '\n')
    except Exception as e:
        return 'ran - | ' + core.err_name(e)


def answer(printed, exc):
    return 'ran %s | %s' % (hs(''.join(x + '\n' for x in printed)), exc or '-')


def documented(case):
    """What the tool must print, from the documented glue alone (no Lean, no translator)."""
    cmd = case['cmd']
    data = bytes.fromhex(case['dump'])
    if any(n not in doc_options(cmd) for n in case['opts']):
        return 'usage'

    def conv(case, name, text):
        try:
            return int(text, 0) if DOC_KIND[name] == 'basedInt' else int(text)
        except ValueError:
            return None
    vals = values_of(case, conv)
    if vals is None:
        return 'usage'
    if cmd in TABLES:
        return api_table(TABLES[cmd], 4, data)
    eff = dict(DOC_OPTION_DEFAULTS)
    eff.update(vals)
    method, assign = DOC_COMMANDS[cmd]
    attrs = dict(DOC_DEFAULTS)
    for a, o in assign.items():
        attrs[a] = list(eff[o]) if isinstance(eff[o], tuple) else eff[o]
    items, exc = api_items(method, attrs, data)
    n = eff['count']
    if n < 0:
        return answer(items, exc)
    return answer(items[:n], exc if len(items) <= n else None)


DRIVER_ERRORS = {'IndexError', 'KeyError', 'ValueError', 'AttributeError', 'TypeError', 'UnicodeError', 'StructError', 'StreamError',
                 'EOF'}


def under_generated_glue(cases):
    """For every case the answer of "the API under the translated glue": the object, the method and the count from the driver
    (`cliglue`), the listing from the real method on that object, the printed items from the generated print_with_count
    (`clirun` on abstract items).  `None` where the translation is outside the subset."""
    vals = [values_of(c) for c in cases]
    glue = core.drive(['cliglue %s %s' % (c['cmd'], opts_text(v)) if v is not None else 'cliircheck' for c, v in zip(cases, vals)])
    answers = [None] * len(cases)
    second = []
    for i, (c, v, g) in enumerate(zip(cases, vals, glue)):
        data = bytes.fromhex(c['dump'])
        if v is None:
            answers[i] = 'usage'                        # a value does not convert: click fails the parameter
        elif g == 'usage':
            answers[i] = 'usage'
        elif g == 'unsupported':
            answers[i] = None
        elif g.startswith('table '):
            _, attr, indent = g.split(' ')
            answers[i] = api_table(attr, int(indent), data)
        elif g.startswith('call '):
            parts = g.split(' ')
            attrs = {}
            for kv in parts[3:]:
                k, _, val = kv.partition('=')
                attrs[k] = parse_val(val)
            try:
                items, exc = api_items(parts[1], attrs, data)
            except Exception as e:                       # e.g. the glue names a method the class does not have
                answers[i] = 'ran - | ' + core.err_name(e)
                continue
            token = exc if exc is None or exc in DRIVER_ERRORS else 'Hang'     # an exception the driver has no name for travels as a token
            second.append((i, (items, exc), 'clirun %s %s | %s | %s' % (c['cmd'], opts_text(v), ' '.join('x%d' % k for k in range(len(items))),
                                                                      token or '-')))
        elif g.startswith('err '):
            answers[i] = 'ran - | ' + g[4:]
        else:
            answers[i] = 'glue: ' + g
    if second:
        res = core.drive([ln for _, _, ln in second])
        for (i, (items, orig), _), r in zip(second, res):
            if r == 'usage' or not r.startswith('ran '):
                answers[i] = r
                continue
            body, _, exc = r[4:].partition(' | ')
            idx = [] if body == '-' else [int(t[1:]) for t in body.split(',')]
            answers[i] = answer([items[k] for k in idx], None if exc == '-' else orig if exc == 'Hang' else exc)
    return answers


def describe(case):
    return ' '.join(argv_of(case)) + '  (dump: %s, %d bytes)' % (case['kind'], len(case['dump']) // 2)


def glue_oracle(case, got):
    want = documented(case)
    if got == want:
        return None
    cmd = case['cmd']
    if want == 'usage' or got == 'usage':
        return ('cli:%s-usage' % cmd, '`%s`: the tool %s, the documented options say %s'
                % (describe(case), 'rejects the command line' if got == 'usage' else 'runs', 'reject' if want == 'usage' else 'run'))

    def split(a):
        body, _, exc = a[4:].partition(' | ')
        return bytes.fromhex(body if body != '-' else '').decode('utf-8', 'replace').split('\n')[:-1], exc
    gl, ge = split(got)
    wl, we = split(want)
    what = 'lines' if gl != wl else 'exception'
    k = next((i for i, (a, b) in enumerate(zip(gl, wl)) if a != b), min(len(gl), len(wl)))
    return ('cli:%s-%s' % (cmd, what),
            '`%s` prints %d lines (ends: %s); the library called with the documented attributes for these options prints %d '
            '(ends: %s); first difference at line %d: %r vs %r'
            % (describe(case), len(gl), ge, len(wl), we, k, (gl[k:k + 1] or ['<none>'])[0][:160], (wl[k:k + 1] or ['<none>'])[0][:160]))


def glue_section(rep, rng, tier, commands, n=None, emphasis=None, name='cli-glue'):
    sec = rep.section(name)
    sec['rule'] = ('the real tool (click CliRunner, dump on stdin) for the commands %s on seeded option sets (-c omitted / -1 / 0 / 1 / k / '
                   'more than there are lines / negative; --tid, --process, --show-tid / --no-show-tid, -cf / -sf repeated in decimal, '
                   'hex, octal, binary, malformed; --color / --no-color; short and long spellings; options the command does not '
                   'have) x small dumps (v2 event streams, v2 / v3 trace scenarios, callstack scenarios, v3 dumps with log '
                   'records), FORCE_COLOR set; model = the library API on the object / method / count the GENERATED callback and '
                   '__init__ produce under the interpreter (`cliglue`), the printed items chosen by the generated print_with_count '
                   '(`clirun`); oracle = the API under the documented glue (tables DOC_* of tools/kdv/cliir.py)' % ', '.join(commands))
    if n is None:
        n = 100 if tier == 'quick' else 1500
    cases = []
    for cmd in commands:
        k = n if cmd in PRINTING else max(4, n // 6)
        cases += [gen_case(rng, cmd, emphasis) for _ in range(k)]
    with force_colour():
        models = under_generated_glue(cases)
        nontrivial = set()
        for c, m in zip(cases, models):
            try:
                got = run_cli(c)
            except Exception as e:
                got = 'err ' + core.err_name(e)
            sec['cases'] += 1
            kk = c['cmd'] + ':' + ('usage' if got == 'usage' else 'exc' if not got.endswith('| -') else 'cut' if 'count' in c['opts'] else 'all')
            sec['dist'][kk] = sec['dist'].get(kk, 0) + 1
            if m is None:
                sec['dist']['skipped-unsupported'] = sec['dist'].get('skipped-unsupported', 0) + 1
            elif m != got:
                sec['mismatches'] += 1
                if len(rep.first_diffs) < 10:
                    rep.first_diffs.append({'section': name, 'line': describe(c)[:600], 'model': m[:600], 'impl': got[:600]})
            r = glue_oracle(c, got)
            if r:
                rep.add_failure(r[0], r[1], {'section': name, 'case': c, 'argv': argv_of(c), 'impl': got[:2000]})
            elif got.startswith('ran ') and len(got) > 10 and c['opts']:
                nontrivial.add(json.dumps(c, sort_keys=True))
    sec['distinct_nontrivial'] += len(nontrivial)
    if sec['mismatches']:
        rep.broken.append('correspondence:%s (%d of %d cases differ)' % (name, sec['mismatches'], sec['cases']))
    if cases and len(rep.samples) < 12:
        rep.samples.append({'section': name, 'line': describe(cases[0])[:300], 'answer': (models[0] or '')[:300]})


# ---------------------------------------------------------------- print_with_count on raising generators

class Boom(EOFError):
    pass


def pwc_cases(rng, tier):
    out = []
    for n in range(0, 6):
        for k in [None] + list(range(0, n + 1)):
            for count in [-7, -1, 0, 1, 2, 3, 4, 5, 6, 1000]:
                out.append({'n': n, 'raise_at': k, 'count': count})
    if tier != 'quick':
        for _ in range(4000):
            n = rng.randrange(0, 40)
            out.append({'n': n, 'raise_at': rng.choice([None, rng.randrange(0, n + 1)]), 'count': rng.randrange(-3, n + 3)})
    return out


def pwc_impl(c):
    from pykdebugparser.__main__ import print_with_count

    def gen():
        for i in range(c['n']):
            if c['raise_at'] == i:
                raise Boom()
            yield 'x%d' % i
        if c['raise_at'] == c['n']:
            raise Boom()
    buf = io.StringIO()
    exc = '-'
    with contextlib.redirect_stdout(buf):
        try:
            print_with_count(gen(), c['count'])
        except Boom:
            exc = 'EOF'
    return 'ok %s | %s' % (','.join(buf.getvalue().split('\n')[:-1]) or '-', exc)


def pwc_line(c):
    delivered = c['n'] if c['raise_at'] is None else c['raise_at']
    return 'clipwc %d %s %s' % (c['count'], '-' if c['raise_at'] is None else 'EOF', ' '.join('x%d' % i for i in range(delivered)))


def pwc_oracle(c, got):
    delivered = c['n'] if c['raise_at'] is None else c['raise_at']
    items = ['x%d' % i for i in range(delivered)]
    count = c['count']
    printed = items if count < 0 else items[:count]
    surfaces = c['raise_at'] is not None and (count < 0 or delivered <= count)
    want = 'ok %s | %s' % (','.join(printed) or '-', 'EOF' if surfaces else '-')
    if got != want:
        what = 'lines' if got.split(' | ')[0] != want.split(' | ')[0] else 'exception'
        return ('pwc:raise-' + what, 'print_with_count over a generator of %d items%s with count %d: got %s, the first `count` items '
                '(all for a negative count) and the exception exactly when the loop asks for the raising item: %s'
                % (c['n'], '' if c['raise_at'] is None else ' raising while producing item %d' % c['raise_at'], count, got[:120], want[:120]))
    return None


def pwc_section(rep, rng, tier):
    core.run_section(rep, 'cli-pwc-raise', pwc_cases(rng, tier), pwc_line, pwc_impl, pwc_oracle,
                     nontrivial_fn=lambda c, g: c['raise_at'] is not None,
                     kind_fn=lambda c, g: ('raise' if g.endswith('EOF') else 'quiet') + (':neg' if c['count'] < 0 else ':cut'),
                     rule='print_with_count of the source over generators of 0..5 items (thorough: up to 40) that raise while producing '
                          'item k (every k, and never) x counts -7, -1, 0..6, 1000: lines printed and whether the exception leaves the '
                          'call, against the GENERATED loop under the interpreter (`clipwc`); oracle on the code alone',
                     skip_fn=lambda m: m == 'unsupported')


# ---------------------------------------------------------------- declarations, __init__, the maps

def decl_impl(cmd):
    import click
    from pykdebugparser import __main__ as M
    c = M.cli.commands[cmd]
    out = []
    for p in sorted(c.params, key=lambda p: p.name):
        t = p.type
        if isinstance(p, click.Argument):
            flags = list(p.opts)
        elif p.secondary_opts:
            flags = ['/'.join(['/'.join(p.opts)] + list(p.secondary_opts))] if len(p.opts) == 1 else list(p.opts)
        else:
            flags = list(p.opts)
        if isinstance(t, click.File):
            kind = 'file:' + t.mode
        elif getattr(p, 'is_flag', False) and p.secondary_opts:
            kind = 'flag'
        elif t is click.INT:
            kind = 'int'
        elif t is click.STRING:
            kind = 'str'
        elif type(t).__name__ == 'BasedIntParamType':
            kind = 'basedInt'
        else:
            kind = 'unsupported'
        d = p.default
        if callable(d):
            d = d()
        if d == () or d == [] or repr(d) in ('Sentinel.UNSET', 'UNSET'):
            d = None
        out.append(';'.join([p.name, 'A' if isinstance(p, click.Argument) else 'O', kind, show_val(d),
                             '1' if getattr(p, 'multiple', False) else '0', ','.join(hs(f) for f in flags)]))
    return 'ok ' + ' '.join(out)


def init_impl(_c):
    from pykdebugparser.pykdebugparser import PyKdebugParser
    return 'ok ' + ' '.join('%s=%s' % (k, show_val(v)) for k, v in vars(PyKdebugParser()).items())


def init_oracle(_c, got):
    want = {k: show_val(v) for k, v in DOC_DEFAULTS.items()}
    have = dict(kv.split('=', 1) for kv in got[3:].split(' ')) if got.startswith('ok ') else {}
    for k, v in want.items():
        if have.get(k) != v:
            return ('cli:init-default-' + k, 'a fresh PyKdebugParser() has %s = %s; documented default: %s' % (k, have.get(k, '<absent>'), v))
    return None


def fmt_impl(c):
    """The real formatted_x on a parser whose listing and builder methods are stubs naming themselves and their arguments."""
    import pykdebugparser.pykdebugparser as mod
    method, tc = c
    KD, CODES, DEFAULT = object(), object(), object()

    def show(a):
        return 'kdebug' if a is KD else 'None' if a is None else 'codes' if a is CODES else 'default' if a is DEFAULT else '?'

    def args_text(a):
        return ','.join(show(x) for x in a) or '-'
    p = mod.PyKdebugParser()
    for s in ('kevents', 'traces', 'callstacks', 'os_log_events'):
        setattr(p, s, (lambda s: lambda *a: iter([s + ' ' + args_text(a)]))(s))
    for f in ('_format_kevent', '_format_trace', '_format_callstack', '_format_log'):
        setattr(p, f, (lambda f: lambda x, *a: f + ' ' + args_text(a) + ' ' + x)(f))
    orig = mod.default_trace_codes
    mod.default_trace_codes = lambda: DEFAULT
    try:
        try:
            res = list(getattr(p, method)(KD, CODES) if tc == 'C' else getattr(p, method)(KD))
        except Exception as e:
            return 'err ' + core.err_name(e)
    finally:
        mod.default_trace_codes = orig
    return 'ok ' + res[0] if len(res) == 1 else 'other'


FMT_DOC = {('formatted_kevents', 'N'): 'ok _format_kevent default kevents kdebug',
           ('formatted_kevents', 'C'): 'ok _format_kevent codes kevents kdebug',
           ('formatted_traces', 'N'): 'ok _format_trace - traces kdebug,None',
           ('formatted_traces', 'C'): 'ok _format_trace - traces kdebug,codes',
           ('formatted_callstacks', 'N'): 'ok _format_callstack - callstacks kdebug,None',
           ('formatted_callstacks', 'C'): 'ok _format_callstack - callstacks kdebug,codes',
           ('formatted_logs', 'N'): 'ok _format_log - os_log_events kdebug',
           ('formatted_logs', 'C'): 'err TypeError'}


def fmt_oracle(c, got):
    if got != FMT_DOC[tuple(c)]:
        return ('cli:%s-map' % c[0], '%s(kdebug%s) on stub methods: %s; documented: %s'
                % (c[0], ', codes' if c[1] == 'C' else '', got, FMT_DOC[tuple(c)]))
    return None


def static_sections(rep, commands, with_init=True, with_maps=True):
    core.run_section(rep, 'cli-decls', list(commands), lambda c: 'clidecls ' + c, decl_impl,
                     rule='the option declarations the translator reads from the decorators of __main__.py (name of the keyword '
                          'argument by click\'s rule, kind, default, multiple, spellings) against click\'s own view of the same '
                          'commands (cli.commands[c].params)')
    if with_init:
        core.run_section(rep, 'cli-init', ['init'], lambda c: 'cliinit', init_impl, init_oracle,
                         rule='the attributes and defaults of the GENERATED __init__ (interpreted) against vars(PyKdebugParser()); oracle: '
                              'the documented defaults', skip_fn=lambda m: m == 'unsupported')
    if with_maps:
        cases = [[m, t] for m in ('formatted_kevents', 'formatted_traces', 'formatted_callstacks', 'formatted_logs') for t in 'NC']
        core.run_section(rep, 'cli-formatted', cases, lambda c: 'clifmt %s %s' % tuple(c), fmt_impl, fmt_oracle,
                         rule='the GENERATED formatted_* maps on probe methods (`clifmt`) against the real methods on a parser whose '
                              'kevents / traces / callstacks / os_log_events / _format_* are stubs naming themselves and their '
                              'arguments (which listing, which builder, which code table goes where); oracle: the documented shape',
                         skip_fn=lambda m: m == 'unsupported')


# ---------------------------------------------------------------- the tie, the entry points, replay

RELEVANT = {
    'C06': {'print_with_count', 'pwc-notes'},
    'C12': None,                                        # everything
    'C13': {'print_with_count', 'traces', 'callstacks', 'logs', '__init__', 'formatted_kevents', 'formatted_traces',
            'formatted_callstacks', 'formatted_logs', 'pwc-notes', 'notes'},
    'C14': {'print_with_count', 'kevents', 'traces', 'callstacks', 'logs', '__init__', 'formatted_kevents', 'formatted_traces',
            'formatted_callstacks', 'formatted_logs', 'pwc-notes', 'notes'},
}


def translation_tie(rep, prop):
    """Is the glue translated from __main__.py / pykdebugparser.py the one the `…_ir_eq_model` theorems of this property are
    proved for?"""
    _decl_cache.clear()
    _conv_cache.clear()
    ans = core.drive(['cliircheck'])[0]
    if ans == 'same':
        rep.notes.append('translation tie: Gen/PyIRCli (from __main__.py, PyKdebugParser.__init__ / formatted_*) = Spec/PyIRCliExpected')
        return
    differing = ans.split(' ')[1].split(',') if ans.startswith('differs ') else [ans]
    rel = RELEVANT.get(prop)
    mine = [d for d in differing if rel is None or d in rel or not ans.startswith('differs ')]
    if mine:
        rep.broken.append('theorem cli_source_is_expected_ir (source_is_expected_ir of the command-line glue): the terms that '
                          'tools/gen_pyir_cli.py translates from the source text (%s) are not those of Spec/PyIRCliExpected that '
                          'print_with_count_ir_eq_model / <cmd>_command_ir_eq_model / init_defaults_ir_eq_model / formatted_*_ir_eq_model '
                          'are proved for (%s)' % (', '.join(mine), ans))
    else:
        rep.notes.append('translation tie: the glue terms of this property translate to Spec/PyIRCliExpected (%s: other property)' % ans)


def section(rep, rng, tier, prop='C12', commands=ALL_COMMANDS, emphasis=None, n=None):
    """All glue sections for one property."""
    translation_tie(rep, prop)
    static_sections(rep, commands)
    pwc_section(rep, rng, tier)
    glue_section(rep, rng, tier, commands, n=n, emphasis=emphasis)


SECTIONS = ('cli-glue', 'cli-pwc-raise', 'cli-decls', 'cli-init', 'cli-formatted')


def replay(rp, prop, path):
    """Replays a recorded failure of one of the glue sections; returns the exit code."""
    sec = rp.get('section')
    case = rp['case']
    if sec == 'cli-glue':
        with force_colour():
            got = run_cli(case)
            res = glue_oracle(case, got)
            model = under_generated_glue([case])[0]
            doc = documented(case)
        print('argv :', ' '.join(argv_of(case)))
        print('dump :', case['kind'], len(case['dump']) // 2, 'bytes')
        print('tool :', got[:1500])
        print('API under the documented glue:', doc[:1500])
        print('API under the translated glue:', (model or 'unsupported')[:1500])
    else:
        line_fn, impl_fn, oracle_fn = {
            'cli-pwc-raise': (pwc_line, pwc_impl, pwc_oracle),
            'cli-decls': (lambda c: 'clidecls ' + c, decl_impl, lambda c, g: None),
            'cli-init': (lambda c: 'cliinit', init_impl, init_oracle),
            'cli-formatted': (lambda c: 'clifmt %s %s' % tuple(c), fmt_impl, fmt_oracle)}[sec]
        try:
            got = impl_fn(case)
        except Exception as e:
            got = 'err ' + core.err_name(e)
        res = oracle_fn(case, got)
        print('case :', json.dumps(case)[:1500])
        print('impl :', got[:1500])
        print('model:', core.drive([line_fn(case)])[0][:1500])
    if res:
        print('oracle:', res[0], '-', res[1])
        print(f'VIOLATION property={prop} replay={path}')
        return 1
    print('no violation on this input')
    return 0
