"""Fingerprints of the package's source as it was when the hand-written models were last compared with it.

The hand-written parts of the model are tied to the code by differential runs; how many runs is a budget.  When a source
file differs from the fingerprinted revision (comments and layout do not count: the hash is taken over the AST), the quick
tier spends the thorough tier's generator budget on the correspondence and the failing-input searches.  A difference is
never an alarm by itself."""
import ast
import hashlib
import json
import os

HERE = os.path.dirname(os.path.dirname(os.path.dirname(os.path.abspath(__file__))))
FILE = os.path.join(HERE, 'fingerprints.json')


def compute(repo):
    out = {}
    root = os.path.join(repo, 'pykdebugparser')
    for dp, dn, fns in os.walk(root):
        dn[:] = sorted(d for d in dn if d != '__pycache__')
        for fn in sorted(fns):
            path = os.path.join(dp, fn)
            rel = os.path.relpath(path, repo)
            if fn.endswith('.py'):
                with open(path, 'rb') as fd:
                    src = fd.read()
                try:
                    h = hashlib.sha1(ast.dump(ast.parse(src)).encode()).hexdigest()
                except SyntaxError:
                    h = 'syntax-error:' + hashlib.sha1(src).hexdigest()
            elif fn.endswith(('.pyc', '.pyo')):
                continue
            else:
                with open(path, 'rb') as fd:
                    h = hashlib.sha1(fd.read()).hexdigest()
            out[rel] = h
    return out


def changed(repo):
    """Files whose fingerprint differs from the recorded one (added and removed files included)."""
    try:
        with open(FILE) as fd:
            base = json.load(fd)['files']
    except (OSError, ValueError, KeyError):
        return ['<no fingerprints.json>']
    now = compute(repo)
    return sorted(k for k in set(base) | set(now) if base.get(k) != now.get(k))


if __name__ == '__main__':
    import subprocess
    import sys
    repo = sys.argv[1] if len(sys.argv) > 1 else '/repo'
    rev = subprocess.run(['git', '-C', repo, 'rev-parse', 'HEAD'], capture_output=True, text=True).stdout.strip()
    with open(FILE, 'w') as fd:
        json.dump({'revision': rev, 'files': compute(repo)}, fd, indent=1, sort_keys=True)
    print('fingerprinted', repo, rev)
