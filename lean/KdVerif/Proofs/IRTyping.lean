import KdVerif.Model.IRTyping
import KdVerif.Proofs.IR
/-
  Soundness of the IR type discipline (`Model/IRTyping.lean`): a well-typed expression evaluates, to a
  value of its type, in every context that satisfies the checker's assumptions and the collected side
  conditions — by structural induction, once.  Lifted to constructor-argument lists and to `render`.
-/
namespace KdVerif.IR

/-! ### values and types -/

theorem hasTy_dyn (v : Val) : hasTy v .dyn = true := by cases v <;> rfl

theorem hasTy_int_of_nat {v : Val} (h : hasTy v .nat = true) : hasTy v .int = true := by
  cases v <;> simp_all [hasTy]

theorem hasTy_join_left {v : Val} {a : Ty} (b : Ty) (h : hasTy v a = true) : hasTy v (a.join b) = true := by
  unfold Ty.join
  split
  · exact h
  · split
    · rename_i h2
      rcases h2 with ⟨rfl, rfl⟩ | ⟨rfl, rfl⟩
      · exact hasTy_int_of_nat h
      · exact h
    · exact hasTy_dyn v

theorem hasTy_join_right {v : Val} (a : Ty) {b : Ty} (h : hasTy v b = true) : hasTy v (a.join b) = true := by
  unfold Ty.join
  split
  · rename_i h1; rw [h1]; exact h
  · split
    · rename_i h2
      rcases h2 with ⟨rfl, rfl⟩ | ⟨rfl, rfl⟩
      · exact h
      · exact hasTy_int_of_nat h
    · exact hasTy_dyn v

theorem asNat_intLike {v : Val} {τ : Ty} (h : hasTy v τ = true) (hi : τ.intLike = true) : ∃ i, asNat v = .ok i := by
  cases v <;> cases τ <;> simp_all [hasTy, Ty.intLike, asNat]

theorem asNat_natLike {v : Val} {τ : Ty} (h : hasTy v τ = true) (hi : τ.natLike = true) :
    ∃ i, asNat v = .ok i ∧ 0 ≤ i := by
  cases v <;> cases τ <;> simp_all [hasTy, Ty.natLike, asNat]
  split <;> omega

theorem natLike_intLike {τ : Ty} (h : τ.natLike = true) : τ.intLike = true := by
  cases τ <;> simp_all [Ty.natLike, Ty.intLike]

theorem val_of_member {v : Val} (h : hasTy v .member = true) : ∃ cls m, v = .member cls m := by
  cases v <;> simp_all [hasTy]

theorem val_of_members {v : Val} (h : hasTy v .members = true) : ∃ l, v = .members l := by
  cases v <;> simp_all [hasTy]

theorem val_of_ints {v : Val} (h : hasTy v .ints = true) : ∃ l, v = .ints l := by
  cases v <;> simp_all [hasTy]

theorem val_of_str {v : Val} (h : hasTy v .str = true) : ∃ s, v = .str s := by
  cases v <;> simp_all [hasTy]

/-! ### what the checker assumes about a context -/

structure Sat (Γ : TEnv) (c : Ctx) : Prop where
  fields : ∀ (i : Nat) (τ : Ty), Γ.fts[i]? = some τ → ∃ v, c.fields[i]? = some v ∧ hasTy v τ = true
  bound : Γ.bound ≤ c.win.lookups.length
  facts : ∀ t x, (t, x) ∈ Γ.facts →
    ∃ i, eval c x = .ok (.int i) ∧ 0 ≤ i ∧ (c.host.table t i.toNat).isSome = true
  start : c.win.startArgs.length = 4
  endA : c.win.endArgs.length = 4

theorem cmpBound_le (c : Ctx) (b : Bool) (op : CmpOp) (x y : Expr) (v : Val)
    (hg : eval c (.cmp op x y) = .ok v) (ht : truthy v = b) : cmpBound b op x y ≤ c.win.lookups.length := by
  unfold cmpBound
  split <;>
    first
    | omega
    | (simp only [eval, asNat, bind, Except.bind, pure, Except.pure, cmpInt, valEq, Except.ok.injEq] at hg
       subst hg
       simp only [truthy, decide_eq_true_eq, decide_eq_false_iff_not, Bool.not_eq_true'] at ht
       omega)

theorem boundIf_le (c : Ctx) (g : Expr) : ∀ (b : Bool) (v : Val), eval c g = .ok v → truthy v = b →
    boundIf b g ≤ c.win.lookups.length := by
  induction g with
  | notE g ih =>
    intro b v hg ht
    simp only [eval, bind, Except.bind] at hg
    cases hv : eval c g with
    | error e => simp [hv] at hg
    | ok w =>
      simp only [hv, pure, Except.pure, Except.ok.injEq] at hg
      subst hg
      simp only [boundIf]
      apply ih (!b) w hv
      have ht' : (!truthy w) = b := ht
      rw [← ht']; simp
  | toBool g ih =>
    intro b v hg ht
    simp only [eval, bind, Except.bind] at hg
    cases hv : eval c g with
    | error e => simp [hv] at hg
    | ok w =>
      simp only [hv, pure, Except.pure, Except.ok.injEq] at hg
      subst hg
      simp only [boundIf]
      exact ih b w hv (by simpa [truthy] using ht)
  | andE x y ihx ihy =>
    intro b v hg ht
    simp only [boundIf]
    cases b with
    | false => simp
    | true =>
      simp only [if_true]
      simp only [eval, bind, Except.bind] at hg
      cases hx : eval c x with
      | error e => simp [hx] at hg
      | ok w =>
        simp only [hx] at hg
        by_cases hw : truthy w = true
        · simp only [hw, if_true] at hg
          exact Nat.max_le.mpr ⟨ihx true w hx hw, ihy true v hg ht⟩
        · simp only [hw, Bool.false_eq_true, if_false, pure, Except.pure, Except.ok.injEq] at hg
          subst hg
          exact absurd ht hw
  | orE x y ihx ihy =>
    intro b v hg ht
    simp only [boundIf]
    cases b with
    | true => simp
    | false =>
      simp only [Bool.false_eq_true, if_false]
      simp only [eval, bind, Except.bind] at hg
      cases hx : eval c x with
      | error e => simp [hx] at hg
      | ok w =>
        simp only [hx] at hg
        by_cases hw : truthy w = true
        · simp only [hw, if_true, pure, Except.pure, Except.ok.injEq] at hg
          subst hg
          rw [hw] at ht; cases ht
        · simp only [hw, Bool.false_eq_true, if_false] at hg
          exact Nat.max_le.mpr ⟨ihx false w hx (by simpa using hw), ihy false v hg ht⟩
  | cmp op x y _ _ => intro b v hg ht; simp only [boundIf]; exact cmpBound_le c b op x y v hg ht
  | _ => intro b v _ _; simp [boundIf]

theorem factsIf_hold (c : Ctx) (g : Expr) : ∀ (b : Bool) (v : Val), eval c g = .ok v → truthy v = b →
    ∀ (t : HostTable) (x : Expr), (t, x) ∈ factsIf b g →
    ∃ i, eval c x = .ok (.int i) ∧ 0 ≤ i ∧ (c.host.table t i.toNat).isSome = true := by
  induction g with
  | notE g ih =>
    intro b v hg ht t x hm
    simp only [eval, bind, Except.bind] at hg
    cases hv : eval c g with
    | error e => simp [hv] at hg
    | ok w =>
      simp only [hv, pure, Except.pure, Except.ok.injEq] at hg
      subst hg
      simp only [factsIf] at hm
      apply ih (!b) w hv _ t x hm
      have ht' : (!truthy w) = b := ht
      rw [← ht']; simp
  | toBool g ih =>
    intro b v hg ht t x hm
    simp only [eval, bind, Except.bind] at hg
    cases hv : eval c g with
    | error e => simp [hv] at hg
    | ok w =>
      simp only [hv, pure, Except.pure, Except.ok.injEq] at hg
      subst hg
      simp only [factsIf] at hm
      exact ih b w hv (by simpa [truthy] using ht) t x hm
  | andE p q ihp ihq =>
    intro b v hg ht t x hm
    simp only [factsIf] at hm
    cases b with
    | false => simp at hm
    | true =>
      simp only [if_true, List.mem_append] at hm
      simp only [eval, bind, Except.bind] at hg
      cases hp : eval c p with
      | error e => simp [hp] at hg
      | ok w =>
        simp only [hp] at hg
        by_cases hw : truthy w = true
        · simp only [hw, if_true] at hg
          rcases hm with hm | hm
          · exact ihp true w hp hw t x hm
          · exact ihq true v hg ht t x hm
        · simp only [hw, Bool.false_eq_true, if_false, pure, Except.pure, Except.ok.injEq] at hg
          subst hg
          exact absurd ht hw
  | orE p q ihp ihq =>
    intro b v hg ht t x hm
    simp only [factsIf] at hm
    cases b with
    | true => simp at hm
    | false =>
      simp only [Bool.false_eq_true, if_false, List.mem_append] at hm
      simp only [eval, bind, Except.bind] at hg
      cases hp : eval c p with
      | error e => simp [hp] at hg
      | ok w =>
        simp only [hp] at hg
        by_cases hw : truthy w = true
        · simp only [hw, if_true, pure, Except.pure, Except.ok.injEq] at hg
          subst hg
          rw [hw] at ht; cases ht
        · simp only [hw, Bool.false_eq_true, if_false] at hg
          rcases hm with hm | hm
          · exact ihp false w hp (by simpa using hw) t x hm
          · exact ihq false v hg ht t x hm
  | hostHas t' x' _ =>
    intro b v hg ht t x hm
    simp only [factsIf] at hm
    cases b with
    | false => simp at hm
    | true =>
      simp only [if_true, List.mem_singleton, Prod.mk.injEq] at hm
      obtain ⟨rfl, rfl⟩ := hm
      simp only [eval, bind, Except.bind] at hg
      cases hx : eval c x with
      | error e => simp [hx] at hg
      | ok w =>
        simp only [hx] at hg
        cases w <;> simp only [pure, Except.pure, Except.ok.injEq] at hg <;> subst hg <;> simp [truthy] at ht
        rename_i i
        exact ⟨i, rfl, ht.1, ht.2⟩
  | _ => intro b v _ _ t x hm; simp [factsIf] at hm

theorem Sat.assume {Γ : TEnv} {c : Ctx} (hs : Sat Γ c) (b : Bool) (g : Expr) (v : Val) (hg : eval c g = .ok v)
    (ht : truthy v = b) : Sat (Γ.assume b g) c where
  fields := hs.fields
  bound := by
    simp only [TEnv.assume]
    exact Nat.max_le.mpr ⟨hs.bound, boundIf_le c g b v hg ht⟩
  facts := by
    intro t x hm
    simp only [TEnv.assume, List.mem_append] at hm
    rcases hm with hm | hm
    · exact factsIf_hold c g b v hg ht t x hm
    · exact hs.facts t x hm
  start := hs.start
  endA := hs.endA

/-! ### side conditions -/

theorem ok_of_under {c : Ctx} {g : Expr} {v : Val} {b : Bool} {cd : Cond} (hg : eval c g = .ok v)
    (hb : truthy v = b) (h : (Cond.under g b cd).ok c = true) : cd.ok c = true := by
  simp only [Cond.ok, Cond.under, List.all_cons, guardHolds, hg, hb, beq_self_eq_true, Bool.true_and] at h ⊢
  exact h

theorem conds_of_under {c : Ctx} {g : Expr} {v : Val} {b : Bool} {cs : List Cond} (hg : eval c g = .ok v)
    (hb : truthy v = b) (h : ∀ cd ∈ under g b cs, cd.ok c = true) : ∀ cd ∈ cs, cd.ok c = true := by
  intro cd hm
  exact ok_of_under hg hb (h _ (List.mem_map_of_mem hm))

theorem atom_of_plain {c : Ctx} {a : Atom} (h : (⟨[], a⟩ : Cond).ok c = true) : a.ok c = true := by
  simpa [Cond.ok] using h

theorem selectLookup_ok (w : Window) (sel : LookupSel) (n : Nat) (hn : n ≤ w.lookups.length)
    (h : selInRange n sel = true) : ∃ l, selectLookup w sel = .ok l := by
  cases sel with
  | first => simp only [selectLookup]; split <;> exact ⟨_, rfl⟩
  | rest => simp only [selectLookup]; split <;> exact ⟨_, rfl⟩
  | idx i =>
    simp only [selInRange] at h
    simp only [selectLookup]
    have hj : 0 ≤ (if i < 0 then i + (w.lookups.length : Int) else i) ∧
        (if i < 0 then i + (w.lookups.length : Int) else i) < (w.lookups.length : Int) := by
      split at h
      · simp only [decide_eq_true_eq] at h
        have : ¬ i < 0 := by omega
        simp only [this, if_false]
        omega
      · simp only [decide_eq_true_eq] at h
        have : i < 0 := by omega
        simp only [this, if_true]
        omega
    rw [if_pos hj]
    have hlt : (if i < 0 then i + (w.lookups.length : Int) else i).toNat < w.lookups.length := by omega
    rw [List.getElem?_eq_getElem hlt]
    exact ⟨_, rfl⟩

/-! ### soundness -/

section
attribute [local simp] bind Except.bind pure Except.pure

open Lean.Parser.Tactic in
/-- `∃ v, eval c e = .ok v ∧ hasTy v τ`: compute the value with `simp`, leave the typing goal. -/
local macro "ev" "[" ls:simpLemma,* "]" : tactic =>
  `(tactic| (apply Exists.intro; apply And.intro; (simp [$ls,*] <;> rfl)))

/-- **Soundness of the checker.**  If `infer Γ e = some (τ, cs)`, the context satisfies `Γ` (fields typed,
    at least `Γ.bound` lookups, the assumed `x in table` facts, four START and four END words) and every
    collected side condition holds, then `eval` succeeds on `e` with a value of type `τ`. -/
theorem infer_sound (c : Ctx) (e : Expr) : ∀ (Γ : TEnv) (τ : Ty) (cs : List Cond),
    infer Γ e = some (τ, cs) → Sat Γ c → (∀ cd ∈ cs, cd.ok c = true) →
    ∃ v, eval c e = .ok v ∧ hasTy v τ = true := by
  induction e with
  | startArg k =>
    intro Γ τ cs h hs _
    simp only [infer] at h
    split at h <;> simp only [Option.some.injEq, Prod.mk.injEq, reduceCtorEq] at h
    obtain ⟨rfl, _⟩ := h
    have hk : k < c.win.startArgs.length := by rw [hs.start]; assumption
    exact ⟨.int c.win.startArgs[k], by simp [eval, List.getElem?_eq_getElem hk], by simp [hasTy]⟩
  | endArg k =>
    intro Γ τ cs h hs _
    simp only [infer] at h
    split at h <;> simp only [Option.some.injEq, Prod.mk.injEq, reduceCtorEq] at h
    obtain ⟨rfl, _⟩ := h
    have hk : k < c.win.endArgs.length := by rw [hs.endA]; assumption
    exact ⟨.int c.win.endArgs[k], by simp [eval, List.getElem?_eq_getElem hk], by simp [hasTy]⟩
  | startTid =>
    intro Γ τ cs h _ _
    simp only [infer, Option.some.injEq, Prod.mk.injEq] at h
    obtain ⟨rfl, _⟩ := h
    exact ⟨_, rfl, by simp [hasTy]⟩
  | field i =>
    intro Γ τ cs h hs _
    simp only [infer] at h
    split at h <;> simp only [Option.some.injEq, Prod.mk.injEq, reduceCtorEq] at h
    rename_i τ' hf
    obtain ⟨rfl, _⟩ := h
    obtain ⟨v, hv, ht⟩ := hs.fields i _ hf
    exact ⟨v, by simp [eval, hv], ht⟩
  | int i =>
    intro Γ τ cs h _ _
    simp only [infer, Option.some.injEq, Prod.mk.injEq] at h
    obtain ⟨rfl, _⟩ := h
    refine ⟨_, rfl, ?_⟩
    split <;> simp [hasTy, *]
  | strLit s =>
    intro Γ τ cs h _ _
    simp only [infer, Option.some.injEq, Prod.mk.injEq] at h
    obtain ⟨rfl, _⟩ := h
    exact ⟨_, rfl, rfl⟩
  | bool b =>
    intro Γ τ cs h _ _
    simp only [infer, Option.some.injEq, Prod.mk.injEq] at h
    obtain ⟨rfl, _⟩ := h
    exact ⟨_, rfl, rfl⟩
  | none =>
    intro Γ τ cs h _ _
    simp only [infer, Option.some.injEq, Prod.mk.injEq] at h
    obtain ⟨rfl, _⟩ := h
    exact ⟨_, rfl, rfl⟩
  | memberConst en i =>
    intro Γ τ cs h _ hc
    simp only [infer, Option.some.injEq, Prod.mk.injEq] at h
    obtain ⟨rfl, rfl⟩ := h
    have := atom_of_plain (hc _ (List.mem_singleton.mpr rfl))
    simp only [Atom.ok] at this
    split at this
    · rename_i d hd
      cases hm : d.members[i]? with
      | none => simp [hm] at this
      | some m => ev [eval, hd, hm]; exact rfl
    · simp at this
  | cInt64 e ih =>
    intro Γ τ cs h hs hc
    simp only [infer] at h
    split at h
    · rename_i τe ce he
      split at h <;> simp only [Option.some.injEq, Prod.mk.injEq, reduceCtorEq] at h
      obtain ⟨rfl, rfl⟩ := h
      obtain ⟨v, hv, ht⟩ := ih _ _ _ he hs hc
      obtain ⟨i, hi⟩ := asNat_intLike ht ‹_›
      ev [eval, hv, hi]; exact rfl
    · simp at h
  | cInt32 e ih =>
    intro Γ τ cs h hs hc
    simp only [infer] at h
    split at h
    · rename_i τe ce he
      split at h <;> simp only [Option.some.injEq, Prod.mk.injEq, reduceCtorEq] at h
      obtain ⟨rfl, rfl⟩ := h
      obtain ⟨v, hv, ht⟩ := ih _ _ _ he hs hc
      obtain ⟨i, hi⟩ := asNat_intLike ht ‹_›
      ev [eval, hv, hi]; exact rfl
    · simp at h
  | band a b iha ihb =>
    intro Γ τ cs h hs hc
    simp only [infer] at h
    split at h
    · rename_i τa ca τb cb ha hb
      split at h <;> simp only [Option.some.injEq, Prod.mk.injEq, reduceCtorEq] at h
      rename_i hty
      simp only [Bool.and_eq_true] at hty
      obtain ⟨rfl, rfl⟩ := h
      obtain ⟨va, hva, hta⟩ := iha _ _ _ ha hs (fun cd hm => hc cd (List.mem_append_left _ hm))
      obtain ⟨vb, hvb, htb⟩ := ihb _ _ _ hb hs (fun cd hm => hc cd (List.mem_append_right _ hm))
      obtain ⟨i, hi⟩ := asNat_intLike hta hty.1
      obtain ⟨j, hj, hj0⟩ := asNat_natLike htb hty.2
      by_cases hi0 : 0 ≤ i
      · ev [eval, hva, hvb, hi, hj, bitAnd, hi0, hj0]; exact by simp [hasTy]
      · ev [eval, hva, hvb, hi, hj, bitAnd, hi0, hj0]; exact by simp [hasTy]
    · simp at h
  | bor a b iha ihb =>
    intro Γ τ cs h hs hc
    simp only [infer] at h
    split at h
    · rename_i τa ca τb cb ha hb
      split at h <;> simp only [Option.some.injEq, Prod.mk.injEq, reduceCtorEq] at h
      rename_i hty
      simp only [Bool.and_eq_true] at hty
      obtain ⟨rfl, rfl⟩ := h
      obtain ⟨va, hva, hta⟩ := iha _ _ _ ha hs (fun cd hm => hc cd (List.mem_append_left _ hm))
      obtain ⟨vb, hvb, htb⟩ := ihb _ _ _ hb hs (fun cd hm => hc cd (List.mem_append_right _ hm))
      obtain ⟨i, hi, hi0⟩ := asNat_natLike hta hty.1
      obtain ⟨j, hj, hj0⟩ := asNat_natLike htb hty.2
      ev [eval, hva, hvb, hi, hj, hi0, hj0]; exact by simp [hasTy]
    · simp at h
  | shr a b iha ihb =>
    intro Γ τ cs h hs hc
    simp only [infer] at h
    split at h
    · rename_i τa ca τb cb ha hb
      split at h <;> simp only [Option.some.injEq, Prod.mk.injEq, reduceCtorEq] at h
      rename_i hty
      simp only [Bool.and_eq_true] at hty
      obtain ⟨rfl, rfl⟩ := h
      obtain ⟨va, hva, hta⟩ := iha _ _ _ ha hs (fun cd hm => hc cd (List.mem_append_left _ hm))
      obtain ⟨vb, hvb, htb⟩ := ihb _ _ _ hb hs (fun cd hm => hc cd (List.mem_append_right _ hm))
      obtain ⟨i, hi⟩ := asNat_intLike hta hty.1
      obtain ⟨j, hj, hj0⟩ := asNat_natLike htb hty.2
      have hnj : ¬ j < 0 := by omega
      ev [eval, hva, hvb, hi, hj, hnj]
      split
      · rename_i hn
        obtain ⟨i', hi', hi0⟩ := asNat_natLike hta hn
        rw [hi] at hi'; cases hi'
        simp only [hasTy, decide_eq_true_eq]
        exact Int.ediv_nonneg hi0 (Int.le_of_lt (Int.pow_pos (by decide)))
      · simp [hasTy]
    · simp at h
  | shl a b iha ihb =>
    intro Γ τ cs h hs hc
    simp only [infer] at h
    split at h
    · rename_i τa ca τb cb ha hb
      split at h <;> simp only [Option.some.injEq, Prod.mk.injEq, reduceCtorEq] at h
      rename_i hty
      simp only [Bool.and_eq_true] at hty
      obtain ⟨rfl, rfl⟩ := h
      obtain ⟨va, hva, hta⟩ := iha _ _ _ ha hs (fun cd hm => hc cd (List.mem_append_left _ hm))
      obtain ⟨vb, hvb, htb⟩ := ihb _ _ _ hb hs (fun cd hm => hc cd (List.mem_append_right _ hm))
      obtain ⟨i, hi⟩ := asNat_intLike hta hty.1
      obtain ⟨j, hj, hj0⟩ := asNat_natLike htb hty.2
      have hnj : ¬ j < 0 := by omega
      ev [eval, hva, hvb, hi, hj, hnj]
      split
      · rename_i hn
        obtain ⟨i', hi', hi0⟩ := asNat_natLike hta hn
        rw [hi] at hi'; cases hi'
        simp only [hasTy, decide_eq_true_eq]
        exact Int.mul_nonneg hi0 (Int.le_of_lt (Int.pow_pos (by decide)))
      · simp [hasTy]
    · simp at h
  | toBool e ih =>
    intro Γ τ cs h hs hc
    simp only [infer] at h
    split at h <;> simp only [Option.some.injEq, Prod.mk.injEq, reduceCtorEq] at h
    rename_i τe ce he
    obtain ⟨rfl, rfl⟩ := h
    obtain ⟨v, hv, _⟩ := ih _ _ _ he hs hc
    ev [eval, hv]; exact rfl
  | notE e ih =>
    intro Γ τ cs h hs hc
    simp only [infer] at h
    split at h <;> simp only [Option.some.injEq, Prod.mk.injEq, reduceCtorEq] at h
    rename_i τe ce he
    obtain ⟨rfl, rfl⟩ := h
    obtain ⟨v, hv, _⟩ := ih _ _ _ he hs hc
    ev [eval, hv]; exact rfl
  | isNone e ih =>
    intro Γ τ cs h hs hc
    simp only [infer] at h
    split at h <;> simp only [Option.some.injEq, Prod.mk.injEq, reduceCtorEq] at h
    rename_i τe ce he
    obtain ⟨rfl, rfl⟩ := h
    obtain ⟨v, hv, _⟩ := ih _ _ _ he hs hc
    ev [eval, hv]; exact rfl
  | cmp op a b iha ihb =>
    intro Γ τ cs h hs hc
    simp only [infer] at h
    split at h
    · rename_i τa ca τb cb ha hb
      split at h <;> simp only [Option.some.injEq, Prod.mk.injEq, reduceCtorEq] at h
      rename_i hty
      obtain ⟨rfl, rfl⟩ := h
      obtain ⟨va, hva, hta⟩ := iha _ _ _ ha hs (fun cd hm => hc cd (List.mem_append_left _ hm))
      obtain ⟨vb, hvb, htb⟩ := ihb _ _ _ hb hs (fun cd hm => hc cd (List.mem_append_right _ hm))
      simp only [Bool.or_eq_true, decide_eq_true_eq, Bool.and_eq_true] at hty
      cases op with
      | eq => ev [eval, hva, hvb]; exact rfl
      | ne => ev [eval, hva, hvb]; exact rfl
      | lt | le | gt | ge =>
        simp only [reduceCtorEq, false_or] at hty
        obtain ⟨i, hi⟩ := asNat_intLike hta hty.1
        obtain ⟨j, hj⟩ := asNat_intLike htb hty.2
        ev [eval, hva, hvb, hi, hj]; exact rfl
    · simp at h
  | andE a b iha ihb =>
    intro Γ τ cs h hs hc
    simp only [infer] at h
    split at h <;> simp only [Option.some.injEq, Prod.mk.injEq, reduceCtorEq] at h
    rename_i τa ca τb cb ha hb
    obtain ⟨rfl, rfl⟩ := h
    obtain ⟨va, hva, hta⟩ := iha _ _ _ ha hs (fun cd hm => hc cd (List.mem_append_left _ hm))
    by_cases htr : truthy va = true
    · obtain ⟨vb, hvb, htb⟩ := ihb _ _ _ hb (hs.assume true a va hva htr)
        (conds_of_under hva htr (fun cd hm => hc cd (List.mem_append_right _ hm)))
      exact ⟨vb, by simp [eval, hva, htr, hvb], hasTy_join_right _ htb⟩
    · exact ⟨va, by simp [eval, hva, htr], hasTy_join_left _ hta⟩
  | orE a b iha ihb =>
    intro Γ τ cs h hs hc
    simp only [infer] at h
    split at h <;> simp only [Option.some.injEq, Prod.mk.injEq, reduceCtorEq] at h
    rename_i τa ca τb cb ha hb
    obtain ⟨rfl, rfl⟩ := h
    obtain ⟨va, hva, hta⟩ := iha _ _ _ ha hs (fun cd hm => hc cd (List.mem_append_left _ hm))
    by_cases htr : truthy va = true
    · exact ⟨va, by simp [eval, hva, htr], hasTy_join_left _ hta⟩
    · have htr' : truthy va = false := by simpa using htr
      obtain ⟨vb, hvb, htb⟩ := ihb _ _ _ hb (hs.assume false a va hva htr')
        (conds_of_under hva htr' (fun cd hm => hc cd (List.mem_append_right _ hm)))
      exact ⟨vb, by simp [eval, hva, htr, hvb], hasTy_join_right _ htb⟩
  | ite cnd t e ihc iht ihe =>
    intro Γ τ cs h hs hc
    simp only [infer] at h
    split at h <;> simp only [Option.some.injEq, Prod.mk.injEq, reduceCtorEq] at h
    rename_i τc cc τt ct τe ce hcn htn hen
    obtain ⟨rfl, rfl⟩ := h
    obtain ⟨vc, hvc, _⟩ := ihc _ _ _ hcn hs
      (fun cd hm => hc cd (List.mem_append_left _ (List.mem_append_left _ hm)))
    by_cases htr : truthy vc = true
    · obtain ⟨vt, hvt, htt⟩ := iht _ _ _ htn (hs.assume true cnd vc hvc htr)
        (conds_of_under hvc htr (fun cd hm => hc cd (List.mem_append_left _ (List.mem_append_right _ hm))))
      exact ⟨vt, by simp [eval, hvc, htr, hvt], hasTy_join_left _ htt⟩
    · have htr' : truthy vc = false := by simpa using htr
      obtain ⟨ve, hve, hte⟩ := ihe _ _ _ hen (hs.assume false cnd vc hvc htr')
        (conds_of_under hvc htr' (fun cd hm => hc cd (List.mem_append_right _ hm)))
      exact ⟨ve, by simp [eval, hvc, htr, hve], hasTy_join_right _ hte⟩
  | inList x l ihx ihl =>
    intro Γ τ cs h hs hc
    simp only [infer] at h
    split at h
    · rename_i τx cx τl cl hx hl
      split at h <;> simp only [Option.some.injEq, Prod.mk.injEq, reduceCtorEq] at h
      rename_i hty
      simp only [Bool.and_eq_true, decide_eq_true_eq] at hty
      obtain ⟨rfl, rfl⟩ := h
      obtain ⟨rfl, rfl⟩ := hty
      obtain ⟨vx, hvx, htx⟩ := ihx _ _ _ hx hs (fun cd hm => hc cd (List.mem_append_left _ hm))
      obtain ⟨vl, hvl, htl⟩ := ihl _ _ _ hl hs (fun cd hm => hc cd (List.mem_append_right _ hm))
      obtain ⟨cls, m, rfl⟩ := val_of_member htx
      obtain ⟨ms, rfl⟩ := val_of_members htl
      ev [eval, hvx, hvl]; exact rfl
    · simp at h
  | enumOf en x ih =>
    intro Γ τ cs h hs hc
    simp only [infer] at h
    split at h
    · rename_i τx cx hx
      split at h <;> simp only [Option.some.injEq, Prod.mk.injEq, reduceCtorEq] at h
      obtain ⟨rfl, rfl⟩ := h
      obtain ⟨v, hv, ht⟩ := ih _ _ _ hx hs (fun cd hm => hc cd (List.mem_append_left _ hm))
      obtain ⟨i, hi⟩ := asNat_intLike ht ‹_›
      have := atom_of_plain (hc _ (List.mem_append_right _ (List.mem_singleton.mpr rfl)))
      simp only [Atom.ok, evalNat, hv, hi] at this
      split at this
      · rename_i i' d hi' hd
        cases hi'
        cases hm : d.ofValue i with
        | none => simp [hm] at this
        | some m => ev [eval, hv, hi, hd, hm]; exact rfl
      · simp at this
    · simp at h
  | enumNameOr en x ih =>
    intro Γ τ cs h hs hc
    simp only [infer] at h
    split at h
    · rename_i τx cx hx
      split at h <;> simp only [Option.some.injEq, Prod.mk.injEq, reduceCtorEq] at h
      obtain ⟨rfl, rfl⟩ := h
      obtain ⟨v, hv, ht⟩ := ih _ _ _ hx hs (fun cd hm => hc cd (List.mem_append_left _ hm))
      obtain ⟨i, hi⟩ := asNat_intLike ht ‹_›
      have := atom_of_plain (hc _ (List.mem_append_right _ (List.mem_singleton.mpr rfl)))
      simp only [Atom.ok] at this
      cases hd : c.tables.enums[en]? with
      | none => simp [hd] at this
      | some d =>
        cases hm : d.ofValue i with
        | none => ev [eval, hv, hi, hd, hm]; exact hasTy_dyn _
        | some m => ev [eval, hv, hi, hd, hm]; exact hasTy_dyn _
    · simp at h
  | flagsOf en x ih =>
    intro Γ τ cs h hs hc
    simp only [infer] at h
    split at h
    · rename_i τx cx hx
      split at h <;> simp only [Option.some.injEq, Prod.mk.injEq, reduceCtorEq] at h
      obtain ⟨rfl, rfl⟩ := h
      obtain ⟨v, hv, ht⟩ := ih _ _ _ hx hs (fun cd hm => hc cd (List.mem_append_left _ hm))
      obtain ⟨i, hi⟩ := asNat_intLike ht ‹_›
      have := atom_of_plain (hc _ (List.mem_append_right _ (List.mem_singleton.mpr rfl)))
      simp only [Atom.ok] at this
      cases hd : c.tables.enums[en]? with
      | none => simp [hd] at this
      | some d =>
        by_cases h0 : 0 ≤ i
        · ev [eval, hv, hi, hd, h0]; exact rfl
        · ev [eval, hv, hi, hd, h0]; exact rfl
    · simp at h
  | singleton e ih =>
    intro Γ τ cs h hs hc
    simp only [infer] at h
    split at h
    · rename_i τe ce he
      split at h <;> simp only [Option.some.injEq, Prod.mk.injEq, reduceCtorEq] at h
      rename_i hty
      obtain ⟨rfl, rfl⟩ := h
      subst hty
      obtain ⟨v, hv, ht⟩ := ih _ _ _ he hs hc
      obtain ⟨cls, m, rfl⟩ := val_of_member ht
      ev [eval, hv]; exact rfl
    · simp at h
  | nilList =>
    intro Γ τ cs h _ _
    simp only [infer, Option.some.injEq, Prod.mk.injEq] at h
    obtain ⟨rfl, _⟩ := h
    exact ⟨_, rfl, rfl⟩
  | startArgsList =>
    intro Γ τ cs h _ _
    simp only [infer, Option.some.injEq, Prod.mk.injEq] at h
    obtain ⟨rfl, _⟩ := h
    exact ⟨_, rfl, rfl⟩
  | helper hp x ih =>
    intro Γ τ cs h hs hc
    simp only [infer] at h
    split at h
    · rename_i τx cx hx
      split at h <;> simp only [Option.some.injEq, Prod.mk.injEq, reduceCtorEq] at h
      obtain ⟨rfl, rfl⟩ := h
      obtain ⟨v, hv, ht⟩ := ih _ _ _ hx hs hc
      obtain ⟨i, hi, hi0⟩ := asNat_natLike ht ‹_›
      have hn : ¬ i < 0 := by omega
      cases hp
      · ev [eval, hv, hi, hn]; exact rfl
      · ev [eval, hv, hi, hn]; exact rfl
    · simp at h
  | hostEnum t x ih =>
    intro Γ τ cs h hs hc
    simp only [infer] at h
    split at h
    · rename_i τx cx hx
      split at h <;> simp only [Option.some.injEq, Prod.mk.injEq, reduceCtorEq] at h
      obtain ⟨rfl, rfl⟩ := h
      obtain ⟨v, hv, ht⟩ := ih _ _ _ hx hs (fun cd hm => hc cd (List.mem_append_left _ hm))
      obtain ⟨i, hi⟩ := asNat_intLike ht ‹_›
      have := atom_of_plain (hc _ (List.mem_append_right _ (List.mem_singleton.mpr rfl)))
      simp only [Atom.ok, evalNat, hv, hi, Bool.and_eq_true, decide_eq_true_eq] at this
      have hn : ¬ i < 0 := by omega
      cases hm : c.host.table t i.toNat with
      | none => simp [hm] at this
      | some n => ev [eval, hv, hi, hn, hm]; exact rfl
    · simp at h
  | hostHas t x ih =>
    intro Γ τ cs h hs hc
    simp only [infer] at h
    split at h <;> simp only [Option.some.injEq, Prod.mk.injEq, reduceCtorEq] at h
    rename_i τx cx hx
    obtain ⟨rfl, rfl⟩ := h
    obtain ⟨v, hv, _⟩ := ih _ _ _ hx hs hc
    cases v <;> (ev [eval, hv]; exact rfl)
  | hostGet t x ih =>
    intro Γ τ cs h hs hc
    simp only [infer] at h
    split at h
    · rename_i τx cx hx
      split at h
      · rename_i hfact
        simp only [Option.some.injEq, Prod.mk.injEq] at h
        obtain ⟨rfl, rfl⟩ := h
        have hmem : (t, x) ∈ Γ.facts := by simpa using hfact
        obtain ⟨i, hi, hi0, hsome⟩ := hs.facts t x hmem
        have hn : ¬ i < 0 := by omega
        cases hm : c.host.table t i.toNat with
        | none => simp [hm] at hsome
        | some n => ev [eval, hi, asNat, hn, hm]; exact rfl
      · split at h <;> simp only [Option.some.injEq, Prod.mk.injEq, reduceCtorEq] at h
        obtain ⟨rfl, rfl⟩ := h
        obtain ⟨v, hv, ht⟩ := ih _ _ _ hx hs (fun cd hm => hc cd (List.mem_append_left _ hm))
        obtain ⟨i, hi⟩ := asNat_intLike ht ‹_›
        have := atom_of_plain (hc _ (List.mem_append_right _ (List.mem_singleton.mpr rfl)))
        simp only [Atom.ok, evalNat, hv, hi, Bool.and_eq_true, decide_eq_true_eq] at this
        have hn : ¬ i < 0 := by omega
        cases hm : c.host.table t i.toNat with
        | none => simp [hm] at this
        | some n => ev [eval, hv, hi, hn, hm]; exact rfl
    · simp at h
  | hostSolSocket =>
    intro Γ τ cs h _ _
    simp only [infer, Option.some.injEq, Prod.mk.injEq] at h
    obtain ⟨rfl, _⟩ := h
    exact ⟨_, rfl, by simp [hasTy]⟩
  | lookupCount =>
    intro Γ τ cs h _ _
    simp only [infer, Option.some.injEq, Prod.mk.injEq] at h
    obtain ⟨rfl, _⟩ := h
    exact ⟨_, rfl, by simp [hasTy]⟩
  | lookupPath sel =>
    intro Γ τ cs h hs _
    simp only [infer] at h
    split at h <;> simp only [Option.some.injEq, Prod.mk.injEq, reduceCtorEq] at h
    obtain ⟨rfl, _⟩ := h
    obtain ⟨l, hl⟩ := selectLookup_ok c.win sel Γ.bound hs.bound ‹_›
    ev [eval, hl]; exact rfl
  | lookupVnode sel =>
    intro Γ τ cs h hs _
    simp only [infer] at h
    split at h <;> simp only [Option.some.injEq, Prod.mk.injEq, reduceCtorEq] at h
    obtain ⟨rfl, _⟩ := h
    obtain ⟨l, hl⟩ := selectLookup_ok c.win sel Γ.bound hs.bound ‹_›
    ev [eval, hl]; exact by simp [hasTy]
  | lookupPathOrEmpty =>
    intro Γ τ cs h hs _
    simp only [infer, Option.some.injEq, Prod.mk.injEq] at h
    obtain ⟨rfl, _⟩ := h
    obtain ⟨l, hl⟩ := selectLookup_ok c.win .first 0 (Nat.zero_le _) rfl
    ev [eval, hl]; exact rfl
  | lookupRestPathOrEmpty =>
    intro Γ τ cs h hs _
    simp only [infer, Option.some.injEq, Prod.mk.injEq] at h
    obtain ⟨rfl, _⟩ := h
    obtain ⟨l, hl⟩ := selectLookup_ok c.win .rest 0 (Nat.zero_le _) rfl
    ev [eval, hl]; exact rfl
  | lookupVnodeOrZero =>
    intro Γ τ cs h hs _
    simp only [infer, Option.some.injEq, Prod.mk.injEq] at h
    obtain ⟨rfl, _⟩ := h
    obtain ⟨l, hl⟩ := selectLookup_ok c.win .first 0 (Nat.zero_le _) rfl
    ev [eval, hl]; exact by simp [hasTy]
  | globalStr x _ =>
    intro Γ τ cs h _ _
    simp [infer] at h
  | globalStrGet x d ihx ihd =>
    intro Γ τ cs h hs hc
    simp only [infer] at h
    split at h
    · rename_i τx cx τd cd hx hd
      split at h <;> simp only [Option.some.injEq, Prod.mk.injEq, reduceCtorEq] at h
      obtain ⟨rfl, rfl⟩ := h
      obtain ⟨vx, hvx, htx⟩ := ihx _ _ _ hx hs (fun cd hm => hc cd (List.mem_append_left _ hm))
      obtain ⟨vd, hvd, htd⟩ := ihd _ _ _ hd hs (fun cd hm => hc cd (List.mem_append_right _ hm))
      obtain ⟨i, hi⟩ := asNat_intLike htx ‹_›
      by_cases hn : i < 0
      · exact ⟨vd, by simp [eval, hvx, hvd, hi, hn], hasTy_join_right _ htd⟩
      · cases hg : c.win.globalStrings i.toNat with
        | none => exact ⟨vd, by simp [eval, hvx, hvd, hi, hn, hg], hasTy_join_right _ htd⟩
        | some s => exact ⟨.str s, by simp [eval, hvx, hvd, hi, hn, hg], hasTy_join_left _ rfl⟩
    · simp at h
  | threadsPidsGet x ih =>
    intro Γ τ cs h hs hc
    simp only [infer] at h
    split at h
    · rename_i τx cx hx
      split at h <;> simp only [Option.some.injEq, Prod.mk.injEq, reduceCtorEq] at h
      obtain ⟨rfl, rfl⟩ := h
      obtain ⟨v, hv, ht⟩ := ih _ _ _ hx hs hc
      obtain ⟨i, hi⟩ := asNat_intLike ht ‹_›
      by_cases hn : i < 0
      · ev [eval, hv, hi, hn]; exact hasTy_dyn _
      · cases hg : c.win.threadsPids i.toNat with
        | none => ev [eval, hv, hi, hn, hg]; exact hasTy_dyn _
        | some p => ev [eval, hv, hi, hn, hg]; exact hasTy_dyn _
    · simp at h
  | tidsNamesGet x d ihx ihd =>
    intro Γ τ cs h hs hc
    simp only [infer] at h
    split at h
    · rename_i τx cx τd cd hx hd
      split at h <;> simp only [Option.some.injEq, Prod.mk.injEq, reduceCtorEq] at h
      obtain ⟨rfl, rfl⟩ := h
      obtain ⟨vx, hvx, htx⟩ := ihx _ _ _ hx hs (fun cd hm => hc cd (List.mem_append_left _ hm))
      obtain ⟨vd, hvd, htd⟩ := ihd _ _ _ hd hs (fun cd hm => hc cd (List.mem_append_right _ hm))
      obtain ⟨i, hi⟩ := asNat_intLike htx ‹_›
      by_cases hn : i < 0
      · exact ⟨vd, by simp [eval, hvx, hvd, hi, hn], hasTy_join_right _ htd⟩
      · cases hg : c.win.tidsNames i.toNat with
        | none => exact ⟨vd, by simp [eval, hvx, hvd, hi, hn, hg], hasTy_join_right _ htd⟩
        | some s => exact ⟨.str s, by simp [eval, hvx, hvd, hi, hn, hg], hasTy_join_left _ rfl⟩
    · simp at h
  | uuidOfData =>
    intro Γ τ cs h _ _
    simp only [infer, Option.some.injEq, Prod.mk.injEq] at h
    obtain ⟨rfl, _⟩ := h
    exact ⟨_, rfl, rfl⟩
  | constDict dn x ih =>
    intro Γ τ cs h hs hc
    simp only [infer] at h
    split at h
    · rename_i τx cx hx
      split at h <;> simp only [Option.some.injEq, Prod.mk.injEq, reduceCtorEq] at h
      obtain ⟨rfl, rfl⟩ := h
      obtain ⟨v, hv, ht⟩ := ih _ _ _ hx hs (fun cd hm => hc cd (List.mem_append_left _ hm))
      obtain ⟨i, hi⟩ := asNat_intLike ht ‹_›
      have := atom_of_plain (hc _ (List.mem_append_right _ (List.mem_singleton.mpr rfl)))
      simp only [Atom.ok, evalNat, hv, hi] at this
      split at this
      · rename_i i' l hi' hl
        cases hi'
        simp only [Bool.and_eq_true, decide_eq_true_eq] at this
        cases hm : l.lookup i.toNat with
        | none => simp [hm] at this
        | some s => ev [eval, hv, hi, hl, hm, this.1]; exact rfl
      · simp at this
    · simp at h
  | cat a b iha ihb =>
    intro Γ τ cs h hs hc
    simp only [infer] at h
    split at h
    · rename_i τa ca τb cb ha hb
      split at h <;> simp only [Option.some.injEq, Prod.mk.injEq, reduceCtorEq] at h
      rename_i hty
      simp only [Bool.and_eq_true, decide_eq_true_eq] at hty
      obtain ⟨rfl, rfl⟩ := h
      obtain ⟨rfl, rfl⟩ := hty
      obtain ⟨va, hva, hta⟩ := iha _ _ _ ha hs (fun cd hm => hc cd (List.mem_append_left _ hm))
      obtain ⟨vb, hvb, htb⟩ := ihb _ _ _ hb hs (fun cd hm => hc cd (List.mem_append_right _ hm))
      obtain ⟨s, rfl⟩ := val_of_str hta
      obtain ⟨s', rfl⟩ := val_of_str htb
      ev [eval, hva, hvb]; exact rfl
    · simp at h
  | strOf e ih =>
    intro Γ τ cs h hs hc
    simp only [infer] at h
    split at h <;> simp only [Option.some.injEq, Prod.mk.injEq, reduceCtorEq] at h
    rename_i τe ce he
    obtain ⟨rfl, rfl⟩ := h
    obtain ⟨v, hv, _⟩ := ih _ _ _ he hs hc
    ev [eval, hv]; exact rfl
  | hexOf e ih =>
    intro Γ τ cs h hs hc
    simp only [infer] at h
    split at h
    · rename_i τe ce he
      split at h <;> simp only [Option.some.injEq, Prod.mk.injEq, reduceCtorEq] at h
      rename_i hty
      obtain ⟨rfl, rfl⟩ := h
      obtain ⟨v, hv, ht⟩ := ih _ _ _ he hs hc
      cases v <;> cases τe <;> simp_all [hasTy, Ty.intLike, eval]
    · simp at h
  | nameOf e ih =>
    intro Γ τ cs h hs hc
    simp only [infer] at h
    split at h
    · rename_i τe ce he
      split at h <;> simp only [Option.some.injEq, Prod.mk.injEq, reduceCtorEq] at h
      rename_i hty
      obtain ⟨rfl, rfl⟩ := h
      subst hty
      obtain ⟨v, hv, ht⟩ := ih _ _ _ he hs hc
      obtain ⟨cls, m, rfl⟩ := val_of_member ht
      ev [eval, hv]; exact rfl
    · simp at h
  | joinNames sep e ih =>
    intro Γ τ cs h hs hc
    simp only [infer] at h
    split at h
    · rename_i τe ce he
      split at h <;> simp only [Option.some.injEq, Prod.mk.injEq, reduceCtorEq] at h
      rename_i hty
      obtain ⟨rfl, rfl⟩ := h
      subst hty
      obtain ⟨v, hv, ht⟩ := ih _ _ _ he hs hc
      obtain ⟨l, rfl⟩ := val_of_members ht
      ev [eval, hv]; exact rfl
    · simp at h
  | joinHex sep e ih =>
    intro Γ τ cs h hs hc
    simp only [infer] at h
    split at h
    · rename_i τe ce he
      split at h <;> simp only [Option.some.injEq, Prod.mk.injEq, reduceCtorEq] at h
      rename_i hty
      obtain ⟨rfl, rfl⟩ := h
      subst hty
      obtain ⟨v, hv, ht⟩ := ih _ _ _ he hs hc
      obtain ⟨l, rfl⟩ := val_of_ints ht
      ev [eval, hv]; exact rfl
    · simp at h
  | lower e ih =>
    intro Γ τ cs h hs hc
    simp only [infer] at h
    split at h
    · rename_i τe ce he
      split at h <;> simp only [Option.some.injEq, Prod.mk.injEq, reduceCtorEq] at h
      rename_i hty
      obtain ⟨rfl, rfl⟩ := h
      subst hty
      obtain ⟨v, hv, ht⟩ := ih _ _ _ he hs hc
      obtain ⟨s, rfl⟩ := val_of_str ht
      ev [eval, hv]; exact rfl
    · simp at h
  | chrOf x ih =>
    intro Γ τ cs h hs hc
    simp only [infer] at h
    split at h
    · rename_i τx cx hx
      split at h <;> simp only [Option.some.injEq, Prod.mk.injEq, reduceCtorEq] at h
      obtain ⟨rfl, rfl⟩ := h
      obtain ⟨v, hv, ht⟩ := ih _ _ _ hx hs (fun cd hm => hc cd (List.mem_append_left _ hm))
      obtain ⟨i, hi⟩ := asNat_intLike ht ‹_›
      have := atom_of_plain (hc _ (List.mem_append_right _ (List.mem_singleton.mpr rfl)))
      simp only [Atom.ok, evalNat, hv, hi, decide_eq_true_eq] at this
      ev [eval, hv, hi, this]; exact rfl
    · simp at h
  | lenOf e ih =>
    intro Γ τ cs h hs hc
    simp only [infer] at h
    split at h
    · rename_i τe ce he
      split at h <;> simp only [Option.some.injEq, Prod.mk.injEq, reduceCtorEq] at h
      rename_i hty
      obtain ⟨rfl, rfl⟩ := h
      obtain ⟨v, hv, ht⟩ := ih _ _ _ he hs hc
      simp only [Bool.or_eq_true, decide_eq_true_eq] at hty
      rcases hty with (rfl | rfl) | rfl
      · obtain ⟨l, rfl⟩ := val_of_members ht
        ev [eval, hv]; exact by simp [hasTy]
      · obtain ⟨l, rfl⟩ := val_of_ints ht
        ev [eval, hv]; exact by simp [hasTy]
      · obtain ⟨s, rfl⟩ := val_of_str ht
        ev [eval, hv]; exact by simp [hasTy]
    · simp at h
  | unsupported s =>
    intro Γ τ cs h _ _
    simp [infer] at h

end

end KdVerif.IR

namespace KdVerif.IR

/-! ### constructor arguments and `render` -/

theorem sat_empty (c : Ctx) (hs : c.win.startArgs.length = 4) (he : c.win.endArgs.length = 4) : Sat {} c where
  fields := by intro i τ h; simp at h
  bound := Nat.zero_le _
  facts := by intro t x h; simp at h
  start := hs
  endA := he

theorem inferFields_sound (c : Ctx) (hs : c.win.startArgs.length = 4) (he : c.win.endArgs.length = 4)
    (es : List Expr) : ∀ (τs : List Ty) (cs : List Cond), inferFields es = some (τs, cs) →
    (∀ cd ∈ cs, cd.ok c = true) →
    ∃ vs, evalFields c es = .ok vs ∧ ∀ (i : Nat) (τ : Ty), τs[i]? = some τ → ∃ v, vs[i]? = some v ∧ hasTy v τ = true := by
  induction es with
  | nil =>
    intro τs cs h _
    simp only [inferFields, Option.some.injEq, Prod.mk.injEq] at h
    obtain ⟨rfl, _⟩ := h
    exact ⟨[], rfl, by intro i τ h; simp at h⟩
  | cons e es ih =>
    intro τs cs h hc
    simp only [inferFields] at h
    split at h <;> simp only [Option.some.injEq, Prod.mk.injEq, reduceCtorEq] at h
    rename_i τ ce τs' cs' he' hes
    obtain ⟨rfl, rfl⟩ := h
    obtain ⟨v, hv, ht⟩ := infer_sound c e _ _ _ he' (sat_empty c hs he) (fun cd hm => hc cd (List.mem_append_left _ hm))
    obtain ⟨vs, hvs, hts⟩ := ih _ _ hes (fun cd hm => hc cd (List.mem_append_right _ hm))
    refine ⟨v :: vs, by simp [evalFields, hv, hvs, bind, Except.bind, pure, Except.pure], ?_⟩
    intro i τ' hi
    cases i with
    | zero => simp only [List.getElem?_cons_zero, Option.some.injEq] at hi; subst hi; exact ⟨v, rfl, ht⟩
    | succ i => simpa using hts i τ' (by simpa using hi)

theorem all_congr_mem {α : Type} {l : List α} {p q : α → Bool} (h : ∀ x ∈ l, p x = q x) : l.all p = l.all q := by
  induction l with
  | nil => rfl
  | cons a l ih =>
    simp only [List.all_cons, h a (List.mem_cons_self ..), ih (fun x hx => h x (List.mem_cons_of_mem _ hx))]

theorem evalNat_subst (c : Ctx) (hc : c.fields = []) (fs : List Expr) (vs : List Val)
    (h : evalFields c fs = .ok vs) (x : Expr) : evalNat c (subst fs x) = evalNat { c with fields := vs } x := by
  simp only [evalNat, eval_subst c hc fs vs h x]

theorem Atom.ok_subst (c : Ctx) (hc : c.fields = []) (fs : List Expr) (vs : List Val)
    (h : evalFields c fs = .ok vs) (a : Atom) : (a.subst fs).ok c = a.ok { c with fields := vs } := by
  cases a <;> simp only [Atom.subst, Atom.ok, evalNat_subst c hc fs vs h]

theorem Cond.ok_subst (c : Ctx) (hc : c.fields = []) (fs : List Expr) (vs : List Val)
    (h : evalFields c fs = .ok vs) (cd : Cond) : (cd.subst fs).ok c = cd.ok { c with fields := vs } := by
  simp only [Cond.ok, Cond.subst, Atom.ok_subst c hc fs vs h, List.all_map]
  have : cd.guards.all (guardHolds c ∘ fun g => (IR.subst fs g.1, g.2))
      = cd.guards.all (guardHolds { c with fields := vs }) :=
    all_congr_mem (fun g _ => by simp only [Function.comp, guardHolds, eval_subst c hc fs vs h])
  rw [this]

/-- A decoder that passes the checker renders whenever its side conditions hold on the window: the
    constructor call succeeds and `__str__` yields a string — whatever the lookups and context tables. -/
theorem render_ok (h : Host) (t : Tables) (d : Decoder) (w : Window) (k : Checked)
    (hk : checkDecoder d = some k) (hs : w.startArgs.length = 4) (he : w.endArgs.length = 4)
    (hc : ∀ cd ∈ k.conds, cd.ok (ctxOf h t w) = true) :
    ∃ fs text, evalFields (ctxOf h t w) d.fields = .ok fs ∧
      eval { ctxOf h t w with fields := fs } d.str = .ok (.str text) ∧ render h t d w = .ok text ∧
      ∀ (i : Nat) (τ : Ty), k.fieldTys[i]? = some τ → ∃ v, fs[i]? = some v ∧ hasTy v τ = true := by
  unfold checkDecoder at hk
  split at hk
  · rename_i fts fc hf
    split at hk
    · rename_i τ sc hsi
      split at hk <;> simp only [Option.some.injEq, reduceCtorEq] at hk
      rename_i hτ
      subst hτ hk
      simp only [Checked.conds] at hc
      obtain ⟨vs, hvs, hts⟩ := inferFields_sound (ctxOf h t w) hs he d.fields _ _ hf
        (fun cd hm => hc cd (List.mem_append_left _ hm))
      have hsat : Sat { fts := fts } { ctxOf h t w with fields := vs } :=
        { fields := hts, bound := Nat.zero_le _, facts := by intro t x hm; simp at hm, start := hs, endA := he }
      have hsc : ∀ cd ∈ sc, cd.ok { ctxOf h t w with fields := vs } = true := by
        intro cd hm
        rw [← Cond.ok_subst (ctxOf h t w) rfl d.fields vs hvs cd]
        exact hc _ (List.mem_append_right _ (List.mem_map_of_mem hm))
      obtain ⟨v, hv, ht⟩ := infer_sound _ d.str _ _ _ hsi hsat hsc
      obtain ⟨s, rfl⟩ := val_of_str ht
      refine ⟨vs, s, hvs, hv, ?_, hts⟩
      simp only [ctxOf] at hvs hv
      simp [render, hvs, hv, bind, Except.bind, pure, Except.pure]
    · simp at hk
  · simp at hk

/-! ### side conditions read the event's own words -/

theorem evalNat_congr (s : Sel) (c c' : Ctx) (h : Agree s c c') (x : Expr) (hw : within s x = true) :
    evalNat c x = evalNat c' x := by simp only [evalNat, eval_congr s c c' h x hw]

theorem Atom.ok_congr (s : Sel) (c c' : Ctx) (h : Agree s c c') (a : Atom) (hw : a.within s = true) :
    a.ok c = a.ok c' := by
  cases a with
  | enumDefined e => simp only [Atom.ok, h.tables]
  | memberDefined e i => simp only [Atom.ok, h.tables]
  | isMember e x => simp only [Atom.within] at hw; simp only [Atom.ok, h.tables, evalNat_congr s c c' h x hw]
  | dictKey d x => simp only [Atom.within] at hw; simp only [Atom.ok, h.tables, evalNat_congr s c c' h x hw]
  | chrRange x => simp only [Atom.within] at hw; simp only [Atom.ok, evalNat_congr s c c' h x hw]
  | hostMember t x =>
    simp only [Atom.within, Bool.and_eq_true] at hw
    simp only [Atom.ok, evalNat_congr s c c' h x hw.2, hostTable_congr s c c' h t hw.1]
  | hostKey t x =>
    simp only [Atom.within, Bool.and_eq_true] at hw
    simp only [Atom.ok, evalNat_congr s c c' h x hw.2, hostTable_congr s c c' h t hw.1]

theorem Cond.ok_congr (s : Sel) (c c' : Ctx) (h : Agree s c c') (cd : Cond) (hw : cd.within s = true) :
    cd.ok c = cd.ok c' := by
  simp only [Cond.within, Bool.and_eq_true, List.all_eq_true] at hw
  simp only [Cond.ok, Atom.ok_congr s c c' h cd.atom hw.2]
  have : cd.guards.all (guardHolds c) = cd.guards.all (guardHolds c') :=
    all_congr_mem (fun g hg => by simp only [guardHolds, eval_congr s c c' h g.1 (hw.1 g hg)])
  rw [this]

end KdVerif.IR
