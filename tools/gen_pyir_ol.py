"""Translator of the LOG-RECORD HELPERS: `OsLogEvent.parse_trace_identifier`, `OsLogEvent.parse_decomposed` and
`OsLogEvent.parse_decomposed_segment` of pykdebugparser/os_log_event.py (pure `ast`, nothing is imported or run)
-> lean/KdVerif/Gen/PyIROl.lean, one `Program` of the IR of lean/KdVerif/Model/PyIROl.lean:

    the three `@classmethod`s                      -> FunDef   (parameters after `cls`, statements)
    every module-level `@dataclass` they construct -> ClassDef (field names in declaration order)
    the module-level dicts keyed by enum members   -> `tables` (documentation + the reflection check of Props/C16)

Normal form (so that harmless rewrites give the same term):
  * a statement list is a right-nested `seq`; an `if` without `else` has `skip` as its else branch (`elif` is a nested `if`);
    docstrings and `pass` vanish;
  * `cls` and the parameters may have any name; parameters are numbered first, then locals and comprehension variables in
    source order of their first binding;
  * `'k' not in e`, `not 'k' in e`, `not ('k' in e)` are all `not (hasKey k e)`; `a != b` is `not (a == b)`;
    `a is Cls.X` is `a == Cls.X`; `m & x` is `x & m`; positional constructor arguments become keywords by field order;
  * an ALIAS — a local bound exactly once to `<parameter or alias>['k']…` whose first use is the first thing evaluated after
    the binding (only bindings of constants / empty displays in between), all of whose uses follow in the same block, and
    whose parameters are never rebound — is inlined (`placeholder = segment['p']`): the expression is pure, raises at the
    first use exactly what it would have raised at the binding, and gives the same value at every later use, because no
    object reachable from a parameter is ever updated (see the next point);
  * `v['k'] = e` is translated only when `v` OWNS its dict: every binding of `v` is a dict display, and `v` has not been
    stored, passed, returned-from-a-continuing-path or otherwise read as a whole before the update (the interpreter treats
    dicts as values; this is Python's meaning exactly when the updated object is referenced from nowhere else).
Everything else becomes an explicit `.unsupported "<source text>"` node or an entry of `notes`: never a guess."""
import ast
import os

METHODS = ('parse_trace_identifier', 'parse_decomposed', 'parse_decomposed_segment')
OWNER = 'OsLogEvent'
STRUCT = 'firehose_tracepoint_id'
ENUM_BASES = ('Enum', 'IntEnum', 'Flag', 'IntFlag')


def src(node):
    try:
        return ' '.join(ast.unparse(node).split())
    except Exception:
        return '<?>'


def is_str(e):
    return isinstance(e, ast.Constant) and isinstance(e.value, str)


def int_const(e):
    """the value of an int literal (also `-3`), else None"""
    if isinstance(e, ast.Constant) and isinstance(e.value, int) and not isinstance(e.value, bool):
        return e.value
    if isinstance(e, ast.UnaryOp) and isinstance(e.op, ast.USub):
        v = int_const(e.operand)
        return -v if v is not None else None
    return None


def pos(n):
    return (n.lineno, n.col_offset)


def end(n):
    return (n.end_lineno, n.end_col_offset)


class Module:
    """what the three methods may name: enum classes, dataclasses, enum-keyed dicts, the struct"""

    def __init__(self, tree, notes):
        self.enums, self.dataclasses, self.tables, self.struct_ok = set(), {}, {}, False
        bound = {}
        for node in tree.body:
            if isinstance(node, ast.ClassDef):
                bound[node.name] = bound.get(node.name, 0) + 1
                bases = [b.attr if isinstance(b, ast.Attribute) else getattr(b, 'id', None) for b in node.bases]
                if len(bases) == 1 and bases[0] in ENUM_BASES and not node.decorator_list:
                    self.enums.add(node.name)
                elif any((isinstance(d, ast.Name) and d.id == 'dataclass') or
                         (isinstance(d, ast.Attribute) and d.attr == 'dataclass') for d in node.decorator_list):
                    fields, defaults, other = [], False, False
                    for st in node.body:
                        if isinstance(st, ast.AnnAssign) and isinstance(st.target, ast.Name):
                            fields.append(st.target.id)
                            defaults = defaults or st.value is not None
                        elif isinstance(st, (ast.FunctionDef, ast.Pass)) or \
                                (isinstance(st, ast.Expr) and isinstance(st.value, ast.Constant)):
                            if isinstance(st, ast.FunctionDef) and st.name in ('__init__', '__new__', '__post_init__',
                                                                               '__setattr__'):
                                other = True
                        else:
                            other = True
                    self.dataclasses[node.name] = (fields, defaults or other or len(node.decorator_list) != 1
                                                   or bool(node.bases))
            elif isinstance(node, ast.Assign) and len(node.targets) == 1 and isinstance(node.targets[0], ast.Name):
                name = node.targets[0].id
                bound[name] = bound.get(name, 0) + 1
                if isinstance(node.value, ast.Dict) and node.value.keys:
                    ents = []
                    for k, v in zip(node.value.keys, node.value.values):
                        if isinstance(k, ast.Attribute) and isinstance(k.value, ast.Name) and isinstance(v, ast.Name):
                            ents.append((k.value.id, k.attr, v.id))
                        else:
                            ents = None
                            break
                    if ents is not None:
                        self.tables[name] = ents
                if name == STRUCT and isinstance(node.value, ast.Call):
                    self.struct_ok = True
            elif isinstance(node, (ast.FunctionDef, ast.AsyncFunctionDef)):
                bound[node.name] = bound.get(node.name, 0) + 1
        for name in list(self.tables):
            ents = self.tables[name]
            if not all(kc in self.enums and vc in self.enums for kc, _, vc in ents):
                del self.tables[name]
        names = self.enums | set(self.dataclasses) | set(self.tables) | {STRUCT}
        for n in sorted(x for x in names if bound.get(x, 0) > 1):
            notes.append('module-level name bound twice: %s' % n)
        self.names = names
        for n in ast.walk(tree):                     # a module-level name rebound / updated anywhere
            if isinstance(n, ast.Global):
                notes.append('global statement at line %d' % n.lineno)
            if isinstance(n, ast.Subscript) and isinstance(n.ctx, (ast.Store, ast.Del)) and isinstance(n.value, ast.Name) \
                    and n.value.id in self.tables:
                notes.append('%s[...] stored at line %d' % (n.value.id, n.lineno))
            if isinstance(n, ast.Call) and isinstance(n.func, ast.Attribute) and isinstance(n.func.value, ast.Name) \
                    and n.func.value.id in self.tables and n.func.attr != 'get':
                notes.append('%s.%s(...) called at line %d' % (n.func.value.id, n.func.attr, n.lineno))


class Fn:
    """one method body -> Stmt (python tuples)"""

    def __init__(self, fn, mod, used_classes):
        self.fn, self.mod, self.used_classes = fn, mod, used_classes
        a = fn.args
        self.cls = a.args[0].arg
        self.params = [x.arg for x in a.args[1:]]
        self.alias = {}                      # name -> ast expression, inlined at the uses
        self.alias_stmts = set()
        self.vars = {}
        self.parent = {}
        for n in ast.walk(fn):
            for c in ast.iter_child_nodes(n):
                self.parent[id(c)] = n
        self.stores = sorted(((n.id, n) for n in ast.walk(fn) if isinstance(n, ast.Name)
                              and isinstance(n.ctx, (ast.Store, ast.Del))), key=lambda t: pos(t[1]))
        self.store_count = {}
        for name, _ in self.stores:
            self.store_count[name] = self.store_count.get(name, 0) + 1
        self.comp_vars = {n.id for c in ast.walk(fn) if isinstance(c, (ast.ListComp, ast.SetComp, ast.DictComp,
                                                                        ast.GeneratorExp))
                          for g in c.generators for n in ast.walk(g.target) if isinstance(n, ast.Name)}
        self.find_aliases(fn.body)
        for i, p in enumerate(self.params):
            self.vars[p] = i
        for name, _ in self.stores:
            if name not in self.alias and name not in self.vars:
                self.vars[name] = len(self.vars)
        self.local_names = set(self.vars) | set(self.alias) | {self.cls}
        self.ownership()

    # ---- aliases ---------------------------------------------------------------------------------------------
    def family(self, e):
        """`<parameter or alias>['k']['k2']…` (parameters that are never rebound)"""
        if isinstance(e, ast.Name) and isinstance(e.ctx, ast.Load):
            return (e.id in self.params and e.id not in self.store_count) or e.id in self.alias
        if isinstance(e, ast.Subscript) and isinstance(e.ctx, ast.Load) and is_str(e.slice):
            return self.family(e.value)
        return False

    @staticmethod
    def first_expr(e):
        """the Name whose load is the first step of evaluating `e` after which something can raise, or None"""
        while True:
            if isinstance(e, ast.Name):
                return e
            if isinstance(e, (ast.Subscript, ast.Attribute)):
                e = e.value
            elif isinstance(e, ast.Compare):
                e = e.comparators[0] if isinstance(e.left, ast.Constant) else e.left
            elif isinstance(e, ast.BoolOp):
                e = e.values[0]
            elif isinstance(e, ast.UnaryOp):
                e = e.operand
            elif isinstance(e, ast.BinOp):
                e = e.left
            elif isinstance(e, ast.IfExp):
                e = e.test
            elif isinstance(e, ast.Call) and isinstance(e.func, ast.Attribute):
                e = e.func.value
            elif isinstance(e, ast.ListComp) and len(e.generators) == 1:
                e = e.generators[0].iter
            else:
                return None

    @staticmethod
    def inert(s):
        if isinstance(s, ast.Pass) or (isinstance(s, ast.Expr) and isinstance(s.value, ast.Constant)):
            return True
        return isinstance(s, ast.Assign) and len(s.targets) == 1 and isinstance(s.targets[0], ast.Name) and (
            isinstance(s.value, ast.Constant) or (isinstance(s.value, ast.Dict) and not s.value.keys))

    def first_stmt(self, s):
        if isinstance(s, ast.If):
            return self.first_expr(s.test)
        if isinstance(s, (ast.Assign, ast.Expr)):
            return self.first_expr(s.value)
        if isinstance(s, ast.Return) and s.value is not None:
            return self.first_expr(s.value)
        return None

    def find_aliases(self, block):
        for i, s in enumerate(block):
            if isinstance(s, ast.Assign) and len(s.targets) == 1 and isinstance(s.targets[0], ast.Name):
                name = s.targets[0].id
                if self.store_count.get(name) == 1 and name not in self.params and name != self.cls \
                        and name not in self.comp_vars and not isinstance(s.value, ast.Name) and self.family(s.value):
                    rest = block[i + 1:]
                    uses = [n for n in ast.walk(self.fn) if isinstance(n, ast.Name) and n.id == name
                            and isinstance(n.ctx, ast.Load)]
                    # (an alias that is never used is NOT dropped: its binding may raise)
                    ok = bool(rest) and bool(uses) and all(end(s) <= pos(n) and end(n) <= end(rest[-1]) for n in uses)
                    if ok:
                        ok = False
                        for t in rest:
                            if self.inert(t):
                                continue
                            f = self.first_stmt(t)
                            ok = f is not None and f.id == name
                            break
                    if ok:
                        self.alias[name] = s.value
                        self.alias_stmts.add(id(s))
            if isinstance(s, ast.If):
                self.find_aliases(s.body)
                self.find_aliases(s.orelse)

    # ---- ownership of updated dicts ----------------------------------------------------------------------------
    def ownership(self):
        """display_only: names every binding of which is `name = {…}`; escapes: where a name is read as a whole on a path
        that continues (not inside a `return`)"""
        self.display_only, self.escapes = set(), {}
        ok = {}
        for name, n in self.stores:
            p = self.parent.get(id(n))
            good = isinstance(p, ast.Assign) and len(p.targets) == 1 and p.targets[0] is n and isinstance(p.value, ast.Dict) \
                and name not in self.params and name != self.cls and name not in self.comp_vars
            ok[name] = ok.get(name, True) and good
        self.display_only = {n for n, g in ok.items() if g}
        for n in ast.walk(self.fn):
            if not (isinstance(n, ast.Name) and isinstance(n.ctx, ast.Load)):
                continue
            p = self.parent.get(id(n))
            if isinstance(p, ast.Subscript) and p.value is n and is_str(p.slice):
                continue                                              # v['k'] read or updated
            if isinstance(p, ast.Compare) and len(p.ops) == 1 and isinstance(p.ops[0], (ast.In, ast.NotIn)) \
                    and is_str(p.left) and p.comparators[0] is n:
                continue                                              # 'k' in v
            if isinstance(p, ast.Attribute) and p.value is n and p.attr == 'get':
                pp = self.parent.get(id(p))
                if isinstance(pp, ast.Call) and pp.func is p:
                    continue                                          # v.get('k')
            q, in_return = n, False
            while id(q) in self.parent:
                q = self.parent[id(q)]
                if isinstance(q, ast.Return):
                    in_return = True
            if not in_return:
                self.escapes.setdefault(n.id, []).append(pos(n))

    def owned_at(self, name, stmt):
        return name in self.display_only and all(p >= pos(stmt) for p in self.escapes.get(name, []))

    # ---- expressions -------------------------------------------------------------------------------------------
    def un(self, node):
        return ('unsupported', src(node))

    def is_local(self, name):
        return name in self.local_names or name in self.comp_vars

    def module_name(self, e, among):
        return isinstance(e, ast.Name) and e.id in among and not self.is_local(e.id)

    def ex(self, e, bound=()):
        """`bound`: comprehension variables in scope"""
        E = lambda x: self.ex(x, bound)  # noqa: E731
        if isinstance(e, ast.Constant):
            if e.value is None:
                return ('none',)
            v = int_const(e)
            return ('int', v) if v is not None else self.un(e)
        if int_const(e) is not None:
            return ('int', int_const(e))
        if isinstance(e, ast.Name):
            if not isinstance(e.ctx, ast.Load):
                return self.un(e)
            if e.id in self.alias:
                return self.ex(self.alias[e.id], bound)
            if e.id in self.comp_vars and e.id not in bound:
                return self.un(e)                                      # a comprehension variable outside its comprehension
            if e.id in self.vars:
                return ('var', self.vars[e.id])
            return self.un(e)
        if isinstance(e, ast.Dict):
            d = ('dictEmpty',)
            for k, v in zip(e.keys, e.values):
                if not is_str(k):
                    return self.un(e)
                d = ('dictAdd', d, k.value, E(v))
            return d
        if isinstance(e, ast.Subscript) and isinstance(e.ctx, ast.Load):
            if is_str(e.slice):
                return ('key', E(e.value), e.slice.value)
            if isinstance(e.slice, (ast.Slice, ast.Tuple)) or int_const(e.slice) is not None:
                return self.un(e)
            return ('strAt', E(e.value), E(e.slice))
        if isinstance(e, ast.Compare) and len(e.ops) == 1:
            op, l, r = e.ops[0], e.left, e.comparators[0]
            neg = isinstance(op, (ast.NotIn, ast.NotEq, ast.IsNot))
            t = None
            if isinstance(op, (ast.In, ast.NotIn)):
                if self.module_name(r, self.mod.tables):
                    t = ('inTable', E(l), r.id)
                elif is_str(l):
                    t = ('hasKey', l.value, E(r))
            elif isinstance(op, (ast.Eq, ast.NotEq, ast.Is, ast.IsNot)):
                if isinstance(r, ast.Attribute) and self.module_name(r.value, self.mod.enums):
                    t = ('isMember', E(l), r.value.id, r.attr)
                elif isinstance(op, (ast.Eq, ast.NotEq)) and int_const(r) is not None:
                    t = ('eqInt', E(l), int_const(r))
            if t is None:
                return self.un(e)
            return ('not', t) if neg else t
        if isinstance(e, ast.UnaryOp) and isinstance(e.op, ast.Not):
            return ('not', E(e.operand))
        if isinstance(e, ast.BoolOp):
            k = 'and' if isinstance(e.op, ast.And) else 'or'
            vals = [E(v) for v in e.values]
            t = vals[-1]
            for v in reversed(vals[:-1]):
                t = (k, v, t)
            return t
        if isinstance(e, ast.IfExp):
            return ('ifExp', E(e.test), E(e.body), E(e.orelse))
        if isinstance(e, ast.ListComp):
            if len(e.generators) != 1:
                return self.un(e)
            g = e.generators[0]
            if g.ifs or g.is_async or not isinstance(g.target, ast.Name) or self.store_count.get(g.target.id) != 1 \
                    or g.target.id in self.params or g.target.id == self.cls or g.target.id in self.alias:
                return self.un(e)
            return ('listComp', self.vars[g.target.id], self.ex(e.elt, bound + (g.target.id,)), E(g.iter))
        if isinstance(e, ast.BinOp) and isinstance(e.op, ast.BitAnd):
            for a, b in ((e.left, e.right), (e.right, e.left)):
                m = int_const(b)
                if m is not None and m >= 0 and int_const(a) is None:
                    return ('band', E(a), m)
            return self.un(e)
        if isinstance(e, ast.BinOp) and isinstance(e.op, ast.BitOr):
            return ('bor', E(e.left), E(e.right))
        if isinstance(e, ast.Attribute) and isinstance(e.ctx, ast.Load):
            base = e
            while isinstance(base, ast.Attribute):
                base = base.value
            if isinstance(base, ast.Name) and (base.id in self.vars or base.id in self.alias) and base.id != self.cls:
                return ('attr', E(e.value), e.attr)
            return self.un(e)
        if isinstance(e, ast.Call):
            return self.call(e, bound)
        return self.un(e)

    def call(self, e, bound):
        E = lambda x: self.ex(x, bound)  # noqa: E731
        f = e.func
        plain = not e.keywords and not any(isinstance(a, ast.Starred) for a in e.args)
        if isinstance(f, ast.Attribute):
            # cls.method(a[, b]) / OsLogEvent.method(a[, b])
            if isinstance(f.value, ast.Name) and (f.value.id == self.cls or (f.value.id == OWNER and not self.is_local(OWNER))) \
                    and f.attr in METHODS and plain and len(e.args) in (1, 2):
                return ('call%d' % len(e.args), f.attr) + tuple(E(a) for a in e.args)
            # <struct>.parse(<word>.build(x))
            if f.attr == 'parse' and self.module_name(f.value, {STRUCT}) and self.mod.struct_ok and plain and len(e.args) == 1:
                b = e.args[0]
                if isinstance(b, ast.Call) and isinstance(b.func, ast.Attribute) and b.func.attr == 'build' \
                        and isinstance(b.func.value, ast.Name) and not self.is_local(b.func.value.id) \
                        and not b.keywords and len(b.args) == 1 and not isinstance(b.args[0], ast.Starred):
                    return ('parseWord', f.value.id, b.func.value.id, E(b.args[0]))
                return self.un(e)
            # e.get('k')
            if f.attr == 'get' and plain and len(e.args) == 1 and is_str(e.args[0]):
                return ('get', E(f.value), e.args[0].value)
            return self.un(e)
        if self.module_name(f, self.mod.enums) and plain and len(e.args) == 1:
            return ('enumCall', f.id, E(e.args[0]))
        if self.module_name(f, self.mod.dataclasses):
            fields, odd = self.mod.dataclasses[f.id]
            if odd or any(isinstance(a, ast.Starred) for a in e.args) or any(k.arg is None for k in e.keywords) \
                    or len(e.args) > len(fields):
                return self.un(e)
            names = fields[:len(e.args)] + [k.arg for k in e.keywords]
            if len(set(names)) != len(names):
                return self.un(e)
            d = ('dictEmpty',)
            for n, v in zip(names, list(e.args) + [k.value for k in e.keywords]):
                d = ('dictAdd', d, n, E(v))
            if f.id not in self.used_classes:
                self.used_classes.append(f.id)
            return ('construct', f.id, d)
        if isinstance(f, ast.Subscript) and self.module_name(f.value, self.mod.tables) and plain and len(e.args) == 1 \
                and isinstance(f.ctx, ast.Load) and not isinstance(f.slice, (ast.Slice, ast.Tuple)):
            return ('tableCall', f.value.id, E(f.slice), E(e.args[0]))
        return self.un(e)

    # ---- statements --------------------------------------------------------------------------------------------
    def stmt(self, s):
        if isinstance(s, ast.Assign) and len(s.targets) == 1:
            t = s.targets[0]
            if isinstance(t, ast.Name):
                if t.id in self.comp_vars or t.id == self.cls:
                    return ('unsupported', src(s))
                return ('assign', self.vars[t.id], self.ex(s.value))
            if isinstance(t, ast.Subscript) and isinstance(t.value, ast.Name) and is_str(t.slice):
                v = t.value.id
                if v in self.vars and self.owned_at(v, s):
                    return ('setKey', self.vars[v], t.slice.value, self.ex(s.value))
                return ('unsupported', src(s) + '  # the updated dict may be shared')
            return ('unsupported', src(s))
        if isinstance(s, ast.If):
            return ('ite', self.ex(s.test), self.block(s.body), self.block(s.orelse))
        if isinstance(s, ast.Return):
            return ('ret', self.ex(s.value) if s.value is not None else ('none',))
        return ('unsupported', src(s))

    def block(self, stmts):
        out = []
        for s in stmts:
            if isinstance(s, ast.Pass) or (isinstance(s, ast.Expr) and isinstance(s.value, ast.Constant)
                                           and isinstance(s.value.value, str)):
                continue
            if id(s) in self.alias_stmts:
                continue
            out.append(self.stmt(s))
        if not out:
            return ('skip',)
        t = out[-1]
        for s in reversed(out[:-1]):
            t = ('seq', s, t)
        return t

    def function(self):
        return self.block(self.fn.body)


def translate(repo):
    with open(os.path.join(repo, 'pykdebugparser', 'os_log_event.py')) as fd:
        tree = ast.parse(fd.read())
    notes = []
    mod = Module(tree, notes)
    owner = [n for n in tree.body if isinstance(n, ast.ClassDef) and n.name == OWNER]
    funs, used = [], []
    if len(owner) != 1:
        notes.append('class %s not found exactly once' % OWNER)
        return [], [], mod.tables, notes
    methods = [n for n in owner[0].body if isinstance(n, ast.FunctionDef) and n.name in METHODS]
    for name in METHODS:
        if sum(1 for m in methods if m.name == name) != 1:
            notes.append('method %s not found exactly once' % name)
    for n in ast.walk(tree):                         # OsLogEvent.<method> = … / setattr games
        if isinstance(n, ast.Attribute) and isinstance(n.ctx, (ast.Store, ast.Del)) and n.attr in METHODS:
            notes.append('%s is assigned at line %d' % (n.attr, n.lineno))
    for f in methods:
        a = f.args
        deco = [d.id if isinstance(d, ast.Name) else None for d in f.decorator_list]
        names = [x.arg for x in a.args]
        rebinds_cls = bool(names) and any(isinstance(n, ast.Name) and n.id == names[0] and not isinstance(n.ctx, ast.Load)
                                          for n in ast.walk(f))
        if deco != ['classmethod'] or a.vararg or a.kwarg or a.kwonlyargs or a.posonlyargs or a.defaults \
                or len(names) < 1 or len(set(names)) != len(names) or rebinds_cls:
            funs.append((f.name, max(len(names) - 1, 0), ('unsupported', 'def %s(%s): decorators / signature' % (f.name, src(a)))))
        else:
            funs.append((f.name, len(names) - 1, Fn(f, mod, used).function()))
    classes = [(c, mod.dataclasses[c][0]) for c in mod.dataclasses if c in used]
    for c in used:
        if mod.dataclasses[c][1]:
            notes.append('dataclass %s has defaults / bases / an own constructor' % c)
    return classes, funs, mod.tables, notes


# ----------------------------------------------------------------------------------------------------------------
# Lean rendering
# ----------------------------------------------------------------------------------------------------------------

def lean(t, S):
    k = t[0]
    L = lambda x: lean(x, S)  # noqa: E731
    if k in ('none', 'dictEmpty', 'skip'):
        return '.' + k
    if k == 'int':
        return '(.int %d)' % t[1] if t[1] >= 0 else '(.int (%d))' % t[1]
    if k == 'var':
        return '(.var %d)' % t[1]
    if k == 'dictAdd':
        return '(.dictAdd %s %s %s)' % (L(t[1]), S(t[2]), L(t[3]))
    if k in ('key', 'get', 'attr'):
        return '(.%s %s %s)' % (k, L(t[1]), S(t[2]))
    if k in ('strAt', 'and', 'or', 'bor', 'seq'):
        return '(.%s %s %s)' % (k, L(t[1]), L(t[2]))
    if k == 'hasKey':
        return '(.hasKey %s %s)' % (S(t[1]), L(t[2]))
    if k == 'eqInt':
        return '(.eqInt %s %s)' % (L(t[1]), '%d' % t[2] if t[2] >= 0 else '(%d)' % t[2])
    if k in ('not', 'ret'):
        return '(.%s %s)' % (k, L(t[1]))
    if k in ('ifExp', 'ite'):
        return '(.%s %s %s %s)' % (k, L(t[1]), L(t[2]), L(t[3]))
    if k == 'listComp':
        return '(.listComp %d %s %s)' % (t[1], L(t[2]), L(t[3]))
    if k == 'call1':
        return '(.call1 %s %s)' % (S(t[1]), L(t[2]))
    if k == 'call2':
        return '(.call2 %s %s %s)' % (S(t[1]), L(t[2]), L(t[3]))
    if k == 'parseWord':
        return '(.parseWord %s %s %s)' % (S(t[1]), S(t[2]), L(t[3]))
    if k == 'band':
        return '(.band %s %d)' % (L(t[1]), t[2])
    if k in ('enumCall', 'construct'):
        return '(.%s %s %s)' % (k, S(t[1]), L(t[2]))
    if k == 'isMember':
        return '(.isMember %s %s %s)' % (L(t[1]), S(t[2]), S(t[3]))
    if k == 'inTable':
        return '(.inTable %s %s)' % (L(t[1]), S(t[2]))
    if k == 'tableCall':
        return '(.tableCall %s %s %s)' % (S(t[1]), L(t[2]), L(t[3]))
    if k == 'unsupported':
        return '(.unsupported %s)' % S(t[1])
    if k == 'assign':
        return '(.assign %d %s)' % (t[1], L(t[2]))
    if k == 'setKey':
        return '(.setKey %d %s %s)' % (t[1], S(t[2]), L(t[3]))
    raise ValueError(k)


def generate(repo, write_if_changed, lean_str):
    classes, funs, tables, notes = translate(repo)
    S = lean_str
    L = ['import KdVerif.Model.PyIROl', 'namespace KdVerif.Gen.PyIROl', 'open KdVerif.PyIROl', '',
         '/-! `OsLogEvent.parse_trace_identifier`, `parse_decomposed`, `parse_decomposed_segment` of',
         '    pykdebugparser/os_log_event.py and the dataclasses they construct, translated from the source text into the IR',
         '    of `Model/PyIROl` (tools/gen_pyir_ol.py). -/', '']
    L.append('def classes : List ClassDef := [' +
             ', '.join('\n  { name := %s, fields := [%s] }' % (S(n), ', '.join(S(f) for f in fs)) for n, fs in classes) + ']\n')
    L.append('def funs : List FunDef := [' +
             ','.join('\n  { name := %s, params := %d, body :=\n    %s }' % (S(n), p, lean(b, S)) for n, p, b in funs) + ']\n')
    L.append('def prog : Program := { classes := classes, funs := funs }\n')
    L.append('/-- The module-level dict displays keyed by enum members, as written: name, entries (key class, key member, value')
    L.append('    class).  Their MEANING for the interpreter is the reflected `Gen.OsLog.idTables`; `C16.module_dicts_as_written`')
    L.append('    checks that the two agree. -/')
    L.append('def tables : List (String × List (String × String × String)) := [' +
             ','.join('\n  (%s, [%s])' % (S(n), ', '.join('(%s, %s, %s)' % (S(a), S(b), S(c)) for a, b, c in ents))
                      for n, ents in tables.items()) + ']\n')
    L.append('/-- What the translator could not express outside the bodies (must be empty). -/')
    L.append('def notes : List String := [' + ', '.join(S(n) for n in notes) + ']\n')
    L += ['end KdVerif.Gen.PyIROl', '']
    return write_if_changed('PyIROl.lean', '\n'.join(L))
