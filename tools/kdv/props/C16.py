"""C16 — log records decode for every combination of optional fields; the trace-identifier word is the
exact inverse of its bit packing."""
import copy
import dataclasses
import datetime
import enum
import itertools
import json

from .. import core
from ..core import run_section

MODULE = 'KdVerif.Props.C16'
NAMESPACE = 'KdVerif.C16'
TRUSTED = [
    'translator tools/gen_pyir_ol.py (pure ast): source text of OsLogEvent.parse_trace_identifier / parse_decomposed / '
    'parse_decomposed_segment and of the dataclass TraceIdentifier -> Python-subset IR (Gen/PyIROl), with its normal form '
    '(locals numbered by first binding, aliases of parameter[\'k\'] inlined under a checked exactness condition, '
    '`v[k] = e` only on dicts the local owns); the big-step interpreter of Model/PyIROl over the model\'s own plist values '
    '— both CHECKED against the real code by the mirror sections `*-ir` of this module; primitives whose meaning is not '
    'translated: firehose_tracepoint_id.parse(Int64ul.build(x)) (reflected layout + model bit order), EnumClass(x) '
    '(reflected class), the contents of tracepoint_types / tracepoint_flags (reflected, tied to the dict displays by '
    'module_dicts_as_written)',
    'translator gen_oslog: AST of OsLogEvent.from_raw_log_event -> ordered (key, field, transform, required) chain; '
    'reflection of dataclasses.fields(OsLogEvent), tracepoint_types/tracepoint_flags, enum classes, the construct '
    'layout of firehose_tracepoint_id (subcons: names, sizes, order) and the Int64ul word size',
    'hand model (Model/OsLog.lean): chain interpreter, dataclass constructor, construct Struct/BitStruct MSB-first bit '
    'order, dict/`in`/subscript protocol on plist values — tied by the correspondence sections of this module; its '
    'parse_decomposed, parse_decomposed_segment and parse_trace_identifier are additionally PROVED equal to the interpreted '
    'source text (parse_*_ir_eq_model)',
    'unix_date: the model is the exact instant sec + usec/10^6; the implementation adds in binary floating point and '
    'datetime.fromtimestamp rounds half-even to microseconds — agreement for 0 <= sec < 2^32, 0 <= usec < 10^6 is '
    'CHECKED by the sections `timestamp` and `event-*`, not proved (Lean Float rounding is opaque to the kernel)',
]
ASSUMPTIONS = [
    'raw events are plist values: int, str, bytes, bool, dict with string keys, list (no real/date/uid values)',
    'log_strings maps int -> str (the inverted StringIndex)',
    'unix_date: 0 <= sec < 2^32 and 0 <= usec < 10^6 (float step, see trusted base)',
    'K4: namespace `trace` decodes its flags byte through the non-flag Enum FirehoseTracepointSingpostFlags; the '
    'inverse theorem covers only the six single-member flag values for that namespace (explicit in `inDomain`)',
]

# =============================================================================================
# The specification of the raw log-record format (hand-written; NOT derived from the source or the model).
# 10 mandatory keys, 31 optional keys: key -> (field of the decoded record, kind of value).

SPEC_MANDATORY = [
    ('cm', 'composed_message', 'string'),
    ('t', 'type_', 'plain'),
    ('s', 'size', 'plain'),
    ('tid', 'thread_identifier', 'plain'),
    ('ns', 'continuous_nanoseconds_since_boot', 'plain'),
    ('mct', 'mach_continuous_timestamp', 'plain'),
    ('b', 'boot_uuid', 'plain'),
    ('piu', 'process_image_uuid', 'plain'),
    ('ud', 'unix_date', 'timestamp'),
    ('utz', 'unix_timezone', 'tz'),
]
SPEC_OPTIONAL = [
    ('ti', 'trace_identifier', 'traceid'),
    ('pip', 'process_image_path', 'string'),
    ('p', 'process', 'string'),
    ('sip', 'sender_image_path', 'string'),
    ('send', 'sender', 'string'),
    ('sio', 'sender_image_offset', 'plain'),
    ('siu', 'sender_image_uuid', 'plain'),
    ('lt', 'log_type', 'logtype'),
    ('ttl', 'time_to_live', 'plain'),
    ('pid', 'process_identifier', 'plain'),
    ('aid', 'activity_identifier', 'plain'),
    ('paid', 'parent_activity_identifier', 'plain'),
    ('tai', 'transition_activity_identifier', 'plain'),
    ('sub', 'subsystem', 'string'),
    ('cat', 'category', 'string'),
    ('f', 'format_string', 'string'),
    ('cai', 'creator_activity_identifier', 'plain'),
    ('cpui', 'creator_process_unique_identifier', 'plain'),
    ('si', 'signpost_identifier', 'plain'),
    ('sn', 'signpost_name', 'string'),
    ('st', 'signpost_type', 'plain'),
    ('ss', 'signpost_scope', 'plain'),
    ('lsmct', 'loss_start_mach_continuous_timestamp', 'plain'),
    ('lemct', 'loss_end_mach_continuous_timestamp', 'plain'),
    ('lsud', 'loss_start_unix_date', 'plain'),
    ('leud', 'loss_end_unix_date', 'plain'),
    ('lsutz', 'loss_start_unix_timezone', 'tz'),
    ('leutz', 'loss_end_unix_timezone', 'tz'),
    ('bt', 'backtrace', 'backtrace'),
    ('lc', 'loss_count', 'losscount'),
    ('dm', 'decomposed_message', 'decomposed'),
]
assert len(SPEC_OPTIONAL) == 31 and len({k for k, _, _ in SPEC_MANDATORY + SPEC_OPTIONAL}) == 41
# defaults of absent optional fields, in the canonical (wire) form
SPEC_DEFAULTS = {'string': 's:', 'logtype': None, 'tz': {}, 'backtrace': [], 'losscount': {}, 'decomposed': {},
                 'traceid': None}
SPEC_PLAIN_DEFAULTS = {'sender_image_uuid': 'b:', 'loss_start_unix_date': {}, 'loss_end_unix_date': {}}   # else 0

LOG_TYPES = {0: 'DEFAULT', 1: 'INFO', 2: 'DEBUG', 0x10: 'ERROR', 0x11: 'FAULT'}

# firehose trace-point identifier (documented layout): byte 0 namespace, byte 1 type, byte 2 base flags
# (bit 0 has_current_aid, bits 1-3 pc_style, bit 4 has_unique_pid, bit 5 has_large_offset), byte 3 namespace flags,
# bytes 4-7 code (little endian)
NAMESPACES = {0: 'unknown', 2: 'activity', 3: 'trace', 4: 'log', 5: 'metadata', 6: 'signpost', 7: 'loss'}
PC_STYLES = {0: 'none', 1: 'main_exe', 2: 'shared_cache', 3: 'main_plugin', 4: 'absolute', 5: 'uuid_relative',
             6: 'large_shared_cache', 7: '_unused7'}
LEVELS = {0: 'default', 1: 'info', 2: 'debug', 0x10: 'error', 0x11: 'fault'}
TYPE_ENUMS = {   # namespace -> (class name, members) ; None members = flag word, any byte
    2: ('FirehoseTracepointActivityType', {1: 'create', 2: 'swap', 3: 'useraction'}),
    3: ('FirehoseTracepointTraceType', LEVELS),
    4: ('FirehoseTracepointLogType', LEVELS),
    5: ('FirehoseTracepointMetadataType', {1: 'dyld', 2: 'subsystem', 3: 'kext', 4: 'coprocessor'}),
    6: ('FirehoseTracepointSignpostType', None),
}
FLAG_ENUMS = {4: 'FirehoseTracepointLogFlags', 3: 'FirehoseTracepointSingpostFlags'}
K4_SINGLE = {1: 'has_private_data', 2: 'has_subsystem', 4: 'has_rules', 8: 'has_oversize', 0x10: 'has_context_data',
             0x80: 'has_name'}


def pack_id(ns, ty, lo, up, pc, aid, fl, code):
    return ns | ty << 8 | (int(aid) | pc << 1 | int(up) << 4 | int(lo) << 5) << 16 | fl << 24 | code << 32


def classify_id(ns, ty, fl):
    """'defined' | 'k4' | 'undefined' for the enum-defined domain of the format."""
    if ns not in NAMESPACES:
        return 'undefined'
    if ns in TYPE_ENUMS and TYPE_ENUMS[ns][1] is not None and ty not in TYPE_ENUMS[ns][1]:
        return 'undefined'
    if ns == 3 and fl not in K4_SINGLE:
        return 'k4'
    return 'defined'


def spec_trace_id(ns, ty, lo, up, pc, aid, fl, code):
    """Canonical decoded identifier for a word of the defined domain."""
    if ns in TYPE_ENUMS:
        cls, members = TYPE_ENUMS[ns]
        t = 'e:%s.%s' % (cls, members[ty]) if members is not None else 'e:%s(%d)' % (cls, ty)
    else:
        t = ty
    if ns == 4:
        f = 'e:%s(%d)' % (FLAG_ENUMS[4], fl)
    elif ns == 3:
        f = 'e:%s.%s' % (FLAG_ENUMS[3], K4_SINGLE[fl])
    else:
        f = None
    return {'$': 's:TraceIdentifier', 'namespace': 'e:FirehoseTracepointNamespace.' + NAMESPACES[ns], 'type_': t,
            'has_large_offset': bool(lo), 'has_unique_pid': bool(up),
            'pc_style': 'e:FirehoseTracepointFlagsPcStyle.' + PC_STYLES[pc], 'has_current_aid': bool(aid),
            'flags': f, 'code': code}


def unpack_word(w):
    b2 = w >> 16 & 0xff
    return (w & 0xff, w >> 8 & 0xff, b2 >> 5 & 1, b2 >> 4 & 1, b2 >> 1 & 7, b2 & 1, w >> 24 & 0xff, w >> 32)


# ---- spec of the decomposed message (canonical form in, canonical form out) -------------------

def spec_str(S, idx):
    return 's:' + S[idx]


def spec_segment(seg, S):
    out = {}
    if 'lp' in seg:
        out['literal_prefix'] = spec_str(S, seg['lp'])
    if 'p' in seg:
        p, ph = seg['p'], {}
        for k, name in (('rs', 'raw_string'), ('tn', 'type_namespace'), ('ty', 'type')):
            if k in p:
                ph[name] = spec_str(S, p[k])
        if p.get('t'):
            ph['tokens'] = [spec_str(S, t) for t in p['t']]
        ph['width'], ph['precision'] = p['w'], p['p']
        out['placeholder'] = ph
    if 'a' in seg:
        a, arg = seg['a'], {}
        for k, name in (('a', 'availability'), ('p', 'privacy'), ('c', 'category')):
            if k in a:
                arg[name] = a[k]
        if a.get('c') == 1:
            for k, name in (('sc', 'scalar_category'), ('st', 'scalar_type')):
                if k in a:
                    arg[name] = a[k]
        if ('a' not in a or a['a'] == 3) and 'or' in a:
            arg['object_representation'] = spec_str(S, a['or']) if a.get('c') == 2 else a['or']
        out['arg'] = arg
    return out


def spec_decomposed(dm, S):
    out = {'placeholder_count': dm['pc'], 'state': dm['s']}
    if dm['pc']:
        out['segments'] = [spec_segment(s, S) for s in dm['seg']]
    return out


def spec_value(kind, v, S):
    """Expected canonical value of a field from the wire value of its key."""
    if kind == 'plain':
        return v
    if kind == 'string':
        return spec_str(S, v)
    if kind == 'logtype':
        return 'e:OsLogType.' + LOG_TYPES[v]
    if kind == 'tz':
        return {'minutes_west': v['mw'], 'dst_time': v['dt']}
    if kind == 'backtrace':
        return [{'image_uuid': l['iu'], 'image_offset': l['io']} for l in v]
    if kind == 'losscount':
        return {'count': v['c'], 'unknown': v['s']}
    if kind == 'decomposed':
        return spec_decomposed(v, S)
    if kind == 'traceid':
        return spec_trace_id(*unpack_word(v))
    if kind == 'timestamp':
        return 't:%d.%d' % (v['sec'], v['usec'])
    raise AssertionError(kind)


def spec_record(event, S):
    """The expected decoded record: a plain dict comprehension over the key -> field table."""
    rec = {}
    for key, field, kind in SPEC_MANDATORY:
        rec[field] = spec_value(kind, event[key], S)
    for key, field, kind in SPEC_OPTIONAL:
        if key in event:
            rec[field] = spec_value(kind, event[key], S)
        elif kind == 'plain':
            rec[field] = SPEC_PLAIN_DEFAULTS.get(field, 0)
        else:
            rec[field] = SPEC_DEFAULTS[kind]
    return rec


# =============================================================================================
# wire form <-> Python objects, canonical output

def unwire(x):
    if isinstance(x, str):
        return x[2:] if x.startswith('s:') else bytes.fromhex(x[2:])
    if isinstance(x, list):
        return [unwire(i) for i in x]
    if isinstance(x, dict):
        return {k: unwire(v) for k, v in x.items()}
    return x


def canon(v):
    if v is None or isinstance(v, (bool, int)) and not isinstance(v, enum.Enum):
        return v
    if isinstance(v, enum.Flag):
        return 'e:%s(%d)' % (type(v).__name__, int(v.value))
    if isinstance(v, enum.Enum):
        return 'e:%s.%s' % (type(v).__name__, v.name)
    if isinstance(v, str):
        return 's:' + v
    if isinstance(v, (bytes, bytearray)):
        return 'b:' + bytes(v).hex()
    if isinstance(v, datetime.datetime):
        if v.tzinfo is None or v.utcoffset() != datetime.timedelta(0):
            return 't:not-utc:' + v.isoformat()
        d = v - datetime.datetime(1970, 1, 1, tzinfo=datetime.timezone.utc)
        return 't:%d.%d' % (d.days * 86400 + d.seconds, d.microseconds)
    if dataclasses.is_dataclass(v) and not isinstance(v, type):
        out = {'$': 's:' + type(v).__name__}
        for f in dataclasses.fields(v):
            out[f.name] = canon(getattr(v, f.name))
        return out
    if isinstance(v, dict):
        return {(k if isinstance(k, str) else repr(k)): canon(x) for k, x in v.items()}
    if isinstance(v, (list, tuple)):
        return [canon(x) for x in v]
    return 'unknown:' + repr(v)


def dumps(x):
    return json.dumps(x, sort_keys=True, separators=(',', ':'), ensure_ascii=False)


def hexjson(x):
    return json.dumps(x, ensure_ascii=False).encode('utf-8').hex()


def strings_of(case):
    return {i: s[2:] for i, s in case['s']}


# ---- implementation entry points -------------------------------------------------------------

def impl_event(case):
    from .. import impl  # noqa: F401
    from pykdebugparser.os_log_event import OsLogEvent
    ev = OsLogEvent.from_raw_log_event(unwire(copy.deepcopy(case['e'])), strings_of(case))
    out = {f.name: canon(getattr(ev, f.name)) for f in dataclasses.fields(ev)}
    return 'ok ' + dumps(out)


def impl_decomposed(case):
    from .. import impl  # noqa: F401
    from pykdebugparser.os_log_event import OsLogEvent
    return 'ok ' + dumps(canon(OsLogEvent.parse_decomposed(unwire(copy.deepcopy(case['d'])), strings_of(case))))


def impl_traceid(w):
    from .. import impl  # noqa: F401
    from pykdebugparser.os_log_event import OsLogEvent
    return 'ok ' + dumps(canon(OsLogEvent.parse_trace_identifier(w)))


def impl_timestamp(case):
    from .. import impl  # noqa: F401
    from pykdebugparser.os_log_event import OsLogEvent
    ev = dict(MINIMAL)
    ev['ud'] = {'sec': case[0], 'usec': case[1]}
    return 'ok ' + dumps(canon(OsLogEvent.from_raw_log_event(ev, {0: ''}).unix_date))


MINIMAL = {'cm': 0, 't': '', 's': '', 'tid': 0, 'ns': 0, 'mct': 0, 'b': b'', 'piu': b'', 'utz': {'mw': 0, 'dt': 0}}


# =============================================================================================
# generators (everything from rng)

WORDS = ['', 'a', 'kernel', 'com.apple.network', 'connection', '%{public}s', 'SpringBoard', '/usr/libexec/logd',
         'é', '日本語', 'tab\there', 'quote"back\\slash', 'line\nbreak', '\x01\x7f', '😀 emoji', 'lp', 'p a',
         # texts that LOOK like what another field holds: conversions with written-out sizes, numbers, key names
         '%-5.3d', '%{public}08llx', '%{private}12.4f', '%*.*s', '%.*P', '%3$-7.2lu', '12', '0', '-1', '0x10', 'w', 'rs', 'None', 'True']


def gen_strings(rng, n=None):
    n = n if n is not None else rng.randint(4, 24)
    idx = rng.sample(range(0, 400), n)
    return [[i, 's:' + (rng.choice(WORDS) + (str(i) if rng.random() < 0.6 else ''))] for i in idx]


def gen_int(rng):
    r = rng.random()
    if r < 0.4:
        return rng.randint(0, 300)
    if r < 0.7:
        return rng.getrandbits(rng.choice([16, 32, 63, 64]))
    if r < 0.8:
        return -rng.randint(1, 2 ** 40)
    return rng.choice([0, 1, 2 ** 32, 2 ** 64 - 1, 2 ** 64, 2 ** 70 + 1])


def gen_plain(rng, depth=0):
    r = rng.random()
    if r < 0.45 or depth > 1:
        return gen_int(rng)
    if r < 0.6:
        return 's:' + rng.choice(WORDS)
    if r < 0.75:
        return 'b:' + rng.randbytes(rng.choice([0, 1, 16])).hex()
    if r < 0.82:
        return rng.random() < 0.5
    if r < 0.92:
        return {rng.choice(['sec', 'usec', 'k', 'mw', 'zz', 'é']): gen_plain(rng, depth + 1)
                for _ in range(rng.randint(0, 3))}
    return [gen_plain(rng, depth + 1) for _ in range(rng.randint(0, 3))]


def gen_idx(rng, S):
    return rng.choice(S)[0]


def gen_defined_word(rng):
    ns = rng.choice(list(NAMESPACES))
    if ns in TYPE_ENUMS and TYPE_ENUMS[ns][1] is not None:
        ty = rng.choice(list(TYPE_ENUMS[ns][1]))
    else:
        ty = rng.randrange(256)
    fl = rng.choice(list(K4_SINGLE)) if ns == 3 else rng.randrange(256)
    b2 = rng.randrange(256)            # includes the two padding bits, which the decoder must ignore
    return ns | ty << 8 | b2 << 16 | fl << 24 | rng.getrandbits(32) << 32


def shuffled(rng, d):
    """The same dict with its keys in another order (a plist dictionary has no meaningful key order; Apple's binary
    plists arrive in hash order)."""
    if rng.random() < 0.5:
        return d
    keys = list(d)
    rng.shuffle(keys)
    return {k: d[k] for k in keys}


def gen_placeholder(rng, S, subset=None):
    keys = subset if subset is not None else [k for k in ('rs', 't', 'tn', 'ty') if rng.random() < 0.5]
    p = {}
    for k in keys:
        p[k] = [gen_idx(rng, S) for _ in range(rng.choice([0, 1, 1, 2, 3]))] if k == 't' else gen_idx(rng, S)
    p['w'] = gen_int(rng) if rng.random() < 0.7 else 0          # 0 is what most records hold: it is a value, not "absent"
    p['p'] = gen_int(rng) if rng.random() < 0.7 else 0
    return shuffled(rng, p)


def gen_arg(rng, S, subset=None, cat=None, avail=None):
    keys = subset if subset is not None else [k for k in ('a', 'p', 'c', 'sc', 'st', 'or') if rng.random() < 0.5]
    cat = cat if cat is not None else rng.choice([0, 1, 2, 3, True])
    a = {}
    for k in keys:
        if k == 'a':
            a[k] = avail if avail is not None else rng.choice([0, 1, 3, 3])
        elif k == 'c':
            a[k] = cat
        elif k == 'or':
            # a string index when the category says "object through the string table", any value otherwise
            a[k] = gen_idx(rng, S) if ('c' in keys and cat == 2) else gen_plain(rng, 1)
        else:
            a[k] = gen_int(rng)
    return shuffled(rng, a)


def gen_segment(rng, S):
    seg = {}
    if rng.random() < 0.6:
        seg['lp'] = gen_idx(rng, S)
    if rng.random() < 0.6:
        seg['p'] = gen_placeholder(rng, S)
    if rng.random() < 0.6:
        seg['a'] = gen_arg(rng, S)
    if rng.random() < 0.1:
        seg['zz'] = gen_plain(rng)
    return shuffled(rng, seg)


def gen_decomposed(rng, S):
    n = rng.choice([0, 0, 1, 2, 3, 5])
    dm = {'pc': n, 's': rng.randint(0, 3)}
    if n or rng.random() < 0.3:
        dm['seg'] = [gen_segment(rng, S) for _ in range(n if rng.random() < 0.8 else rng.randint(0, 4))]
    return dm


def gen_value(rng, kind, S):
    if kind == 'plain':
        return gen_plain(rng)
    if kind == 'string':
        return gen_idx(rng, S)
    if kind == 'logtype':
        return rng.choice(list(LOG_TYPES))
    if kind == 'tz':
        d = {'mw': rng.randint(-720, 720), 'dt': rng.randint(0, 1)}
        if rng.random() < 0.1:
            d['extra'] = 1
        return d
    if kind == 'backtrace':
        return [{'iu': 'b:' + rng.randbytes(16).hex(), 'io': rng.getrandbits(32)} for _ in range(rng.randint(0, 4))]
    if kind == 'losscount':
        return {'c': rng.randint(0, 10 ** 6), 's': rng.randint(0, 3)}
    if kind == 'decomposed':
        return gen_decomposed(rng, S)
    if kind == 'traceid':
        return gen_defined_word(rng)
    if kind == 'timestamp':
        return {'sec': rng.choice([rng.randrange(2 ** 32), rng.randrange(1_500_000_000, 1_800_000_000), 0,
                                   2 ** 32 - 1, 2 ** 31]),
                'usec': rng.choice([rng.randrange(10 ** 6), 0, 999999, 500000, 1])}
    raise AssertionError(kind)


def gen_event(rng, S, optional_keys, extra=False):
    ev = {}
    table = {k: kind for k, _, kind in SPEC_MANDATORY + SPEC_OPTIONAL}
    keys = [k for k, _, _ in SPEC_MANDATORY] + list(optional_keys)
    if rng.random() < 0.5:
        rng.shuffle(keys)                      # dict order must not matter
    for k in keys:
        ev[k] = gen_value(rng, table[k], S)
    if extra:
        for k in rng.sample(['x', 'zz', 'tid2', 'Events', 'é', 'TI'], rng.randint(1, 3)):
            ev[k] = gen_plain(rng)
    return ev


def event_cases(rng, tier):
    opt = [k for k, _, _ in SPEC_OPTIONAL]
    cases = []

    def add(keys, kind, extra=False):
        S = gen_strings(rng)
        cases.append({'e': gen_event(rng, S, keys, extra), 's': S, 'kind': kind, 'opt': sorted(keys)})
    for _ in range(5):
        add([], 'none')
    for k in opt:
        for _ in range(2 if tier == 'quick' else 8):
            add([k], 'single')
    for a, b in itertools.combinations(opt, 2):
        add([a, b], 'pair')
    for _ in range(3 if tier == 'quick' else 20):
        add(opt, 'all')
    for k in opt:                                # all but one
        add([x for x in opt if x != k], 'all-but-one')
    n = 700 if tier == 'quick' else 40000
    for i in range(n):
        p = rng.choice([0.1, 0.3, 0.5, 0.7, 0.9])
        add([k for k in opt if rng.random() < p], 'random', extra=(i % 5 == 0))
    return cases


BAD_VALUES = [5, -1, 's:lp p a', 'b:0001', True, False, {}, {'sec': 1}, [], [1], ['s:lp'], {'mw': 1}, 10 ** 30]


def malformed_event_cases(rng, tier):
    """Ill-formed events: both sides must raise the same kind of error (or agree on the record)."""
    opt = [k for k, _, _ in SPEC_OPTIONAL]
    kinds = {k: kind for k, _, kind in SPEC_MANDATORY + SPEC_OPTIONAL}
    cases = []
    for k, _, _ in SPEC_MANDATORY:               # one mandatory key missing
        for _ in range(3):
            S = gen_strings(rng)
            ev = gen_event(rng, S, [x for x in opt if rng.random() < 0.3])
            del ev[k]
            cases.append({'e': ev, 's': S, 'kind': 'missing-mandatory', 'missing': k})
    for _ in range(4):                           # several missing
        S = gen_strings(rng)
        ev = gen_event(rng, S, [])
        for k in rng.sample([k for k, _, _ in SPEC_MANDATORY], 3):
            del ev[k]
        cases.append({'e': ev, 's': S, 'kind': 'missing-mandatory', 'missing': '*'})
    typed = [k for k in kinds if kinds[k] != 'plain']
    reps = 1 if tier == 'quick' else 6
    for k in typed:                              # wrong-typed / out-of-table value for one typed key
        for bad in BAD_VALUES + [399 + 7, 401]:
            for _ in range(reps):
                S = gen_strings(rng)
                ev = gen_event(rng, S, [x for x in opt if x == k or rng.random() < 0.2])
                ev[k] = copy.deepcopy(bad)
                cases.append({'e': ev, 's': S, 'kind': 'bad-value', 'key': k})
    for _ in range(40 if tier == 'quick' else 400):   # unix_date outside the datetime range / odd members
        S = gen_strings(rng)
        ev = gen_event(rng, S, [])
        ev['ud'] = rng.choice([{'sec': 253402300800, 'usec': 0}, {'sec': 10 ** 12, 'usec': 5}, {'usec': 5},
                               {'sec': 5}, {'sec': 's:5', 'usec': 1}, {'sec': 5, 'usec': 's:1'},
                               {'sec': True, 'usec': False}, {'sec': 5, 'usec': 'b:00'}, {'sec': [], 'usec': {}},
                               {'sec': 86400, 'usec': 1000000 * rng.randint(1, 5) + rng.randrange(10 ** 6)},
                               {'sec': -62135596801, 'usec': 0}])
        cases.append({'e': ev, 's': S, 'kind': 'bad-date'})
    for _ in range(60 if tier == 'quick' else 600):   # trace identifiers outside the defined domain
        S = gen_strings(rng)
        ev = gen_event(rng, S, ['ti'] + [x for x in opt if rng.random() < 0.2 and x != 'ti'])
        ev['ti'] = rng.choice([1, 8, 255, 2 | 9 << 8, 3 | 1 << 24 | 5 << 8, 2 ** 64, -5, 4 | 3 << 8,
                               rng.getrandbits(64)])
        cases.append({'e': ev, 's': S, 'kind': 'bad-traceid'})
    for _ in range(60 if tier == 'quick' else 1500):  # damaged decomposed messages inside events
        S = gen_strings(rng)
        ev = gen_event(rng, S, ['dm'])
        ev['dm'] = damage(rng, ev['dm'], S)
        cases.append({'e': ev, 's': S, 'kind': 'bad-decomposed'})
    return cases


def damage(rng, dm, S):
    """One structural damage to a decomposed message."""
    dm = copy.deepcopy(dm)
    choice = rng.randrange(12)
    segs = dm.get('seg') or []
    if choice == 0:
        dm.pop(rng.choice(['pc', 's']), None)
    elif choice == 1:
        dm['pc'] = rng.choice([1, True, 's:x', [0]])
        dm.pop('seg', None)
    elif choice == 2:
        dm['pc'] = 1
        dm['seg'] = rng.choice([5, 's:lp', 'b:0102', {'lp': 1, 'zz': 2}, True, ['s:xlpx'], [['s:lp']], [5], ['b:00']])
    elif choice == 3 and segs:
        dm['pc'] = 1
        rng.choice(segs)['lp'] = rng.choice([401, 's:x', 'b:00', [], {}, True])
    elif choice == 4:
        dm['pc'] = 1
        p = gen_placeholder(rng, S)
        p.pop(rng.choice(['w', 'p']))
        dm['seg'] = segs + [{'p': p}]
    elif choice == 5:
        dm['pc'] = 1
        p = gen_placeholder(rng, S)
        p['t'] = rng.choice([5, 's:ab', 'b:0105', {'k': 1}, [401], True, 0, 's:', [[1]], ['s:q']])
        dm['seg'] = segs + [{'p': p}]
    elif choice == 6:
        dm['pc'] = 1
        dm['seg'] = segs + [{'p': rng.choice([5, 's:rs t w p', [], ['s:rs'], 'b:00', True])}]
    elif choice == 7:
        dm['pc'] = 1
        dm['seg'] = segs + [{'a': rng.choice([5, 's:a c or', [], ['s:or'], ['s:a'], 'b:00', False])}]
    elif choice == 8:
        dm['pc'] = 1
        dm['seg'] = segs + [{'a': {'c': 2, 'or': rng.choice([401, 's:x', [], {}])}}]
    elif choice == 9:
        dm['pc'] = 1
        dm['seg'] = segs + [{'a': {'c': rng.choice([True, 's:1', [1], 1]), 'sc': 4, 'a': rng.choice([3, True, 's:3', [3]]),
                                   'or': gen_idx(rng, S)}}]
    elif choice == 10:
        dm['pc'] = 1
        p = gen_placeholder(rng, S)
        p[rng.choice(['rs', 'tn', 'ty'])] = rng.choice([401, 's:x', [], True, -1])
        dm['seg'] = segs + [{'p': p}]
    else:
        dm['pc'] = rng.choice([[], {}, 's:', 'b:', False])     # falsy in every type: segments are not read
    return dm


def decomposed_cases(rng, tier):
    """Direct calls of parse_decomposed: every shape of segment."""
    cases = []

    def add(dm, S, kind):
        cases.append({'d': dm, 's': S, 'kind': kind})
    popt = ('rs', 't', 'tn', 'ty')
    aopt = ('a', 'p', 'c', 'sc', 'st', 'or')
    placeholders, args = [], []
    S0 = gen_strings(rng, 12)
    for r in range(len(popt) + 1):
        for sub in itertools.combinations(popt, r):
            placeholders.append(sub)
    for r in range(len(aopt) + 1):
        for sub in itertools.combinations(aopt, r):
            for cat in (1, 2, 0):
                for avail in (3, 1):
                    if 'c' not in sub and cat != 0:
                        continue
                    if 'a' not in sub and avail != 3:
                        continue
                    args.append((sub, cat, avail))
    for n in (0, 0, 0):
        add({'pc': n, 's': rng.randint(0, 3)}, S0, 'no-placeholders')
    add({'pc': 0, 's': 1, 'seg': [{'lp': 401}]}, S0, 'no-placeholders')      # segments are not looked at
    add({'pc': 2, 's': 0, 'seg': []}, S0, 'segments')
    for sub in placeholders:                     # every placeholder shape alone
        add({'pc': 1, 's': 0, 'seg': [{'p': gen_placeholder(rng, S0, sub)}]}, S0, 'placeholder-shapes')
    for sub, cat, avail in args:                 # every argument shape alone
        add({'pc': 1, 's': 0, 'seg': [{'a': gen_arg(rng, S0, sub, cat, avail)}]}, S0, 'arg-shapes')
    for lp in (False, True):                     # every subset of lp / p / a
        for p in (False, True):
            for a in (False, True):
                seg = {}
                if lp:
                    seg['lp'] = gen_idx(rng, S0)
                if p:
                    seg['p'] = gen_placeholder(rng, S0)
                if a:
                    seg['a'] = gen_arg(rng, S0)
                add({'pc': 1, 's': 2, 'seg': [seg]}, S0, 'segment-subsets')
    if tier == 'thorough':                       # full cross product lp x placeholder shape x argument shape
        for lp in (False, True):
            for psub in [None] + placeholders:
                for arg in [None] + args:
                    seg = {}
                    if lp:
                        seg['lp'] = gen_idx(rng, S0)
                    if psub is not None:
                        seg['p'] = gen_placeholder(rng, S0, psub)
                    if arg is not None:
                        seg['a'] = gen_arg(rng, S0, *arg)
                    add({'pc': 1, 's': 2, 'seg': [seg]}, S0, 'segment-cross')
    for _ in range(300 if tier == 'quick' else 8000):   # several segments, order matters
        S = gen_strings(rng)
        n = rng.randint(1, 6)
        add({'pc': n, 's': rng.randint(0, 3), 'seg': [gen_segment(rng, S) for _ in range(n)]}, S, 'segments')
    return cases


def malformed_decomposed_cases(rng, tier):
    cases = []
    for _ in range(400 if tier == 'quick' else 6000):
        S = gen_strings(rng)
        cases.append({'d': damage(rng, gen_decomposed(rng, S), S), 's': S, 'kind': 'damaged'})
    for bad in BAD_VALUES:
        cases.append({'d': copy.deepcopy(bad), 's': gen_strings(rng), 'kind': 'not-a-dict'})
    return cases


def traceid_cases(rng, tier):
    """(defined, k4, undefined) lists of words."""
    words = set()
    b2s = [0, 1, 0x0e, 0x10, 0x20, 0x3f, 0x40, 0x80, 0xff, 0x15, 0x2a]
    for ns in range(256):                        # all 256 namespace bytes
        for ty in (0, 1, 2, 3, 4, 0x10, 0x11, 0x41, 0xc1, 0xff):
            for fl in (0, 1, 3, 0x10, 0x80, 0xff):
                words.add(ns | ty << 8 | rng.choice(b2s) << 16 | fl << 24 | rng.getrandbits(32) << 32)
    for ns in NAMESPACES:
        for ty in range(256):                    # all 256 type bytes per defined namespace
            for fl in (1, 0x80, rng.randrange(256)):
                words.add(ns | ty << 8 | rng.randrange(256) << 16 | fl << 24 | rng.getrandbits(32) << 32)
        for b2 in range(256):                    # all 256 base-flag bytes per defined namespace
            ty = 1 if ns != 7 else 0
            words.add(ns | ty << 8 | b2 << 16 | 1 << 24 | rng.getrandbits(32) << 32)
            words.add(ns | ty << 8 | b2 << 16 | 0x10 << 24)
        for fl in range(256):                    # all 256 namespace-flag bytes per defined namespace
            words.add(ns | 1 << 8 | rng.randrange(256) << 16 | fl << 24 | rng.getrandbits(32) << 32)
        for code in (0, 1, 2 ** 32 - 1, 2 ** 31, 0x01020304):
            words.add(ns | 1 << 8 | 1 << 24 | code << 32)
    if tier == 'thorough':
        for ns in NAMESPACES:                    # type byte x flags byte in full, base flags cycling through all values
            i = 0
            for ty in range(256):
                for fl in range(256):
                    words.add(ns | ty << 8 | (i % 256) << 16 | fl << 24 | (i * 2654435761 % 2 ** 32) << 32)
                    i += 1
        for ns in range(256):                    # namespace byte x type byte x base flags in full
            for ty in range(256):
                words.add(ns | ty << 8 | ((ns * 7 + ty) % 256) << 16 | 1 << 24 | (ns * ty) << 32)
        for ns in NAMESPACES:
            for b2 in range(256):
                for fl in range(256):
                    words.add(ns | 1 << 8 | b2 << 16 | fl << 24 | 7 << 32)
    for _ in range(1500 if tier == 'quick' else 100000):
        words.add(gen_defined_word(rng))
    for _ in range(300 if tier == 'quick' else 20000):
        words.add(rng.getrandbits(64))
    out = {'defined': [], 'k4': [], 'undefined': []}
    for w in sorted(words):
        ns, ty, _, _, _, _, fl, _ = unpack_word(w)
        out[classify_id(ns, ty, fl)].append(w)
    out['undefined'] += [2 ** 64, 2 ** 64 + 4, -1, -2 ** 63, 2 ** 200]
    return out


def timestamp_cases(rng, tier):
    cases = set()
    secs = [0, 1, 59, 86399, 86400, 2 ** 31 - 1, 2 ** 31, 2 ** 32 - 1, 2 ** 32 - 2, 1_700_000_000, 951782400,
            4102444800, 2 ** 24, 2 ** 30 + 1] + [2 ** k for k in range(1, 32)] + [2 ** k - 1 for k in range(1, 33)]
    usecs = [0, 1, 2, 499999, 500000, 500001, 999998, 999999, 123456, 654321, 250000, 750000, 5, 50, 500, 5000, 50000]
    for s in secs:
        for u in usecs:
            cases.add((s, u))
    n = 3000 if tier == 'quick' else 1_100_000
    for _ in range(n):
        cases.add((rng.choice([rng.randrange(2 ** 32), rng.randrange(2 ** 31, 2 ** 32),
                               2 ** 32 - 1 - rng.randrange(100000)]), rng.randrange(10 ** 6)))
    return sorted(cases)


# =============================================================================================
# oracles: the property stated directly on the implementation's answer

def norm_k4(x):
    """A repaired K4 (flags of namespace `trace` through an IntFlag) shows single members as `Cls(value)`;
    the format only fixes the value, so both spellings are the same answer."""
    if isinstance(x, dict):
        if x.get('$') == 's:TraceIdentifier' and isinstance(x.get('flags'), str):
            for v, n in K4_SINGLE.items():
                if x['flags'] == 'e:%s(%d)' % (FLAG_ENUMS[3], v):
                    x = dict(x, flags='e:%s.%s' % (FLAG_ENUMS[3], n))
        return {k: norm_k4(v) for k, v in x.items()}
    if isinstance(x, list):
        return [norm_k4(v) for v in x]
    return x


def first_diff(exp, got, path=''):
    if isinstance(exp, dict) and isinstance(got, dict):
        for k in sorted(set(exp) | set(got)):
            if k not in got:
                return path + '/' + k, 'missing'
            if k not in exp:
                return path + '/' + k, 'unexpected'
            d = first_diff(exp[k], got[k], path + '/' + k)
            if d:
                return d
        return None
    if isinstance(exp, list) and isinstance(got, list):
        if len(exp) != len(got):
            return path, 'length %d != %d' % (len(got), len(exp))
        for i, (a, b) in enumerate(zip(exp, got)):
            d = first_diff(a, b, '%s[%d]' % (path, i))
            if d:
                return d
        return None
    if type(exp) is not type(got) or exp != got:
        return path, 'is %r, expected %r' % (got, exp)
    return None


def oracle_event(case, got):
    """Well-shaped event: decoding succeeds, every present key's field holds the spec's value, every absent key's
    field holds its default, and there are exactly the 41 fields."""
    S = {i: s[2:] for i, s in case['s']}
    ev = {k: v for k, v in case['e'].items()}
    exp = spec_record(ev, S)
    if not got.startswith('ok '):
        # shrink: drop optional (and unknown) keys while the record still raises the same error
        small = dict(ev)
        mandatory = {k for k, _, _ in SPEC_MANDATORY}
        for k in sorted(ev):
            if k in mandatory:
                continue
            trial = {x: v for x, v in small.items() if x != k}
            try:
                r = impl_event({'e': trial, 's': case['s']})
            except Exception as e:
                r = 'err ' + core.err_name(e)
            if r == got:
                small = trial
        present = sorted(k for k in small if k not in mandatory)
        return ('oslog:raises:' + '+'.join(present),
                'a well-shaped record with the mandatory keys and optional keys %s raised %s; smallest such event: %s'
                % (present, got[4:], dumps(small)[:600]))
    rec = norm_k4(json.loads(got[3:]))
    d = first_diff(exp, rec)
    if d:
        field = d[0].split('/')[1].split('[')[0] if '/' in d[0] else d[0]
        return ('oslog:field:' + field, 'decoded record differs from the format at %s: %s' % d)
    return None


def oracle_event_malformed(case, got):
    if case['kind'] == 'missing-mandatory' and got != 'err KeyError':
        return ('oslog:missing-mandatory-accepted',
                'a record without mandatory key %s gave %s' % (case.get('missing'), got[:80]))
    return None


def oracle_decomposed(case, got):
    S = {i: s[2:] for i, s in case['s']}
    exp = spec_decomposed(case['d'], S)
    if not got.startswith('ok '):
        return ('decomposed:raises', 'the well-shaped decomposed message %s raised %s' % (dumps(case['d'])[:400], got[4:]))
    d = first_diff(exp, json.loads(got[3:]))
    if d:
        return ('decomposed:segment', 'decomposed message differs from the format at %s: %s' % d)
    return None


def oracle_traceid(w, got):
    """decode(pack(t)) = t on the defined domain; on K4's domain the known defect."""
    if not 0 <= w < 2 ** 64:
        return None
    f = unpack_word(w)
    cls = classify_id(f[0], f[1], f[6])
    if cls == 'k4':
        if got.startswith('ok '):
            return None
        return ('traceid:trace-namespace-flags',
                'namespace trace, flags byte %#x: %s (flags are looked up in a non-flag Enum)' % (f[6], got[4:]))
    if cls == 'undefined':
        return None
    if not got.startswith('ok '):
        return ('traceid:raises', 'identifier %#x of the defined domain raised %s' % (w, got[4:]))
    exp = spec_trace_id(*f)
    assert pack_id(*f) == w & ~(0xc0 << 16)
    d = first_diff(exp, norm_k4(json.loads(got[3:])))
    if d:
        return ('traceid:' + d[0].strip('/'), 'identifier %#x decodes to a different %s: %s' % (w, d[0], d[1]))
    return None


def oracle_timestamp(case, got):
    exp = 'ok ' + dumps('t:%d.%d' % case)
    if got != exp:
        return ('oslog:timestamp', 'unix_date sec=%d usec=%d decodes to %s' % (case[0], case[1], got))
    return None


# =============================================================================================

def line_event(c):
    return 'oslog ' + hexjson({'e': c['e'], 's': c['s']})


def line_dm(c):
    return 'oslog-dm ' + hexjson({'d': c['d'], 's': c['s']})


# =============================================================================================
# the same records through every ROUTE: packed into a version-3 dump (log-events blocks + string-index block) and read
# back through KdBufParser.parse / PyKdebugParser.os_log_events

DUMP_NAMES = ['kernel_task', 'locationd', 'launchd', 'a', '', 'naïve', 'x' * 19]
DUMP_PIDS = [0, 1, 70, 99, 4242, 2 ** 31 - 1]


def plistable(x):
    """The same wire value with integers brought into the range a binary property list can hold."""
    if isinstance(x, bool):
        return x
    if isinstance(x, int):
        return x if -2 ** 63 <= x < 2 ** 64 else x % 2 ** 64
    if isinstance(x, list):
        return [plistable(v) for v in x]
    if isinstance(x, dict):
        return {k: plistable(v) for k, v in x.items()}
    return x


def gen_dump_strings(rng):
    """A string table whose texts are pairwise distinct (the file stores it inverted: text -> index)."""
    seen, out = set(), []
    for i, s in gen_strings(rng):
        if s in seen:
            s = '%s#%d' % (s, i)
        seen.add(s)
        out.append([i, s])
    return out


def gen_dump(rng, subsets):
    """One version-3 dump description around len(subsets) raw events: thread map naming SOME of the records' threads (with
    and without a process name, pid 0 and others, duplicate entries, unrelated entries), the events spread over 1..3
    log-events blocks, the string-index block before / between / behind them (an earlier, stale index block in front),
    other blocks and kernel records around."""
    from .. import containers as CT
    S = gen_dump_strings(rng)
    pool = rng.sample([0, 1, 7, 0x111, 0x222, 0x1234, 2 ** 64 - 1, rng.getrandbits(40), rng.getrandbits(64)], 3)
    evs = []
    for keys in subsets:
        ev = plistable(gen_event(rng, S, keys, extra=rng.random() < 0.15))
        ev['tid'] = rng.choice(pool)
        if 'pid' in ev:
            ev['pid'] = rng.choice(DUMP_PIDS + [rng.getrandbits(31)])
        evs.append(ev)
    listed = [t for t in pool if rng.random() < 0.6]
    threads = [[t, rng.choice(DUMP_PIDS), rng.choice(DUMP_NAMES).encode('utf-8').hex()] for t in listed]
    if threads and rng.random() < 0.3:                 # a second entry for a listed thread
        threads.append([threads[0][0], rng.choice(DUMP_PIDS), rng.choice(DUMP_NAMES).encode('utf-8').hex()])
    for _ in range(rng.choice([0, 0, 1, 2])):          # entries of threads no record names
        threads.insert(rng.randrange(len(threads) + 1), [rng.getrandbits(20) + 0x10000, rng.choice(DUMP_PIDS),
                                                         rng.choice(DUMP_NAMES).encode('utf-8').hex()])
    f = CT.gen_v3(rng, small=True, blocks=False)
    f['threads'] = threads
    n = len(evs)
    nb = rng.randrange(1, min(3, n) + 1)
    cuts = sorted(rng.randrange(n + 1) for _ in range(nb - 1))
    layout, prev = [], 0
    for c in cuts + [n]:
        layout.append(['logs', list(range(prev, c))])
        prev = c
    at = rng.randrange(len(layout) + 1)
    layout.insert(at, ['strings'])
    if rng.random() < 0.3:
        layout.insert(rng.randrange(at + 1), ['stale'])
    for _ in range(rng.choice([0, 0, 1, 2])):
        layout.insert(rng.randrange(len(layout) + 1),
                      rng.choice([['codes'], ['unknown', rng.randbytes(rng.randrange(0, 20)).hex()], ['procs']]))
    prior = []
    if rng.random() < 0.3:                             # tables left by an earlier request on the same object
        prior = [[t, rng.choice(DUMP_PIDS), rng.choice(DUMP_NAMES)] for t in pool if rng.random() < 0.7]
    return {'v3': f, 'layout': layout, 'evs': evs, 's': S, 'listed': listed, 'prior': prior,
            'lastpad': rng.random() < 0.5, 'route': rng.choice(['KdBufParser.parse', 'PyKdebugParser.os_log_events'])}


def dump_bytes(d):
    from .. import containers as CT
    f = dict(d['v3'])
    blocks = []
    for b in d['layout']:
        if b[0] == 'logs':
            tag, payload = CT.TAG_LOGS, CT.bplist({'Events': [unwire(copy.deepcopy(d['evs'][i])) for i in b[1]]})
        elif b[0] == 'strings':
            tag, payload = CT.TAG_STRINGS, CT.bplist({'StringIndex': {s[2:]: i for i, s in d['s']}})
        elif b[0] == 'stale':
            tag, payload = CT.TAG_STRINGS, CT.bplist({'StringIndex': {'stale%d' % j: i for j, (i, _) in enumerate(d['s'][:3])}})
        elif b[0] == 'codes':
            tag, payload = CT.TAG_CODES, b'0x1\tA_CODE\n'
        elif b[0] == 'procs':
            tag, payload = CT.TAG_PROCS, CT.bplist({'p1': {'pid': 1}})
        else:
            tag, payload = b'\x77\x80\x00\x00\x00\x00\x00\x00', bytes.fromhex(b[1])
        blocks.append({'tag': tag.hex(), 'payload': payload.hex(), 'padded': True})
    blocks[-1]['padded'] = d['lastpad']
    f['blocks'] = blocks
    return CT.v3_bytes(f)


_LAST_DUMP = [None, None]


def run_dump(d):
    """The log records the dump yields through its route, canonicalised as they are produced: (answers, error name)."""
    import io
    from .. import impl  # noqa: F401
    from .. import containers as CT
    from pykdebugparser.os_log_event import OsLogEvent
    if _LAST_DUMP[0] is d:
        return _LAST_DUMP[1]
    data = dump_bytes(d)
    tp = {t: p for t, p, _ in d['prior']}
    pn = {p: n for _, p, n in d['prior']}
    if d['route'] == 'KdBufParser.parse':
        from pykdebugparser.kd_buf_parser import KdBufParser
        it = (o for o in KdBufParser(tp, pn).parse(io.BytesIO(data)) if isinstance(o, OsLogEvent))
    else:
        from pykdebugparser.pykdebugparser import PyKdebugParser
        p = PyKdebugParser()
        p.threads_pids.update(tp)
        p.pids_names.update(pn)
        it = p.os_log_events(io.BytesIO(data))
    outs, err = [], None
    try:
        for ev in it:
            outs.append('ok ' + dumps({f.name: canon(getattr(ev, f.name)) for f in dataclasses.fields(ev)}))
    except Exception as e:
        err = CT.out_err(e)
    _LAST_DUMP[0], _LAST_DUMP[1] = d, (outs, err)
    return outs, err


def impl_dump_event(case):
    outs, err = run_dump(case['dump'])
    i = case['index']
    if i < len(outs) and (err is not None or len(outs) == len(case['dump']['evs'])):
        return outs[i]
    if err is not None:
        return 'err ' + err
    return 'err dump:count:%d' % len(outs)


def oracle_dump_event(case, got):
    """The record read back from the file is the record the format describes: present fields carry their value, absent
    fields keep their defaults — whatever else the dump holds."""
    d = case['dump']
    where = 'record %d of %d of a version-3 dump read through %s (thread %d %s the dump\'s thread map %s)' % (
        case['index'], len(d['evs']), d['route'], case['e']['tid'],
        'is listed in' if case['e']['tid'] in d['listed'] else 'is not in',
        [(t[0], t[1], bytes.fromhex(t[2]).decode('utf-8')) for t in d['v3']['threads']])
    if got.startswith('err dump:count:'):
        return ('oslog:dump:record-count', 'a version-3 dump with %d log records read through %s yields %s'
                % (len(d['evs']), d['route'], got.rsplit(':', 1)[1]))
    r = oracle_event(case, got)
    if r:
        return ('oslog:dump:' + r[0].split(':', 1)[1], where + ': ' + r[1])
    return None


def dump_cases(rng, tier):
    opt = [k for k, _, _ in SPEC_OPTIONAL]
    who = ['p', 'pid', 'pip']
    plans = []
    # every subset of the keys that say whose record it is x sparse / dense others, then random subsets
    for r in range(len(who) + 1):
        for sub in itertools.combinations(who, r):
            for dens in (0.0, 0.3, 0.8):
                plans.append(list(sub) + [k for k in opt if k not in who and rng.random() < dens])
    for _ in range(450 if tier == 'quick' else 12000):
        p = rng.choice([0.1, 0.3, 0.5, 0.7, 0.9])
        plans.append([k for k in opt if rng.random() < p])
    plans.append([])
    plans.append(list(opt))
    rng.shuffle(plans)
    cases = []
    while plans:
        n = rng.randrange(1, 7)
        subsets, plans = plans[:n], plans[n:]
        d = gen_dump(rng, subsets)
        for i, keys in enumerate(subsets):
            cases.append({'e': d['evs'][i], 's': d['s'], 'kind': 'dump', 'opt': sorted(keys), 'dump': d, 'index': i})
    return cases


def dump_kind(c, got):
    e, d = c['e'], c['dump']
    return '%s/%s/%s%s' % ('parse' if d['route'] == 'KdBufParser.parse' else 'os_log_events',
                           'listed' if e['tid'] in d['listed'] else 'unlisted',
                           '+'.join(k for k in ('p', 'pid') if k in e) or 'anonymous', '/prior' if d['prior'] else '')


def retained_section(rep, rng, tier, events, words):
    """Decoded records are values: a record keeps what it was decoded to while later records are decoded in the same
    process.  Batches of raw events / trace-identifier words are decoded, the decoded objects are KEPT, and every object
    is looked at once when it is produced and once more after the whole batch (words of one batch share their low 32
    bits — namespace / type / flags — and differ in the code, or share the code and differ below)."""
    from .. import impl  # noqa: F401
    from pykdebugparser.os_log_event import OsLogEvent
    sec = rep.section('retained-records')
    sec['rule'] = ('batches of 6-24 raw events (and of trace-identifier words that agree in their low or in their high half) '
                   'decoded one after the other with every decoded object kept alive; each object canonicalised when produced '
                   'and again after the batch: the two must agree (and the first is what the other sections compare with the '
                   'model)')
    nb = 40 if tier == 'quick' else 1500
    evs = [c for c in events]
    for b in range(nb):
        batch = []
        if b % 2 == 0 and words:
            w0 = rng.choice(words)
            for _ in range(rng.randrange(4, 12)):
                r = rng.random()
                w = ((w0 & 0xffffffff) | (rng.getrandbits(32) << 32)) if r < 0.6 else \
                    ((w0 & ~0xffffffff) | (rng.choice(words) & 0xffffffff)) if r < 0.85 else rng.choice(words)
                batch.append(('w', w))
            if evs:
                batch.extend(('e', rng.choice(evs)) for _ in range(rng.randrange(0, 4)))
            rng.shuffle(batch)
        else:
            batch = [('e', rng.choice(evs)) for _ in range(rng.randrange(6, 25))] if evs else []
        kept = []
        for kind, x in batch:
            try:
                if kind == 'w':
                    obj = OsLogEvent.parse_trace_identifier(x)
                else:
                    obj = OsLogEvent.from_raw_log_event(unwire(copy.deepcopy(x['e'])), strings_of(x))
            except Exception:
                continue
            kept.append((kind, x, obj, dumps(canon(obj))))
        for kind, x, obj, first in kept:
            sec['cases'] += 1
            again = dumps(canon(obj))
            if again != first:
                fd = first_diff(json.loads(first), json.loads(again))
                rep.add_failure('oslog:decoded-record-changes-later',
                                'a decoded %s reads differently after later records were decoded in the same process: %s'
                                % ('trace identifier %#x' % x if kind == 'w' else 'log record', fd),
                                {'section': 'retained-records',
                                 'batch': [[k, (y if k == 'w' else {'e': y['e'], 's': y['s']})] for k, y in batch]})
                break
            sec['distinct_nontrivial'] += 1


MIRROR = {'oslog-dm': 'oslog-dm-ir', 'traceid': 'traceid-ir', 'oslog': 'oslog-ir'}


def translation_tie(rep):
    """Checks `source_is_expected_ir` through the driver (the build reports it too, with less detail) and switches the
    `*-ir` mirror sections on: every section driven by `oslog-dm` / `traceid` / `oslog` is driven a second time through the
    methods GENERATED from os_log_event.py and compared with the same answers of the real code."""
    ans = core.drive(['olircheck'])[0]
    if ans == 'same':
        rep.notes.append('translation tie: Gen/PyIROl (from os_log_event.py: parse_trace_identifier, parse_decomposed, '
                         'parse_decomposed_segment) = Spec/PyIROlExpected')
    else:
        rep.broken.append('theorem source_is_expected_ir: the IR that tools/gen_pyir_ol.py translates from the source text of '
                          'OsLogEvent.parse_trace_identifier / parse_decomposed / parse_decomposed_segment is not the program of '
                          'Spec/PyIROlExpected that parse_decomposed_ir_eq_model / parse_decomposed_segment_ir_eq_model / '
                          'parse_trace_identifier_ir_eq_model are proved for (%s)' % ans)
    rep.mirror = dict(MIRROR)
    return 'unsupported' not in ans


def must_raise_decomposed(dm):
    """Structural reasons for which the format demands that a decomposed message is rejected (written on the raw value,
    independently of the model): a message without placeholder count / state, a non-zero count without segments, a
    placeholder without width or precision."""
    if not isinstance(dm, dict):
        return None
    if 'pc' not in dm or 's' not in dm:
        return 'no placeholder count / state'
    if not dm['pc']:
        return None
    if 'seg' not in dm:
        return 'a non-zero placeholder count without segments'
    if isinstance(dm['seg'], list):
        for seg in dm['seg']:
            if isinstance(seg, dict) and isinstance(seg.get('p'), dict) and not ('w' in seg['p'] and 'p' in seg['p']):
                return 'a placeholder without width / precision'
    return None


def oracle_decomposed_malformed(case, got):
    why = must_raise_decomposed(unwire(copy.deepcopy(case['d'])))
    if why and got.startswith('ok '):
        return ('decomposed:malformed-accepted', 'the decomposed message %s (%s) is accepted: %s'
                % (dumps(case['d'])[:400], why, got[:200]))
    return None


def correspondence(rep, rng, tier):
    translation_tie(rep)
    ev = event_cases(rng, tier)
    run_section(rep, 'event-subsets', ev, line_event, impl_event, oracle_event,
                nontrivial_fn=lambda c, got: got.startswith('ok') and bool(c['opt']),
                kind_fn=lambda c, got: c['kind'],
                rule='from_raw_log_event on generated well-shaped raw events: no optional key, every optional key alone, '
                     'every pair (465), all, all-but-one, random subsets at densities 0.1..0.9 (every fifth with unknown '
                     'extra keys), shuffled dict order; all 41 fields of the record compared; non-trivial = decoded '
                     'records with at least one optional key',
                sample_fn=lambda c: {'section': 'event-subsets', 'optional_keys': c['opt'], 'kind': c['kind']})
    mal = malformed_event_cases(rng, tier)
    run_section(rep, 'event-malformed', mal, line_event, impl_event, oracle_event_malformed,
                nontrivial_fn=lambda c, got: got.startswith('err'),
                kind_fn=lambda c, got: c['kind'] + ':' + (got[4:] if got.startswith('err') else 'ok'),
                rule='ill-formed events (separate stream): a mandatory key missing, wrong-typed / out-of-table values for '
                     'every typed key, dates outside the datetime range, undefined trace identifiers, damaged decomposed '
                     'messages; both sides must raise the same kind of error; non-trivial = cases that raise',
                sample_fn=lambda c: {'section': 'event-malformed', 'kind': c['kind']})
    run_section(rep, 'event-through-dump', dump_cases(rng, tier), line_event, impl_dump_event, oracle_dump_event,
                nontrivial_fn=lambda c, got: got.startswith('ok') and bool(c['opt']),
                kind_fn=dump_kind,
                rule='the same generated raw events through the file: 1..6 well-shaped events (every subset of the keys p / pid / '
                     'pip x sparse and dense other keys, random subsets at densities 0.1..0.9, none, all; integers within the '
                     'property-list range, thread ids from a pool of three per dump) packed as binary property lists into a '
                     'version-3 dump — 1..3 log-events blocks, the string-index block (texts pairwise distinct) before / between / '
                     'behind them, sometimes a stale index block in front, other blocks, kernel records in 1..4 chunks, a thread map '
                     'that lists SOME of the records\' threads (with and without process name, pid 0 and others, duplicate and '
                     'unrelated entries), sometimes tables left by an earlier request — and read back through KdBufParser.parse / '
                     'PyKdebugParser.os_log_events; every OsLogEvent the dump yields is compared field by field with the Lean model '
                     'of from_raw_log_event on the raw event and with the format oracle (present fields carry their value, absent '
                     'fields keep their defaults; as many records as the dump holds); non-trivial = decoded records with at least '
                     'one optional key',
                sample_fn=lambda c: {'section': 'event-through-dump', 'optional_keys': c['opt'], 'route': c['dump']['route'],
                                     'records': len(c['dump']['evs'])})
    dm = decomposed_cases(rng, tier)
    run_section(rep, 'decomposed', dm, line_dm, impl_decomposed, oracle_decomposed,
                nontrivial_fn=lambda c, got: got.startswith('ok') and bool(c['d'].get('pc')),
                kind_fn=lambda c, got: c['kind'],
                rule='parse_decomposed: placeholder count 0 / n, every subset of rs/t/tn/ty, every subset of a/p/c/sc/st/or '
                     'x category {1,2,other} x availability {3,other}, every subset of lp/p/a (thorough: the full cross '
                     'product), random multi-segment messages; non-trivial = messages with segments',
                sample_fn=lambda c: {'section': 'decomposed', 'kind': c['kind'], 'message': dumps(c['d'])[:200]})
    run_section(rep, 'decomposed-malformed', malformed_decomposed_cases(rng, tier), line_dm, impl_decomposed,
                oracle_decomposed_malformed,
                nontrivial_fn=lambda c, got: got.startswith('err'),
                kind_fn=lambda c, got: got[4:] if got.startswith('err') else 'ok',
                rule='damaged decomposed messages (separate stream): missing keys, indices outside the table, non-dict '
                     'segments / placeholders / arguments, token lists of other types; same error kind on both sides; a message '
                     'without count / state, a non-zero count without segments, a placeholder without width / precision must '
                     'be rejected',
                sample_fn=lambda c: {'section': 'decomposed-malformed', 'message': dumps(c['d'])[:200]})
    words = traceid_cases(rng, tier)
    for name, key, rule in (
            ('traceid-domain', 'defined',
             'parse_trace_identifier on words of the enum-defined domain: all 256 values of each of bytes 0..3 crossed with '
             'representative values of the others (thorough: type x flags, namespace x type, base flags x flags in full), '
             'padding bits set and clear, boundary codes, random; the oracle unpacks the word by the documented layout and '
             'compares every field'),
            ('traceid-k4', 'k4',
             'finding stream K4 only: namespace trace with a flags byte that is not a single member of '
             'FirehoseTracepointSingpostFlags (0 or a combination)'),
            ('traceid-malformed', 'undefined',
             'undefined namespace / type bytes, words that do not fit 64 bits, negative words: same error kind')):
        run_section(rep, name, words[key], lambda w: 'traceid %d' % w, impl_traceid, oracle_traceid,
                    nontrivial_fn=(lambda w, got: got.startswith('ok')) if key == 'defined' else
                    (lambda w, got: got.startswith('err')),
                    kind_fn=lambda w, got: (NAMESPACES.get(w & 0xff, 'undefined-namespace') if 0 <= w < 2 ** 64
                                            else 'out-of-range') + ':' + (got[4:] if got.startswith('err') else 'ok'),
                    rule=rule, sample_fn=lambda w, name=name: {'section': name, 'word': hex(w)})
    retained_section(rep, rng, tier, [c for c in ev if c.get('kind') != 'malformed'][:4000], words['defined'][:20000])
    run_section(rep, 'timestamp', timestamp_cases(rng, tier), lambda c: 'oslog-ts %d %d' % c, impl_timestamp,
                oracle_timestamp, kind_fn=lambda c, got: 'sec<2^31' if c[0] < 2 ** 31 else 'sec<2^32',
                rule='unix_date through from_raw_log_event for 0 <= sec < 2^32, 0 <= usec < 10^6: powers of two and their '
                     'predecessors x boundary microseconds, random instants (thorough: 1.1 M); the implementation\'s float '
                     'computation must give the exact instant to the microsecond (checked, not proved)',
                sample_fn=lambda c: {'section': 'timestamp', 'sec': c[0], 'usec': c[1]})
    if not any(f['signature'] == 'traceid:trace-namespace-flags' for f in rep.failures):
        rep.notes.append('K4 no longer reproduces: every word of the finding stream decodes (the source registers a flag '
                         'class for namespace trace); the K4 theorems hold vacuously and known_findings.json can be updated')
    # informational probe of the partial claim: beyond 2^33 s the float computation is not exact (not a failure)
    off = 0
    probe = [(rng.randrange(2 ** 33, 2 ** 34), rng.randrange(10 ** 6)) for _ in range(2000)]
    for c in probe:
        try:
            if impl_timestamp(c) != 'ok ' + dumps('t:%d.%d' % c):
                off += 1
        except Exception:
            off += 1
    rep.notes.append('unix_date float step: agreement with the exact instant is checked for sec < 2^32 (section timestamp), '
                     'not proved; informational probe outside the claim: %d of %d random instants with 2^33 <= sec < 2^34 '
                     'decode one microsecond off' % (off, len(probe)))
    rep.notes.append('K4 inputs (namespace trace, flags not a single member) are generated only in section traceid-k4')


def replay(path):
    with open(path) as fd:
        r = json.load(fd)
    rp = r['replay']
    if rp.get('section') == 'retained-records':
        from .. import impl  # noqa: F401
        from pykdebugparser.os_log_event import OsLogEvent
        kept = []
        for kind, x in rp['batch']:
            try:
                obj = (OsLogEvent.parse_trace_identifier(x) if kind == 'w'
                       else OsLogEvent.from_raw_log_event(unwire(copy.deepcopy(x['e'])), strings_of(x)))
            except Exception:
                continue
            kept.append((kind, x, obj, dumps(canon(obj))))
        bad = 0
        for kind, x, obj, first in kept:
            again = dumps(canon(obj))
            if again != first:
                print('decoded %s: when produced %s' % (kind, first[:600]))
                print('            after the batch %s' % again[:600])
                bad += 1
        if bad:
            print(f'VIOLATION property=C16 replay={path}')
            return 1
        print('no violation on this input')
        return 0
    sec, case = rp['section'], rp['case']
    table = {
        'event-subsets': (line_event, impl_event, oracle_event),
        'event-malformed': (line_event, impl_event, oracle_event_malformed),
        'event-through-dump': (line_event, impl_dump_event, oracle_dump_event),
        'decomposed': (line_dm, impl_decomposed, oracle_decomposed),
        'decomposed-malformed': (line_dm, impl_decomposed, oracle_decomposed_malformed),
        'traceid-domain': (lambda w: 'traceid %d' % w, impl_traceid, oracle_traceid),
        'traceid-k4': (lambda w: 'traceid %d' % w, impl_traceid, oracle_traceid),
        'traceid-malformed': (lambda w: 'traceid %d' % w, impl_traceid, oracle_traceid),
        'timestamp': (lambda c: 'oslog-ts %d %d' % tuple(c), impl_timestamp, lambda c, g: oracle_timestamp(tuple(c), g)),
    }
    line_fn, impl_fn, oracle = table[sec]
    try:
        got = impl_fn(case)
    except Exception as e:
        got = 'err ' + core.err_name(e)
    model = core.drive([line_fn(case)])[0]
    print('case :', dumps(case)[:1500])
    print('impl :', got)
    print('model:', model)
    res = oracle(case, got) if oracle else None
    if res:
        k = core.Findings().known('C16', res[0])
        if k:
            print(f"KNOWN-FINDING: property=C16 {k['id']} {k['description']}")
            return 0
        print(f'VIOLATION property=C16 replay={path}')
        return 1
    return 0


LEVEL_TEXT = ('Lean theorems over the table-driven model of from_raw_log_event instantiated with the key chain, dataclass '
              'fields, enum classes, namespace dictionaries and construct layout regenerated from the source on every run: '
              'decode_subset (every subset of the optional keys, by induction on the chain), keys_have_fields / '
              'chain_is_format (reflective), unknown_keys_ignored, segments_in_order / segment_total, traceid_inverse / '
              'traceid_total on the enum-defined domain.  TRANSLATION TIE: the source text of parse_trace_identifier, '
              'parse_decomposed and parse_decomposed_segment is translated on every run into a Python-subset IR (Gen/PyIROl); '
              'source_is_expected_ir pins it to Spec/PyIROlExpected, and parse_decomposed_ir_eq_model / '
              'parse_decomposed_segment_ir_eq_model / parse_trace_identifier_ir_eq_model prove that the generated methods, run '
              'by a big-step interpreter over the model\'s plist values, ARE the hand model for every value and string table '
              '(same result, same exception; no hypothesis), so the theorems above speak about the interpreted source '
              '(transforms_rest_on_ir); id_tables_coherent / module_dicts_as_written tie the reflected tables the primitives '
              'use to the names and dict displays of the source.  The chain interpreter, the construct bit order and the '
              'plist protocol stay tied by differential runs on structured events, decomposed messages and identifier '
              'words; the `*-ir` sections run the generated IR itself against the real code.')
LEVEL_NOTE = ('Translation tie: primitives of the IR are the construct parse of the identifier word, Enum(x) and the contents of '
              'tracepoint_types / tracepoint_flags (reflected).  Partial: unix_date is the exact instant in the model; the implementation\'s floating-point step is checked for '
              'sec < 2^32, not proved.  K4 (namespace trace flags through a non-flag Enum) is excluded from the inverse '
              'theorem\'s domain and witnessed by decide.')
TECHNIQUE = ('Lean 4 proof over translated tables (AST + reflection) + translation tie (source text -> Python-subset IR, '
             'interpreter proved equal to the hand model) + differential correspondence')
