"""What the tool prints is a function of the dump and of the configuration — not of the process it runs in (shared by C14 / C18).

Statement used (on the real code alone): the answer of a case (formatted lines of a dump under a configuration, the rendering of
a window) computed in a fresh interpreter is the same under every AMBIENT condition: the terminal geometry (COLUMNS / LINES),
the colour conventions (NO_COLOR, FORCE_COLOR, CLICOLOR_FORCE, TERM, COLORTERM), the time zone (TZ), the locale (LC_ALL / LANG,
PYTHONUTF8 off), the hash seed, HOME / USER, the working directory, and whether standard output is a terminal (a pty).  The
properties quantify over dumps and configurations only; a line that changes with the width of the terminal it is NOT printed on
breaks "switching one column off alters no other" for a reader who compares two runs.

The baseline runs with all those variables REMOVED and standard output not a terminal.  Every case is answered by
`<module>:<function>(case) -> str` named by the caller; the helper process (`python -m kdv.ambient jobfile outfile`) writes its
answers to a file, so nothing depends on the encoding of a pipe."""
import json
import os
import subprocess
import sys
import tempfile
from concurrent.futures import ThreadPoolExecutor

from . import core

CLEARED = ['COLUMNS', 'LINES', 'NO_COLOR', 'FORCE_COLOR', 'CLICOLOR', 'CLICOLOR_FORCE', 'TERM', 'COLORTERM', 'TZ', 'LC_ALL', 'LANG',
           'LC_CTYPE', 'LC_TIME', 'LC_NUMERIC', 'LANGUAGE', 'PYTHONUTF8', 'PYTHONIOENCODING', 'PYTHONHASHSEED', 'PAGER', 'LESS',
           'PYGMENTS_STYLE', 'PY_COLORS', 'ANSI_COLORS_DISABLED']

CONDITIONS = [
    ('COLUMNS=80 LINES=24', {'COLUMNS': '80', 'LINES': '24'}, False, None),
    ('COLUMNS=40', {'COLUMNS': '40', 'LINES': '10'}, False, None),
    ('COLUMNS=300', {'COLUMNS': '300'}, False, None),
    ('NO_COLOR=1', {'NO_COLOR': '1', 'ANSI_COLORS_DISABLED': '1', 'PY_COLORS': '0'}, False, None),
    ('FORCE_COLOR=1 CLICOLOR_FORCE=1', {'FORCE_COLOR': '1', 'CLICOLOR_FORCE': '1', 'CLICOLOR': '1', 'PY_COLORS': '1'}, False, None),
    ('TERM=dumb', {'TERM': 'dumb'}, False, None),
    ('TERM=xterm-256color COLORTERM=truecolor', {'TERM': 'xterm-256color', 'COLORTERM': 'truecolor'}, False, None),
    ('TZ=Asia/Tokyo', {'TZ': 'Asia/Tokyo'}, False, None),
    ('TZ=America/St_Johns', {'TZ': 'America/St_Johns'}, False, None),
    ('LC_ALL=C PYTHONUTF8=0', {'LC_ALL': 'C', 'LANG': 'C', 'PYTHONUTF8': '0'}, False, None),
    ('LC_ALL=C.UTF-8 LANGUAGE=de', {'LC_ALL': 'C.UTF-8', 'LANG': 'de_DE.UTF-8', 'LANGUAGE': 'de'}, False, None),
    ('PYTHONHASHSEED=1', {'PYTHONHASHSEED': '1'}, False, None),
    ('PYTHONHASHSEED=4242', {'PYTHONHASHSEED': '4242'}, False, None),
    ('HOME=/nonexistent USER=nobody', {'HOME': '/nonexistent', 'USER': 'nobody', 'LOGNAME': 'nobody'}, False, None),
    ('cwd=/', {}, False, '/'),
    ('stdout is a terminal (pty, 80x24)', {'TERM': 'xterm'}, True, None),
    ('stdout is a terminal (pty) COLUMNS=60', {'TERM': 'xterm', 'COLUMNS': '60'}, True, None),
]


def _helper_main(argv):
    import importlib
    job = json.load(open(argv[0]))
    mod, fn = job['fn'].split(':')
    f = getattr(importlib.import_module(mod), fn)
    out = []
    for c in job['cases']:
        try:
            out.append(f(c))
        except Exception as e:       # noqa: BLE001 - the answer of a case that raises is its exception
            out.append('raised %s: %s' % (type(e).__name__, str(e)[:200]))
    with open(argv[1], 'w', encoding='utf-8', errors='surrogateescape') as fd:
        json.dump(out, fd)


def run_under(fn, cases, env_add, tty, cwd):
    """Answers of `cases` in a fresh interpreter under the baseline environment plus `env_add`."""
    env = {k: v for k, v in os.environ.items() if k not in CLEARED}
    env.update(env_add)
    tools = os.path.dirname(os.path.dirname(os.path.abspath(__file__)))
    env['PYTHONPATH'] = os.pathsep.join([core.REPO, tools] + [p for p in env.get('PYTHONPATH', '').split(os.pathsep) if p])
    with tempfile.TemporaryDirectory(prefix='kdv_ambient_') as td:
        jf, of = os.path.join(td, 'job.json'), os.path.join(td, 'out.json')
        with open(jf, 'w') as fd:
            json.dump({'fn': fn, 'cases': cases}, fd)
        kw = {'stdout': subprocess.DEVNULL, 'stdin': subprocess.DEVNULL}
        master = slave = None
        if tty:
            import fcntl
            import pty
            import struct
            import termios
            master, slave = pty.openpty()
            fcntl.ioctl(slave, termios.TIOCSWINSZ, struct.pack('HHHH', 24, 80, 0, 0))
            kw = {'stdout': slave, 'stdin': slave}
        try:
            p = subprocess.run([sys.executable, '-m', 'kdv.ambient', jf, of], env=env, cwd=cwd or tools, stderr=subprocess.PIPE,
                               timeout=600, **kw)
        finally:
            for fdn in (master, slave):
                if fdn is not None:
                    os.close(fdn)
        if p.returncode != 0 or not os.path.exists(of):
            return None, p.stderr.decode('utf-8', 'replace')[-400:]
        with open(of, encoding='utf-8', errors='surrogateescape') as fd:
            return json.load(fd), ''


def section(rep, rng, tier, prop, fn, cases, name='ambient'):
    sec = rep.section(name)
    conds = CONDITIONS if tier != 'quick' else [CONDITIONS[i] for i in sorted(set(rng.sample(range(len(CONDITIONS)), 5) + [0, 15]))]
    from . import mined
    if tier == 'quick' and mined.changed_files():
        conds = CONDITIONS
    sec['rule'] = ('%d cases answered by %s in fresh interpreters: baseline (terminal / colour / time-zone / locale / hash-seed '
                   'variables removed, stdout not a terminal) vs %d ambient conditions (%s); every answer must be the baseline '
                   'answer (oracle on the code alone)' % (len(cases), fn, len(conds), '; '.join(c[0] for c in conds)))
    base, err = run_under(fn, cases, {}, False, None)
    if base is None:
        sec['dist'] = {'helper_failed': err}
        rep.broken.append('ambient helper did not run: ' + err[:200])
        return
    with ThreadPoolExecutor(max_workers=6) as ex:
        results = list(ex.map(lambda c: run_under(fn, cases, c[1], c[2], c[3]), conds))
    done = set()
    for (label, env_add, tty, cwd), (got, err) in zip(conds, results):
        if got is None:
            sec['dist'] = dict(sec.get('dist') or {}, **{'failed:' + label: err[:120]})
            continue
        for i, (a, b) in enumerate(zip(base, got)):
            sec['cases'] += 1
            if a == b:
                sec['distinct_nontrivial'] += 1
                continue
            sig = 'ambient:answer-depends-on-environment'
            if sig in done:
                continue
            done.add(sig)
            k = next((j for j in range(min(len(a), len(b))) if a[j] != b[j]), min(len(a), len(b)))
            rep.add_failure(sig, '%s: the same case answers differently under %s: baseline …%r…, there …%r…'
                            % (prop, label, a[max(0, k - 60):k + 60], b[max(0, k - 60):k + 60]),
                            {'section': name, 'fn': fn, 'case': cases[i], 'env': env_add, 'tty': tty, 'cwd': cwd, 'label': label})


def replay(rp):
    a, _ = run_under(rp['fn'], [rp['case']], {}, False, None)
    b, _ = run_under(rp['fn'], [rp['case']], rp.get('env') or {}, bool(rp.get('tty')), rp.get('cwd'))
    lines = ['baseline                : %r' % (a and a[0][:1500]), 'under %s: %r' % (rp.get('label'), b and b[0][:1500])]
    return a != b, lines


def order_section(rep, rng, tier, prop, fn, cases, name='request-order'):
    """The answer of a case does not depend on which OTHER cases the process answered before it (each case builds its own
    objects; what survives is module-level / class-level state).  The cases are answered in one fresh interpreter in the given
    order, in another in reverse order, in a third in a shuffled order; a case whose answers differ is answered ALONE in a fresh
    interpreter, and the order that disagrees with that is shrunk to one predecessor when one suffices."""
    sec = rep.section(name)
    n = len(cases)
    sec['rule'] = ('%d cases answered by %s in one fresh interpreter in the given order, in another in reverse, in a third shuffled; '
                   'every case must get the same answer in all three (a case that does not is answered alone, and the failing '
                   'order is shrunk to a single predecessor when one suffices; oracle on the code alone)' % (n, fn))
    perm = list(range(n))
    rng.shuffle(perm)
    orders = [list(range(n)), list(range(n - 1, -1, -1)), perm]
    with ThreadPoolExecutor(max_workers=3) as ex:
        res = list(ex.map(lambda o: run_under(fn, [cases[i] for i in o], {}, False, None), orders))
    if any(r[0] is None for r in res):
        rep.broken.append('request-order helper did not run: ' + ' / '.join(r[1][:150] for r in res if r[0] is None))
        return
    ans = []
    for o, (got, _) in zip(orders, res):
        a = [None] * n
        for pos, i in enumerate(o):
            a[i] = got[pos]
        ans.append(a)
    for i in range(n):
        sec['cases'] += 1
        if ans[0][i] == ans[1][i] == ans[2][i]:
            sec['distinct_nontrivial'] += 1
            continue
        alone = run_under(fn, [cases[i]], {}, False, None)[0][0]
        k = next(k for k in range(3) if ans[k][i] != alone)
        before = orders[k][:orders[k].index(i)]
        pred = None
        for j in reversed(before):
            got = run_under(fn, [cases[j], cases[i]], {}, False, None)[0]
            if got and got[1] != alone:
                pred = [j]
                break
        pred = pred if pred is not None else before
        a, b = alone, ans[k][i]
        d = next((x for x in range(min(len(a), len(b))) if a[x] != b[x]), min(len(a), len(b)))
        rep.add_failure('history:answer-depends-on-earlier-requests',
                        '%s: a request answers differently after %d other request(s) in the same process than alone: alone …%r…, '
                        'after them …%r…' % (prop, len(pred), a[max(0, d - 60):d + 80], b[max(0, d - 60):d + 80]),
                        {'section': name, 'fn': fn, 'case': cases[i], 'before': [cases[j] for j in pred]})
        break


def replay_order(rp):
    alone = run_under(rp['fn'], [rp['case']], {}, False, None)[0][0]
    after = run_under(rp['fn'], list(rp['before']) + [rp['case']], {}, False, None)[0][-1]
    return alone != after, ['alone in a fresh interpreter       : %r' % alone[:1500],
                            'after %d other request(s), same process: %r' % (len(rp['before']), after[:1500])]


if __name__ == '__main__':
    _helper_main(sys.argv[1:])
