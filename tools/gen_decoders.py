"""AST translator: handler functions and dataclass `__str__` methods -> decoder IR (lean/KdVerif/Model/IR.lean).

A small symbolic evaluator of the Python subset the handlers are written in: environments of symbolic values
through assignments, tuple unpacking, slices, star-args, if/else merging, helper-function inlining.  Anything
outside the subset becomes `Expr.unsupported "<source>"` (and the decoder is flagged `supported := false`)."""
import ast
import dataclasses
import enum
import functools
import importlib
import inspect

FAMILIES = ['bsd', 'dyld', 'fsystem', 'mach', 'perf', 'trace', 'turnstile']
HOST_ENUMS = {'Signals': 'signals', 'AddressFamily': 'addressFamily', 'SocketKind': 'socketKind'}
NAMED_HELPERS = {'serialize_open_flags': 'openFlags', 'serialize_stat_flags': 'statFlags'}


class Unsupported(Exception):
    pass


def E(tag, *args):
    # one spelling for a conditional: `a if not c else b` and `b if c else a` (and the statement forms) are the same term
    if tag == 'ite' and len(args) == 3 and isinstance(args[0], tuple) and args[0] and args[0][0] == 'notE':
        return ('ite', args[0][1], args[2], args[1])
    return (tag,) + args


def is_expr(v):
    return isinstance(v, tuple) and v and isinstance(v[0], str) and not v[0].startswith('$')


STRING_TAGS = {'strLit', 'cat', 'strOf', 'hexOf', 'nameOf', 'joinNames', 'joinHex', 'lower', 'chrOf',
               'lookupPath', 'lookupPathOrEmpty', 'lookupRestPathOrEmpty', 'hostGet', 'constDict', 'uuidOfData',
               'globalStr'}


def codepoints(s):
    return [ord(ch) for ch in s]


class Module:
    def __init__(self, modname):
        self.modname = modname
        self.mod = importlib.import_module(modname)
        self.src = inspect.getsource(self.mod)
        self.tree = ast.parse(self.src)
        self.funcs = {n.name: n for n in self.tree.body if isinstance(n, ast.FunctionDef)}
        self.classes = {n.name: n for n in self.tree.body if isinstance(n, ast.ClassDef)}


class Translator:
    def __init__(self, enum_index):
        self.enum_index = enum_index          # enum class name -> index in Gen.Enums.all
        self.modules = {}
        self.dicts = []                       # [(module, name, {int: str})]
        self.notes = []

    def module(self, modname):
        if modname not in self.modules:
            self.modules[modname] = Module(modname)
        return self.modules[modname]

    # ------------------------------------------------------------------ name resolution
    def global_name(self, m, name):
        obj = getattr(m.mod, name, None)
        if name in m.funcs:
            return ('$func', m, name)
        if isinstance(obj, type) and issubclass(obj, enum.Enum):
            if obj.__name__ in HOST_ENUMS and obj.__module__ in ('signal', 'socket'):
                return ('$hostenum', HOST_ENUMS[obj.__name__])
            if obj.__name__ in self.enum_index:
                return ('$enum', obj)
            raise Unsupported('enum ' + name)
        if isinstance(obj, type) and dataclasses.is_dataclass(obj):
            return ('$class', self.module(obj.__module__), obj.__name__)
        if isinstance(obj, bool):
            return E('bool', obj)
        if isinstance(obj, int):
            return E('int', obj)
        if isinstance(obj, str):
            return E('strLit', obj)
        if isinstance(obj, dict) and obj and all(isinstance(k, int) and isinstance(v, str) for k, v in obj.items()):
            return ('$dict', self.dict_index(m.modname, name, obj))
        if name in ('errno', 'socket', 'ctypes'):
            return ('$pymod', name)
        if name in ('hex', 'bool', 'len', 'str', 'chr', 'list', 'map', 'UUID', 'int'):
            return ('$builtin', name)
        raise Unsupported('name ' + name)

    def dict_index(self, modname, name, obj):
        for i, (mm, nn, _) in enumerate(self.dicts):
            if (mm, nn) == (modname, name):
                return i
        self.dicts.append((modname, name, dict(obj)))
        return len(self.dicts) - 1

    # ------------------------------------------------------------------ expressions
    def ev(self, m, node, env):
        meth = getattr(self, 'ev_' + type(node).__name__, None)
        if meth is None:
            raise Unsupported(type(node).__name__)
        return meth(m, node, env)

    def ev_Constant(self, m, node, env):
        v = node.value
        if v is None:
            return E('none')
        if isinstance(v, bool):
            return E('bool', v)
        if isinstance(v, int):
            return E('int', v)
        if isinstance(v, str):
            return E('strLit', v)
        raise Unsupported('constant %r' % (v,))

    def ev_Name(self, m, node, env):
        if node.id in env:
            return env[node.id]
        return self.global_name(m, node.id)

    def ev_Tuple(self, m, node, env):
        return ('$tuple', [self.ev(m, e, env) for e in node.elts])

    def ev_List(self, m, node, env):
        vals = [self.ev(m, e, env) for e in node.elts]
        if len(vals) == 1 and is_expr(vals[0]) and vals[0][0] == 'memberConst':
            return E('singleton', vals[0])
        if not vals:
            return E('nilList')
        raise Unsupported('list literal')

    def ev_Lambda(self, m, node, env):
        return ('$lambda', m, node, dict(env))

    def ev_Attribute(self, m, node, env):
        v = self.ev(m, node.value, env)
        a = node.attr
        tag = v[0]
        if tag == '$event':
            if a == 'values':
                return ('$values', v[1])
            if a == 'tid' and v[1] == 0:
                return E('startTid')
            if a == 'data':
                return ('$data', v[1])
            raise Unsupported('event.' + a)
        if tag == '$parser':
            return ('$pattr', a)
        if tag == '$vnode':
            sel = v[1]
            if a == 'path':
                if sel == 'first':
                    return E('lookupPathOrEmpty')
                if sel == 'rest':
                    return E('lookupRestPathOrEmpty')
                return E('lookupPath', sel)
            if a == 'vnode_id':
                if sel == 'first':
                    return E('lookupVnodeOrZero')
                return E('lookupVnode', sel)
            if a == 'ktraces':
                return ('$ktraces', sel)
            raise Unsupported('vnode.' + a)
        if tag == '$enum':
            cls = v[1]
            if a in cls.__members__:
                return E('memberConst', self.enum_index[cls.__name__], list(cls.__members__).index(a))
            raise Unsupported('enum attr ' + a)
        if tag == '$self':
            fields = v[1]
            if a in fields:
                return E('field', fields.index(a))
            raise Unsupported('self.' + a)
        if tag == '$pymod':
            if v[1] == 'ctypes' and a in ('c_int64', 'c_int32'):
                return ('$builtin', a)
            if v[1] == 'errno' and a == 'errorcode':
                return ('$hostdict', 'errno')
            if v[1] == 'socket' and a == 'SOL_SOCKET':
                return E('hostSolSocket')
            if v[1] == 'socket' and a in HOST_ENUMS:
                return ('$hostenum', HOST_ENUMS[a])
            raise Unsupported('%s.%s' % (v[1], a))
        if tag == '$cint' and a == 'value':
            return E('cInt64' if v[1] == 64 else 'cInt32', v[2])
        if tag == '$instance':
            # attribute of a freshly built dataclass (handle_trace_data_* style)
            cm, cname, fields = v[1], v[2], v[3]
            names = self.class_fields(cm, cname)[0]
            if a in names:
                return fields[names.index(a)]
            raise Unsupported('instance.' + a)
        if is_expr(v):
            if a == 'name':
                return E('nameOf', v)
            if a == 'value' and tag == '$loopvar':
                return v
        if tag == '$loopvar' and a == 'value':
            return ('$loopvalue', v[1])
        raise Unsupported('attribute .%s of %s' % (a, tag))

    def const_int(self, v):
        if is_expr(v) and v[0] == 'int':
            return v[1]
        raise Unsupported('non-constant index')

    def ev_Subscript(self, m, node, env):
        v = self.ev(m, node.value, env)
        tag = v[0]
        sl = node.slice
        if isinstance(sl, ast.Slice):
            lo = self.const_int(self.ev(m, sl.lower, env)) if sl.lower else None
            hi = self.const_int(self.ev(m, sl.upper, env)) if sl.upper else None
            if sl.step is not None:
                raise Unsupported('slice step')
            if tag == '$values':
                lo2, hi2 = lo or 0, 4 if hi is None else hi
                if not (0 <= lo2 <= hi2 <= 4):
                    raise Unsupported('values slice')
                return ('$tuple', [E('startArg' if v[1] == 0 else 'endArg', k) for k in range(lo2, hi2)])
            if tag == '$data' and v[1] == 0 and (lo or 0) == 0 and hi == 16:
                return ('$data16',)
            raise Unsupported('slice of ' + tag)
        idx = self.ev(m, sl, env)
        if tag == '$events':
            i = self.const_int(idx)
            if i in (0, -1):
                return ('$event', i)
            raise Unsupported('events[%d]' % i)
        if tag == '$values':
            k = self.const_int(idx)
            if 0 <= k < 4:
                return E('startArg' if v[1] == 0 else 'endArg', k)
            raise Unsupported('values[%d]' % k)
        if tag == '$tuple':
            return v[1][self.const_int(idx)]
        if tag == '$vnodes':
            return ('$vnode', ('idx', self.const_int(idx)))
        if tag == '$hostdict':
            return E('hostGet', v[1], idx)
        if tag == '$dict':
            return E('constDict', v[1], idx)
        if tag == '$pattr' and v[1] == 'global_strings':
            return E('globalStr', idx)
        raise Unsupported('subscript of ' + tag)

    def ev_BinOp(self, m, node, env):
        a, b = self.ev(m, node.left, env), self.ev(m, node.right, env)
        ops = {ast.BitAnd: 'band', ast.BitOr: 'bor', ast.RShift: 'shr', ast.LShift: 'shl'}
        if type(node.op) in ops and is_expr(a) and is_expr(b):
            return E(ops[type(node.op)], a, b)
        if isinstance(node.op, ast.Add) and is_expr(a) and is_expr(b) and a[0] in STRING_TAGS and b[0] in STRING_TAGS:
            return E('cat', a, b)
        if type(node.op) is ast.BitAnd:          # `flag.value & x` inside a comprehension
            if a[0] == '$loopvalue' and is_expr(b):
                return ('$flagtest', a[1], b)
            if b[0] == '$loopvalue' and is_expr(a):
                return ('$flagtest', b[1], a)
        raise Unsupported('binop ' + type(node.op).__name__)

    def ev_UnaryOp(self, m, node, env):
        if isinstance(node.op, ast.USub):
            v = self.ev(m, node.operand, env)
            if is_expr(v) and v[0] == 'int':
                return E('int', -v[1])
            raise Unsupported('unary minus')
        v = self.as_cond(self.ev(m, node.operand, env))
        if isinstance(node.op, ast.Not):
            return E('notE', v)
        raise Unsupported('unaryop')

    def ev_BoolOp(self, m, node, env):
        vals = [self.as_cond(self.ev(m, v, env)) for v in node.values]
        tag = 'andE' if isinstance(node.op, ast.And) else 'orE'
        out = vals[-1]
        for v in reversed(vals[:-1]):
            out = E(tag, v, out)
        return out

    def as_cond(self, v):
        """A value used for its truthiness."""
        if is_expr(v):
            return v
        if v[0] == '$vnodes':
            return E('cmp', 'gt', E('lookupCount'), E('int', 0))
        raise Unsupported('condition on ' + v[0])

    def ev_Compare(self, m, node, env):
        if len(node.ops) != 1:
            raise Unsupported('chained comparison')
        a = self.ev(m, node.left, env)
        b = self.ev(m, node.comparators[0], env)
        op = node.ops[0]
        if isinstance(op, (ast.Is, ast.IsNot)) and is_expr(b) and b[0] == 'none' and is_expr(a):
            r = E('isNone', a)
            return r if isinstance(op, ast.Is) else E('notE', r)
        if isinstance(op, (ast.In, ast.NotIn)):
            if b[0] == '$hostdict' and is_expr(a):
                r = E('hostHas', b[1], a)
            elif is_expr(a) and is_expr(b):
                r = E('inList', a, b)
            else:
                raise Unsupported('in')
            return r if isinstance(op, ast.In) else E('notE', r)
        ops = {ast.Eq: 'eq', ast.NotEq: 'ne', ast.Lt: 'lt', ast.LtE: 'le', ast.Gt: 'gt', ast.GtE: 'ge'}
        if type(op) in ops and is_expr(a) and is_expr(b):
            return E('cmp', ops[type(op)], a, b)
        raise Unsupported('compare')

    def ev_IfExp(self, m, node, env):
        c = self.as_cond(self.ev(m, node.test, env))
        return self.merge(c, self.ev(m, node.body, env), self.ev(m, node.orelse, env))

    def merge(self, c, a, b):
        if a == b:
            return a
        if is_expr(c):                      # constant conditions fold (e.g. `if success_name` with a literal)
            if c[0] == 'strLit':
                return a if c[1] else b
            if c[0] in ('int', 'bool'):
                return a if c[1] else b
            if c[0] == 'none':
                return b
        if is_expr(a) and is_expr(b):
            if a[0] in STRING_TAGS and b[0] in STRING_TAGS and (a[0] == 'cat' or b[0] == 'cat'):
                return self.merge_strings(c, a, b)
            return E('ite', c, a, b)
        if a[0] == '$tuple' and b[0] == '$tuple' and len(a[1]) == len(b[1]):
            return ('$tuple', [self.merge(c, x, y) for x, y in zip(a[1], b[1])])
        raise Unsupported('cannot merge %s / %s' % (a[0], b[0]))

    @staticmethod
    def flat(e):
        if e[0] == 'cat':
            return Translator.flat(e[1]) + Translator.flat(e[2])
        return [e]

    def merge_strings(self, c, a, b):
        """`rep = X; if c: rep += Y` -> X ++ (Y if c else '') : factor the common prefix of two concatenations."""
        fa, fb = self.flat(a), self.flat(b)
        prefix = []
        while fa and fb:
            x, y = fa[0], fb[0]
            if x == y:
                prefix.append(x)
                fa, fb = fa[1:], fb[1:]
                continue
            if x[0] == 'strLit' and y[0] == 'strLit':
                n = 0
                while n < len(x[1]) and n < len(y[1]) and x[1][n] == y[1][n]:
                    n += 1
                if n:
                    prefix.append(E('strLit', x[1][:n]))
                    fa = ([E('strLit', x[1][n:])] if x[1][n:] else []) + fa[1:]
                    fb = ([E('strLit', y[1][n:])] if y[1][n:] else []) + fb[1:]
            break
        if not prefix:
            return E('ite', c, a, b)
        tail = E('ite', c, self.cat_all(fa), self.cat_all(fb))
        return self.cat_raw(prefix + [tail])

    def cat_raw(self, parts):
        out = parts[-1]
        for p in reversed(parts[:-1]):
            out = E('cat', p, out)
        return out

    def to_str(self, v):
        if is_expr(v) and v[0] in STRING_TAGS:
            return v
        if is_expr(v) and v[0] == 'ite' and all(is_expr(x) and x[0] in STRING_TAGS for x in v[2:]):
            return v
        if is_expr(v):
            return E('strOf', v)
        raise Unsupported('str of ' + v[0])

    def ev_JoinedStr(self, m, node, env):
        parts = []
        for p in node.values:
            if isinstance(p, ast.Constant):
                parts.append(E('strLit', p.value))
            elif isinstance(p, ast.FormattedValue):
                if p.conversion != -1:
                    raise Unsupported('format conversion')
                v = self.ev(m, p.value, env)
                if p.format_spec is not None:
                    spec = p.format_spec
                    lit = (len(spec.values) == 1 and isinstance(spec.values[0], ast.Constant)) and spec.values[0].value
                    if lit == '#x' and is_expr(v):
                        parts.append(E('hexOf', v))
                        continue
                    if lit not in ('', 'd', 's'):
                        raise Unsupported('format spec')
                parts.append(self.to_str(v))
            else:
                raise Unsupported('fstring part')
        return self.cat_all(parts)

    def ev_str_format(self, m, template, node, env):
        """'lit {} lit {1:#x}'.format(a, b): the same pieces an f-string with these fields gives (format(x, '') of a
        str / int is what the f-string does); auto-numbered or explicitly numbered positional fields, specs '', d, s, #x."""
        import string
        args, kwargs = self.call_args(m, node, env)
        parts, auto = [], 0
        for lit, field, spec, conv in string.Formatter().parse(template):
            if lit:
                parts.append(E('strLit', lit))
            if field is None:
                continue
            if conv is not None:
                raise Unsupported('format conversion')
            if field == '':
                idx, auto = auto, auto + 1
                v = args[idx] if idx < len(args) else None
            elif field.isdigit():
                v = args[int(field)] if int(field) < len(args) else None
            else:
                v = kwargs.get(field)
            if v is None:
                raise Unsupported('format field ' + field)
            if spec == '#x' and is_expr(v):
                parts.append(E('hexOf', v))
                continue
            if spec not in ('', 'd', 's'):
                raise Unsupported('format spec')
            parts.append(self.to_str(v))
        return self.cat_all(parts)

    def cat_all(self, parts):
        merged = []
        for p in parts:
            if p[0] == 'strLit' and p[1] == '':
                continue
            if merged and p[0] == 'strLit' and merged[-1][0] == 'strLit':
                merged[-1] = E('strLit', merged[-1][1] + p[1])
            else:
                merged.append(p)
        if not merged:
            return E('strLit', '')
        out = merged[-1]
        for p in reversed(merged[:-1]):
            out = E('cat', p, out)
        return out

    def ev_ListComp(self, m, node, env):
        if len(node.generators) != 1:
            raise Unsupported('listcomp generators')
        g = node.generators[0]
        if not isinstance(g.target, ast.Name) or g.is_async:
            raise Unsupported('listcomp target')
        it = self.ev(m, g.iter, env)
        var = g.target.id
        # [e for e in events if e not in X.ktraces]  -> the "rest" event list
        if it[0] == '$events' and isinstance(node.elt, ast.Name) and node.elt.id == var and len(g.ifs) == 1:
            t = g.ifs[0]
            if (isinstance(t, ast.Compare) and len(t.ops) == 1 and isinstance(t.ops[0], ast.NotIn)
                    and isinstance(t.left, ast.Name) and t.left.id == var):
                k = self.ev(m, t.comparators[0], env)
                if k == ('$ktraces', 'first'):
                    return ('$events_rest',)
            raise Unsupported('events comprehension')
        if it[0] == '$enum' and isinstance(node.elt, ast.Name) and node.elt.id == var and len(g.ifs) == 1:
            env2 = dict(env)
            env2[var] = ('$loopvar', it[1])
            t = self.ev(m, g.ifs[0], env2)
            if t[0] == '$flagtest' and t[1] is it[1]:
                return E('flagsOf', self.enum_index[it[1].__name__], t[2])
        raise Unsupported('listcomp')

    def call_args(self, m, node, env):
        args = []
        for a in node.args:
            if isinstance(a, ast.Starred):
                v = self.ev(m, a.value, env)
                if v[0] == '$values':
                    v = ('$tuple', [E('startArg' if v[1] == 0 else 'endArg', k) for k in range(4)])
                if v[0] != '$tuple':
                    raise Unsupported('star of ' + v[0])
                args.extend(v[1])
            else:
                args.append(self.ev(m, a, env))
        kwargs = {}
        for k in node.keywords:
            if k.arg is None:
                raise Unsupported('**kwargs')
            kwargs[k.arg] = self.ev(m, k.value, env)
        return args, kwargs

    def ev_Call(self, m, node, env):
        f = node.func
        # method calls that need the receiver unevaluated first
        if isinstance(f, ast.Attribute):
            if f.attr == 'join' and isinstance(f.value, ast.Constant) and isinstance(f.value.value, str) \
                    and len(node.args) == 1:
                return self.ev_join(m, f.value.value, node.args[0], env)
            if f.attr == 'lower' and not node.args:
                return E('lower', self.to_str(self.ev(m, f.value, env)))
            if f.attr == 'format' and isinstance(f.value, ast.Constant) and isinstance(f.value.value, str):
                return self.ev_str_format(m, f.value.value, node, env)
            if f.attr == 'get':
                recv = self.ev(m, f.value, env)
                args, kwargs = self.call_args(m, node, env)
                if recv[0] == '$pattr' and not kwargs:
                    if recv[1] == 'global_strings' and len(args) == 2:
                        return E('globalStrGet', args[0], args[1])
                    if recv[1] == 'threads_pids' and len(args) == 1:
                        return E('threadsPidsGet', args[0])
                    if recv[1] == 'tids_names' and len(args) == 2:
                        return E('tidsNamesGet', args[0], args[1])
                raise Unsupported('.get on ' + recv[0])
        fn = self.ev(m, f, env)
        args, kwargs = self.call_args(m, node, env)
        tag = fn[0]
        if tag == '$class':
            return self.construct(fn[1], fn[2], args, kwargs)
        if tag == '$enum':
            if len(args) == 1 and is_expr(args[0]):
                return E('enumOf', self.enum_index[fn[1].__name__], args[0])
            raise Unsupported('enum call')
        if tag == '$hostenum':
            if len(args) == 1 and is_expr(args[0]):
                return E('hostEnum', fn[1], args[0])
            raise Unsupported('host enum call')
        if tag == '$builtin':
            b = fn[1]
            if b in ('c_int64', 'c_int32') and len(args) == 1 and is_expr(args[0]):
                return ('$cint', 64 if b == 'c_int64' else 32, args[0])
            if b == 'bool' and len(args) == 1:
                return E('toBool', self.as_cond(args[0]))
            if b == 'hex' and len(args) == 1 and is_expr(args[0]):
                return E('hexOf', args[0])
            if b == 'str' and len(args) == 1:
                return self.to_str(args[0])
            if b == 'chr' and len(args) == 1 and is_expr(args[0]):
                return E('chrOf', args[0])
            if b == 'list' and len(args) == 1:
                if args[0] == ('$values', 0):
                    return E('startArgsList')
                return args[0]
            if b == 'len' and len(args) == 1:
                if args[0][0] == '$vnodes':
                    return E('lookupCount')
                if is_expr(args[0]):
                    return E('lenOf', args[0])
            if b == 'UUID' and not args and kwargs.get('bytes') == ('$data16',):
                return E('uuidOfData')
            raise Unsupported('builtin ' + b)
        if tag == '$pattr':
            if fn[1] == 'parse_vnode' and len(args) == 1:
                if args[0][0] == '$events':
                    return ('$vnode', 'first')
                if args[0][0] == '$events_rest':
                    return ('$vnode', 'rest')
            if fn[1] == 'parse_vnodes' and len(args) == 1 and args[0][0] == '$events':
                return ('$vnodes',)
            raise Unsupported('parser.' + fn[1])
        if tag == '$lambda':
            lm, lnode, lenv = fn[1], fn[2], fn[3]
            params = [a.arg for a in lnode.args.args]
            if len(params) != len(args) or kwargs:
                raise Unsupported('lambda arity')
            env2 = dict(lenv)
            env2.update(zip(params, args))
            return self.ev(lm, lnode.body, env2)
        if tag == '$func':
            return self.inline(fn[1], fn[2], args, kwargs)
        raise Unsupported('call of ' + tag)

    def ev_join(self, m, sep, arg, env):
        if isinstance(arg, (ast.GeneratorExp, ast.ListComp)) and len(arg.generators) == 1 \
                and not arg.generators[0].ifs and isinstance(arg.generators[0].target, ast.Name):
            var = arg.generators[0].target.id
            seqv = self.ev(m, arg.generators[0].iter, env)
            if is_expr(seqv):
                elt = arg.elt
                if isinstance(elt, ast.Attribute) and isinstance(elt.value, ast.Name) and elt.value.id == var \
                        and elt.attr == 'name':
                    return E('joinNames', sep, seqv)
                if isinstance(elt, ast.Call) and isinstance(elt.func, ast.Name) and elt.func.id == 'hex' \
                        and len(elt.args) == 1 and isinstance(elt.args[0], ast.Name) and elt.args[0].id == var:
                    return E('joinHex', sep, seqv)
        # ' | '.join(map(lambda f: f.name, X))   /   ', '.join(map(hex, X))
        if isinstance(arg, ast.Call) and isinstance(arg.func, ast.Name) and arg.func.id == 'map' and len(arg.args) == 2:
            fn, seq = arg.args
            seqv = self.ev(m, seq, env)
            if not is_expr(seqv):
                raise Unsupported('join over ' + seqv[0])
            if isinstance(fn, ast.Lambda) and len(fn.args.args) == 1 and isinstance(fn.body, ast.Attribute) \
                    and isinstance(fn.body.value, ast.Name) and fn.body.value.id == fn.args.args[0].arg \
                    and fn.body.attr == 'name':
                return E('joinNames', sep, seqv)
            if isinstance(fn, ast.Name) and fn.id == 'hex':
                return E('joinHex', sep, seqv)
        raise Unsupported('join')

    # ------------------------------------------------------------------ dataclasses
    def class_fields(self, m, cname):
        cls = getattr(m.mod, cname)
        names, defaults = [], []
        for f in dataclasses.fields(cls):
            if f.name == 'ktraces':
                continue
            names.append(f.name)
            if f.default is not dataclasses.MISSING:
                d = f.default
                if d is None:
                    defaults.append(E('none'))
                elif isinstance(d, bool):
                    defaults.append(E('bool', d))
                elif isinstance(d, int):
                    defaults.append(E('int', d))
                elif isinstance(d, str):
                    defaults.append(E('strLit', d))
                else:
                    defaults.append(None)
            else:
                defaults.append(None)
        return names, defaults

    def construct(self, m, cname, args, kwargs):
        names, defaults = self.class_fields(m, cname)
        if not args or args[0][0] != '$events':
            raise Unsupported('constructor without events')
        vals = list(args[1:])
        if len(vals) > len(names):
            raise Unsupported('too many constructor arguments')
        out = []
        for i, nm in enumerate(names):
            if i < len(vals):
                v = vals[i]
            elif nm in kwargs:
                v = kwargs[nm]
            elif defaults[i] is not None:
                v = defaults[i]
            else:
                raise Unsupported('missing constructor argument ' + nm)
            if v[0] == '$cint':
                raise Unsupported('ctypes object stored')
            if not is_expr(v):
                raise Unsupported('field %s is %s' % (nm, v[0]))
            out.append(v)
        return ('$instance', m, cname, out)

    # ------------------------------------------------------------------ statements / inlining
    def inline(self, m, fname, args, kwargs):
        if fname in NAMED_HELPERS:
            if len(args) == 1 and is_expr(args[0]):
                return E('helper', NAMED_HELPERS[fname], args[0])
            raise Unsupported(fname)
        fn = m.funcs[fname]
        params = [a.arg for a in fn.args.args]
        defaults = fn.args.defaults
        env = {}
        for i, p in enumerate(params):
            if i < len(args):
                env[p] = args[i]
            elif p in kwargs:
                env[p] = kwargs[p]
            else:
                di = i - (len(params) - len(defaults))
                if di < 0:
                    raise Unsupported('missing argument %s of %s' % (p, fname))
                env[p] = self.ev(m, defaults[di], {})
        r = self.block(m, fn.body, env)
        if r is None:
            raise Unsupported('no return in ' + fname)
        return r

    def block(self, m, stmts, env):
        """Executes statements; returns the returned value or None (env mutated)."""
        for i, s in enumerate(stmts):
            if isinstance(s, ast.Expr) and isinstance(s.value, ast.Constant):
                continue
            if isinstance(s, ast.Return):
                return self.ev(m, s.value, env) if s.value is not None else E('none')
            if isinstance(s, ast.Assign):
                v = self.ev(m, s.value, env)
                for t in s.targets:
                    self.assign(t, v, env)
                continue
            if isinstance(s, ast.AugAssign) and isinstance(s.op, ast.Add) and isinstance(s.target, ast.Name):
                cur = env[s.target.id]
                v = self.ev(m, s.value, env)
                env[s.target.id] = self.cat_all([self.to_str(cur), self.to_str(v)])
                continue
            if isinstance(s, ast.If):
                c = self.as_cond(self.ev(m, s.test, env))
                e1, e2 = dict(env), dict(env)
                r1 = self.block(m, s.body, e1)
                r2 = self.block(m, s.orelse, e2)
                rest = stmts[i + 1:]
                if r1 is not None and r2 is not None:
                    return self.merge(c, r1, r2)
                if r1 is not None or r2 is not None:
                    cont_env = e2 if r1 is not None else e1
                    rr = self.block(m, rest, cont_env)
                    if rr is None:
                        raise Unsupported('partial return')
                    return self.merge(c, r1, rr) if r1 is not None else self.merge(c, rr, r2)
                for k in set(e1) | set(e2):
                    if k in e1 and k in e2:
                        env[k] = self.merge(c, e1[k], e2[k])
                    else:
                        raise Unsupported('variable %s bound in one branch only' % k)
                continue
            if isinstance(s, ast.Try):
                self.try_enum_name(m, s, env)
                continue
            raise Unsupported('statement ' + type(s).__name__)
        return None

    def try_enum_name(self, m, s, env):
        """try: v = E(v).name / except ValueError: pass"""
        ok = (len(s.body) == 1 and isinstance(s.body[0], ast.Assign) and len(s.handlers) == 1
              and not s.orelse and not s.finalbody and len(s.handlers[0].body) == 1
              and isinstance(s.handlers[0].body[0], ast.Pass)
              and isinstance(s.handlers[0].type, ast.Name) and s.handlers[0].type.id == 'ValueError')
        if ok:
            a = s.body[0]
            if len(a.targets) == 1 and isinstance(a.targets[0], ast.Name):
                var = a.targets[0].id
                v = self.ev(m, a.value, env)
                if is_expr(v) and v[0] == 'nameOf' and v[1][0] == 'enumOf' and var in env and v[1][2] == env[var]:
                    env[var] = E('enumNameOr', v[1][1], env[var])
                    return
        raise Unsupported('try statement')

    def assign(self, target, v, env):
        if isinstance(target, ast.Name):
            env[target.id] = v
            return
        if isinstance(target, ast.Tuple):
            if v[0] == '$values':
                v = ('$tuple', [E('startArg' if v[1] == 0 else 'endArg', k) for k in range(4)])
            if v[0] == '$tuple' and len(v[1]) == len(target.elts):
                for t, x in zip(target.elts, v[1]):
                    self.assign(t, x, env)
                return
        raise Unsupported('assignment target')

    # ------------------------------------------------------------------ entry points
    def compile_handler(self, func, bound_args, bound_kwargs):
        """func: the real function object; returns (module, classname, [field exprs])."""
        m = self.module(func.__module__)
        fn = m.funcs[func.__name__]
        params = [a.arg for a in fn.args.args]
        env = {}
        pos = list(bound_args)
        rest = params[len(pos):]
        for p, v in zip(params, pos):
            env[p] = self.reflect_value(v)
        if len(rest) < 2:
            raise Unsupported('handler signature')
        env[rest[0]] = ('$parser',)
        env[rest[1]] = ('$events',)
        defaults = fn.args.defaults
        for i, p in enumerate(params):
            if p in env:
                continue
            if p in bound_kwargs:
                env[p] = self.reflect_value(bound_kwargs[p])
                continue
            di = i - (len(params) - len(defaults))
            if di < 0:
                raise Unsupported('unbound parameter ' + p)
            env[p] = self.ev(m, defaults[di], {})
        r = self.block(m, fn.body, env)
        if r is None or r[0] != '$instance':
            raise Unsupported('handler does not return a dataclass instance')
        return r[1], r[2], r[3]

    def reflect_value(self, v):
        if v is None:
            return E('none')
        if isinstance(v, bool):
            return E('bool', v)
        if isinstance(v, int):
            return E('int', v)
        if isinstance(v, str):
            return E('strLit', v)
        if isinstance(v, type) and dataclasses.is_dataclass(v):
            return ('$class', self.module(v.__module__), v.__name__)
        raise Unsupported('bound value %r' % (v,))

    def compile_str(self, m, cname):
        cls = m.classes[cname]
        meth = None
        for n in cls.body:
            if isinstance(n, ast.FunctionDef) and n.name == '__str__':
                meth = n
        if meth is None:
            raise Unsupported('no __str__')
        names, _ = self.class_fields(m, cname)
        env = {'self': ('$self', names)}
        r = self.block(m, meth.body, env)
        if r is None:
            raise Unsupported('__str__ without return')
        return self.to_str(r)


# ---------------------------------------------------------------------------------------------- Lean output

def lean_list_nat(xs):
    return '[' + ', '.join(str(x) for x in xs) + ']'


def lean_expr(e):
    tag = e[0]
    if tag in ('startArg', 'endArg', 'field'):
        return f'(.{tag} {e[1]})'
    if tag in ('startTid', 'none', 'hostSolSocket', 'nilList', 'startArgsList', 'lookupCount', 'lookupPathOrEmpty', 'lookupRestPathOrEmpty',
               'lookupVnodeOrZero', 'uuidOfData'):
        return f'.{tag}'
    if tag == 'int':
        return f'(.int {e[1]})' if e[1] >= 0 else f'(.int ({e[1]}))'
    if tag == 'bool':
        return f'(.bool {"true" if e[1] else "false"})'
    if tag == 'strLit':
        return f'(.strLit {lean_list_nat(codepoints(e[1]))})'
    if tag == 'memberConst':
        return f'(.memberConst {e[1]} {e[2]})'
    if tag in ('cInt64', 'cInt32', 'toBool', 'notE', 'isNone', 'singleton', 'globalStr', 'threadsPidsGet', 'strOf',
               'hexOf', 'nameOf', 'lower', 'chrOf', 'lenOf'):
        return f'(.{tag} {lean_expr(e[1])})'
    if tag in ('band', 'bor', 'shr', 'shl', 'andE', 'orE', 'inList', 'globalStrGet', 'tidsNamesGet', 'cat'):
        return f'(.{tag} {lean_expr(e[1])} {lean_expr(e[2])})'
    if tag == 'cmp':
        return f'(.cmp .{e[1]} {lean_expr(e[2])} {lean_expr(e[3])})'
    if tag == 'ite':
        return f'(.ite {lean_expr(e[1])} {lean_expr(e[2])} {lean_expr(e[3])})'
    if tag in ('enumOf', 'enumNameOr', 'flagsOf', 'constDict'):
        return f'(.{tag} {e[1]} {lean_expr(e[2])})'
    if tag == 'helper':
        return f'(.helper .{e[1]} {lean_expr(e[2])})'
    if tag in ('hostEnum', 'hostHas', 'hostGet'):
        return f'(.{tag} .{e[1]} {lean_expr(e[2])})'
    if tag in ('lookupPath', 'lookupVnode'):
        sel = e[1]
        return f'(.{tag} (.idx {sel[1]}))' if sel[1] >= 0 else f'(.{tag} (.idx ({sel[1]})))'
    if tag in ('joinNames', 'joinHex'):
        return f'(.{tag} {lean_list_nat(codepoints(e[1]))} {lean_expr(e[2])})'
    if tag == 'unsupported':
        return f'(.unsupported {lean_list_nat(codepoints(e[1][:80]))})'
    raise ValueError('cannot emit ' + tag)


def expr_has(e, tags):
    if not isinstance(e, tuple):
        return False
    if e and e[0] in tags:
        return True
    return any(expr_has(x, tags) for x in e[1:] if isinstance(x, tuple))


# ---------------------------------------------------------------------------------------------- call shape

def split_shape(strx):
    """Split a `__str__` expression `name[_nocancel](p0, p1, …)tail` into (head, params, tail) where params is a
    list of (condition | None, expr).  Returns None when the text is not of that form.  The Lean side re-checks
    `normalize str = normalize (assemble head params tail)` in the kernel, so this analysis is not trusted."""
    T = Translator
    pieces = T.flat(strx)
    head, params, tail = [], [], []
    cur = None                      # pieces of the parameter being collected
    state = 'head'
    depth = 0
    for p in pieces:
        if state == 'tail':
            tail.append(p)
            continue
        if p[0] != 'strLit':
            if state == 'head':
                head.append(p)
                continue
            # inside the parentheses
            if (depth == 1 and p[0] == 'ite' and p[3] == E('strLit', '')):
                tb = T.flat(p[2])
                if tb and tb[0][0] == 'strLit' and tb[0][1].startswith(', '):
                    rest0 = tb[0][1][2:]
                    body = ([E('strLit', rest0)] if rest0 else []) + tb[1:]
                    if cur is not None and (cur or params or True):
                        params.append((None, cur))
                        cur = None
                    params.append((p[1], body))
                    continue
            if cur is None:
                return None
            cur.append(p)
            continue
        buf = ''
        text = p[1]
        i = 0
        while i < len(text):
            ch = text[i]
            if state == 'head':
                if ch == '(':
                    if buf:
                        head.append(E('strLit', buf))
                    buf = ''
                    state = 'params'
                    depth = 1
                    cur = []
                else:
                    buf += ch
                i += 1
                continue
            if state == 'params':
                if ch == '(':
                    depth += 1
                elif ch == ')':
                    depth -= 1
                    if depth == 0:
                        if buf:
                            if cur is None:
                                return None
                            cur.append(E('strLit', buf))
                        buf = ''
                        if cur is not None and (cur or params):
                            params.append((None, cur))
                        elif cur is not None and not cur and not params:
                            pass               # "()" : no parameters
                        cur = None
                        state = 'tail'
                        i += 1
                        continue
                elif ch == ',' and depth == 1 and text[i + 1:i + 2] == ' ':
                    if cur is None:
                        return None
                    if buf:
                        cur.append(E('strLit', buf))
                    buf = ''
                    params.append((None, cur))
                    cur = []
                    i += 2
                    continue
                buf += ch
                i += 1
                continue
            # tail
            buf += ch
            i += 1
        if buf:
            if state == 'head':
                head.append(E('strLit', buf))
            elif state == 'params':
                if cur is None:
                    return None
                cur.append(E('strLit', buf))
            else:
                tail.append(E('strLit', buf))
    if state != 'tail':
        return None
    if any(not body for _, body in params):
        return None
    tr = Translator({})
    mk = lambda ps: tr.cat_raw(ps) if ps else E('strLit', '')
    return mk(head), [(c, mk(b)) for c, b in params], mk(tail)
