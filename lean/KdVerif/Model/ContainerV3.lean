import KdVerif.Model.ContainerV2
import KdVerif.Gen.Consts
/-
  L2: `seek_until`, `KdBufParser.parse_v3` and the `parse` dispatch (kd_buf_parser.py).
  Plist payloads are opaque: `plist : Bytes → Option PView` says whether `plistlib.loads` succeeds
  on a payload (and gives a dict) and exposes exactly what the container parser looks at.
  The log record decoder is reduced to the keys the container parser depends on
  (`cm`, `tid`, `p`, `pid`); the full record model belongs to C16.
-/
namespace KdVerif
open Gen.Consts

/-! ### seek_until -/

/-- The sliding window of `seek_until` after the first `read(len(tag))`: `rest` is the unread suffix,
    `found` the window, `n` the number of single-byte reads that returned a byte so far.
    Result: (matched?, n).  Structural recursion on the unread suffix — faithful because the loop
    raises `EOFError` on the first empty read (the pre-fix loop is `seekAuxOld` below). -/
def seekAux (tag : Bytes) : Bytes → Bytes → Nat → Bool × Nat
  | [], found, n => (decide (found = tag), n)
  | b :: t, found, n => if found = tag then (true, n) else seekAux tag t (found.drop 1 ++ [b]) (n + 1)

/-- `seek_until(reader, tag)`. -/
def seekUntil (tag : Bytes) : RM Unit := fun r =>
  let p := r.read tag.length
  let s := seekAux tag p.2.rest p.1 0
  -- `s.2` successful one-byte reads; on failure also the empty one that raises
  if s.1 then (.ok (), p.2.stepBytes s.2 0) else (.error .eof, p.2.stepBytes s.2 1)

/-- The loop shape BEFORE the end-of-file fix (`found = found[1:] + reader.read(1)` with no exit):
    with fuel, to have a regression witness (`C06.seekUntil_fuel_hang_old`). -/
def seekAuxOld (tag : Bytes) : Nat → Bytes → Bytes → Except PyErr Nat
  | 0, _, _ => .error .hang
  | fuel + 1, rest, found =>
    if found = tag then .ok 0
    else match rest with
      | [] => (seekAuxOld tag fuel [] (found.drop 1)).map (· + 1)
      | b :: t => (seekAuxOld tag fuel t (found.drop 1 ++ [b])).map (· + 1)

/-! ### decoded plists, as far as the container parser looks into them -/

structure RawLog where
  cm : Nat                -- key of the composed message in the string index
  tid : Nat
  p : Option Nat          -- key of the process name, if the record names a process
  pid : Option Nat
  deriving Repr, DecidableEq

structure PView where
  isEmpty : Bool                               -- `not d`
  others : Bytes                               -- the dict's keys other than 'Binaries' (opaque rendering)
  binaries : Option (List Nat)                 -- `d['Binaries']` (entries are opaque ids)
  events : Option (List RawLog)                -- `d['Events']`
  stringIndex : Option (List (Bytes × Nat))    -- `d['StringIndex'].items()` in order
  deriving Repr

structure LogOut where
  idx : Nat               -- index of the raw event in the concatenation of all log blocks
  message : Bytes
  tid : Nat
  process : Bytes         -- `''` when the record has no `p`
  pid : Nat               -- `0` (dataclass default) when the record has no `pid`
  deriving Repr, DecidableEq

/-- The part of `OsLogEvent.from_raw_log_event` the container parser depends on. -/
def fromRawLog (strings : List (Nat × Bytes)) (idx : Nat) (e : RawLog) : Except PyErr LogOut :=
  match dictGet e.cm strings with
  | none => .error .keyError
  | some msg =>
    match e.p with
    | none => .ok ⟨idx, msg, e.tid, [], e.pid.getD 0⟩
    | some pk =>
      match dictGet pk strings with
      | none => .error .keyError
      | some pr => .ok ⟨idx, msg, e.tid, pr, e.pid.getD 0⟩

/-- `{v: k for k, v in d['StringIndex'].items()}`. -/
def invertIndex (items : List (Bytes × Nat)) : List (Nat × Bytes) :=
  items.foldl (fun acc kv => dictSet kv.2 kv.1 acc) []

/-- The parser attributes that survive between parses of one `KdBufParser`. -/
structure V3Meta where
  header : Option (List Nat × Bytes) := none   -- the 12 integer fields and the cpu_info payload
  traceCodes : Bytes := []
  kexts : List Nat := []
  dyldBase : Option Bytes := none              -- the other keys of the dict that seeded `dyld_modules`
  dyldEmpty : Bool := true                     -- `not self.dyld_modules`
  dyldBin : Option (List Nat) := none          -- `self.dyld_modules['Binaries']` if present
  images : Option Bytes := none
  processes : Option Bytes := none
  deriving Repr, DecidableEq

/-- the five assignments before the block loop. -/
def V3Meta.reset (m : V3Meta) : V3Meta := { header := m.header }

structure BlockState where
  md : V3Meta
  logEvents : List RawLog
  logStrings : List (Nat × Bytes)

def dispatchBlock (plist : Bytes → Option PView) (s : BlockState) (b : Bytes × Bytes) :
    Except PyErr BlockState :=
  if b.1 = TRACEV3_DYLD_MODULES then
    match plist b.2 with
    | none => .error .valueError
    | some v =>
      if s.md.dyldEmpty then
        .ok { s with md := { s.md with dyldBase := some v.others, dyldEmpty := v.isEmpty, dyldBin := v.binaries } }
      else
        match s.md.dyldBin, v.binaries with
        | some l, some l2 => .ok { s with md := { s.md with dyldBin := some (l ++ l2) } }
        | _, _ => .error .keyError
  else if b.1 = TRACEV3_TRACE_CODES then
    if validUtf8 b.2 then .ok { s with md := { s.md with traceCodes := s.md.traceCodes ++ b.2 } }
    else .error .unicodeError
  else if b.1 = TRACEV3_PROCESSES then
    match plist b.2 with
    | none => .error .valueError
    | some _ => .ok { s with md := { s.md with processes := some b.2 } }
  else if b.1 = TRACEV3_KERNEL_EXTENSIONS then
    match plist b.2 with
    | none => .error .valueError
    | some v =>
      match v.binaries with
      | none => .error .keyError
      | some l => .ok { s with md := { s.md with kexts := s.md.kexts ++ l } }
  else if b.1 = TRACEV3_IMAGES then
    match plist b.2 with
    | none => .error .valueError
    | some _ => .ok { s with md := { s.md with images := some b.2 } }
  else if b.1 = TRACEV3_LOG_EVENTS then
    match plist b.2 with
    | none => .error .valueError
    | some v =>
      match v.events with
      | none => .error .keyError
      | some l => .ok { s with logEvents := s.logEvents ++ l }
  else if b.1 = TRACEV3_LOG_STRINGS then
    match plist b.2 with
    | none => .error .valueError
    | some v =>
      match v.stringIndex with
      | none => .error .keyError
      | some items => .ok { s with logStrings := invertIndex items }
  else .ok s

/-- the block loop; the attributes assigned before a failing block stay assigned. -/
def dispatchBlocks (plist : Bytes → Option PView) : BlockState → List (Bytes × Bytes) → BlockState × Option PyErr
  | s, [] => (s, none)
  | s, b :: bs =>
    match dispatchBlock plist s b with
    | .error e => (s, some e)
    | .ok s' => dispatchBlocks plist s' bs

/-- the final `for event in log_events` loop: logs delivered, outcome, tables. -/
def logLoop (strings : List (Nat × Bytes)) : Nat → Tables → List RawLog → List LogOut × Option PyErr × Tables
  | _, t, [] => ([], none, t)
  | i, t, e :: es =>
    match fromRawLog strings i e with
    | .error err => ([], some err, t)
    | .ok lo =>
      let t' := if lo.process ≠ [] ∧ lo.tid ≠ 0 then t.add ⟨lo.tid, lo.pid, lo.process⟩ else t
      let q := logLoop strings (i + 1) t' es
      (lo :: q.1, q.2.1, q.2.2)

/-! ### parse_v3 -/

def v3FieldSizes : List Nat := [4, 4, 8, 4, 4, 8, 8, 4, 4, 4, 4, 4]

def readFields : List Nat → RM (List Nat)
  | [] => pure []
  | n :: ns => do let b ← readExact n; let l ← readFields ns; pure (leNat b :: l)

/-- `kd_header_v3`: twelve integers and the `Prefixed(Int64ul, BplistAdapter(GreedyBytes))` cpu_info. -/
def headerV3Inner (plist : Bytes → Option PView) : RM (List Nat × Bytes) := do
  let fs ← readFields v3FieldSizes
  let payload ← prefixedBytes
  match plist payload with
  | none => RM.throw' .valueError
  | some _ => pure (fs, payload)

/-- `Aligned(8, kd_header_v3).parse_stream(reader)`. -/
def headerV3 (plist : Bytes → Option PView) : RM (List Nat × Bytes) := aligned 8 (headerV3Inner plist)

/-- from `reader.read(4)` to the parsed thread map. -/
def threadmapV3 : RM (List ThreadEntry) := do
  let _ ← readPlain (8 - RAW_VERSION_SIZE)
  seekUntil TRACEV3_STACKSHOT_END
  seekUntil TRACEV3_THREADMAP_TAG
  let payload ← prefixedBytes
  pure (greedyEntries payload)

/-- `for _ in range(n): buf = reader.read(64); yield from_kd_buf(buf)`. -/
def recordsN {ε : Type} (dec : Bytes → Except PyErr ε) : Nat → Reader → List ε × Option PyErr × Reader
  | 0, r => ([], none, r)
  | n + 1, r =>
    let p := r.read keventSize
    match dec p.1 with
    | .error e => ([], some e, p.2)
    | .ok ev =>
      let q := recordsN dec n p.2
      (ev :: q.1, q.2.1, q.2.2)

/-- the `while True` chunk loop (every iteration that goes on consumes at least the 8-byte tag). -/
def chunkLoop {ε : Type} (dec : Bytes → Except PyErr ε) : Nat → Reader → List ε × Option PyErr × Reader
  | 0, r => ([], some .hang, r)
  | fuel + 1, r =>
    match seekUntil TRACEV3_EVENTS_TAG r with
    | (.error e, r1) => ([], some e, r1)
    | (.ok _, r1) =>
      match int64ul r1 with
      | (.error e, r2) => ([], some e, r2)
      | (.ok size, r2) =>
        let p3 := r2.read 8
        let q := recordsN dec (size / keventSize) p3.2
        match q.2.1 with
        | some e => (q.1, some e, q.2.2)
        | none =>
          let p4 := q.2.2.read TRACEV3_MORE_EVENTS.length
          if p4.1 = TRACEV3_MORE_EVENTS then
            let q' := chunkLoop dec fuel p4.2
            (q.1 ++ q'.1, q'.2.1, q'.2.2)
          else (q.1, none, p4.2)

/-- one element of `kd_v3_additional_data`. -/
def blockElem : RM (Bytes × Bytes) := do
  let tag ← readExact 8
  let data ← select2 (aligned 8 prefixedBytes) prefixedBytes
  pure (tag, data)

inductive Out (ε : Type)
  | ev (e : ε)
  | log (l : LogOut)
  deriving Repr

def Out.ev? {ε : Type} : Out ε → Option ε
  | .ev e => some e
  | .log _ => none

def Out.log? {ε : Type} : Out ε → Option LogOut
  | .ev _ => none
  | .log l => some l

structure Run3 (ε : Type) where
  outs : List (Out ε)
  err : Option PyErr
  tables : Tables
  tmTables : Tables          -- the tables while the events were being delivered (before any log)
  md : V3Meta
  rd : Reader

/-- what `PyKdebugParser.kevents` keeps (`not isinstance(e, OsLogEvent)`). -/
def Run3.events {ε : Type} (x : Run3 ε) : List ε := x.outs.filterMap Out.ev?

def Run3.logs {ε : Type} (x : Run3 ε) : List LogOut := x.outs.filterMap Out.log?

structure PState where
  tables : Tables
  md : V3Meta

/-- the block loop and the log loop, given the parsed additional-data blocks. -/
def tailOfBlocks {ε : Type} (plist : Bytes → Option PView) (evs : List ε) (t : Tables) (m : V3Meta)
    (blocks : List (Bytes × Bytes)) (r2 : Reader) : Run3 ε :=
  match dispatchBlocks plist ⟨m.reset, [], []⟩ blocks with
  | (s, some e) => ⟨evs.map .ev, some e, t, t, s.md, r2⟩
  | (s, none) =>
    let q := logLoop s.logStrings 0 t s.logEvents
    ⟨evs.map .ev ++ q.1.map .log, q.2.1, q.2.2, t, s.md, r2⟩

/-- everything after the chunk loop. -/
def tailV3 {ε : Type} (plist : Bytes → Option PView) (evs : List ε) (t : Tables) (m : V3Meta) (r : Reader) :
    Run3 ε :=
  let r1 := (r.seekTo (r.pos - 8))
  match greedyRange blockElem (r1.rest.length / 16 + 2) r1 with
  | (.error e, r2) => ⟨evs.map .ev, some e, t, t, m, r2⟩
  | (.ok blocks, r2) => tailOfBlocks plist evs t m blocks r2

/-- `parse_v3(reader)` (the reader stands just behind the 4 magic bytes). -/
def parseV3 {ε : Type} (plist : Bytes → Option PView) (dec : Bytes → Except PyErr ε) (prior : PState)
    (r : Reader) : Run3 ε :=
  match headerV3 plist r with
  | (.error e, r1) => ⟨[], some e, prior.tables, prior.tables, prior.md, r1⟩
  | (.ok h, r1) =>
    let m := { prior.md with header := some h }
    match threadmapV3 r1 with
    | (.error e, r2) => ⟨[], some e, prior.tables, prior.tables, m, r2⟩
    | (.ok tm, r2) =>
      let t := setThreadMap prior.tables tm
      let q := chunkLoop dec (r2.rest.length / 16 + 2) r2
      match q.2.1 with
      | some e => ⟨q.1.map .ev, some e, t, t, m, q.2.2⟩
      | none => tailV3 plist q.1 t m q.2.2

/-- `KdBufParser.parse(reader)` followed by exhausting the generator.  An unknown magic is the
    `KeyError` of `self.versions[version]`, raised by `parse` itself before any generator exists. -/
def parse {ε : Type} (plist : Bytes → Option PView) (dec : Bytes → Except PyErr ε) (prior : PState)
    (data : Bytes) : Run3 ε :=
  let p := (Reader.ofBytes data).read RAW_VERSION_SIZE
  if p.1 = RAW_VERSION2_BYTES then
    let x := parseV2 dec prior.tables p.2
    ⟨x.events.map .ev, x.err, x.tables, x.tables, prior.md, x.rd⟩
  else if p.1 = RAW_VERSION3_BYTES then parseV3 plist dec prior p.2
  else ⟨[], some .keyError, prior.tables, prior.tables, prior.md, p.2⟩

end KdVerif
