import KdVerif.Proofs.TracePipeline
import KdVerif.Proofs.PairingFilter
import KdVerif.Proofs.ClassCommute
import KdVerif.Proofs.TraceNoExc
import KdVerif.Gen.Decoders
import KdVerif.Gen.Host
import KdVerif.Proofs.PyIRFlTraces
import KdVerif.Gen.PyIRFl
import KdVerif.Proofs.PyIRCsPipeline
import KdVerif.Model.EndToEnd
import KdVerif.Gen.PyIRCli
import KdVerif.Proofs.PyIRCli
/-
  C13 — trace filters commute with decoding and leave no residue in the parser.

  Subject: `TracePipeline.traces / callstacks / kevents` (Model/TracePipeline.lean): `PyKdebugParser.traces`,
  `callstacks`, `kevents` as functions on an explicit object state (the four filter attributes, the two shared lookup
  tables, the two image lists) applied to a version-2 dump (thread map + records), each request consumed to its end.
  Tied to the code by the correspondence sections `trace-filters`, `trace-requests`, `trace-filters-K3` of
  tools/kdv/props/C13.py.

  `feed_generator` stops at the first exception, so the commutation statements are about requests that raise none.
-/
set_option linter.unusedSimpArgs false
namespace KdVerif.C13
open KdVerif.Trace KdVerif.Filters KdVerif.Declared KdVerif.TracePipeline

/-! ### no residue, idempotence -/

/-- One request leaves the four filter attributes as the caller set them. -/
theorem perform_cfg (env : Env) (obj : Obj) (r : Request) : (perform env obj r).cfg = obj.cfg := by
  cases r <;> rfl

/-- **traces_no_residue.**  After ANY sequence of `traces` / `callstacks` / `kevents` requests (on any dumps) the
    object's filter settings — `filter_tid`, `filter_class`, `filter_subclass`, `filter_process` — equal those before
    the first request: the helper classes go to a copy.  (False of the pre-F08 code, which appended them to
    `self.filter_class`.) -/
theorem traces_no_residue (env : Env) (obj : Obj) (rs : List Request) : (performAll env obj rs).cfg = obj.cfg := by
  induction rs generalizing obj with
  | nil => rfl
  | cons r rs ih => simp only [performAll, List.foldl_cons] at ih ⊢; rw [ih, perform_cfg]

/-- What a `traces` request delivers depends on the object only through its filter attributes: the lookup tables are
    refilled from the dump's thread map, the image lists are not read. -/
theorem traces_depends_on_cfg_only (env : Env) (obj obj' : Obj) (d : Dump) (h : obj.cfg = obj'.cfg) :
    (traces env obj d).1 = (traces env obj' d).1 := by
  simp only [traces, h]

/-- **traces_idempotent.**  Whatever requests (`traces`, `callstacks`, `kevents`, on any dumps) the object served
    before, a `traces` request delivers what it delivers on the object as the caller configured it — in particular
    the same request twice gives the same output (a version-2 dump's thread map resets the tables). -/
theorem traces_idempotent (env : Env) (obj : Obj) (rs : List Request) (d : Dump) :
    (traces env (performAll env obj rs) d).1 = (traces env obj d).1 :=
  traces_depends_on_cfg_only env _ _ d (traces_no_residue env obj rs)

/-- The same request twice: same output, and the object after the second request is the object after the first. -/
theorem traces_twice (env : Env) (obj : Obj) (d : Dump) :
    (traces env (traces env obj d).2 d).1 = (traces env obj d).1 ∧
    (traces env (traces env obj d).2 d).2 = (traces env obj d).2 :=
  ⟨traces_depends_on_cfg_only env _ _ d rfl, rfl⟩

/-- A `callstacks` request depends on the object only through its filter attributes: the image lists are cleared at
    its start.  (False of the pre-F09 code, where images announced in an earlier request stayed.) -/
theorem callstacks_depends_on_cfg_only (env : Env) (obj obj' : Obj) (d : Dump) (h : obj.cfg = obj'.cfg) :
    (callstacks env obj d).1 = (callstacks env obj' d).1 := by
  simp only [callstacks, traces, h]

/-- **callstacks_idempotent.**  The same for `callstacks` requests after any sequence of requests. -/
theorem callstacks_idempotent (env : Env) (obj : Obj) (rs : List Request) (d : Dump) :
    (callstacks env (performAll env obj rs) d).1 = (callstacks env obj d).1 :=
  callstacks_depends_on_cfg_only env _ _ d (traces_no_residue env obj rs)

/-- The event listing likewise. -/
theorem kevents_idempotent (env : Env) (obj : Obj) (rs : List Request) (d : Dump) :
    (TracePipeline.kevents (performAll env obj rs) d).1 = (TracePipeline.kevents obj d).1 := by
  simp only [TracePipeline.kevents, traces_no_residue env obj rs]

/-! ### thread filter -/

theorem filter_map_of_map_eq {α β : Type} (f : α → β) (p : α → Bool) (q : β → Bool) (hpq : ∀ a, p a = q (f a))
    (X Y : List α) (h : X.map f = Y.map f) : (X.filter p).map f = (Y.filter p).map f := by
  have e : ∀ Z : List α, (Z.filter p).map f = (Z.map f).filter q := by
    intro Z
    induction Z with
    | nil => rfl
    | cons z zs ih => by_cases hz : p z = true <;> simp [List.filter_cons, hz, ← hpq, ih]
  rw [e, e, h]

/-- The helper post-filters look at the first record of the trace only. -/
def keepMasked (cfg : Cfg)
    (m : String × List Kevent × Option (Except PyErr String × Option (String × List IR.Val)) × Extra) : Bool :=
  (!addTraceClass cfg || (firstOf m.2.1).eventid >>> 24 != Gen.Consts.DBG_TRACE) &&
  (!addFsClass cfg || (firstOf m.2.1).eventid >>> 24 != Gen.Consts.DBG_FSYSTEM)

theorem traces_traces_eq (env : Env) (obj : Obj) (d : Dump) :
    (traces env obj d).1.traces = postFilter obj.cfg (runAnnot env (startState d) (fedEvents obj.cfg d)) := rfl

theorem traces_err_eq (env : Env) (obj : Obj) (d : Dump) :
    (traces env obj d).1.err = (Trace.run env (startState d) (fedEvents obj.cfg d)).2.1 := rfl

/-- **traces_commute_tid.**  Thread filter (with any class / subclass lists, no process filter): when neither request
    is ended by an exception, the request with `filter_tid = t` delivers exactly the traces of the request without thread
    filter that belong to thread `t` (`ktraces[0].tid = t`), in the same order, with the same event lists, payloads and
    text — the text of the handlers that read tables written by other threads excepted (`Trace.excluded`: thread-terminate
    and the four dyld string readers; C05's exclusion).  From `C05.projection_traces`. -/
theorem traces_commute_tid (env : Env) (hbn : BenignNested env) (cfg : Cfg) (hp : cfg.filterProcess = none) (hn : cfg.filterTid = none)
    (t : Nat) (d : Dump) (objT obj0 : Obj) (hT : objT.cfg = { cfg with filterTid := some t }) (h0 : obj0.cfg = cfg)
    (hneT : (traces env objT d).1.err = none) (hne0 : (traces env obj0 d).1.err = none) :
    (traces env objT d).1.traces.map (fun p => p.1.masked env)
      = ((traces env obj0 d).1.traces.filter fun p => p.1.tid == t).map (fun p => p.1.masked env) := by
  have hcfg : ({ cfg with filterTid := none } : Cfg) = cfg := by
    cases cfg; simp only at hn; subst hn; rfl
  have hfed : fedEvents { cfg with filterTid := some t } d = (fedEvents cfg d).filter fun e => e.tid == t := by
    rw [fedEvents_tid, hcfg]
  rw [traces_err_eq, hT, hfed] at hneT
  rw [traces_err_eq, h0] at hne0
  rw [traces_traces_eq, traces_traces_eq, hT, h0, hfed, postFilter_noProcess cfg hp,
    postFilter_noProcess { cfg with filterTid := some t } hp]
  generalize fedEvents cfg d = F at *
  have hsim : Sim t (startState d) (startState d) := ⟨Pairing.tidInv_empty, fun _ _ => rfl, AgreeT.refl _ _⟩
  have hproj := (projection_run env hbn t F _ _ hsim hne0 hneT).1
  have hk : ∀ o : TraceOut, keepHelpers cfg o = keepMasked cfg (o.masked env) := fun _ => rfl
  have step := filter_map_of_map_eq (TraceOut.masked env) (keepHelpers cfg) (keepMasked cfg) hk _ _ hproj
  have lhs : ((runAnnot env (startState d) (F.filter fun e => e.tid == t)).filter
        fun p => keepHelpers { cfg with filterTid := some t } p.1).map (fun p => p.1.masked env)
      = ((Trace.run env (startState d) (F.filter fun e => e.tid == t)).1.filter
          (keepHelpers cfg)).map (TraceOut.masked env) := by
    rw [← runAnnot_map_fst, ← filter_fst_map, List.map_map]
    rfl
  have rhs : (((runAnnot env (startState d) F).filter fun p => keepHelpers cfg p.1).filter
        fun p => p.1.tid == t).map (fun p => p.1.masked env)
      = (((Trace.run env (startState d) F).1.filter fun o => o.tid == t).filter
          (keepHelpers cfg)).map (TraceOut.masked env) := by
    rw [← runAnnot_map_fst, ← filter_fst_map, ← filter_fst_map, List.map_map, List.filter_filter, List.filter_filter]
    congr 1
    apply List.filter_congr
    intro x _
    exact Bool.and_comm _ _
  rw [lhs, rhs, step]

/-- The same from the unfiltered request alone: with a decoder table whose constructor arguments are `errFree` (the
    regenerated table is, `C05.all_fields_errFree`), a request without thread filter that no exception ends implies that
    the request with the thread filter is not ended by one either. -/
theorem traces_commute_tid_of_unfiltered (env : Env) (hbn : BenignNested env) (hdec : ErrFreeDecoders env) (cfg : Cfg)
    (hp : cfg.filterProcess = none) (hn : cfg.filterTid = none) (t : Nat) (d : Dump) (objT obj0 : Obj)
    (hT : objT.cfg = { cfg with filterTid := some t }) (h0 : obj0.cfg = cfg)
    (hne0 : (traces env obj0 d).1.err = none) :
    (traces env objT d).1.err = none ∧
    (traces env objT d).1.traces.map (fun p => p.1.masked env)
      = ((traces env obj0 d).1.traces.filter fun p => p.1.tid == t).map (fun p => p.1.masked env) := by
  have hcfg : ({ cfg with filterTid := none } : Cfg) = cfg := by
    cases cfg; simp only at hn; subst hn; rfl
  have hneT : (traces env objT d).1.err = none := by
    rw [traces_err_eq, hT, fedEvents_tid, hcfg]
    rw [traces_err_eq, h0] at hne0
    exact noexc_own env hbn hdec t _ _ _ ⟨Pairing.tidInv_empty, fun _ _ => rfl, AgreeT.refl _ _⟩ hne0
  exact ⟨hneT, traces_commute_tid env hbn cfg hp hn t d objT obj0 hT h0 hneT hne0⟩

/-! ### class lists and BSD-subclass lists

  `traces_commute_class` (below) proves the claim of the property,

      traces cfg d  =  (traces cfg₀ d).filter (requested cfg)      with identical text,

  for `cfg` = class list + BSD-subclass list (no thread / process filter), `cfg₀` = no filter, requests that no exception
  ends — for every dump and every code table that is CLOSED under the event-level filter (`ClassClosed`: kernel trace
  records are fed, VFS_LOOKUP is fed with the lookup-reading decoders, the nested records of the composite traces are fed
  with their window's code; true of the bundled table, where these are class 7, class 3 and same-class facts).  "Identical"
  is `TraceOut.viewC`: handler, first record, payload, text and decoded fields; the event LIST of a trace legitimately
  loses the records of other classes, and the text of thread-terminate shows `threads_pids`, which sampler records of
  class DBG_PERF write (known finding K3b) — these two are not compared.  Ingredients, each a theorem of its own:

  1. `windows_commute_class` — the event windows delivered for the class-filtered stream are the windows of the
     unfiltered stream whose first record passes the event-level filter, each with the records of other classes
     removed (from `Pairing.run_filter`);
  2. `helper_postfilters_exact` — "passes the event-level filter (requested or helper class) and survives the helper
     post-filters" is exactly "requested": the helper classes are consumed but never reported unless requested;
  3. `generated_text_commutes_class_partial` / `handleWith_filter` — every handler renders the same from a window and
     from the window with other classes removed (reflective: `all_generated_classOnly`, `lookup_users_are_bsd`);
  4. `run_filter_traces` — the simulation of the two runs (`global_strings`, `tids_names`, `pids_names` and the pending
     records stay equal: only DBG_TRACE handlers write them; `threads_pids` may differ).
-/

/-- The event-level predicate of `traces()`: requested or helper class, or requested subclass. -/
def allowed (cfg : Cfg) (eid : Nat) : Bool := isEventidAllowed cfg eid (effectiveClasses cfg)

/-- What the caller asked for. -/
def requested (cfg : Cfg) (eid : Nat) : Bool :=
  cfg.filterClass.contains (eid >>> 24) || cfg.filterSubclass.contains (eid >>> 16)

/-- With a class / subclass filter and no thread filter, the decoders are fed the records that pass `allowed`. -/
theorem fed_is_filter (cfg : Cfg) (hn : cfg.filterTid = none)
    (hf : (!cfg.filterClass.isEmpty || !cfg.filterSubclass.isEmpty) = true) (d : Dump) :
    fedEvents cfg d = d.events.filter (Pairing.Pe (allowed cfg)) := by
  have hne : (!(effectiveClasses cfg).isEmpty || !cfg.filterSubclass.isEmpty) = true := by
    simp only [effectiveClasses, addTraceClass, addFsClass, hf, Bool.true_and]
    cases hfc : cfg.filterClass with
    | nil =>
      simp only [hfc, List.isEmpty_nil, Bool.not_true, Bool.false_or] at hf
      simp [hf]
    | cons x xs => split <;> split <;> simp
  simp only [fedEvents, keventsWith, hn, hne, if_true]
  have : (d.events.map Item.event).filterMap asEvent = d.events := by
    induction d.events with
    | nil => rfl
    | cons x xs ih => simp [asEvent, ih]
  rw [this]
  rfl

/-- Without any filter the decoders are fed the whole stream. -/
theorem fed_unfiltered (d : Dump) : fedEvents {} d = d.events := by
  simp only [fedEvents, keventsWith, effectiveClasses, addTraceClass, addFsClass]
  induction d.events with
  | nil => rfl
  | cons x xs ih => simp_all [asEvent]

/-- **windows_commute_class.**  Class / subclass filter (any lists): the event windows handed to the decoders for the
    filtered stream are, in order, the windows of the unfiltered stream whose first record passes the event-level
    filter, each with the records that do not pass removed. -/
theorem windows_commute_class (env : Env) (cfg : Cfg) (hn : cfg.filterTid = none)
    (hf : (!cfg.filterClass.isEmpty || !cfg.filterSubclass.isEmpty) = true) (d : Dump) :
    Pairing.run env.domOf (fedEvents cfg d)
      = ((Pairing.run env.domOf (fedEvents {} d)).filter (Pairing.headP (allowed cfg))).map
          (List.filter (Pairing.Pe (allowed cfg))) := by
  rw [fed_is_filter cfg hn hf, fed_unfiltered]
  exact Pairing.run_filter env.domOf (allowed cfg) d.events

/-- All requested subclasses are BSD subclasses (`sc >> 8 == DBG_BSD`). -/
def BsdSubclasses (cfg : Cfg) : Prop := ∀ sc ∈ cfg.filterSubclass, sc >>> 8 = Gen.Consts.DBG_BSD

theorem contains_append_singleton (l : List Nat) (a x : Nat) :
    (l ++ [a]).contains x = (l.contains x || x == a) := by
  induction l with
  | nil => simp only [List.nil_append, List.contains_cons, List.contains_nil, Bool.or_false, Bool.false_or]
  | cons y ys ih => simp only [List.cons_append, List.contains_cons, ih, Bool.or_assoc]

/-- **helper_postfilters_exact.**  For class lists and BSD-subclass lists: a trace whose first record has event id `eid`
    is fed to the decoders AND survives the two helper post-filters exactly when the caller requested it — the helper
    classes (`DBG_TRACE`, and `DBG_FSYSTEM` for BSD requests) are read but never reported unless requested themselves. -/
theorem helper_postfilters_exact (cfg : Cfg) (hb : BsdSubclasses cfg)
    (hf : (!cfg.filterClass.isEmpty || !cfg.filterSubclass.isEmpty) = true) (eid : Nat) :
    (allowed cfg eid &&
      ((!addTraceClass cfg || eid >>> 24 != Gen.Consts.DBG_TRACE) &&
       (!addFsClass cfg || eid >>> 24 != Gen.Consts.DBG_FSYSTEM))) = requested cfg eid := by
  have hsub : cfg.filterSubclass.contains (eid >>> 16) = true → eid >>> 24 = Gen.Consts.DBG_BSD := by
    intro h
    have := hb _ (List.contains_iff_mem.1 h)
    rw [← this, ← Nat.shiftRight_add]
  simp only [allowed, requested, isEventidAllowed, effectiveClasses, addTraceClass, addFsClass, hf, Bool.true_and]
  by_cases hs : cfg.filterSubclass.contains (eid >>> 16) = true
  · have h4 := hsub hs
    simp only [hs, Bool.or_true, Bool.true_and, h4]
    simp [Gen.Consts.DBG_BSD, Gen.Consts.DBG_TRACE, Gen.Consts.DBG_FSYSTEM]
  · have hs' : cfg.filterSubclass.contains (eid >>> 16) = false := by simpa using hs
    simp only [hs', Bool.or_false]
    by_cases h7 : cfg.filterClass.contains Gen.Consts.DBG_TRACE = true <;>
      by_cases h3 : cfg.filterClass.contains Gen.Consts.DBG_FSYSTEM = true <;>
      by_cases hbsd : hasBsd cfg = true <;>
      by_cases hc : cfg.filterClass.contains (eid >>> 24) = true <;>
      by_cases e7 : eid >>> 24 = Gen.Consts.DBG_TRACE <;>
      by_cases e3 : eid >>> 24 = Gen.Consts.DBG_FSYSTEM <;>
      simp_all [contains_append_singleton, Gen.Consts.DBG_TRACE, Gen.Consts.DBG_FSYSTEM]

/-- No generated decoder reads `threads_pids` (kernel-checked against the regenerated table). -/
theorem all_generated_classOnly : Gen.Decoders.decoders.all classOnly = true := by decide +kernel

/-- The generated decoders that look at lookups are BSD syscall decoders (`BSC_*`), for which `DBG_FSYSTEM` is injected. -/
theorem lookup_users_are_bsd :
    Gen.Decoders.decoders.all (fun d => !usesLookups d || d.kind == 0) = true := by decide +kernel

/-- **generated_text_commutes_class_partial.**  A generated decoder of the bundled table renders the same text (or
    raises the same exception) from a window `w` and from `w` with the records that do not pass the event-level filter
    removed, provided the filter keeps the window's first and last record and (for a decoder that looks at lookups) its
    VFS_LOOKUP records, and the two runs' `global_strings` / `tids_names` agree.  PARTIAL: see the section comment for
    what is missing for the equation over whole requests. -/
theorem generated_text_commutes_class_partial (env : Env) (T T' : Tabs) (d : IR.Decoder) (w : List Kevent)
    (cfg : Cfg) (hd : d ∈ Gen.Decoders.decoders)
    (hh : ∀ x, w.head? = some x → allowed cfg x.eventid = true)
    (hl : ∀ x, w.getLast? = some x → allowed cfg x.eventid = true)
    (hlk : usesLookups d = true → ∀ x ∈ w, isLookup env x = true → allowed cfg x.eventid = true)
    (hgs : T.globalStrings.get = T'.globalStrings.get) (htn : T.tidsNames.get = T'.tidsNames.get) :
    runGenerated env T d w = runGenerated env T' d (w.filter (Pairing.Pe (allowed cfg))) :=
  runGenerated_filter_congr env T T' d w _ hh hl hlk hgs htn (List.all_eq_true.1 all_generated_classOnly d hd)

/-- The filtered run and the unfiltered run start related. -/
theorem relC_start (env : Env) (P : Nat → Bool) (d : Dump) : RelC env P (startState d) (startState d) :=
  ⟨Pairing.fRel_empty P, Pairing.headInv_empty, domInv_empty env.domOf, Pairing.tidInv_empty, AgreeC.refl _⟩

theorem postFilter_unfiltered (l : List (TraceOut × Tabs)) : postFilter {} l = l := by
  simp [postFilter, addTraceClass, addFsClass]

/-- **traces_commute_class.**  Class lists and BSD-subclass lists (no thread / process filter), a code table closed
    under the event-level filter, decoders that do not read `threads_pids` (the regenerated table: `all_generated_classOnly`),
    requests that no exception ends: the filtered request delivers exactly the traces of the unfiltered request that the
    caller requested (class of the first record in the class list, or its subclass in the subclass list), in the same
    order, with the same handler, first record, payload, text and decoded fields (`viewC`; thread-terminate's text
    excepted: K3b).  The helper classes are read but never reported unless requested themselves. -/
theorem traces_commute_class (env : Env) (hbn : BenignNested env) (cfg : Cfg) (hn : cfg.filterTid = none)
    (hp : cfg.filterProcess = none) (hf : (!cfg.filterClass.isEmpty || !cfg.filterSubclass.isEmpty) = true)
    (hb : BsdSubclasses cfg) (hcc : ClassClosed env (allowed cfg)) (hco : ∀ d ∈ env.decoders, classOnly d = true)
    (d : Dump) (obj obj0 : Obj) (hO : obj.cfg = cfg) (h0 : obj0.cfg = {})
    (hne : (traces env obj d).1.err = none) (hne0 : (traces env obj0 d).1.err = none) :
    (traces env obj d).1.traces.map (fun p => p.1.viewC)
      = ((traces env obj0 d).1.traces.filter fun p => requested cfg (firstOf p.1.events).eventid).map
          (fun p => p.1.viewC) := by
  rw [traces_err_eq, hO, fed_is_filter cfg hn hf] at hne
  rw [traces_err_eq, h0, fed_unfiltered] at hne0
  rw [traces_traces_eq, traces_traces_eq, hO, h0, fed_is_filter cfg hn hf, fed_unfiltered,
    postFilter_noProcess cfg hp, postFilter_unfiltered]
  have hrun := run_filter_traces env hbn (allowed cfg) hcc hco d.events _ _ (relC_start env (allowed cfg) d) hne0 hne
  -- the helper post-filters look at the first record only
  let K : (String × Kevent × Option (Except PyErr String × Option (String × List IR.Val)) × Extra) → Bool :=
    fun v => (!addTraceClass cfg || v.2.1.eventid >>> 24 != Gen.Consts.DBG_TRACE) &&
             (!addFsClass cfg || v.2.1.eventid >>> 24 != Gen.Consts.DBG_FSYSTEM)
  have hk : ∀ o : TraceOut, keepHelpers cfg o = K o.viewC := fun _ => rfl
  have step := filter_map_of_map_eq TraceOut.viewC (keepHelpers cfg) K hk _ _ hrun
  have lhs : ((runAnnot env (startState d) (d.events.filter (Pairing.Pe (allowed cfg)))).filter
        fun p => keepHelpers cfg p.1).map (fun p => p.1.viewC)
      = ((Trace.run env (startState d) (d.events.filter (Pairing.Pe (allowed cfg)))).1.filter (keepHelpers cfg)).map
          TraceOut.viewC := by
    rw [← runAnnot_map_fst, ← filter_fst_map, List.map_map]; rfl
  have rhs : ((runAnnot env (startState d) d.events).filter
        fun p => requested cfg (firstOf p.1.events).eventid).map (fun p => p.1.viewC)
      = (((Trace.run env (startState d) d.events).1.filter fun o => allowed cfg (firstOf o.events).eventid).filter
          (keepHelpers cfg)).map TraceOut.viewC := by
    rw [← runAnnot_map_fst, ← filter_fst_map, ← filter_fst_map, List.map_map, List.filter_filter]
    congr 1
    apply List.filter_congr
    intro p _
    rw [← helper_postfilters_exact cfg hb hf (firstOf p.1.events).eventid, Bool.and_comm]
    rfl
  rw [lhs, rhs, step]

/-! ### process filter -/

/-- The process test of `_filter_process_callback` on declared tables. -/
def declMatches (fp : String) (D : Decl) (tid : Nat) : Bool :=
  let pid : Int := ((D.threadsPids.get tid).map Int.ofNat).getD (-1)
  let name : String := match D.threadsPids.get tid with
    | some p => (D.pidsNames.get p).getD ""
    | none => ""
  fp == toString pid || fp == name

theorem processMatches_ofTabs (fp : String) (T : Tabs) (o : TraceOut) :
    processMatches fp T o = declMatches fp (Decl.ofTabs T) o.tid := rfl

theorem filter_prefix_take {α : Type} (q : α → Bool) (l a b : List α) (h : l.filter q = a ++ b) :
    ∃ n, (l.take n).filter q = a := by
  induction l generalizing a with
  | nil => exact ⟨0, by simp at h; simp [h.1]⟩
  | cons x xs ih =>
    cases a with
    | nil => exact ⟨0, rfl⟩
    | cons y ys =>
      by_cases hx : q x = true
      · simp only [List.filter_cons, hx, if_true, List.cons_append, List.cons.injEq] at h
        obtain ⟨n, hn⟩ := ih ys h.2
        refine ⟨n + 1, ?_⟩
        rw [List.take_succ_cons, List.filter_cons, if_pos hx, hn, h.1]
      · simp only [List.filter_cons, hx, if_false, Bool.false_eq_true] at h
        obtain ⟨n, hn⟩ := ih (y :: ys) h
        exact ⟨n + 1, by simp [List.take_succ_cons, List.filter_cons, hx, hn]⟩

/-- **process_filter_is_postfilter.**  For every setting of the other three filters: the request with a process filter
    delivers exactly the traces of the request WITHOUT process filter (same thread / class / subclass filters) whose
    thread the tables — as they are when the trace is yielded — attribute to the requested process (by name or by the
    decimal text of the pid). -/
theorem process_filter_is_postfilter (env : Env) (cfg : Cfg) (fp : String) (hfp : cfg.filterProcess = some fp) (d : Dump)
    (objP obj0 : Obj) (hP : objP.cfg = cfg) (h0 : obj0.cfg = { cfg with filterProcess := none }) :
    (traces env objP d).1.traces = (traces env obj0 d).1.traces.filter fun p => processMatches fp p.2 p.1 := by
  rw [traces_traces_eq, traces_traces_eq, hP, h0]
  have hfed : fedEvents { cfg with filterProcess := none } d = fedEvents cfg d := rfl
  rw [hfed, postFilter_noProcess { cfg with filterProcess := none } rfl]
  simp only [postFilter, hfp, addTraceClass, addFsClass, hasBsd, keepHelpers]
  by_cases h1 : ((!cfg.filterClass.isEmpty || !cfg.filterSubclass.isEmpty) &&
      !cfg.filterClass.contains Gen.Consts.DBG_TRACE) = true <;>
  by_cases h2 : ((!cfg.filterClass.isEmpty || !cfg.filterSubclass.isEmpty) &&
      (cfg.filterClass.contains Gen.Consts.DBG_BSD ||
        cfg.filterSubclass.any fun sc => sc >>> 8 == Gen.Consts.DBG_BSD) &&
      !cfg.filterClass.contains Gen.Consts.DBG_FSYSTEM) = true <;>
  simp only [h1, h2, if_true, if_false, Bool.false_eq_true, List.filter_filter, Bool.not_true, Bool.not_false,
    Bool.false_or, Bool.true_or, Bool.true_and, Bool.and_true] <;>
  (apply List.filter_congr; intro x _; simp only [Bool.and_comm, Bool.and_left_comm])

/-- **traces_commute_process_partial.**  The process test the request applies to a trace is the test on
    `declaredTables` of the FED stream's prefix up to the event that completed the trace (`tables_are_fold`).  Hence, under
    the explicit hypothesis `hsurv` that the attribution survives the event-level filter — at every point `n` of the
    dump, the thread map superseded by the map-updating records among the first `n` records that PASS the thread / class
    filter `q` attributes every thread like the thread map superseded by ALL map-updating records among the first `n` —
    the test equals the test an unfiltered request applies at the same point of the dump.
    PARTIAL: without `hsurv` the statement is false (known finding K3: the parent's new-thread record removed by
    `filter_tid = child`, a sampler thread-info record removed by `filter_class = [4]`; witness below); and the
    alignment "the unfiltered request yields the corresponding trace at that point" is `traces_commute_tid` for thread
    filters and the missing assembly (see above) for class filters. -/
theorem traces_commute_process_partial (env : Env) (hbn : BenignNested env) (cfg : Cfg) (fp : String) (d : Dump) (obj0 : Obj)
    (h0 : obj0.cfg = { cfg with filterProcess := none }) (q : Kevent → Bool) (hq : fedEvents cfg d = d.events.filter q)
    (hsurv : ∀ n tid, declMatches fp (declaredTables env d.threadMap ((d.events.take n).filter q)) tid
                    = declMatches fp (declaredTables env d.threadMap (d.events.take n)) tid)
    (p : TraceOut × Tabs) (hp : p ∈ (traces env obj0 d).1.traces) :
    ∃ n, processMatches fp p.2 p.1 = declMatches fp (declaredTables env d.threadMap (d.events.take n)) p.1.tid := by
  rw [traces_traces_eq, h0, postFilter_noProcess _ rfl] at hp
  have hfed : fedEvents { cfg with filterProcess := none } d = fedEvents cfg d := rfl
  rw [hfed] at hp
  obtain ⟨hmem, _⟩ := List.mem_filter.1 hp
  obtain ⟨pre, e, post, hm, hne, hT, _⟩ := mem_runAnnot env (startState d) _ p.1 p.2 hmem
  have hfold := Declared.tables_are_fold env hbn d.threadMap (pre ++ [e]) hne
  rw [hq] at hm
  have hm' : d.events.filter q = (pre ++ [e]) ++ post := by rw [hm]; simp
  obtain ⟨n, hn⟩ := filter_prefix_take q d.events (pre ++ [e]) post hm'
  refine ⟨n, ?_⟩
  rw [processMatches_ofTabs, ← hsurv n p.1.tid, hn, ← hfold]
  change _ = declMatches fp (Decl.ofTabs (Trace.run env (startState d) (pre ++ [e])).2.2.tabs) p.1.tid
  rw [← hT]

/-! ### non-vacuity, and the negative witness of known finding K3 -/

/-- A small code table over the real handlers; the generated table restricted to `BSC_getpid` (by its Nat key). -/
def exEnv : Env :=
  { codes := fun k => [(0x7000004, "TRACE_DATA_NEWTHREAD"), (0x7010004, "TRACE_STRING_NEWTHREAD"),
                       (0x7010010, "TRACE_STRING_PROC_EXIT"), (0x40c0050, "BSC_getpid"), (0x3010090, "VFS_LOOKUP"),
                       (0x1400000, "MACH_SCHED")].lookup k,
    host := Gen.Host.host, tables := Gen.Decoders.tables,
    decoders := Gen.Decoders.decoders.filter (fun d => d.key == 1522137941954752423160164),
    dec := fun bs => .ok (String.ofList (bs.map Char.ofNat)) }

def rec' (ts tid eid q : Nat) (vals : List Nat) (data : List Nat) : Kevent :=
  { timestamp := ts, data := data, values := vals, tid := tid, debugid := eid + q, eventid := eid, qual := q }

/-- Thread 5 (of `parent`, by the thread map) announces thread 6 of pid 2 and names it "child"; thread 6 then exits
    a process, looks a path up and calls getpid (with a scheduler record inside the window). -/
def exDump : Dump :=
  { threadMap := [(5, 1, "parent")],
    events := [rec' 1 5 0x7000004 0 [6, 2, 0, 0] [], rec' 2 5 0x7010004 0 [] [99, 104, 105, 108, 100],
               rec' 3 6 0x7010010 0 [] [120], rec' 4 6 0x3010090 3 [9, 0, 0, 0] [9, 0, 0, 0, 0, 0, 0, 0, 47, 97],
               rec' 5 6 0x40c0050 1 [0, 0, 0, 0] [], rec' 6 6 0x1400000 0 [1, 2, 3, 4] [],
               rec' 7 6 0x40c0050 2 [0, 77, 0, 0] []] }

def view (r : TracesResult) : List (String × Nat × Option String) :=
  r.traces.map fun p => (p.1.name, (firstOf p.1.events).timestamp, p.1.text.toOption)

/-- The decoder table of the example really decodes getpid (the filter by key found it). -/
example : exEnv.decoders.map (·.name) = ["BSC_getpid"] := by decide +kernel

/-- Unfiltered: all five traces; class filter [4]: the syscall alone (kernel strings and the lookup are read but not
    reported), with the same text; the object's `filter_class` is still `[4]` after two requests. -/
example :
    view (traces exEnv {} exDump).1 =
      [("TRACE_DATA_NEWTHREAD", 1, some "New thread 6 of parent: 2"), ("TRACE_STRING_NEWTHREAD", 2, some "New thread of parent: child"),
       ("TRACE_STRING_PROC_EXIT", 3, some "Process exit name: x"), ("VFS_LOOKUP", 4, some "lookup(\"/a\"), vnode id: 9"),
       ("BSC_getpid", 5, some "getpid(), pid: 77")] ∧
    view (traces exEnv { cfg := { filterClass := [4] } } exDump).1 = [("BSC_getpid", 5, some "getpid(), pid: 77")] ∧
    (fedEvents { filterClass := [4] } exDump).map (·.timestamp) = [1, 2, 3, 4, 5, 7] ∧
    (performAll exEnv { cfg := { filterClass := [4] } } [.traces exDump, .traces exDump]).cfg.filterClass = [4] ∧
    (traces exEnv { cfg := { filterClass := [4] } } exDump).1.err = none := by
  decide +kernel

/-- Thread filter: thread 6's traces. -/
example :
    view (traces exEnv { cfg := { filterTid := some 6 } } exDump).1
      = [("TRACE_STRING_PROC_EXIT", 3, some "Process exit name: x"), ("VFS_LOOKUP", 4, some "lookup(\"/a\"), vnode id: 9"),
         ("BSC_getpid", 5, some "getpid(), pid: 77")] := by
  decide +kernel

/-- KNOWN FINDING K3, negative witness in the model: process filter alone reports thread 6's traces (attributed to
    "child" by thread 5's new-thread pair); combined with `filter_tid = 6` the pair is removed by the event-level filter,
    thread 6 is never attributed, and the request reports nothing. -/
example :
    view (traces exEnv { cfg := { filterProcess := some "child" } } exDump).1
      = [("TRACE_STRING_PROC_EXIT", 3, some "Process exit name: x"), ("VFS_LOOKUP", 4, some "lookup(\"/a\"), vnode id: 9"),
         ("BSC_getpid", 5, some "getpid(), pid: 77")] ∧
    view (traces exEnv { cfg := { filterTid := some 6, filterProcess := some "child" } } exDump).1 = [] := by
  decide +kernel

/-! ### `traces_commute_class` is not vacuous: its hypotheses hold for the example -/

def exCodes : List (Nat × String) :=
  [(0x7000004, "TRACE_DATA_NEWTHREAD"), (0x7010004, "TRACE_STRING_NEWTHREAD"), (0x7010010, "TRACE_STRING_PROC_EXIT"),
   (0x40c0050, "BSC_getpid"), (0x3010090, "VFS_LOOKUP"), (0x1400000, "MACH_SCHED")]

theorem exEnv_codes (eid : Nat) (n : String) (h : exEnv.codes eid = some n) : (eid, n) ∈ exCodes := by
  have : ∀ (l : List (Nat × String)), List.lookup eid l = some n → (eid, n) ∈ l := by
    intro l
    induction l with
    | nil => intro h; cases h
    | cons p ps ih =>
      rcases p with ⟨k, v⟩
      intro h
      simp only [List.lookup_cons] at h
      by_cases hk : eid = k
      · subst hk; simp only [beq_self_eq_true] at h; cases h; simp
      · have : (eid == k) = false := by rw [beq_eq_false_iff_ne]; exact hk
        simp only [this] at h
        exact List.mem_cons_of_mem _ (ih h)
  exact this _ h

def cfg4 : Cfg := { filterClass := [4] }

theorem ex_vfs : ∀ p ∈ exCodes, p.2 = "VFS_LOOKUP" → allowed cfg4 p.1 = true := by decide +kernel
theorem ex_dom : ∀ p ∈ exCodes, traceDomainNames.contains p.2 = true → allowed cfg4 p.1 = true := by decide +kernel
theorem ex_perf : ∀ p ∈ exCodes, (p.2 = "PERF_THD_Data" ∨ p.2 = "PERF_STK_UHdr" ∨ p.2 = "PERF_STK_UData") →
    allowed cfg4 p.1 = true := by decide +kernel
theorem ex_no_vmfault : ∀ p ∈ exCodes, p.2 ≠ "MACH_vmfault" := by decide +kernel
theorem ex_no_launch : ∀ p ∈ exCodes, p.2 ≠ "DBG_DYLD_TIMING_LAUNCH_EXECUTABLE" := by decide +kernel
theorem ex_no_range : ∀ p ∈ exCodes, vmfaultRange p.1 = false := by decide +kernel

theorem exEnv_closed : ClassClosed exEnv (allowed cfg4) := by
  refine ⟨?_, ?_, ?_, ?_, ?_, ?_⟩
  · intro eid h
    cases hc : exEnv.codes eid with
    | none => rw [Env.domOf, hc] at h; cases h
    | some n =>
      rw [domOf_of_code exEnv eid n hc] at h
      exact ex_dom (eid, n) (exEnv_codes eid n hc) h
  · intro eid n d _ _ _ _ _ eid' h'
    exact ex_vfs (eid', "VFS_LOOKUP") (exEnv_codes eid' _ h') rfl
  · intro eid _ _ eid' h'
    exact ex_vfs (eid', "VFS_LOOKUP") (exEnv_codes eid' _ h') rfl
  · intro eid _ _ eid' n' h' hn'
    exact ex_perf (eid', n') (exEnv_codes eid' n' h') hn'
  · intro eid _ hc
    exact absurd rfl (ex_no_vmfault (eid, "MACH_vmfault") (exEnv_codes eid _ hc))
  · intro eid _ hc
    exact absurd rfl (ex_no_launch (eid, "DBG_DYLD_TIMING_LAUNCH_EXECUTABLE") (exEnv_codes eid _ hc))

theorem exEnv_benign : BenignNested exEnv := by
  intro eid n hr hc
  have := ex_no_range (eid, n) (exEnv_codes eid n hc)
  simp only at this
  rw [hr] at this; cases this

theorem exEnv_classOnly : ∀ d ∈ exEnv.decoders, classOnly d = true := by
  intro d hd
  exact List.all_eq_true.1 all_generated_classOnly d (List.mem_filter.1 hd).1

/-- The theorem applied to the example: the request with `filter_class = [4]` on `exDump` equals the unfiltered request
    restricted to the requested class (both sides are computed in the examples above: the getpid trace alone). -/
example :
    (traces exEnv { cfg := cfg4 } exDump).1.traces.map (fun p => p.1.viewC)
      = ((traces exEnv {} exDump).1.traces.filter fun p => requested cfg4 (firstOf p.1.events).eventid).map
          (fun p => p.1.viewC) :=
  traces_commute_class exEnv exEnv_benign cfg4 rfl rfl (by decide) (by intro sc h; cases h) exEnv_closed
    exEnv_classOnly exDump _ _ rfl rfl (by decide +kernel) (by decide +kernel)

/-! ### translation tie: the SOURCE TEXT of `traces()` / `_filter_process_callback` (and of `kevents` /
    `_is_eventid_allowed`, which `traces()` feeds the `TracesParser` from), translated by `tools/gen_pyir_fl.py` into the
    IR of `Model/PyIRFl` and run by its interpreter, IS what `TracePipeline.traces` is assembled from -/

/-- What the post-filter stages read of a yielded trace: `trace.ktraces[0]` and the two shared tables as they are when
    the trace is yielded. -/
def irView (p : TraceOut × Tabs) : Kevent × PyIRFl.Tables := (firstOf p.1.events, ⟨p.2.threadsPids, p.2.pidsNames⟩)

/-- **source_is_expected_ir.**  The IR that the translator produces from the working tree's `pykdebugparser.py`
    (`Gen/PyIRFl.lean`, regenerated on every run) for `traces`, `_filter_process_callback`, `kevents` and
    `_is_eventid_allowed` is, term for term, the hand-written `Spec/PyIRFlExpected` the refinement proofs were done for,
    and the translator met nothing outside the method bodies that it could not express. -/
theorem source_is_expected_ir :
    Gen.PyIRFl.traces = PyIRFl.Expected.traces ∧
    Gen.PyIRFl.filterProcessCallback = PyIRFl.Expected.filterProcessCallback ∧
    Gen.PyIRFl.kevents = PyIRFl.Expected.kevents ∧
    Gen.PyIRFl.isEventidAllowed = PyIRFl.Expected.isEventidAllowed ∧
    Gen.PyIRFl.notes = [] := by decide

/-- **traces_ir_eq_model.**  `self.traces(kdebug, trace_codes)` of the source, interpreted for EVERY configuration
    (and with or without a caller-supplied code table): the method returns the stream of a fresh `TracesParser` — on
    the caller's code table, else `default_trace_codes()`, and on the parser's two shared tables — fed by
    `self.kevents(kdebug, <list object>)`, where the list object holds `TracePipeline.effectiveClasses cfg` (the COPY of
    `filter_class` with the helper classes appended) when the request is consumed; the parser's filter attributes are
    left as they were (`cfgAfter = cfg`: the helper classes went to the copy); and the stacked post-filter stages,
    evaluated on ANY list of yielded traces (each with the tables at its yield), keep exactly
    `TracePipeline.postFilter cfg` of it, in that order, without an exception. -/
theorem traces_ir_eq_model (cfg : Cfg) (codesGiven : Bool) (l : List (TraceOut × Tabs)) :
    PyIRFl.runTraces irView Gen.PyIRFl.prog cfg codesGiven l
      = .ok { codesGiven := codesGiven, classArg := some (effectiveClasses cfg), cfgAfter := cfg,
              out := postFilter cfg l } :=
  PyIRFl.runTraces_expected irView _ source_is_expected_ir.1 source_is_expected_ir.2.1 cfg codesGiven l

/-- **filter_process_callback_ir_eq_model.**  `self._filter_process_callback(trace)` of the source, interpreted on
    every configuration, every pair of tables and every trace: the bool `TracePipeline.processMatches` computes (and
    `False` when no process filter is set: `None` equals no text). -/
theorem filter_process_callback_ir_eq_model (cfg : Cfg) (T : Tabs) (o : TraceOut) :
    PyIRFl.runFilterProcessCallback Gen.PyIRFl.prog cfg ⟨T.threadsPids, T.pidsNames⟩ (firstOf o.events)
      = .ok (.bool (match cfg.filterProcess with
                    | some fp => processMatches fp T o
                    | none => false)) :=
  PyIRFl.runFilterProcessCallback_expected _ source_is_expected_ir.2.1 cfg _ _

/-- **traces_request_rests_on_ir.**  The two halves of the hand model of a `traces()` request are the interpreted
    source: (1) the events the `TracesParser` is fed (`fedEvents`) are what the GENERATED `kevents`, handed the class
    list the GENERATED `traces` hands it, lists of the dump's records; (2) what the request delivers
    (`(traces env obj d).1.traces`) is what the GENERATED `traces` sets up and its post-filter stages keep of the
    traces the `TracesParser` model yields for those events.  So every theorem of this file about `TracePipeline.traces`
    is a statement about the translated source, up to the hand models of the container parser and of `TracesParser`. -/
theorem traces_request_rests_on_ir (env : Env) (obj : Obj) (d : Dump) (codesGiven : Bool) :
    PyIRFl.runKevents Gen.PyIRFl.prog obj.cfg (some (effectiveClasses obj.cfg)) (d.events.map Item.event)
        = .ok ((fedEvents obj.cfg d).map Item.event) ∧
    PyIRFl.runTraces irView Gen.PyIRFl.prog obj.cfg codesGiven
        (runAnnot env (startState d) (fedEvents obj.cfg d))
        = .ok { codesGiven := codesGiven, classArg := some (effectiveClasses obj.cfg), cfgAfter := obj.cfg,
                out := (traces env obj d).1.traces } :=
  ⟨PyIRFl.runKevents_expected _ source_is_expected_ir.2.2.1 source_is_expected_ir.2.2.2.1 obj.cfg _ _,
   traces_ir_eq_model obj.cfg codesGiven _⟩

private instance exceptDecEq {ε α : Type} [DecidableEq ε] [DecidableEq α] : DecidableEq (Except ε α)
  | .ok a, .ok b => if h : a = b then isTrue (by rw [h]) else isFalse (by intro e; cases e; exact h rfl)
  | .error a, .error b => if h : a = b then isTrue (by rw [h]) else isFalse (by intro e; cases e; exact h rfl)
  | .ok _, .error _ => isFalse (by intro e; cases e)
  | .error _, .ok _ => isFalse (by intro e; cases e)

private def irEv (ts tid eid : Nat) : Kevent :=
  { timestamp := ts, data := [], values := [], tid := tid, debugid := eid, eventid := eid, qual := 0 }

/-- non-vacuity: the GENERATED `traces` run by the interpreter under `filter_class = [4]` + a process filter, on four
    yielded traces (BSD of the process, a kernel-trace record, BSD of another thread, a lookup): helper classes 7 and 3
    go to the copy handed to `kevents`, the parser keeps `[4]`, the stages keep the first trace only. -/
example :
    (PyIRFl.runTraces (fun k : Kevent => (k, ({ threadsPids := [(7, 42)], pidsNames := [(42, "launchd")] } : PyIRFl.Tables)))
        Gen.PyIRFl.prog { filterClass := [4], filterProcess := some "launchd" } false
        [irEv 1 7 0x040c0004, irEv 2 7 0x07000000, irEv 3 8 0x040c0004, irEv 4 7 0x03010000]).map
      (fun r => (r.codesGiven, r.classArg, r.cfgAfter.filterClass, r.out.map (·.timestamp)))
    = .ok (false, some [4, 7, 3], [4], [1]) := by decide

/-- … a subclass-only request: `[7, 3]` is handed to `kevents`, the parser's own list stays empty. -/
example :
    (PyIRFl.runTraces (fun k : Kevent => (k, ({} : PyIRFl.Tables))) Gen.PyIRFl.prog { filterSubclass := [0x040c] } true
        [irEv 1 7 0x040c0004, irEv 2 7 0x07000000, irEv 4 7 0x03010000]).map
      (fun r => (r.codesGiven, r.classArg, r.cfgAfter.filterClass, r.out.map (·.timestamp)))
    = .ok (true, some [7, 3], [], [1]) := by decide

/-- … and the GENERATED `_filter_process_callback`: pid text, name, an undeclared thread (`-1`). -/
example : PyIRFl.runFilterProcessCallback Gen.PyIRFl.prog { filterProcess := some "42" }
    { threadsPids := [(7, 42)], pidsNames := [(42, "launchd")] } (irEv 1 7 0) = .ok (.bool true) := by decide
example : PyIRFl.runFilterProcessCallback Gen.PyIRFl.prog { filterProcess := some "-1" } {} (irEv 1 7 0)
    = .ok (.bool true) := by decide
example : PyIRFl.runFilterProcessCallback Gen.PyIRFl.prog { filterProcess := some "launchd" }
    { threadsPids := [(7, 43)], pidsNames := [(42, "launchd")] } (irEv 1 7 0) = .ok (.bool false) := by decide

/-! ### translation tie of `callstacks()`: the request model is the interpreted source

  `PyKdebugParser.callstacks` and `CallstacksParser` (`__init__`, `insert_image`, the whole `feed_generator`) are translated
  from the source text into the IR of `Model/PyIRCs` on every run; `C15.source_is_expected_ir` / `C15.prog_is_expected`
  (checked by the C15 check, which rebuilds them against the working tree) state that the generated program IS
  `PyIRCs.Expected.prog`.  Here: that program, interpreted, is the request model `TracePipeline.callstacks` this file's
  `callstacks_depends_on_cfg_only` / `callstacks_idempotent` are about. -/

/-- **callstacks_request_rests_on_ir.**  For every object state (whatever its two image lists hold from earlier requests)
    and every dump: the expected IR of `callstacks()` — `self.dyld_addresses.clear(); self.dyld_uuids.clear();
    callstacks_parser = CallstacksParser(self.dyld_addresses, self.dyld_uuids); return
    callstacks_parser.feed_generator(self.traces(kdebug, trace_codes))` with the translated `feed_generator` — run by the
    interpreter over the trace objects of what the `traces` model yields for this request (`PyIRCs.csTraceOf`) delivers
    exactly the callstacks of `TracePipeline.callstacks`, ends with the same exception (the callstack parser's, else the
    trace generator's own) and leaves the object's two lists as the model says.  So "the image lists are reset per
    request" of the model is the two `clear()` calls of the source, and `callstackFeed` is the translated `feed_generator`. -/
theorem callstacks_request_rests_on_ir (env : Env) (obj : Obj) (d : Dump) :
    PyIRCs.runRequest PyIRCs.Expected.prog ((traces env obj d).1.traces.map (fun p => PyIRCs.csTraceOf p.1))
        (traces env obj d).1.err obj.images =
      ((callstacks env obj d).1.callstacks.map (fun c => PyIRCs.Val.callstack (PyIRCs.ofCallstack c)),
       match (callstacks env obj d).1.err with
       | some e => .error e
       | none => .ok (callstacks env obj d).2.images) :=
  PyIRCs.runRequest_expected_pipeline env obj d

/-- A code table with the image announcement and the sampler's records (the generated decoder of `DYLD_uuid_map_a`). -/
def csEnv : Env :=
  { codes := fun k => [(0x1f050008, "DYLD_uuid_map_a"), (0x25010000, "PERF_Event"), (0x2502000c, "PERF_STK_UHdr"),
                       (0x25020010, "PERF_STK_UData")].lookup k,
    host := Gen.Host.host, tables := Gen.Decoders.tables,
    decoders := Gen.Decoders.decoders.filter (fun d => d.name == "DYLD_uuid_map_a"),
    dec := fun bs => .ok (String.ofList (bs.map Char.ofNat)) }

/-- Two images announced in descending order (0x30, 0x10), then a sample with the frames 0x5, 0x11, 0x31. -/
def csDump : Dump :=
  { threadMap := [(5, 1, "p")],
    events := [rec' 1 5 0x1f050008 0 [0, 0, 0x30, 0] [3], rec' 2 5 0x1f050008 0 [0, 0, 0x10, 0] [1],
               rec' 3 5 0x25010000 1 [8, 0, 0, 0] [], rec' 4 5 0x2502000c 0 [0, 3, 0, 0] [],
               rec' 5 5 0x25020010 0 [0x5, 0x11, 0x31, 0] [], rec' 6 5 0x25010000 2 [0, 0, 0, 0] []] }

/-- an object that still holds two images of an earlier request (0x4 and 0x12 would attribute all three frames) -/
def staleObj : Obj := { images := ⟨[0x4, 0x12], [[0xaa], [0xbb]]⟩ }

/-- non-vacuity: the model's request on the stale object delivers the callstack attributed against THIS dump's images
    only; the trace objects the interpreter is run on; and the interpreted `callstacks()` gives exactly that (computed,
    not via the theorem). -/
example :
    (callstacks csEnv staleObj csDump).1.callstacks =
      [⟨3, 5, [⟨0x5, none⟩, ⟨0x11, some ([1], 1)⟩, ⟨0x31, some ([3], 1)⟩]⟩] ∧
    (callstacks csEnv staleObj csDump).2.images = ⟨[0x10, 0x30], [[1], [3]]⟩ ∧
    (traces csEnv staleObj csDump).1.traces.map (fun p => PyIRCs.csTraceOf p.1) =
      [.image 0x30 [3], .image 0x10 [1], .sample [⟨3, 5⟩, ⟨4, 5⟩, ⟨5, 5⟩, ⟨6, 5⟩] (some [0x5, 0x11, 0x31])] ∧
    PyIRCs.runRequest PyIRCs.Expected.prog
        [.image 0x30 [3], .image 0x10 [1], .sample [⟨3, 5⟩, ⟨4, 5⟩, ⟨5, 5⟩, ⟨6, 5⟩] (some [0x5, 0x11, 0x31])] none
        staleObj.images =
      ([.callstack ⟨3, 5, [⟨0x5, none, none⟩, ⟨0x11, some [1], some 1⟩, ⟨0x31, some [3], some 1⟩]⟩],
       .ok ⟨[0x10, 0x30], [[1], [3]]⟩) := by
  decide +kernel

end KdVerif.C13

/-! ### Translation tie: the `traces` / `callstacks` / `logs` commands in front of the trace filters

  (`tools/gen_pyir_cli.py` → `Gen/PyIRCli.lean`; IR and interpreter `Model/PyIRCli`; expected terms `Spec/PyIRCliExpected`;
  see `Props/C12` for the `kevents` and table commands.)  The command callbacks of `pykdebugparser/__main__.py`, translated
  from the source text on every run and interpreted from what click hands over (`Given`): which option goes to which
  attribute of a fresh parser object (`__init__`, translated too, supplies every attribute a command does not assign),
  which `formatted_*` method is called on the dump, that its result goes through `print_with_count(…, count)`.  `World` is
  the meaning of the `formatted_*` methods as a function of the object's attributes and the dump; `configOf` is the filter
  configuration (`Filters.Cfg`) the hand models `TracePipeline.traces` / `callstacks` / `Filters.osLogEvents` take. -/
namespace KdVerif.C13
open KdVerif.Filters KdVerif.PyIRCli

/-- **The terms the translator generates for the glue of this property are the expected ones** (`Spec/PyIRCliExpected`,
    quoting the Python): `print_with_count`, the three commands with their option declarations, `__init__`, the maps;
    nothing met that the translator could not express. -/
theorem cli_source_is_expected_ir :
    Gen.PyIRCli.printWithCount = PyIRCli.Expected.printWithCount ∧
    Gen.PyIRCli.traces = PyIRCli.Expected.traces ∧
    Gen.PyIRCli.callstacks = PyIRCli.Expected.callstacks ∧
    Gen.PyIRCli.logs = PyIRCli.Expected.logs ∧
    Gen.PyIRCli.init = PyIRCli.Expected.init ∧
    Gen.PyIRCli.formattedKevents = PyIRCli.Expected.formattedKevents ∧
    Gen.PyIRCli.formattedTraces = PyIRCli.Expected.formattedTraces ∧
    Gen.PyIRCli.formattedCallstacks = PyIRCli.Expected.formattedCallstacks ∧
    Gen.PyIRCli.formattedLogs = PyIRCli.Expected.formattedLogs ∧
    Gen.PyIRCli.notes = [] := by decide

/-- the generated program record is the expected one -/
theorem cli_prog_is_expected : Gen.PyIRCli.prog = PyIRCli.Expected.prog := by
  obtain ⟨h1, _, _, _, h2, h3, h4, h5, h6, _⟩ := cli_source_is_expected_ir
  simp only [Gen.PyIRCli.prog, PyIRCli.Expected.prog, h1, h2, h3, h4, h5, h6]

/-- **The `traces` command of the source, interpreted** (any meaning `W` of `formatted_traces`; every combination of the
    seven options): it prints `print_with_count(parser.formatted_traces(dump), count)` for the parser object
    `tracesObj o` — `o` the option values in force with the declared defaults (`count = -1`, no thread / process filter,
    no class / subclass value, `show_tid = False`, `color = True`) —, whose attributes read as EXACTLY `configOf o`
    (`--tid` → `filter_tid`, `--process` → `filter_process`, `-cf` → `filter_class`, `-sf` → `filter_subclass`, both as
    fresh lists in the order given), `showOf o`, colour `o.color`; no wall-clock parameter, empty tables. -/
theorem traces_command_ir_eq_model {δ τ : Type} (W : World δ τ) (g : Given) (dump : δ) :
    run Gen.PyIRCli.prog W Gen.PyIRCli.traces g.args dump =
      pwcResult (W.formatted "formatted_traces" (tracesObj (Opts.ofGiven g)) dump) (Opts.ofGiven g).count ∧
    cfgOfObj (tracesObj (Opts.ofGiven g)) = some (configOf (Opts.ofGiven g)) ∧
    showOfObj (tracesObj (Opts.ofGiven g)) = some (showOf (Opts.ofGiven g)) ∧
    colorOfObj (tracesObj (Opts.ofGiven g)) = some (Opts.ofGiven g).color ∧
    wallClockUnset (tracesObj (Opts.ofGiven g)) = true ∧ tablesEmpty (tracesObj (Opts.ofGiven g)) = true := by
  refine ⟨?_, cfg_tracesObj _, show_objWith .., color_objWith .., (unset_objWith ..).1, (unset_objWith ..).2⟩
  rw [cli_prog_is_expected, cli_source_is_expected_ir.2.1]; exact run_traces_expected W g dump

/-- `formatted_traces` as the composed hand model has it (`EndToEnd.formattedTraces`: container parser → event filter →
    `TracesParser` → post-filters → `_format_trace`, colour OFF): configured by the object's filter attributes and column
    switches, on a parser whose tables are empty; with colour on the lines go through pygments, outside that model. -/
def tracesWorld (env : Trace.Env) (plist : Bytes → Option PView) : World Bytes Unit :=
  { formatted := fun m o file =>
      if m = "formatted_traces" then
        match cfgOfObj o, showOfObj o, colorOfObj o, tablesEmpty o with
        | some cfg, some sh, some false, true => EndToEnd.formattedTraces env { cfg := cfg } sh plist file
        | _, _, _, _ => ([], some .unmodelled)
      else ([], some .attributeError)
    parseAll := fun _ => .error .unmodelled
    jsonDumps := fun _ _ _ => .error .unmodelled }

/-- **`traces --no-color` = `print_with_count` of the end-to-end hand model under `configOf`**: for every dump (any byte
    string) the command prints the first `count` lines (all for `count < 0`) of
    `EndToEnd.formattedTraces env {cfg := configOf o} (showOf o) plist file`, and the exception that model ends with
    surfaces unless the loop broke first. -/
theorem traces_command_ir_eq_e2e (env : Trace.Env) (plist : Bytes → Option PView) (g : Given) (hc : g.color = some false)
    (file : Bytes) :
    run Gen.PyIRCli.prog (tracesWorld env plist) Gen.PyIRCli.traces g.args file =
      pwcResult (EndToEnd.formattedTraces env { cfg := configOf (Opts.ofGiven g) } (showOf (Opts.ofGiven g)) plist file)
        (Opts.ofGiven g).count := by
  obtain ⟨h, hcfg, hsh, hcol, _, htab⟩ := traces_command_ir_eq_model (tracesWorld env plist) g file
  have hcol' : colorOfObj (tracesObj (Opts.ofGiven g)) = some false := by rw [hcol]; simp [Opts.ofGiven, hc]
  rw [h]
  simp only [tracesWorld, hcfg, hsh, hcol', htab, if_true]

/-- **The `callstacks` command of the source, interpreted**: `--tid`, `--process`, `--show-tid`, `-c` (no class /
    subclass / colour option: given one, click rejects the command line); the object handed to `formatted_callstacks`
    reads as `configOf o` with the EMPTY class and subclass lists of `__init__`, `showOf o`, colour on. -/
theorem callstacks_command_ir_eq_model {δ τ : Type} (W : World δ τ) (g : Given) (hcf : g.classFilters = [])
    (hsf : g.subclassFilters = []) (hc : g.color = none) (dump : δ) :
    run Gen.PyIRCli.prog W Gen.PyIRCli.callstacks g.args dump =
      pwcResult (W.formatted "formatted_callstacks" (plainObj (Opts.ofGiven g)) dump) (Opts.ofGiven g).count ∧
    cfgOfObj (plainObj (Opts.ofGiven g)) = some (configOf (Opts.ofGiven g)) ∧
    showOfObj (plainObj (Opts.ofGiven g)) = some (showOf (Opts.ofGiven g)) ∧
    colorOfObj (plainObj (Opts.ofGiven g)) = some true ∧
    wallClockUnset (plainObj (Opts.ofGiven g)) = true ∧ tablesEmpty (plainObj (Opts.ofGiven g)) = true := by
  refine ⟨?_, ?_, show_objWith .., color_objWith .., (unset_objWith ..).1, (unset_objWith ..).2⟩
  · rw [cli_prog_is_expected, cli_source_is_expected_ir.2.2.1]; exact run_callstacks_expected W g hcf hsf hc dump
  · rw [cfg_plainObj]; simp [configOf, Opts.ofGiven, hcf, hsf]

/-- **The `logs` command of the source, interpreted**: the same three options, `formatted_logs`. -/
theorem logs_command_ir_eq_model {δ τ : Type} (W : World δ τ) (g : Given) (hcf : g.classFilters = [])
    (hsf : g.subclassFilters = []) (hc : g.color = none) (dump : δ) :
    run Gen.PyIRCli.prog W Gen.PyIRCli.logs g.args dump =
      pwcResult (W.formatted "formatted_logs" (plainObj (Opts.ofGiven g)) dump) (Opts.ofGiven g).count ∧
    cfgOfObj (plainObj (Opts.ofGiven g)) = some (configOf (Opts.ofGiven g)) ∧
    showOfObj (plainObj (Opts.ofGiven g)) = some (showOf (Opts.ofGiven g)) ∧
    colorOfObj (plainObj (Opts.ofGiven g)) = some true := by
  refine ⟨?_, ?_, show_objWith .., color_objWith ..⟩
  · rw [cli_prog_is_expected, cli_source_is_expected_ir.2.2.2.1]; exact run_logs_expected W g hcf hsf hc dump
  · rw [cfg_plainObj]; simp [configOf, Opts.ofGiven, hcf, hsf]

/-- **`formatted_traces` of the source, interpreted** (any meaning `M` of `self.traces` / `self._format_trace`): `map` of
    `self._format_trace(t)` over `self.traces(kdebug, trace_codes)` — the code table handed on AS GIVEN (`None` when
    omitted: `traces()` picks the default) —, ending with the first exception of the formatter or with that of the
    listing. -/
theorem formatted_traces_ir_eq_model {δ ι κ : Type} (M : Methods δ ι κ) (o : Obj) (tc : Option κ) (dump : δ) :
    runFormatted M Gen.PyIRCli.formattedTraces o tc dump =
      mapGen (fun t => M.formatter "_format_trace" o t [])
        (M.source "traces" o [.kdebug, givenArg tc] dump).1 (M.source "traces" o [.kdebug, givenArg tc] dump).2 := by
  rw [cli_source_is_expected_ir.2.2.2.2.2.2.1]; exact runFormatted_traces M o tc dump

/-- **`formatted_callstacks`**: `map` of `self._format_callstack(t)` over `self.callstacks(kdebug, trace_codes)`. -/
theorem formatted_callstacks_ir_eq_model {δ ι κ : Type} (M : Methods δ ι κ) (o : Obj) (tc : Option κ) (dump : δ) :
    runFormatted M Gen.PyIRCli.formattedCallstacks o tc dump =
      mapGen (fun t => M.formatter "_format_callstack" o t [])
        (M.source "callstacks" o [.kdebug, givenArg tc] dump).1
        (M.source "callstacks" o [.kdebug, givenArg tc] dump).2 := by
  rw [cli_source_is_expected_ir.2.2.2.2.2.2.2.1]; exact runFormatted_callstacks M o tc dump

/-- **`formatted_logs`**: `map` of `self._format_log(t)` over `self.os_log_events(kdebug)`; it takes no code table. -/
theorem formatted_logs_ir_eq_model {δ ι κ : Type} (M : Methods δ ι κ) (o : Obj) (dump : δ) :
    runFormatted M Gen.PyIRCli.formattedLogs o none dump =
      mapGen (fun t => M.formatter "_format_log" o t [])
        (M.source "os_log_events" o [.kdebug] dump).1 (M.source "os_log_events" o [.kdebug] dump).2 := by
  rw [cli_source_is_expected_ir.2.2.2.2.2.2.2.2.1]; exact runFormatted_logs M o dump

/-- a world that answers only when the object reads as the filter configuration `want`: every line is `<method>|<item>` -/
private def probe (want : Cfg) : World (List String × Option PyErr) Unit :=
  { formatted := fun m o d =>
      if cfgOfObj o = some want then (d.1.map fun x => m ++ "|" ++ x, d.2) else ([], some .unmodelled)
    parseAll := fun _ => .error .unmodelled
    jsonDumps := fun _ _ _ => .error .unmodelled }

-- non-vacuity: the GENERATED commands on concrete option sets and abstract generators
example : run Gen.PyIRCli.prog (probe { filterTid := some 7, filterProcess := some "launchd", filterClass := [4, 0x31] })
    Gen.PyIRCli.traces
    ({ tid := some 7, process := some "launchd", classFilters := [4, 0x31], count := some 1 } : Given).args
    (["a", "b"], some .eof) = .ran ["formatted_traces|a"] none := by decide +kernel
example : run Gen.PyIRCli.prog (probe { filterProcess := some "42" }) Gen.PyIRCli.callstacks
    ({ process := some "42", count := some 2 } : Given).args (["a", "b"], some .eof) =
    .ran ["formatted_callstacks|a", "formatted_callstacks|b"] (some .eof) := by decide +kernel
example : run Gen.PyIRCli.prog (probe { filterTid := some 9 }) Gen.PyIRCli.logs ({ tid := some 9 } : Given).args
    (["x"], none) = .ran ["formatted_logs|x"] none := by decide +kernel
example : run Gen.PyIRCli.prog (probe {}) Gen.PyIRCli.callstacks ({ classFilters := [4] } : Given).args (["x"], none) =
    .usage := by decide +kernel
example : configOf (Opts.ofGiven { tid := some (-3), subclassFilters := [0x040c], process := some "7" }) =
    { filterTid := some (2 ^ 70 + 3), filterSubclass := [0x040c], filterProcess := some "7" } := by decide

end KdVerif.C13
