import KdVerif.Spec.PyIRCoExpected
import KdVerif.Proofs.TraceTotal
/-
  The expected IR of the composite handlers (`Spec/PyIRCoExpected`), run by the interpreter of `Model/PyIRCo`, is
  `Trace.hPerfThdData`, `Trace.hPerfEvent`, `Trace.hMachVmfault`, `Trace.hDyldLaunch` of the hand model — for every `Env`
  (any code table, any enum tables, any `bytes.decode`), every meaning of the nested `parse_event_list`, all tables and
  every non-empty window of four-word records: same trace (key, `ktraces`, `str()`, payload), same tables afterwards, same
  exception.  Then: `runVia Expected.progs = Trace.run`.
-/
set_option linter.unusedSimpArgs false
namespace KdVerif.PyIRCo
open KdVerif.Trace

theorem toString_str (s : String) : toString s = s := rfl

theorem len4 (l : List Nat) (h : l.length = 4) : ∃ a b c d, l = [a, b, c, d] := by
  match l, h with
  | [a, b, c, d], _ => exact ⟨a, b, c, d, rfl⟩

theorem dict_same_self {α : Type} [BEq α] [LawfulBEq α] (d : Dict α) : d.same d = true := by
  simp [Dict.same]

theorem tabs_same_self (t : Tabs) : t.same t = true := by
  simp [Tabs.same, dict_same_self]

theorem exec_seq (P : Program) (env : Env) (nested : NestedFn) (call : CallFn) (events : List Kevent) (a b : Stmt) (st : St) :
    exec P env nested call events (.seq a b) st =
      match exec P env nested call events a st with
      | (.normal, st') => exec P env nested call events b st'
      | r => r := by
  cases h : exec P env nested call events a st with
  | mk sig st' => cases sig <;> simp [exec, h]

theorem exec_ret (P : Program) (env : Env) (nested : NestedFn) (call : CallFn) (events : List Kevent) (e : Expr) (st : St) :
    exec P env nested call events (.ret e) st =
      match eval P env events st e with
      | .error x => (.err x, st)
      | .ok v => (.ret v, st) := by
  cases h : eval P env events st e <;> simp [exec, h]

theorem attrOf_obj (P : Program) (c : String) (k : List Kevent) (fs : List Val) (n : String) :
    attrOf P (.obj c k fs) n = objAttr P c k fs n := rfl
theorem attrOf_kevent (P : Program) (x : Kevent) (n : String) : attrOf P (.kevent x) n = keventAttr x n := rfl
theorem attrOf_trace (P : Program) (o : TraceOut) (n : String) : attrOf P (.trace o) n = traceAttr o n := rfl

/-! ### perf.py: the `handlers` dict and the function table, looked up -/

section perf
variable (env : Env) (nested : NestedFn) (t : Tabs)

theorem lookup_thdData (events : List Kevent) : runHandler Expected.perf env nested "PERF_THD_Data" t events =
    runBody Expected.perf env nested "PERF_THD_Data" Expected.handleThdData t events := rfl
theorem lookup_event (events : List Kevent) : runHandler Expected.perf env nested "PERF_Event" t events =
    runBody Expected.perf env nested "PERF_Event" Expected.handleEvent t events := rfl

theorem eval_word (P : Program) (e : Kevent) (rest : List Kevent) (st : St) (k x : Nat) (h : e.values[k]? = some x) :
    eval P env (e :: rest) st (Expected.word k) = .ok (.int x) := by
  simp [Expected.word, Expected.first, eval, attrOf, keventAttr, h]

/-- `handle_thd_data` on a window whose first record has its four words -/
theorem exec_thdData (call : CallFn) (s : Kevent) (ss : List Kevent) (h4 : s.values.length = 4) :
    (exec Expected.perf env nested call (s :: ss) Expected.handleThdData { loc := Locals.empty, tabs := t }).1 =
      .ret (.obj "PerfThdData" (s :: ss) [.int (arg s 0), .int (arg s 1), .int (arg s 2),
          .members "KperfTiState" (enumNamesOf env "KperfTiState" (arg s 3 &&& 0xffff))]) ∧
    (exec Expected.perf env nested call (s :: ss) Expected.handleThdData { loc := Locals.empty, tabs := t }).2.tabs =
      { t with threadsPids := t.threadsPids.set (arg s 1) (arg s 0) } := by
  obtain ⟨a, b, c, d, hv⟩ := len4 _ h4
  simp [Expected.handleThdData, exec, eval, evalArgs, Expected.word, Expected.first, attrOf, keventAttr, hv, tableSet,
    mkObj, findClass, Expected.perf, Expected.clsPerfEvent, Expected.clsPerfThdData, defaultsOf, Locals.set, arg, Dict.set]

section attrs
variable (l : List Kevent) (a b c d f : Val)

theorem attr_thdData_pid : objAttr Expected.perf "PerfThdData" l [a, b, c, d] "pid" = .ok a := rfl
theorem attr_thdData_tid : objAttr Expected.perf "PerfThdData" l [a, b, c, d] "tid" = .ok b := rfl
theorem attr_thdData_dqAddr : objAttr Expected.perf "PerfThdData" l [a, b, c, d] "dq_addr" = .ok c := rfl
theorem attr_thdData_runmode : objAttr Expected.perf "PerfThdData" l [a, b, c, d] "runmode" = .ok d := rfl

theorem attr_event_sampleWhat : objAttr Expected.perf "PerfEvent" l [a, b, c, d, f] "sample_what" = .ok a := rfl
theorem attr_event_actionid : objAttr Expected.perf "PerfEvent" l [a, b, c, d, f] "actionid" = .ok b := rfl
theorem attr_event_thInfo : objAttr Expected.perf "PerfEvent" l [a, b, c, d, f] "th_info" = .ok c := rfl
theorem attr_event_csFlags : objAttr Expected.perf "PerfEvent" l [a, b, c, d, f] "cs_flags" = .ok d := rfl
theorem attr_event_csFrames : objAttr Expected.perf "PerfEvent" l [a, b, c, d, f] "cs_frames" = .ok f := rfl

theorem attr_uhdr_flags : objAttr Expected.perf "PerfStkUhdr" l [a, b] "flags" = .ok a := rfl
theorem attr_uhdr_nframes : objAttr Expected.perf "PerfStkUhdr" l [a, b] "nframes" = .ok b := rfl
theorem attr_udata_frames : objAttr Expected.perf "PerfStkUdata" l [a] "frames" = .ok a := rfl

end attrs

/-- `str()` of a `PerfThdData` object -/
theorem render_thdData (l : List Kevent) (a b c : Nat) (names : List String) :
    renderObj Expected.perf "PerfThdData" l [.int a, .int b, .int c, .members "KperfTiState" names] =
      .ok s!"PERF_THD_Data, pid: {a}, tid: {b}, dq_addr: {pyHex c}, runmode: {" | ".intercalate names}" := by
  have hc : findClass Expected.perf "PerfThdData" = some Expected.clsPerfThdData := rfl
  simp [renderObj, hc, Expected.clsPerfThdData, renderPieces, renderPiece, attr_thdData_pid, attr_thdData_tid,
    attr_thdData_dqAddr, attr_thdData_runmode, fmtVal, execS, String.append_assoc, toString_str]

theorem extra_thdData (l : List Kevent) (fs : List Val) : extraOf Expected.perf "PerfThdData" l fs = .ok .none := by
  simp [extraOf]

/-- **`handle_thd_data`** -/
theorem run_thdData (e : Kevent) (rest : List Kevent) (h4 : e.values.length = 4) :
    runHandler Expected.perf env nested "PERF_THD_Data" t (e :: rest) = hPerfThdData env t (e :: rest) := by
  rw [lookup_thdData, runBody]
  obtain ⟨h1, h2⟩ := exec_thdData env nested t (callFuel Expected.perf env nested callDepth) e rest h4
  cases hx : exec Expected.perf env nested (callFuel Expected.perf env nested callDepth) (e :: rest) Expected.handleThdData
      { loc := Locals.empty, tabs := t } with
  | mk sig st =>
    rw [hx] at h1 h2
    simp only at h1 h2
    subst h1
    simp only [finish, extra_thdData, render_thdData, h2, hPerfThdData, firstOf, List.head?_cons, Option.getD_some, mk]

/-! ### `handle_event` -/

theorem call_thdData (s : Kevent) (ss : List Kevent) (h4 : s.values.length = 4) :
    callFuel Expected.perf env nested callDepth "handle_thd_data" (s :: ss) t =
      (.ok (.obj "PerfThdData" (s :: ss) [.int (arg s 0), .int (arg s 1), .int (arg s 2),
          .members "KperfTiState" (enumNamesOf env "KperfTiState" (arg s 3 &&& 0xffff))]),
       { t with threadsPids := t.threadsPids.set (arg s 1) (arg s 0) }) := by
  show (match exec Expected.perf env nested (callFuel Expected.perf env nested 1) (s :: ss) Expected.handleThdData
      { loc := Locals.empty, tabs := t } with
    | (.ret v, st) => (Except.ok v, st.tabs) | (.normal, st) => (.ok .none, st.tabs) | (.err x, st) => (.error x, st.tabs)) = _
  obtain ⟨h1, h2⟩ := exec_thdData env nested t (callFuel Expected.perf env nested 1) s ss h4
  cases hx : exec Expected.perf env nested (callFuel Expected.perf env nested 1) (s :: ss) Expected.handleThdData
      { loc := Locals.empty, tabs := t } with
  | mk sig st =>
    rw [hx] at h1 h2
    simp only at h1 h2
    subst h1
    simp only [h2]

theorem call_uhdr (s : Kevent) (ss : List Kevent) (h4 : s.values.length = 4) :
    callFuel Expected.perf env nested callDepth "handle_stk_uhdr" (s :: ss) t =
      (.ok (.obj "PerfStkUhdr" (s :: ss) [.members "CallstackFlag" (enumNamesOf env "CallstackFlag" (arg s 0)),
          .int (arg s 1)]), t) := by
  obtain ⟨a, b, c, d, hv⟩ := len4 _ h4
  show (match exec Expected.perf env nested (callFuel Expected.perf env nested 1) (s :: ss) Expected.handleStkUhdr
      { loc := Locals.empty, tabs := t } with
    | (.ret v, st) => (Except.ok v, st.tabs) | (.normal, st) => (.ok .none, st.tabs) | (.err x, st) => (.error x, st.tabs)) = _
  simp [Expected.handleStkUhdr, exec, eval, evalArgs, Expected.word, Expected.first, attrOf, keventAttr, hv,
    mkObj, findClass, Expected.perf, Expected.clsPerfEvent, Expected.clsPerfThdData, Expected.clsPerfThdCswitch,
    Expected.clsPerfStkUdata, Expected.clsPerfStkUhdr, defaultsOf, Locals.set, arg]

theorem call_udata (x : Kevent) :
    callFuel Expected.perf env nested callDepth "handle_stk_udata" [x] t =
      (.ok (.obj "PerfStkUdata" [x] [.words x.values]), t) := by
  show (match exec Expected.perf env nested (callFuel Expected.perf env nested 1) [x] Expected.handleStkUdata
      { loc := Locals.empty, tabs := t } with
    | (.ret v, st) => (Except.ok v, st.tabs) | (.normal, st) => (.ok .none, st.tabs) | (.err x, st) => (.error x, st.tabs)) = _
  simp [Expected.handleStkUdata, exec, eval, evalArgs, Expected.first, attrOf, keventAttr,
    mkObj, findClass, Expected.perf, Expected.clsPerfEvent, Expected.clsPerfThdData, Expected.clsPerfThdCswitch,
    Expected.clsPerfStkUdata, defaultsOf, Locals.set]

/-- `[handle_stk_udata(parser, [ev]).frames for ev in l]` -/
theorem mapLoop_udata (l : List Kevent) :
    mapLoop (callFuel Expected.perf env nested callDepth "handle_stk_udata") (fun r => attrOf Expected.perf r "frames") l t =
      (.ok (l.map fun x => Val.words x.values), t) := by
  induction l with
  | nil => rfl
  | cons x xs ih =>
    simp only [mapLoop, call_udata, attrOf, attr_udata_frames]
    rw [show (fun r => attrOf Expected.perf r "frames") = _ from rfl] at ih
    simp only [attrOf] at ih
    rw [ih]; rfl

theorem chainWords_words (l : List Kevent) :
    chainWords (l.map fun x => Val.words x.values) = some ((l.map (·.values)).flatten) := by
  induction l with
  | nil => rfl
  | cons x xs ih => simp [chainWords, ih]

/-- the sample object in local 0 -/
def EvInv (st : St) (evs : List Kevent) (what : List String) (a : Nat) (th fl fr : Val) : Prop :=
  st.loc 0 = some (.obj "PerfEvent" evs [.members "SamplerAction" what, .int a, th, fl, fr])

theorem fieldIdx_event_thInfo : (findClass Expected.perf "PerfEvent").bind (fieldIdx · "th_info") = some 2 := by decide
theorem fieldIdx_event_csFlags : (findClass Expected.perf "PerfEvent").bind (fieldIdx · "cs_flags") = some 3 := by decide
theorem fieldIdx_event_csFrames : (findClass Expected.perf "PerfEvent").bind (fieldIdx · "cs_frames") = some 4 := by decide

theorem evalCond_sampled (events : List Kevent) (st : St) (what : List String) (a : Nat) (th fl fr : Val) (m : String)
    (hi : EvInv st events what a th fl fr) :
    evalCond Expected.perf env events st (Expected.sampled m) = .ok (what.contains m) := by
  have h0 : st.loc 0 = _ := hi
  simp [evalCond, Expected.sampled, eval, h0, attrOf, attr_event_sampleWhat, truthy]

theorem evalCond_namedD (events : List Kevent) (st : St) (n : String) :
    evalCond Expected.perf env events st (Expected.namedD n) = .ok (!(events.filter (namedIs env n)).isEmpty) := by
  simp [evalCond, Expected.namedD, eval, truthy]

/-- the thread-info half of `handle_event` -/
theorem exec_thInfo (events : List Kevent) (hw : Words4 events) (st : St) (what : List String) (a : Nat) (fl fr : Val)
    (hi : EvInv st events what a .none fl fr) :
    ∀ r, exec Expected.perf env nested (callFuel Expected.perf env nested callDepth) events Expected.eventThInfo st = r →
      r.1 = .normal ∧
      (match (if what.contains "SAMPLER_TH_INFO" then events.filter (namedIs env "PERF_THD_Data") else []) with
       | s :: ss =>
         r.2.tabs = { st.tabs with threadsPids := st.tabs.threadsPids.set (arg s 1) (arg s 0) } ∧
         EvInv r.2 events what a (.obj "PerfThdData" (s :: ss) [.int (arg s 0), .int (arg s 1), .int (arg s 2),
            .members "KperfTiState" (enumNamesOf env "KperfTiState" (arg s 3 &&& 0xffff))]) fl fr
       | [] => r.2.tabs = st.tabs ∧ EvInv r.2 events what a .none fl fr) := by
  intro r hr
  subst hr
  have h0 : st.loc 0 = _ := hi
  have hcnd := evalCond_sampled env events st what a .none fl fr "SAMPLER_TH_INFO" hi
  have hin := evalCond_namedD env events st "PERF_THD_Data"
  simp only [Expected.namedD] at hin
  cases hc : what.contains "SAMPLER_TH_INFO"
  · rw [hc] at hcnd
    simp only [Expected.eventThInfo, exec, hcnd]
    exact ⟨trivial, trivial, hi⟩
  · rw [hc] at hcnd
    cases hf : events.filter (namedIs env "PERF_THD_Data") with
    | nil =>
      rw [hf] at hin
      simp only [Expected.eventThInfo, Expected.namedD, exec, hcnd, hin, List.isEmpty_nil, Bool.not_true]
      exact ⟨trivial, trivial, hi⟩
    | cons s ss =>
      have hs : s ∈ events := (List.mem_filter.mp (hf ▸ List.mem_cons_self)).1
      have h4 := hw s hs
      rw [hf] at hin
      simp [Expected.eventThInfo, exec, hcnd, hin, eval, Expected.namedD, hf, call_thdData env nested st.tabs s ss h4,
        Locals.set, h0, fieldIdx_event_thInfo, EvInv]

/-- the words of the window's `PERF_STK_UData` records, chained -/
def udataWords (env : Env) (events : List Kevent) : List Nat :=
  ((events.filter (namedIs env "PERF_STK_UData")).map (·.values)).flatten

/-- the user-stack half of `handle_event` -/
theorem exec_stack (events : List Kevent) (hw : Words4 events) (st : St) (what : List String) (a : Nat) (th : Val)
    (hi : EvInv st events what a th .none .none) :
    ∀ r, exec Expected.perf env nested (callFuel Expected.perf env nested callDepth) events Expected.eventStack st = r →
      r.1 = .normal ∧ r.2.tabs = st.tabs ∧
      (match (if what.contains "SAMPLER_USTACK" then events.filter (namedIs env "PERF_STK_UHdr") else []) with
       | h :: _ =>
         EvInv r.2 events what a th (.members "CallstackFlag" (enumNamesOf env "CallstackFlag" (arg h 0)))
           (.words ((udataWords env events).take (arg h 1)))
       | [] => EvInv r.2 events what a th .none .none) := by
  intro r hr
  subst hr
  have h0 : st.loc 0 = _ := hi
  have hcnd := evalCond_sampled env events st what a th .none .none "SAMPLER_USTACK" hi
  have hin := evalCond_namedD env events st "PERF_STK_UHdr"
  simp only [Expected.namedD] at hin
  cases hc : what.contains "SAMPLER_USTACK"
  · rw [hc] at hcnd
    simp only [Expected.eventStack, exec, hcnd]
    exact ⟨trivial, trivial, hi⟩
  · rw [hc] at hcnd
    cases hf : events.filter (namedIs env "PERF_STK_UHdr") with
    | nil =>
      rw [hf] at hin
      simp only [Expected.eventStack, Expected.namedD, exec, hcnd, hin, List.isEmpty_nil, Bool.not_true]
      exact ⟨trivial, trivial, hi⟩
    | cons s ss =>
      have hs : s ∈ events := (List.mem_filter.mp (hf ▸ List.mem_cons_self)).1
      have h4 := hw s hs
      rw [hf] at hin
      simp [Expected.eventStack, exec, hcnd, hin, eval, Expected.namedD, hf, call_uhdr env nested st.tabs s ss h4,
        mapLoop_udata, chainWords_words, attrOf_obj, attr_uhdr_flags, attr_uhdr_nframes,
        Locals.set, h0, fieldIdx_event_csFlags, fieldIdx_event_csFrames, EvInv, udataWords]

theorem render_event (l : List Kevent) (what : List String) (a : Nat) (th fl : Val) :
    renderObj Expected.perf "PerfEvent" l [.members "SamplerAction" what, .int a, th, fl, .none] =
      .ok s!"PERF_Event, sample_what: {" | ".intercalate what}, actionid: {a}" := by
  have hc : findClass Expected.perf "PerfEvent" = some Expected.clsPerfEvent := rfl
  simp [renderObj, hc, Expected.clsPerfEvent, renderPieces, renderPiece, attr_event_sampleWhat, attr_event_actionid,
    attr_event_csFrames, fmtVal, execS, evalSCond, String.append_assoc, toString_str]

theorem render_event_frames (l : List Kevent) (what : List String) (a : Nat) (th fl : Val) (f : List Nat) :
    renderObj Expected.perf "PerfEvent" l [.members "SamplerAction" what, .int a, th, fl, .words f] =
      .ok (s!"PERF_Event, sample_what: {" | ".intercalate what}, actionid: {a}" ++ s!", frames count: {f.length}") := by
  have hc : findClass Expected.perf "PerfEvent" = some Expected.clsPerfEvent := rfl
  simp [renderObj, hc, Expected.clsPerfEvent, renderPieces, renderPiece, attr_event_sampleWhat, attr_event_actionid,
    attr_event_csFrames, fmtVal, execS, evalSCond, String.append_assoc, toString_str]

theorem extra_event (l : List Kevent) (w a th fl fr : Val) :
    extraOf Expected.perf "PerfEvent" l [w, a, th, fl, fr] =
      match thInfoOfVal Expected.perf th, asOptWords fr, asOptNames fl with
      | some x, some y, some z => .ok (.perf x y z)
      | _, _, _ => .error .unmodelled := by
  simp [extraOf, attr_event_thInfo, attr_event_csFlags, attr_event_csFrames]
  rfl

theorem thInfoOfVal_none : thInfoOfVal Expected.perf .none = some Option.none := rfl

theorem thInfoOfVal_thdData (l : List Kevent) (p q : Nat) (c d : Val) :
    thInfoOfVal Expected.perf (.obj "PerfThdData" l [.int p, .int q, c, d]) = some (some (p, q)) := by
  simp [thInfoOfVal, attr_thdData_pid, attr_thdData_tid]

/-- **`handle_event`** -/
theorem run_event (e : Kevent) (rest : List Kevent) (hw : Words4 (e :: rest)) :
    runHandler Expected.perf env nested "PERF_Event" t (e :: rest) = hPerfEvent env t (e :: rest) := by
  obtain ⟨a0, a1, a2, a3, hv⟩ := len4 _ (hw e (by simp))
  rw [lookup_event, runBody]
  have harg0 : arg e 0 = a0 := by simp [arg, hv]
  have harg1 : arg e 1 = a1 := by simp [arg, hv]
  -- `e = PerfEvent(events, to_sampler_action(args[0]), args[1])`
  have hcons : exec Expected.perf env nested (callFuel Expected.perf env nested callDepth) (e :: rest)
      (.construct 0 "PerfEvent" .events [.flagsOf "SamplerAction" (Expected.word 0), Expected.word 1])
      { loc := Locals.empty, tabs := t } =
      (.normal, { loc := Locals.empty.set 0 (.obj "PerfEvent" (e :: rest)
          [.members "SamplerAction" (enumNamesOf env "SamplerAction" a0), .int a1, .none, .none, .none]), tabs := t }) := by
    simp [exec, eval, evalArgs, Expected.word, Expected.first, attrOf_kevent, keventAttr, hv, mkObj, findClass,
      Expected.perf, Expected.clsPerfEvent, defaultsOf, FDefault.toVal]
  generalize hst1 : ({ loc := Locals.empty.set 0 (.obj "PerfEvent" (e :: rest)
      [.members "SamplerAction" (enumNamesOf env "SamplerAction" a0), .int a1, .none, .none, .none]), tabs := t } : St) = st1
      at hcons
  have hi1 : EvInv st1 (e :: rest) (enumNamesOf env "SamplerAction" a0) a1 .none .none .none := by
    subst hst1; simp [EvInv, Locals.set]
  have ht1 : st1.tabs = t := by subst hst1; rfl
  have h1 := exec_thInfo env nested (e :: rest) hw st1 _ a1 .none .none hi1 _ rfl
  cases hx1 : exec Expected.perf env nested (callFuel Expected.perf env nested callDepth) (e :: rest) Expected.eventThInfo st1 with
  | mk sig1 st2 =>
  rw [hx1] at h1
  obtain ⟨hs1, h1⟩ := h1
  simp only at hs1 h1
  subst hs1
  rw [Expected.handleEvent, exec_seq, hcons]
  simp only
  rw [exec_seq, hx1]
  simp only
  rw [exec_seq]
  unfold hPerfEvent
  simp only [firstOf, List.head?_cons, Option.getD_some, harg0, harg1]
  generalize enumNamesOf env "SamplerAction" a0 = what at *
  -- the two halves, case by case
  cases hc1 : what.contains "SAMPLER_TH_INFO" <;> cases hf1 : List.filter (namedIs env "PERF_THD_Data") (e :: rest) <;>
    simp only [hc1, hf1, if_true, if_false, Bool.false_eq_true] at h1 ⊢ <;> obtain ⟨ht2, hi2⟩ := h1 <;>
    have h2 := exec_stack env nested (e :: rest) hw st2 what a1 _ hi2 _ rfl <;>
    cases hx2 : exec Expected.perf env nested (callFuel Expected.perf env nested callDepth) (e :: rest) Expected.eventStack st2 <;>
    rw [hx2] at h2 <;> obtain ⟨hs2, ht3, h2⟩ := h2 <;> simp only at hs2 ht3 h2 <;> subst hs2 <;>
    cases hc2 : what.contains "SAMPLER_USTACK" <;> cases hf2 : List.filter (namedIs env "PERF_STK_UHdr") (e :: rest) <;>
    simp only [hc2, hf2, if_true, if_false, Bool.false_eq_true] at h2 ⊢ <;>
    simp [exec_ret, hx2, eval, (show _ = _ from h2), finish, extra_event, thInfoOfVal_none, thInfoOfVal_thdData, asOptWords, asOptNames,
      render_event, render_event_frames, ht3, ht2, ht1, mk, udataWords]

end perf
/-! ### mach.py: `handle_mach_vmfault` -/

section mach
variable (env : Env) (nested : NestedFn) (t : Tabs)

theorem lookup_vmfault (events : List Kevent) : runHandler Expected.mach env nested "MACH_vmfault" t events =
    runBody Expected.mach env nested "MACH_vmfault" Expected.handleMachVmfault t events := rfl

section attrs
variable (l : List Kevent) (a b c d f g : Val)
theorem attr_vm_addr : objAttr Expected.mach "MachVmfault" l [a, b, c, d, f, g] "addr" = .ok a := rfl
theorem attr_vm_isKernel : objAttr Expected.mach "MachVmfault" l [a, b, c, d, f, g] "is_kernel" = .ok b := rfl
theorem attr_vm_result : objAttr Expected.mach "MachVmfault" l [a, b, c, d, f, g] "result" = .ok c := rfl
theorem attr_vm_faultType : objAttr Expected.mach "MachVmfault" l [a, b, c, d, f, g] "fault_type" = .ok d := rfl
theorem attr_vm_pid : objAttr Expected.mach "MachVmfault" l [a, b, c, d, f, g] "pid" = .ok f := rfl
theorem attr_vm_callerProt : objAttr Expected.mach "MachVmfault" l [a, b, c, d, f, g] "caller_prot" = .ok g := rfl
end attrs

/-- `MachVmfault.__str__` up to the result -/
def vmHead (addr k r : Nat) : String :=
  s!"MachVmfault, addr: {pyHex addr}, is_kernel: {if k = 0 then "False" else "True"}, result: {r}"

theorem fmt_bool (k : Nat) : fmtVal (.bool (k != 0)) = .ok (if k = 0 then "False" else "True") := by
  by_cases h : k = 0
  · simp [h, fmtVal]
  · have hb : (k != 0) = true := by simpa using h
    simp [h, hb, fmtVal]

theorem render_vm_base (l : List Kevent) (addr k r : Nat) (ft pid prot : Val) :
    renderPieces Expected.mach "MachVmfault" l [.int addr, .bool (k != 0), .int r, ft, pid, prot]
      Expected.clsMachVmfault.str.base = .ok (vmHead addr k r) := by
  have hb := fmt_bool k
  unfold vmHead
  generalize (if k = 0 then "False" else "True") = ks at hb ⊢
  simp only [Expected.clsMachVmfault, renderPieces, renderPiece, attr_vm_addr, attr_vm_isKernel, attr_vm_result, hb]
  simp [fmtVal, String.append_assoc, toString_str]

theorem render_vm_nonzero (l : List Kevent) (addr k r : Nat) (ft pid prot : Val) (hr : r ≠ 0) :
    renderObj Expected.mach "MachVmfault" l [.int addr, .bool (k != 0), .int r, ft, pid, prot] = .ok (vmHead addr k r) := by
  have hc : findClass Expected.mach "MachVmfault" = some Expected.clsMachVmfault := rfl
  simp only [renderObj, hc, render_vm_base]
  have hb : (r == 0) = false := by simpa using hr
  simp [Expected.clsMachVmfault, execS, evalSCond, attr_vm_result, hb]

theorem render_vm_plain (l : List Kevent) (addr k : Nat) (c ft : String) (pid prot : Val)
    (hp : pid = .none ∨ prot = .none) :
    renderObj Expected.mach "MachVmfault" l [.int addr, .bool (k != 0), .int 0, .member c ft, pid, prot] =
      .ok (vmHead addr k 0 ++ s!", type: {ft}") := by
  have hc : findClass Expected.mach "MachVmfault" = some Expected.clsMachVmfault := rfl
  simp only [renderObj, hc, render_vm_base]
  rcases hp with hp | hp <;> subst hp
  · simp [Expected.clsMachVmfault, execS, evalSCond, attr_vm_result, attr_vm_faultType, attr_vm_pid, attr_vm_callerProt,
      renderPieces, renderPiece, toString_str, String.append_assoc]
  · cases pid <;>
    simp [Expected.clsMachVmfault, execS, evalSCond, attr_vm_result, attr_vm_faultType, attr_vm_pid, attr_vm_callerProt,
      renderPieces, renderPiece, toString_str, String.append_assoc]

theorem render_vm_full (l : List Kevent) (addr k : Nat) (c c' ft : String) (pid : Nat) (prot : List String) :
    renderObj Expected.mach "MachVmfault" l [.int addr, .bool (k != 0), .int 0, .member c ft, .int pid, .members c' prot] =
      .ok (vmHead addr k 0 ++ s!", type: {ft}, vm_prot: {" | ".intercalate prot}, pid: {pid}") := by
  have hc : findClass Expected.mach "MachVmfault" = some Expected.clsMachVmfault := rfl
  simp only [renderObj, hc, render_vm_base]
  simp [Expected.clsMachVmfault, execS, evalSCond, attr_vm_result, attr_vm_faultType, attr_vm_pid, attr_vm_callerProt,
    renderPieces, renderPiece, fmtVal, toString_str, String.append_assoc]

theorem extra_vm (l : List Kevent) (a b : Val) (r : Nat) (ft pid prot : Val) :
    extraOf Expected.mach "MachVmfault" l [a, b, .int r, ft, pid, prot] =
      match asOptName ft, asOptNat pid, asOptNames prot with
      | some x, some y, some z => .ok (.vmfault r x y z)
      | _, _, _ => .error .unmodelled := by
  simp [extraOf, attr_vm_result, attr_vm_faultType, attr_vm_pid, attr_vm_callerProt]
  rfl

theorem head_eq (addr k r : Nat) :
    s!"MachVmfault, addr: {pyHex addr}, is_kernel: {if k = 0 then "False" else "True"}, result: {r}" = vmHead addr k r := rfl

theorem mkObj_vm (l : List Kevent) (a b c d f g : Val) :
    mkObj Expected.mach "MachVmfault" l [a, b, c, d, f, g] = .ok (.obj "MachVmfault" l [a, b, c, d, f, g]) := rfl

/-- **`handle_mach_vmfault`** -/
theorem run_vmfault (e : Kevent) (rest : List Kevent) (hw : Words4 (e :: rest)) :
    runHandler Expected.mach env nested "MACH_vmfault" t (e :: rest) = hMachVmfault nested env t (e :: rest) := by
  obtain ⟨a0, a1, a2, a3, hv⟩ := len4 _ (hw e (by simp))
  obtain ⟨l, hl⟩ : ∃ l, (e :: rest).getLast? = some l := ⟨_, List.getLast?_eq_some_getLast (by simp)⟩
  have hlm : l ∈ e :: rest := List.mem_of_getLast? hl
  obtain ⟨b0, b1, b2, b3, hlv⟩ := len4 _ (hw l hlm)
  rw [lookup_vmfault, runBody]
  unfold hMachVmfault vmfaultCore
  simp only [firstOf, lastOf, List.head?_cons, Option.getD_some, hl, head_eq]
  have harg1 : arg e 1 = a1 := by simp [arg, hv]
  have harg2 : arg e 2 = a2 := by simp [arg, hv]
  have hl2 : arg l 2 = b2 := by simp [arg, hlv]
  have hl3 : arg l 3 = b3 := by simp [arg, hlv]
  simp only [harg1, harg2, hl2, hl3]
  have ereal : ∀ st, eval Expected.mach env (e :: rest) st Expected.realEventsE = .ok (.kevents (realEvents (e :: rest))) := by
    intro st; simp [Expected.realEventsE, eval, realEvents]
  by_cases hres : b2 = 0
  · subst hres
    cases hft : enumNameOfValue env "DbgVmFaultType" b3 with
    | none =>
      simp [Expected.handleMachVmfault, exec, evalCond, eval, Expected.lastWord, Expected.word, Expected.first, hl,
        attrOf_kevent, keventAttr, hv, hlv, truthy, Locals.set, hft, finish, tabs_same_self]
      rfl
    | some ft =>
      cases hre : realEvents (e :: rest) with
      | nil =>
        simp [Expected.handleMachVmfault, Expected.vmfaultReal, exec, evalCond, eval, Expected.lastWord, Expected.word,
          Expected.first, hl, attrOf_kevent, keventAttr, hv, hlv, truthy, Locals.set, hft, ereal, hre, evalArgs, mkObj_vm, finish, extra_vm, asOptName, asOptNat, asOptNames,
          render_vm_plain, mk, Except.map] <;> rfl
      | cons r rs =>
        cases hn : nested t (r :: rs) with
        | error err =>
          simp [Expected.handleMachVmfault, Expected.vmfaultReal, exec, evalCond, eval, Expected.lastWord, Expected.word,
            Expected.first, hl, attrOf_kevent, keventAttr, hv, hlv, truthy, Locals.set, hft, ereal, hre, hn, finish,
            tabs_same_self, Except.map]
        | ok res =>
          obtain ⟨o, t'⟩ := res
          cases o with
          | none =>
            simp [Expected.handleMachVmfault, Expected.vmfaultReal, exec, evalCond, eval, Expected.lastWord, Expected.word,
              Expected.first, hl, attrOf_kevent, keventAttr, hv, hlv, truthy, Locals.set, hft, ereal, hre, hn, evalArgs,
              mkObj_vm, finish, extra_vm, asOptName, asOptNat,
              asOptNames, render_vm_plain, mk, Except.map] <;> rfl
          | some out =>
            cases hpp : pidProtOf out with
            | error err =>
              simp [Expected.handleMachVmfault, Expected.vmfaultReal, exec, evalCond, eval, Expected.lastWord,
                Expected.word, Expected.first, hl, attrOf_kevent, attrOf_trace, traceAttr, keventAttr, hv, hlv, truthy,
                Locals.set, hft, ereal, hre, hn, hpp, finish, Except.map] <;> (cases t'.same t <;> rfl)
            | ok pp =>
              obtain ⟨pid, prot⟩ := pp
              cases pid <;> cases prot <;>
              simp [Expected.handleMachVmfault, Expected.vmfaultReal, exec, evalCond, eval, Expected.lastWord,
                Expected.word, Expected.first, hl, attrOf_kevent, attrOf_trace, traceAttr, keventAttr, hv, hlv, truthy,
                Locals.set, hft, ereal, hre, hn, hpp, optNat, optMembers, evalArgs, mkObj_vm, finish, extra_vm, asOptName, asOptNat, asOptNames, render_vm_plain,
                render_vm_full, mk, Except.map] <;> rfl
  · have hb : (b2 != 0) = true := by simpa using hres
    simp [Expected.handleMachVmfault, exec, evalCond, eval, Expected.lastWord, Expected.word, Expected.first, hl,
      attrOf_kevent, keventAttr, hv, hlv, truthy, Locals.set, hb, hres, evalArgs, mkObj_vm, finish, extra_vm, asOptName, asOptNat, asOptNames, render_vm_nonzero, mk,
      Except.map] <;> rfl

end mach

/-! ### dyld.py: `handle_timing_launch_executable` -/

section sort
variable {α β : Type}

theorem insertByKey_map (f : α → β) (x : Nat × α) (l : List (Nat × α)) :
    insertByKey (x.1, f x.2) (l.map fun p => (p.1, f p.2)) = (insertByKey x l).map fun p => (p.1, f p.2) := by
  induction l with
  | nil => rfl
  | cons y ys ih =>
    simp only [List.map_cons, insertByKey]
    split
    · rfl
    · rw [List.map_cons, ih]

/-- sorting commutes with a map that keeps the keys -/
theorem sortByKey_map (f : α → β) (l : List (Nat × α)) :
    sortByKey (l.map fun p => (p.1, f p.2)) = (sortByKey l).map fun p => (p.1, f p.2) := by
  induction l with
  | nil => rfl
  | cons x xs ih =>
    show insertByKey (x.1, f x.2) (sortByKey (xs.map fun p => (p.1, f p.2))) = _
    rw [ih, insertByKey_map]
    rfl

theorem mem_insertByKey (x y : Nat × α) (l : List (Nat × α)) (h : y ∈ insertByKey x l) : y = x ∨ y ∈ l := by
  induction l with
  | nil => simpa [insertByKey] using h
  | cons z zs ih =>
    simp only [insertByKey] at h
    split at h
    · simpa using h
    · rcases List.mem_cons.mp h with h | h
      · right; simp [h]
      · rcases ih h with h | h
        · left; exact h
        · right; simp [h]

theorem mem_sortByKey (y : Nat × α) (l : List (Nat × α)) (h : y ∈ sortByKey l) : y ∈ l := by
  induction l with
  | nil => simp [sortByKey] at h
  | cons x xs ih =>
    rcases mem_insertByKey x y _ h with h | h
    · simp [h]
    · simp [ih h]

theorem insertByKey_eq_insertStable (x : Nat × Bytes) (l : List (Nat × Bytes)) : insertByKey x l = insertStable x l := by
  induction l with
  | nil => rfl
  | cons y ys ih => simp only [insertByKey, insertStable, ih]

/-- on (load address, uuid) pairs the interpreter's `sorted` is the hand model's -/
theorem sortByKey_eq_sortStable (l : List (Nat × Bytes)) : sortByKey l = sortStable l := by
  induction l with
  | nil => rfl
  | cons x xs ih =>
    show insertByKey x (sortByKey xs) = insertStable x (sortStable xs)
    rw [ih, insertByKey_eq_insertStable]

end sort

section dyld
variable (env : Env) (nested : NestedFn) (t : Tabs)

theorem lookup_launch (events : List Kevent) :
    runHandler Expected.dyld env nested "DBG_DYLD_TIMING_LAUNCH_EXECUTABLE" t events =
      runBody Expected.dyld env nested "DBG_DYLD_TIMING_LAUNCH_EXECUTABLE" Expected.handleLaunch t events := rfl

/-- `DyldUuidMapA(events, UUID(bytes=…), args[2], args[3])` / `DyldUuidSharedCacheA(…)` of one record -/
def imgObj (cls : String) (x : Kevent) (u : Bytes) : Val := .obj cls [x] [.uuid u, .int (arg x 2), .int (arg x 3)]

def ImgCls (cls : String) : Prop := cls = "DyldUuidMapA" ∨ cls = "DyldUuidSharedCacheA"

theorem attr_img_loadAddr (cls : String) (hc : ImgCls cls) (l : List Kevent) (a b c : Val) :
    objAttr Expected.dyld cls l [a, b, c] "load_addr" = .ok b := by
  rcases hc with rfl | rfl <;> rfl

theorem attr_img_uuid (cls : String) (hc : ImgCls cls) (l : List Kevent) (a b c : Val) :
    objAttr Expected.dyld cls l [a, b, c] "uuid" = .ok a := by
  rcases hc with rfl | rfl <;> rfl

/-- (load address, (image object, uuid bytes)) of the records, or the first `UUID(bytes=…)` ValueError -/
def masterOf (cls : String) : List Kevent → Except PyErr (List (Nat × (Val × Bytes)))
  | [] => .ok []
  | x :: xs =>
    match uuidBytes x with
    | .error e => .error e
    | .ok u =>
      match masterOf cls xs with
      | .error e => .error e
      | .ok r => .ok ((arg x 2, (imgObj cls x u, u)) :: r)

/-- the hand model's `recs.mapM …` -/
def imgsOf : List Kevent → Except PyErr (List (Nat × Bytes))
  | [] => .ok []
  | x :: xs =>
    match uuidBytes x with
    | .error e => .error e
    | .ok u =>
      match imgsOf xs with
      | .error e => .error e
      | .ok r => .ok ((arg x 2, u) :: r)

theorem mapM_eq_imgsOf (l : List Kevent) :
    l.mapM (fun e => do let u ← uuidBytes e; pure (arg e 2, u)) = imgsOf l := by
  induction l with
  | nil => rfl
  | cons x xs ih =>
    rw [List.mapM_cons, ih, imgsOf]
    cases uuidBytes x <;> cases imgsOf xs <;> rfl

theorem imgsOf_append (a b : List Kevent) :
    imgsOf (a ++ b) =
      match imgsOf a with
      | .error e => .error e
      | .ok ra => match imgsOf b with | .error e => .error e | .ok rb => .ok (ra ++ rb) := by
  induction a with
  | nil => simp only [List.nil_append, imgsOf]; cases imgsOf b <;> rfl
  | cons x xs ih =>
    simp only [List.cons_append, imgsOf, ih]
    cases uuidBytes x <;> cases imgsOf xs <;> cases imgsOf b <;> rfl

theorem imgsOf_master (cls : String) (l : List Kevent) :
    imgsOf l = match masterOf cls l with | .error e => .error e | .ok M => .ok (M.map fun p => (p.1, p.2.2)) := by
  induction l with
  | nil => rfl
  | cons x xs ih =>
    simp only [imgsOf, masterOf, ih]
    cases uuidBytes x <;> cases masterOf cls xs <;> rfl

/-- every entry of the master list is an image object with that key and uuid -/
theorem master_good (cls : String) (hc : ImgCls cls) (l : List Kevent) (M : List (Nat × (Val × Bytes)))
    (h : masterOf cls l = .ok M) :
    ∀ m ∈ M, imageOfVal Expected.dyld m.2.1 = some (m.1, m.2.2) ∧ attrOf Expected.dyld m.2.1 "load_addr" = .ok (.int m.1) := by
  induction l generalizing M with
  | nil => simp only [masterOf, Except.ok.injEq] at h; subst h; intro m hm; cases hm
  | cons x xs ih =>
    simp only [masterOf] at h
    cases hu : uuidBytes x with
    | error e => rw [hu] at h; cases h
    | ok u =>
      rw [hu] at h
      cases hr : masterOf cls xs with
      | error e => rw [hr] at h; cases h
      | ok r =>
        rw [hr] at h
        simp only [Except.ok.injEq] at h
        subst h
        intro m hm
        rcases List.mem_cons.mp hm with rfl | hm
        · simp [imageOfVal, imgObj, attrOf_obj, attr_img_loadAddr cls hc, attr_img_uuid cls hc]
        · exact ih r hr m hm

theorem call_image (cls f : String) (hc : ImgCls cls)
    (hf : Expected.dyld.funs.find? (·.name == f) = some ⟨f, Expected.handleImage cls⟩) (x : Kevent) (h4 : x.values.length = 4) :
    callFuel Expected.dyld env nested callDepth f [x] t =
      (match uuidBytes x with | .ok u => .ok (imgObj cls x u) | .error e => .error e, t) := by
  obtain ⟨a, b, c, d, hv⟩ := len4 _ h4
  have hm : ∀ (u : Val) (p q : Val), mkObj Expected.dyld cls [x] [u, p, q] = .ok (.obj cls [x] [u, p, q]) := by
    intro u p q; rcases hc with rfl | rfl <;> rfl
  show (match Expected.dyld.funs.find? (·.name == f) with
    | Option.none => (Except.error PyErr.unmodelled, t)
    | some d =>
      match exec Expected.dyld env nested (callFuel Expected.dyld env nested 1) [x] d.body { loc := Locals.empty, tabs := t } with
      | (.ret v, st) => (Except.ok v, st.tabs) | (.normal, st) => (.ok .none, st.tabs) | (.err e, st) => (.error e, st.tabs)) = _
  rw [hf]
  by_cases hlen : (x.data.take 16).length = 16 <;> have hlen' := hlen <;> simp only [List.length_take] at hlen'
  · simp [Expected.handleImage, exec, eval, evalArgs, Expected.word, Expected.first, attrOf_kevent, keventAttr, hv, hm,
      Locals.set, uuidBytes, hlen, hlen', imgObj, arg]
  · simp [Expected.handleImage, exec, eval, evalArgs, Expected.word, Expected.first, attrOf_kevent, keventAttr, hv, hm,
      Locals.set, uuidBytes, hlen, hlen', imgObj, arg]

/-- `[handle_uuid_map_a(parser, [e]) for e in l]` -/
theorem mapLoop_image (cls f : String) (hc : ImgCls cls)
    (hf : Expected.dyld.funs.find? (·.name == f) = some ⟨f, Expected.handleImage cls⟩)
    (l : List Kevent) (hl : ∀ x ∈ l, x.values.length = 4) :
    mapLoop (callFuel Expected.dyld env nested callDepth f) (fun r => .ok r) l t =
      (match masterOf cls l with | .ok M => .ok (M.map (·.2.1)) | .error e => .error e, t) := by
  induction l with
  | nil => rfl
  | cons x xs ih =>
    have h4 := hl x (by simp)
    have ih' := ih (fun y hy => hl y (by simp [hy]))
    simp only [mapLoop, call_image env nested t cls f hc hf x h4, masterOf]
    cases uuidBytes x with
    | error e => rfl
    | ok u =>
      simp only [ih']
      cases masterOf cls xs <;> rfl

theorem keysOf_master (M : List (Nat × (Val × Bytes)))
    (hg : ∀ m ∈ M, attrOf Expected.dyld m.2.1 "load_addr" = .ok (.int m.1)) :
    keysOf Expected.dyld "load_addr" (M.map (·.2.1)) = .ok (M.map fun p => (p.1, p.2.1)) := by
  induction M with
  | nil => rfl
  | cons m ms ih =>
    simp only [List.map_cons, keysOf, hg m (by simp), ih (fun x hx => hg x (by simp [hx]))]

theorem images_master (M : List (Nat × (Val × Bytes)))
    (hg : ∀ m ∈ M, imageOfVal Expected.dyld m.2.1 = some (m.1, m.2.2)) :
    (M.map (·.2.1)).mapM (imageOfVal Expected.dyld) = some (M.map fun p => (p.1, p.2.2)) := by
  induction M with
  | nil => rfl
  | cons m ms ih =>
    rw [List.map_cons, List.mapM_cons, hg m (by simp), ih (fun x hx => hg x (by simp [hx]))]
    rfl

theorem attr_launch_mh (l : List Kevent) (a b : Val) :
    objAttr Expected.dyld "DyldLaunchExecutable" l [a, b] "main_executable_mh" = .ok a := rfl
theorem attr_launch_map (l : List Kevent) (a b : Val) :
    objAttr Expected.dyld "DyldLaunchExecutable" l [a, b] "uuid_map_a" = .ok b := rfl
theorem mkObj_launch (l : List Kevent) (a b : Val) :
    mkObj Expected.dyld "DyldLaunchExecutable" l [a, b] = .ok (.obj "DyldLaunchExecutable" l [a, b]) := rfl

theorem render_launch (l : List Kevent) (a : Nat) (b : Val) :
    renderObj Expected.dyld "DyldLaunchExecutable" l [.int a, b] =
      .ok s!"DBG_DYLD_TIMING_LAUNCH_EXECUTABLE, main_executable_mh: {pyHex a}" := by
  have hc : findClass Expected.dyld "DyldLaunchExecutable" = some Expected.clsLaunch := rfl
  simp [renderObj, hc, Expected.clsLaunch, renderPieces, renderPiece, attr_launch_mh, execS, toString_str]

/-- the payload of the launch object whose `uuid_map_a` is the sorted master list -/
theorem extra_launch (l : List Kevent) (a : Val) (M : List (Nat × (Val × Bytes)))
    (hg : ∀ m ∈ M, imageOfVal Expected.dyld m.2.1 = some (m.1, m.2.2)) :
    extraOf Expected.dyld "DyldLaunchExecutable" l [a, .list ((sortByKey (M.map fun p => (p.1, p.2.1))).map (·.2))] =
      .ok (.launch (sortStable (M.map fun p => (p.1, p.2.2)))) := by
  have h1 : (sortByKey (M.map fun p => (p.1, p.2.1))).map (·.2) = (sortByKey M).map (·.2.1) := by
    rw [sortByKey_map (fun q : Val × Bytes => q.1) M, List.map_map]; rfl
  have h2 : sortStable (M.map fun p => (p.1, p.2.2)) = (sortByKey M).map fun p => (p.1, p.2.2) := by
    rw [← sortByKey_eq_sortStable, sortByKey_map (fun q : Val × Bytes => q.2) M]
  have h3 := images_master (sortByKey M) (fun m hm => hg m (mem_sortByKey m M hm))
  simp [extraOf, attr_launch_map, h1, h2, h3]

/-- **`handle_timing_launch_executable`** -/
theorem run_launch (e : Kevent) (rest : List Kevent) (hw : Words4 (e :: rest)) :
    runHandler Expected.dyld env nested "DBG_DYLD_TIMING_LAUNCH_EXECUTABLE" t (e :: rest) = hDyldLaunch env t (e :: rest) := by
  obtain ⟨a0, a1, a2, a3, hv⟩ := len4 _ (hw e (by simp))
  have harg1 : arg e 1 = a1 := by simp [arg, hv]
  rw [lookup_launch, runBody]
  unfold hDyldLaunch
  simp only [firstOf, List.head?_cons, Option.getD_some, harg1]
  rw [mapM_eq_imgsOf, imgsOf_append, imgsOf_master "DyldUuidMapA", imgsOf_master "DyldUuidSharedCacheA"]
  have hA4 : ∀ x ∈ (e :: rest).filter (namedExactly env "DYLD_uuid_map_a"), x.values.length = 4 :=
    fun x hx => hw x (List.mem_filter.mp hx).1
  have hB4 : ∀ x ∈ (e :: rest).filter (namedExactly env "DYLD_uuid_shared_cache_a"), x.values.length = 4 :=
    fun x hx => hw x (List.mem_filter.mp hx).1
  have hcA : ImgCls "DyldUuidMapA" := Or.inl rfl
  have hcB : ImgCls "DyldUuidSharedCacheA" := Or.inr rfl
  have mlA := fun t' => mapLoop_image env nested t' "DyldUuidMapA" "handle_uuid_map_a" hcA rfl _ hA4
  have mlB := fun t' => mapLoop_image env nested t' "DyldUuidSharedCacheA" "handle_uuid_shared_cache_a" hcB rfl _ hB4
  cases hMA : masterOf "DyldUuidMapA" ((e :: rest).filter (namedExactly env "DYLD_uuid_map_a")) with
  | error err =>
    simp [Expected.handleLaunch, exec, eval, mlA, hMA, finish, tabs_same_self, bind, Except.bind]
  | ok MA =>
    cases hMB : masterOf "DyldUuidSharedCacheA" ((e :: rest).filter (namedExactly env "DYLD_uuid_shared_cache_a")) with
    | error err =>
      simp [Expected.handleLaunch, exec, eval, mlA, mlB, hMA, hMB, finish, tabs_same_self, bind, Except.bind]
    | ok MB =>
      have hgA := master_good "DyldUuidMapA" hcA _ MA hMA
      have hgB := master_good "DyldUuidSharedCacheA" hcB _ MB hMB
      have hg : ∀ m ∈ MA ++ MB, imageOfVal Expected.dyld m.2.1 = some (m.1, m.2.2) ∧
          attrOf Expected.dyld m.2.1 "load_addr" = .ok (.int m.1) := by
        intro m hm
        rcases List.mem_append.mp hm with hm | hm
        · exact hgA m hm
        · exact hgB m hm
      have hk := keysOf_master (MA ++ MB) (fun m hm => (hg m hm).2)
      have hx := extra_launch (e :: rest) (.int a1) (MA ++ MB) (fun m hm => (hg m hm).1)
      simp only [List.map_append] at hk hx
      simp [Expected.handleLaunch, exec, eval, mlA, mlB, hMA, hMB, Locals.set, hk, evalArgs, Expected.word, Expected.first,
        attrOf_kevent, keventAttr, hv, mkObj_launch, finish, hx, render_launch, bind, Except.bind, pure, Except.pure, mk]

end dyld

/-! ### the whole parser with the four composite handlers interpreted -/

theorem handleWith_nested_congr (n₁ n₂ : NestedFn) (env : Env) (t : Tabs) (name : String) (w : List Kevent)
    (h : ∀ t', n₁ t' (realEvents w) = n₂ t' (realEvents w)) :
    handleWith n₁ env t name w = handleWith n₂ env t name w := by
  unfold handleWith
  split <;> first | rfl | skip
  unfold hMachVmfault vmfaultCore
  simp only [h]

theorem words4_realEvents (w : List Kevent) (h : Words4 w) : Words4 (realEvents w) := by
  intro x hx
  simp only [realEvents, List.mem_filter] at hx
  exact h x (List.mem_of_mem_drop (List.dropLast_subset _ hx.1))

theorem hMachVmfault_nested_congr (n₁ n₂ : NestedFn) (env : Env) (t : Tabs) (w : List Kevent)
    (h : ∀ t', n₁ t' (realEvents w) = n₂ t' (realEvents w)) :
    hMachVmfault n₁ env t w = hMachVmfault n₂ env t w := by
  unfold hMachVmfault vmfaultCore
  simp only [h]

theorem handleVia_eq (n₁ n₂ : NestedFn) (env : Env) (t : Tabs) (name : String) (e : Kevent) (rest : List Kevent)
    (hw : Words4 (e :: rest)) (h : ∀ t', n₁ t' (realEvents (e :: rest)) = n₂ t' (realEvents (e :: rest))) :
    handleVia Expected.progs n₁ env t name (e :: rest) = handleWith n₂ env t name (e :: rest) := by
  unfold handleVia
  by_cases h1 : name = "PERF_Event"
  · subst h1
    simp only [BEq.rfl, Bool.true_or, if_true]
    rw [show Expected.progs.perf = Expected.perf from rfl, run_event env n₁ t e rest hw]
    simp [handleWith]
  by_cases h2 : name = "PERF_THD_Data"
  · subst h2
    simp only [BEq.rfl, Bool.or_true, if_true]
    rw [show Expected.progs.perf = Expected.perf from rfl, run_thdData env n₁ t e rest (hw e (by simp))]
    simp [handleWith]
  by_cases h3 : name = "MACH_vmfault"
  · subst h3
    rw [if_neg (by decide), if_pos (by decide), show Expected.progs.mach = Expected.mach from rfl,
      run_vmfault env n₁ t e rest hw, hMachVmfault_nested_congr n₁ n₂ env t _ h]
    simp [handleWith]
  by_cases h4 : name = "DBG_DYLD_TIMING_LAUNCH_EXECUTABLE"
  · subst h4
    rw [if_neg (by decide), if_neg (by decide), if_pos (by decide), show Expected.progs.dyld = Expected.dyld from rfl,
      run_launch env n₁ t e rest hw]
    simp [handleWith]
  have e1 : (name == "PERF_Event" || name == "PERF_THD_Data") = false := by simp [h1, h2]
  have e3 : (name == "MACH_vmfault") = false := by simp [h3]
  have e4 : (name == "DBG_DYLD_TIMING_LAUNCH_EXECUTABLE") = false := by simp [h4]
  simp only [e1, e3, e4, Bool.false_eq_true, if_false]
  exact handleWith_nested_congr n₁ n₂ env t name _ h

theorem parseFuelVia_eq : ∀ (fuel : Nat) (env : Env) (t : Tabs) (events : List Kevent), Words4 events →
    parseFuelVia Expected.progs fuel env t events = parseFuel fuel env t events := by
  intro fuel
  induction fuel with
  | zero => intro env t events _; rfl
  | succ fuel ih =>
    intro env t events hw
    cases events with
    | nil => rfl
    | cons e rest =>
      simp only [parseFuelVia, parseFuel, parseEventListVia, parseEventListWith]
      cases env.codes e.eventid with
      | none => rfl
      | some name =>
        simp only
        split
        · exact handleVia_eq _ _ env t name e rest hw (fun t' => ih env t' _ (words4_realEvents _ hw))
        · rfl

theorem feedVia_eq (env : Env) (s : PState) (e : Kevent) (hs : PInv (fun x => x.values.length = 4) s.pairing)
    (he : e.values.length = 4) : feedVia Expected.progs env s e = feed env s e := by
  have hi := (step_inv (fun x => x.values.length = 4) env.domOf s.pairing e hs he).2
  unfold feedVia feed
  cases hp : Pairing.step env.domOf s.pairing e with
  | mk p' o =>
    rw [hp] at hi
    cases o with
    | none => rfl
    | some w =>
      have hw : Words4 w := (hi w rfl).all
      simp only [parseEventListViaIR, parseEventList, parseFuelVia_eq _ env s.tabs w hw]
      cases parseFuel (w.length + 1) env s.tabs w with
      | error x => rfl
      | ok r => rfl

theorem runVia_eq (env : Env) : ∀ (es : List Kevent) (s : PState),
    PInv (fun x => x.values.length = 4) s.pairing → Words4 es → runVia Expected.progs env s es = run env s es := by
  intro es
  induction es with
  | nil => intro s _ _; rfl
  | cons e es ih =>
    intro s hs hw
    have he : e.values.length = 4 := hw e (by simp)
    have hes : Words4 es := fun x hx => hw x (by simp [hx])
    simp only [runVia, run, feedVia_eq env s e hs he]
    cases hf : feed env s e with
    | error x => rfl
    | ok r =>
      obtain ⟨o, s'⟩ := r
      have hs' : PInv (fun x => x.values.length = 4) s'.pairing := by
        have hi := (step_inv (fun x => x.values.length = 4) env.domOf s.pairing e hs he).1
        unfold feed at hf
        cases hp : Pairing.step env.domOf s.pairing e with
        | mk p' ow =>
          rw [hp] at hf hi
          cases ow with
          | none => simp only [Except.ok.injEq, Prod.mk.injEq] at hf; rw [← hf.2]; exact hi
          | some w =>
            simp only [bind, Except.bind] at hf
            cases hq : parseEventList env s.tabs w with
            | error x => rw [hq] at hf; cases hf
            | ok q => rw [hq] at hf; simp only [pure, Except.pure, Except.ok.injEq, Prod.mk.injEq] at hf; rw [← hf.2]; exact hi
      simp only [ih s' hs' hes]
      cases o <;> rfl

end KdVerif.PyIRCo
