import KdVerif.Proofs.ReassemblyWindow
import KdVerif.Proofs.IR
/-
  C08 lemmas, part 5: the vocabulary of the path-parameter table (`PathSrc`, `pathParams`, `lockstep`) and its
  meaning: what each source evaluates to in ANY window, and how the lockstep check yields per-decoder facts.
-/
namespace KdVerif.Reassembly
open KdVerif.Trace KdVerif.IR

theorem lookupEvents_keys (env : Env) (t eid : Nat) (hcode : env.codes eid = some "VFS_LOOKUP") (ts : Nat → Nat)
    (vnode : Nat) (p : Bytes) :
    ∀ c ∈ lookupEvents t eid ts vnode p, Pairing.keyOf env.domOf c = ⟨false, t, eid⟩ := by
  intro c hc
  obtain ⟨h1, h2⟩ := tagFrom_tid_eid t eid ts _ 0 true c hc
  have : env.domOf eid = false := by
    rw [domOf_named env "VFS_LOOKUP" eid (by simp [namedB, hcode])]; decide
  simp [Pairing.keyOf, h1, h2, this]

theorem chunkEvents_keys_dom (env : Env) (t eid : Nat) (hdom : env.domOf eid = true) (ts : Nat → Nat)
    (cs : List Bytes) : ∀ c ∈ chunkEvents t eid ts cs, Pairing.keyOf env.domOf c = ⟨true, t, eid⟩ := by
  intro c hc
  obtain ⟨h1, h2⟩ := tagFrom_tid_eid t eid ts _ 0 true c hc
  simp [Pairing.keyOf, h1, h2, hdom]

/-- The five ways a decoder picks the path shown for a parameter. -/
inductive PathSrc
  | first                 -- `parse_vnode(events).path`: lookup 0, '' when there is none
  | second                -- `parse_vnode([e for e in events if e not in first.ktraces]).path`: lookup 1 (K5), else ''
  | nth (i n : Nat)       -- `nodes[i].path if len(nodes) > n else ''`
  | last                  -- `nodes[-1].path if nodes else ''`
  | spawn                 -- posix_spawn: `vnodes[3].path if len(vnodes) >= 6 else (vnodes[0].path if vnodes else '')`
  deriving DecidableEq, Repr

def PathSrc.toExpr : PathSrc → Expr
  | .first => .lookupPathOrEmpty
  | .second => .lookupRestPathOrEmpty
  | .nth i n => .ite (.cmp .gt .lookupCount (.int n)) (.lookupPath (.idx i)) (.strLit [])
  | .last => .ite (.cmp .gt .lookupCount (.int 0)) (.lookupPath (.idx (-1))) (.strLit [])
  | .spawn => .ite (.cmp .ge .lookupCount (.int 6)) (.lookupPath (.idx 3))
      (.ite (.cmp .gt .lookupCount (.int 0)) (.lookupPath (.idx 0)) (.strLit []))

def PathSrc.wellFormed : PathSrc → Bool
  | .nth i n => i ≤ n
  | _ => true

def pathOr (o : Option Lookup) : String := (o.map (·.path)).getD ""

/-- The path a source denotes, given the window's lookups (in order) and its second-phase lookup. -/
def PathSrc.shown : PathSrc → List Lookup → Option Lookup → String
  | .first, L, _ => pathOr L[0]?
  | .second, _, r => pathOr r
  | .nth i n, L, _ => if n < L.length then pathOr L[i]? else ""
  | .last, L, _ => pathOr L.getLast?
  | .spawn, L, _ => if 6 ≤ L.length then pathOr L[3]? else pathOr L[0]?

/-- `"{path}"` -/
def quoted (e : Expr) : Expr := .cat (.strLit [34]) (.cat (.strOf e) (.strLit [34]))

def readsLookups (e : Expr) : Bool := !within noLookupSel e

def condReads (fs : List Expr) : Option Expr → Bool
  | some c => readsLookups (subst fs c)
  | none => false

/-- The parameters (position, condition, expression — constructor arguments inlined) that read lookups. -/
def pathParamsFrom (fs : List Expr) : Nat → List (Option Expr × Expr) → List (Nat × Option Expr × Expr)
  | _, [] => []
  | k, (c, p) :: rest =>
    if readsLookups (subst fs p) || condReads fs c
    then (k, c.map (subst fs), subst fs p) :: pathParamsFrom fs (k + 1) rest
    else pathParamsFrom fs (k + 1) rest

def pathParams (d : Decoder) : List (Nat × Option Expr × Expr) :=
  match d.shape with
  | some s => pathParamsFrom d.fields 0 s.params
  | none => []

def rowExprs (l : List (Nat × PathSrc)) : List (Nat × Option Expr × Expr) :=
  l.map fun x => (x.1, none, quoted x.2.toExpr)

/-- Walk the decoder table and `pathTable` in lockstep: every decoder with a lookup-reading parameter consumes
    the next row, which must carry its key and describe exactly its lookup-reading parameters; all rows are
    consumed. -/
def lockstep : List Decoder → List (Nat × List (Nat × PathSrc)) → Bool
  | [], [] => true
  | [], _ :: _ => false
  | d :: ds, tbl =>
    if (pathParams d).isEmpty then lockstep ds tbl
    else match tbl with
      | [] => false
      | r :: tbl' => d.key == r.1 && pathParams d == rowExprs r.2 && lockstep ds tbl'

theorem eval_count_gt (c : Ctx) (n : Int) :
    eval c (.cmp .gt .lookupCount (.int n)) = .ok (.bool (decide (n < (c.win.lookups.length : Int)))) := by
  simp [eval, asNat, cmpInt, bind, Except.bind, pure, Except.pure]

theorem eval_count_ge (c : Ctx) (n : Int) :
    eval c (.cmp .ge .lookupCount (.int n)) = .ok (.bool (decide (n ≤ (c.win.lookups.length : Int)))) := by
  simp [eval, asNat, cmpInt, bind, Except.bind, pure, Except.pure]

theorem selectLookup_idx (w : Window) (i : Nat) (hi : i < w.lookups.length) :
    selectLookup w (.idx (i : Int)) = .ok w.lookups[i] := by
  have h1 : ¬ ((i : Int) < 0) := by omega
  have h2 : (0 : Int) ≤ i ∧ (i : Int) < (w.lookups.length : Int) := ⟨by omega, by omega⟩
  simp only [selectLookup, h1, if_false, h2, and_self, if_true, Int.toNat_natCast, List.getElem?_eq_getElem hi]

theorem selectLookup_last (w : Window) (l : Lookup) (hl : w.lookups.getLast? = some l) :
    selectLookup w (.idx (-1)) = .ok l := by
  have hne : w.lookups ≠ [] := by intro h; rw [h] at hl; cases hl
  have hpos : 0 < w.lookups.length := List.length_pos_iff.mpr hne
  have h1 : ((-1 : Int) < 0) := by omega
  have h2 : (0 : Int) ≤ -1 + (w.lookups.length : Int) ∧ -1 + (w.lookups.length : Int) < (w.lookups.length : Int) :=
    ⟨by omega, by omega⟩
  have h3 : (-1 + (w.lookups.length : Int)).toNat = w.lookups.length - 1 := by omega
  rw [List.getLast?_eq_getElem?] at hl
  simp only [selectLookup, h1, if_true, h2, and_self, h3, hl]

/-- The unquoted source evaluates, without exception, to the path it denotes. -/
theorem eval_toExpr (c : Ctx) (src : PathSrc) (hwf : src.wellFormed = true) :
    eval c src.toExpr = .ok (.str (src.shown c.win.lookups c.win.restFirst)) := by
  cases src with
  | first =>
    simp only [PathSrc.toExpr, eval, selectLookup, PathSrc.shown, pathOr]
    cases h : c.win.lookups <;> simp [bind, Except.bind, pure, Except.pure]
  | second =>
    simp only [PathSrc.toExpr, eval, selectLookup, PathSrc.shown, pathOr]
    cases h : c.win.restFirst <;> simp [bind, Except.bind, pure, Except.pure]
  | nth i n =>
    simp only [PathSrc.wellFormed, decide_eq_true_eq] at hwf
    simp only [PathSrc.toExpr, PathSrc.shown]
    rw [eval, eval_count_gt]
    have hb : decide ((n : Int) < (c.win.lookups.length : Int)) = decide (n < c.win.lookups.length) := by simp
    rw [hb]
    by_cases hn : n < c.win.lookups.length
    · have hi : i < c.win.lookups.length := by omega
      simp [hn, truthy, bind, Except.bind, eval, selectLookup_idx c.win i hi, pure, Except.pure, pathOr, hi]
    · simp [hn, truthy, bind, Except.bind, eval, litString]
  | last =>
    simp only [PathSrc.toExpr, PathSrc.shown]
    rw [eval, eval_count_gt]
    cases hl : c.win.lookups.getLast? with
    | none =>
      have : c.win.lookups = [] := List.getLast?_eq_none_iff.mp hl
      simp [this, truthy, bind, Except.bind, eval, litString, pathOr]
    | some l =>
      have hne : c.win.lookups ≠ [] := by intro h; rw [h] at hl; cases hl
      have hpos : 0 < c.win.lookups.length := List.length_pos_iff.mpr hne
      have := selectLookup_last c.win l hl
      have hb : decide ((0 : Int) < (c.win.lookups.length : Int)) = true := by simp; omega
      rw [hb]
      simp [truthy, bind, Except.bind, eval, this, pure, Except.pure, pathOr]
  | spawn =>
    simp only [PathSrc.toExpr, PathSrc.shown]
    rw [eval, eval_count_ge]
    have hb6 : decide ((6 : Int) ≤ (c.win.lookups.length : Int)) = decide (6 ≤ c.win.lookups.length) := by
      rw [decide_eq_decide]; omega
    rw [hb6]
    by_cases h6 : 6 ≤ c.win.lookups.length
    · have h3 : 3 < c.win.lookups.length := by omega
      have := selectLookup_idx c.win 3 h3
      rw [show ((3 : Nat) : Int) = 3 from rfl] at this
      simp [h6, truthy, bind, Except.bind, eval, this, pure, Except.pure, pathOr, h3]
    · rw [show (if 6 ≤ c.win.lookups.length then pathOr c.win.lookups[3]? else pathOr c.win.lookups[0]?)
          = pathOr c.win.lookups[0]? from by simp [h6]]
      simp only [h6, decide_false, truthy, bind, Except.bind, Bool.false_eq_true, if_false]
      rw [eval, eval_count_gt]
      have hb0 : decide ((0 : Int) < (c.win.lookups.length : Int)) = decide (0 < c.win.lookups.length) := by
        rw [decide_eq_decide]; omega
      rw [hb0]
      by_cases h0 : 0 < c.win.lookups.length
      · have := selectLookup_idx c.win 0 h0
        rw [show ((0 : Nat) : Int) = 0 from rfl] at this
        simp [h0, truthy, bind, Except.bind, eval, this, pure, Except.pure, pathOr]
      · have : c.win.lookups = [] := List.eq_nil_of_length_eq_zero (by omega)
        simp [this, truthy, bind, Except.bind, eval, litString, pathOr]

/-- The quoted parameter text. -/
theorem evalS_quoted (c : Ctx) (src : PathSrc) (hwf : src.wellFormed = true) :
    evalS c (quoted src.toExpr) = .ok ("\"" ++ src.shown c.win.lookups c.win.restFirst ++ "\"") := by
  have hq : litString [34] = "\"" := by decide
  simp [evalS, quoted, eval, eval_toExpr c src hwf, bind, Except.bind, pure, Except.pure, pyStr, hq,
    String.append_assoc]

theorem lockstep_row_of_decoder (ds : List Decoder) (tbl : List (Nat × List (Nat × PathSrc)))
    (h : lockstep ds tbl = true) (d : Decoder) (hd : d ∈ ds) (hne : (pathParams d).isEmpty = false) :
    ∃ l, (d.key, l) ∈ tbl ∧ pathParams d = rowExprs l := by
  induction ds generalizing tbl with
  | nil => cases hd
  | cons d' ds ih =>
    unfold lockstep at h
    rcases List.mem_cons.1 hd with rfl | hd
    · simp only [hne, Bool.false_eq_true, if_false] at h
      cases tbl with
      | nil => cases h
      | cons r tbl' =>
        simp only [Bool.and_eq_true, beq_iff_eq] at h
        exact ⟨r.2, by rw [h.1.1]; simp, h.1.2⟩
    · by_cases he : (pathParams d').isEmpty = true
      · simp only [he, if_true] at h
        exact ih tbl h hd
      · simp only [he, Bool.false_eq_true, if_false] at h
        cases tbl with
        | nil => cases h
        | cons r tbl' =>
          simp only [Bool.and_eq_true] at h
          obtain ⟨l, hl, hp⟩ := ih tbl' h.2 hd
          exact ⟨l, by simp [hl], hp⟩

theorem lockstep_decoder_of_row (ds : List Decoder) (tbl : List (Nat × List (Nat × PathSrc)))
    (h : lockstep ds tbl = true) (r : Nat × List (Nat × PathSrc)) (hr : r ∈ tbl) :
    ∃ d ∈ ds, d.key = r.1 ∧ pathParams d = rowExprs r.2 := by
  induction ds generalizing tbl with
  | nil =>
    cases tbl with
    | nil => cases hr
    | cons r' tbl' => simp [lockstep] at h
  | cons d' ds ih =>
    unfold lockstep at h
    by_cases he : (pathParams d').isEmpty = true
    · simp only [he, if_true] at h
      obtain ⟨d, hd, hk⟩ := ih tbl h hr
      exact ⟨d, by simp [hd], hk⟩
    · simp only [he, Bool.false_eq_true, if_false] at h
      cases tbl with
      | nil => cases hr
      | cons r' tbl' =>
        simp only [Bool.and_eq_true, beq_iff_eq] at h
        rcases List.mem_cons.1 hr with rfl | hr
        · exact ⟨d', by simp, h.1.1, h.1.2⟩
        · obtain ⟨d, hd, hk⟩ := ih tbl' h.2 hr
          exact ⟨d, by simp [hd], hk⟩

theorem mem_pathParamsFrom (fs : List Expr) (k0 : Nat) (ps : List (Option Expr × Expr)) (i : Nat)
    (c : Option Expr) (p : Expr) (hi : ps[i]? = some (c, p))
    (hr : (readsLookups (subst fs p) || condReads fs c) = true) :
    (k0 + i, c.map (subst fs), subst fs p) ∈ pathParamsFrom fs k0 ps := by
  induction ps generalizing k0 i with
  | nil => simp at hi
  | cons q ps ih =>
    obtain ⟨qc, qp⟩ := q
    cases i with
    | zero =>
      simp only [List.getElem?_cons_zero, Option.some.injEq, Prod.mk.injEq] at hi
      obtain ⟨rfl, rfl⟩ := hi
      simp only [pathParamsFrom, hr, if_true, Nat.add_zero, List.mem_cons, true_or]
    | succ i =>
      have := ih (k0 + 1) i (by simpa using hi)
      rw [show k0 + 1 + i = k0 + (i + 1) by omega] at this
      unfold pathParamsFrom
      split
      · exact List.mem_cons_of_mem _ this
      · exact this

theorem of_mem_pathParamsFrom (fs : List Expr) (k0 : Nat) (ps : List (Option Expr × Expr)) (j : Nat)
    (c' : Option Expr) (p' : Expr) (h : (j, c', p') ∈ pathParamsFrom fs k0 ps) :
    ∃ i c p, j = k0 + i ∧ ps[i]? = some (c, p) ∧ c' = c.map (subst fs) ∧ p' = subst fs p := by
  induction ps generalizing k0 with
  | nil => simp [pathParamsFrom] at h
  | cons q ps ih =>
    obtain ⟨qc, qp⟩ := q
    unfold pathParamsFrom at h
    split at h
    · rcases List.mem_cons.1 h with h | h
      · simp only [Prod.mk.injEq] at h
        obtain ⟨rfl, rfl, rfl⟩ := h
        exact ⟨0, qc, qp, rfl, rfl, rfl, rfl⟩
      · obtain ⟨i, c, p, rfl, hi, hc, hp⟩ := ih (k0 + 1) h
        exact ⟨i + 1, c, p, by omega, by simpa using hi, hc, hp⟩
    · obtain ⟨i, c, p, rfl, hi, hc, hp⟩ := ih (k0 + 1) h
      exact ⟨i + 1, c, p, by omega, by simpa using hi, hc, hp⟩

def ctx (h : Host) (t : Tables) (w : Window) : Ctx := { host := h, tables := t, win := w }

end KdVerif.Reassembly
