"""Translator of the LINE BUILDERS: pykdebugparser/pykdebugparser.py (pure `ast`, nothing is imported or run)
-> lean/KdVerif/Gen/PyIRFm.lean, one `Method` of the IR of lean/KdVerif/Model/PyIRFm.lean per method of PyKdebugParser:

    _format_timestamp   _format_process   _format_kevent   _format_trace   _format_callstack   _format_log

Normal form (so that harmless rewrites give the same term):
  * a statement list is a right-nested `seq`; an `if` without `else` has `skip` as its else branch; docstrings, comments,
    `pass`, parameter annotations vanish;
  * variables are numbered: parameters (after `self`) first, then locals in source order of first binding;
  * a local bound ONCE, at the top level of the method, to a pure attribute path of a parameter that is never rebound
    (`tid = event.tid`, `tid = trace.ktraces[0].tid`) is inlined and gets no number (the argument objects are immutable
    tuples / records that the builders only read);
  * CONDITIONAL APPEND: `x += E if c else ''` and `if c: x += E` (no else, nothing else in the body) are the SAME node
    `appendIf x c E` — both spellings occur in the source today; `x += E` otherwise is `append x E`;
  * `'a' 'b'` / f-strings: an f-string is the list of its pieces, adjacent literal pieces merged, a format specification one
    of `` (plain) / `<N` / `>N` / `016x`;
  * `highlight(E, c_lexer, color_formatter).strip()` and `colored(E, '<colour>')` are the two abstract colour operations;
    `DgbFuncQual(E).name`, `self.threads_pids.get(k, d)`, `self.pids_names.get(k, d)`, `self._format_timestamp(E)`,
    `self._format_process(E)`, `E.unix_date.strftime('<fmt>')`, `E.ktraces[0]`, `str(E)`, `hex(E)`, `[E]`, `S * N`,
    `S.join(L)`, `None in (self.<wall-clock attribute>, …)` have a node each;
  * in `_format_timestamp` the statements BEHIND the top-level `if None in (…): return …` are the wall-clock branch (float
    division, `datetime`): they are translated to the single opaque statement `.wallClock`, which the interpreter answers
    with `.error .unmodelled` — that branch is outside the model and outside this tie.
Everything else becomes an explicit `.unsupported "<source text>"` node: never a guess."""
import ast
import os
import re

METHODS = [('_format_timestamp', 'formatTimestamp'), ('_format_process', 'formatProcess'), ('_format_kevent', 'formatKevent'),
           ('_format_trace', 'formatTrace'), ('_format_callstack', 'formatCallstack'), ('_format_log', 'formatLog')]
SHOW = {'show_timestamp': '.timestamp', 'show_name': '.name', 'show_func_qual': '.funcQual', 'show_tid': '.tid',
        'show_process': '.process', 'show_args': '.args'}
TIME = {'mach_absolute_time': '.machAbsoluteTime', 'numer': '.numer', 'denom': '.denom',
        'usecs_since_epoch': '.usecsSinceEpoch', 'timezone': '.timezone'}
ATTRS = {'tid': '.tid', 'timestamp': '.timestamp', 'eventid': '.eventid', 'func_qualifier': '.funcQualifier', 'data': '.data',
         'frames': '.frames', 'uuid': '.uuid', 'offset': '.offset', 'address': '.address', 'process': '.process',
         'thread_identifier': '.threadIdentifier', 'composed_message': '.composedMessage'}


def src(node):
    try:
        return ast.unparse(node)
    except Exception:
        return '<?>'


def is_self_attr(e, name=None):
    return isinstance(e, ast.Attribute) and isinstance(e.value, ast.Name) and e.value.id == 'self' \
        and (name is None or e.attr == name)


def plain_call(e, nargs):
    return isinstance(e, ast.Call) and not e.keywords and len(e.args) == nargs \
        and not any(isinstance(a, ast.Starred) for a in e.args)


class Tr:
    """One method body -> Stmt (python tuples)."""

    def __init__(self, fn):
        self.fn = fn
        self.vars = {}                       # name -> index
        self.inline = {}                     # name -> Expr tuple (alias of a pure attribute path of a parameter)
        self.params = [a.arg for a in fn.args.args[1:]]
        for p in self.params:
            self.bind(p)
        counts = {}
        for n in ast.walk(fn):
            if isinstance(n, ast.Name) and isinstance(n.ctx, (ast.Store, ast.Del)):
                counts[n.id] = counts.get(n.id, 0) + 1
        self.counts = counts
        self.aliases = set()
        for s in fn.body:                    # top level only: the alias is bound before every use that follows it
            if isinstance(s, ast.Assign) and len(s.targets) == 1 and isinstance(s.targets[0], ast.Name) \
                    and counts.get(s.targets[0].id) == 1 and s.targets[0].id not in self.params \
                    and self.is_param_path(s.value):
                self.aliases.add(s.targets[0].id)

    def is_param_path(self, e):
        """`p.a`, `p.ktraces[0].a` for a parameter `p` that is never rebound"""
        if isinstance(e, ast.Attribute) and e.attr in ATTRS and e.attr != 'frames':
            b = e.value
            if isinstance(b, ast.Subscript) and isinstance(b.slice, ast.Constant) and b.slice.value == 0 \
                    and isinstance(b.value, ast.Attribute) and b.value.attr == 'ktraces':
                b = b.value.value
            return isinstance(b, ast.Name) and b.id in self.params and self.counts.get(b.id, 0) == 0
        return False

    def bind(self, name):
        if name not in self.vars:
            self.vars[name] = len(self.vars)
        return self.vars[name]

    # ---- expressions ---------------------------------------------------------------------------------------
    def spec(self, fs):
        """format_spec node -> Spec tuple | None"""
        if fs is None:
            return ('plain',)
        if isinstance(fs, ast.JoinedStr) and all(isinstance(v, ast.Constant) and isinstance(v.value, str) for v in fs.values):
            text = ''.join(v.value for v in fs.values)
            if text == '':
                return ('plain',)
            m = re.fullmatch(r'([<>])([1-9][0-9]*)', text)
            if m:
                return ('left' if m.group(1) == '<' else 'right', int(m.group(2)))
            if text == '016x':
                return ('hex016',)
        return None

    def fstring(self, e):
        pieces = []
        for v in e.values:
            if isinstance(v, ast.Constant) and isinstance(v.value, str):
                if v.value == '':
                    continue
                if pieces and pieces[-1][0] == 'plit':
                    pieces[-1] = ('plit', pieces[-1][1] + v.value)
                else:
                    pieces.append(('plit', v.value))
            elif isinstance(v, ast.FormattedValue) and v.conversion == -1 and self.spec(v.format_spec) is not None:
                pieces.append(('pfmt', self.spec(v.format_spec), self.expr(v.value)))
            else:
                return ('unsupported', src(e))
        return ('fstr', pieces)

    def expr(self, e):
        U = ('unsupported', src(e))
        if isinstance(e, ast.Constant):
            if isinstance(e.value, str):
                return ('lit', e.value)
            if e.value is None:
                return ('none',)
            if isinstance(e.value, int) and not isinstance(e.value, bool):
                return ('int', e.value)
            return U
        if isinstance(e, ast.UnaryOp) and isinstance(e.op, ast.USub) and isinstance(e.operand, ast.Constant) \
                and isinstance(e.operand.value, int) and not isinstance(e.operand.value, bool):
            return ('int', -e.operand.value)
        if isinstance(e, ast.Name):
            if e.id in self.inline:
                return self.inline[e.id]
            if e.id in self.vars:
                return ('var', self.vars[e.id])
            return U
        if isinstance(e, ast.JoinedStr):
            return self.fstring(e)
        if isinstance(e, ast.Attribute):
            if is_self_attr(e):
                if e.attr in SHOW:
                    return ('selfShow', SHOW[e.attr])
                if e.attr == 'color':
                    return ('selfColor',)
                return U
            if e.attr == 'name' and plain_call(e.value, 1) and isinstance(e.value.func, ast.Name) \
                    and e.value.func.id == 'DgbFuncQual' and 'DgbFuncQual' not in self.vars:
                return ('qualName', self.expr(e.value.args[0]))
            if e.attr in ATTRS:
                return ('attr', self.expr(e.value), ATTRS[e.attr])
            return U
        if isinstance(e, ast.Subscript):
            if isinstance(e.value, ast.Attribute) and e.value.attr == 'ktraces' and isinstance(e.slice, ast.Constant) \
                    and e.slice.value == 0 and not isinstance(e.slice.value, bool):
                return ('ktrace0', self.expr(e.value.value))
            if isinstance(e.value, ast.Name) and not isinstance(e.slice, (ast.Slice, ast.Tuple)):
                return ('index', self.expr(e.value), self.expr(e.slice))
            return U
        if isinstance(e, ast.BinOp):
            if isinstance(e.op, ast.Add):
                return ('cat', self.expr(e.left), self.expr(e.right))
            if isinstance(e.op, ast.Mult):
                return ('rep', self.expr(e.left), self.expr(e.right))
            return U
        if isinstance(e, ast.IfExp):
            return ('ite', self.expr(e.test), self.expr(e.body), self.expr(e.orelse))
        if isinstance(e, ast.Compare) and len(e.ops) == 1:
            op, a, b = e.ops[0], e.left, e.comparators[0]
            if isinstance(op, ast.NotEq):
                return ('ne', self.expr(a), self.expr(b))
            if isinstance(op, ast.IsNot) and isinstance(b, ast.Constant) and b.value is None:
                return ('isNotNone', self.expr(a))
            if isinstance(op, ast.In) and isinstance(a, ast.Constant) and a.value is None and isinstance(b, (ast.Tuple, ast.List)) \
                    and all(is_self_attr(x) and x.attr in TIME for x in b.elts):
                return ('noneIn', [TIME[x.attr] for x in b.elts])
            if isinstance(op, ast.In) and isinstance(b, ast.Name):
                return ('isIn', self.expr(a), self.expr(b))
            return U
        if isinstance(e, ast.List) and len(e.elts) == 1 and not isinstance(e.elts[0], ast.Starred):
            return ('list1', self.expr(e.elts[0]))
        if isinstance(e, ast.Call) and not e.keywords and not any(isinstance(a, ast.Starred) for a in e.args):
            f = e.func
            if isinstance(f, ast.Name) and f.id not in self.vars and f.id not in self.inline:
                if f.id == 'str' and len(e.args) == 1:
                    return ('str', self.expr(e.args[0]))
                if f.id == 'hex' and len(e.args) == 1:
                    return ('hex', self.expr(e.args[0]))
                if f.id == 'colored' and len(e.args) == 2 and isinstance(e.args[1], ast.Constant) \
                        and isinstance(e.args[1].value, str):
                    return ('colored', self.expr(e.args[0]), e.args[1].value)
                return U
            if isinstance(f, ast.Attribute):
                if is_self_attr(f, '_format_timestamp') and len(e.args) == 1:
                    return ('callTimestamp', self.expr(e.args[0]))
                if is_self_attr(f, '_format_process') and len(e.args) == 1:
                    return ('callProcess', self.expr(e.args[0]))
                if f.attr == 'get' and len(e.args) == 2 and is_self_attr(f.value, 'threads_pids'):
                    return ('tpGet', self.expr(e.args[0]), self.expr(e.args[1]))
                if f.attr == 'get' and len(e.args) == 2 and is_self_attr(f.value, 'pids_names'):
                    return ('pnGet', self.expr(e.args[0]), self.expr(e.args[1]))
                if f.attr == 'strftime' and len(e.args) == 1 and isinstance(e.args[0], ast.Constant) \
                        and isinstance(e.args[0].value, str) and isinstance(f.value, ast.Attribute) \
                        and f.value.attr == 'unix_date':
                    return ('strftime', self.expr(f.value.value), e.args[0].value)
                if f.attr == 'join' and len(e.args) == 1:
                    return ('join', self.expr(f.value), self.expr(e.args[0]))
                if f.attr == 'strip' and len(e.args) == 0 and plain_call(f.value, 3) and isinstance(f.value.func, ast.Name) \
                        and f.value.func.id == 'highlight' and 'highlight' not in self.vars \
                        and isinstance(f.value.args[1], ast.Name) and f.value.args[1].id == 'c_lexer' \
                        and isinstance(f.value.args[2], ast.Name) and f.value.args[2].id == 'color_formatter' \
                        and 'c_lexer' not in self.vars and 'color_formatter' not in self.vars:
                    return ('highlightStrip', self.expr(f.value.args[0]))
            return U
        return U

    # ---- statements ----------------------------------------------------------------------------------------
    def block(self, stmts):
        out = []
        for s in stmts:
            out += self.stmt(s)
        return out

    def aug(self, s):
        """`x += E` on a numbered local -> (index, E node) | None"""
        if isinstance(s, ast.AugAssign) and isinstance(s.op, ast.Add) and isinstance(s.target, ast.Name) \
                and s.target.id in self.vars and s.target.id not in self.inline:
            return self.vars[s.target.id], s.value
        return None

    def stmt(self, s):
        U = [('sunsupported', src(s))]
        if isinstance(s, ast.Pass):
            return []
        if isinstance(s, ast.Expr) and isinstance(s.value, ast.Constant) and isinstance(s.value.value, str):
            return []                                              # docstring
        if isinstance(s, ast.Return):
            return [('ret', self.expr(s.value) if s.value is not None else ('none',))]
        if isinstance(s, ast.Assign) and len(s.targets) == 1 and isinstance(s.targets[0], ast.Name):
            name = s.targets[0].id
            if name in self.aliases and s in self.fn.body:
                self.inline[name] = self.expr(s.value)
                return []
            v = self.expr(s.value)                                 # evaluated before the target is numbered, like Python does
            return [('assign', self.bind(name), v)]
        a = self.aug(s)
        if a is not None:
            v, e = a
            if isinstance(e, ast.IfExp) and isinstance(e.orelse, ast.Constant) and e.orelse.value == '':
                return [('appendIf', v, self.expr(e.test), self.expr(e.body))]
            return [('append', v, self.expr(e))]
        if isinstance(s, ast.If):
            if not s.orelse and len(s.body) == 1 and self.aug(s.body[0]) is not None \
                    and not isinstance(s.body[0].value, ast.IfExp):
                v, e = self.aug(s.body[0])
                return [('appendIf', v, self.expr(s.test), self.expr(e))]
            c = self.expr(s.test)
            return [('ite', c, self.seq(self.block(s.body)), self.seq(self.block(s.orelse)))]
        if isinstance(s, ast.Try) and not s.orelse and not s.finalbody and len(s.handlers) == 1 \
                and isinstance(s.handlers[0].type, ast.Name) and s.handlers[0].type.id == 'ValueError' \
                and s.handlers[0].name is None:
            return [('tryValueError', self.seq(self.block(s.body)), self.seq(self.block(s.handlers[0].body)))]
        if isinstance(s, ast.For) and not s.orelse and isinstance(s.target, ast.Tuple) and len(s.target.elts) == 2 \
                and all(isinstance(t, ast.Name) for t in s.target.elts) and plain_call(s.iter, 1) \
                and isinstance(s.iter.func, ast.Name) and s.iter.func.id == 'enumerate' and 'enumerate' not in self.vars:
            it = self.expr(s.iter.args[0])
            i = self.bind(s.target.elts[0].id)
            x = self.bind(s.target.elts[1].id)
            return [('forEnum', i, x, it, self.seq(self.block(s.body)))]
        if isinstance(s, ast.Expr) and plain_call(s.value, 1) and isinstance(s.value.func, ast.Attribute) \
                and s.value.func.attr == 'append' and isinstance(s.value.func.value, ast.Name) \
                and s.value.func.value.id in self.vars and s.value.func.value.id not in self.inline:
            return [('listAppend', self.vars[s.value.func.value.id], self.expr(s.value.args[0]))]
        return U

    @staticmethod
    def seq(stmts):
        if not stmts:
            return ('skip',)
        if len(stmts) == 1:
            return stmts[0]
        return ('seq', stmts[0], Tr.seq(stmts[1:]))

    def method(self, wall_clock_tail=False):
        body = list(self.fn.body)
        if wall_clock_tail:
            # the statements behind the top-level `if None in (…): return …` are the wall-clock branch
            idx = next((i for i, s in enumerate(body)
                        if isinstance(s, ast.If) and self.expr(s.test)[0] == 'noneIn' and not s.orelse), None)
            if idx is None:
                return ('sunsupported', 'no top-level `if None in (…):` in ' + self.fn.name)
            out = self.block(body[:idx + 1])
            if body[idx + 1:]:
                out.append(('wallClock',))
            return self.seq(out)
        return self.seq(self.block(body))


def translate(repo):
    path = os.path.join(repo, 'pykdebugparser', 'pykdebugparser.py')
    with open(path) as fd:
        tree = ast.parse(fd.read())
    notes = []
    cls = next((n for n in tree.body if isinstance(n, ast.ClassDef) and n.name == 'PyKdebugParser'), None)
    out = {}
    for py, lean_name in METHODS:
        fn = None
        if cls is not None:
            fns = [n for n in cls.body if isinstance(n, ast.FunctionDef) and n.name == py]
            fn = fns[-1] if fns else None
            if len(fns) > 1:
                notes.append('%s is defined %d times' % (py, len(fns)))
        a = fn.args if fn is not None else None
        if fn is None or not a.args or a.args[0].arg != 'self' or a.vararg or a.kwarg or a.kwonlyargs or a.posonlyargs \
                or a.defaults or fn.decorator_list:
            notes.append('method %s(self, …) not found in its plain form' % py)
            out[lean_name] = (0, ('sunsupported', py))
            continue
        tr = Tr(fn)
        out[lean_name] = (len(tr.params), tr.method(wall_clock_tail=(py == '_format_timestamp')))
    return out, notes


# ----------------------------------------------------------------------------------------------------------------
# Lean rendering
# ----------------------------------------------------------------------------------------------------------------

def lean(t, lean_str):
    k = t[0]
    L = lambda x: lean(x, lean_str)  # noqa: E731
    if k in ('lit', 'unsupported', 'sunsupported'):
        return '(.%s %s)' % ('lit' if k == 'lit' else 'unsupported', lean_str(t[1]))
    if k == 'int':
        return '(.int (%d))' % t[1]
    if k in ('none', 'selfColor', 'skip', 'wallClock'):
        return '.' + k
    if k == 'var':
        return '(.var %d)' % t[1]
    if k == 'attr':
        return '(.attr %s %s)' % (L(t[1]), t[2])
    if k == 'selfShow':
        return '(.selfShow %s)' % t[1]
    if k == 'noneIn':
        return '(.noneIn [%s])' % ', '.join(t[1])
    if k in ('strftime', 'colored'):
        return '(.%s %s %s)' % (k, L(t[1]), lean_str(t[2]))
    if k == 'fstr':
        r = '.nil'
        for p in reversed(t[1]):
            if p[0] == 'plit':
                r = '(.lit %s %s)' % (lean_str(p[1]), r)
            else:
                sp = '.' + p[1][0] if len(p[1]) == 1 else '(.%s %d)' % p[1]
                r = '(.fmt %s %s %s)' % (sp, L(p[2]), r)
        return '(.fstr %s)' % r
    if k in ('ktrace0', 'qualName', 'str', 'hex', 'isNotNone', 'callTimestamp', 'callProcess', 'highlightStrip', 'list1', 'ret'):
        return '(.%s %s)' % (k, L(t[1]))
    if k in ('tpGet', 'pnGet', 'index', 'isIn', 'cat', 'rep', 'join', 'ne', 'seq', 'tryValueError'):
        return '(.%s %s %s)' % (k, L(t[1]), L(t[2]))
    if k == 'ite':
        return '(.ite %s %s %s)' % (L(t[1]), L(t[2]), L(t[3]))
    if k in ('assign', 'append', 'listAppend'):
        return '(.%s %d %s)' % (k, t[1], L(t[2]))
    if k == 'appendIf':
        return '(.appendIf %d %s %s)' % (t[1], L(t[2]), L(t[3]))
    if k == 'forEnum':
        return '(.forEnum %d %d %s %s)' % (t[1], t[2], L(t[3]), L(t[4]))
    raise ValueError(t)


def generate(repo, write_if_changed, lean_str):
    methods, notes = translate(repo)
    out = ['import KdVerif.Model.PyIRFm', 'namespace KdVerif.Gen.PyIRFm', 'open KdVerif.PyIRFm', '',
           '/-! The line builders of pykdebugparser/pykdebugparser.py (`_format_timestamp`, `_format_process`, `_format_kevent`,',
           '    `_format_trace`, `_format_callstack`, `_format_log`), translated from the source text into the IR of',
           '    `Model/PyIRFm` (tools/gen_pyir_fm.py). -/', '']
    for _, name in METHODS:
        n, body = methods[name]
        out.append('def %s : Method := { params := %d, body :=\n  %s }\n' % (name, n, lean(body, lean_str)))
    out.append('def prog : Program :=\n  { ' + ', '.join('%s := %s' % (n, n) for _, n in METHODS) + ' }\n')
    out.append('/-- What the translator could not express outside the bodies (must be empty). -/')
    out.append('def notes : List String := [' + ', '.join(lean_str(n) for n in notes) + ']\n')
    out.append('end KdVerif.Gen.PyIRFm\n')
    return write_if_changed('PyIRFm.lean', '\n'.join(out))
