#!/venv/bin/python
"""Confirm a seeded change and run a check against it without touching /repo:
   tools/seedtest.py <patch.diff> <demo.py|-> <Cxx> [<Cyy> …]
Makes a scratch worktree of /repo, applies the patch there, runs the repository's test suite, the demonstration with and
without the change, and the named checks with REPO_DIR pointing at the scratch tree; removes the worktree; regenerates
lean/KdVerif/Gen from /repo."""
import os
import subprocess
import sys
import tempfile

VERIF = os.path.dirname(os.path.dirname(os.path.abspath(__file__)))


def sh(cmd, cwd=None, env=None, timeout=3600):
    e = dict(os.environ)
    if env:
        e.update(env)
    p = subprocess.run(cmd, shell=True, cwd=cwd, env=e, capture_output=True, text=True, timeout=timeout)
    return p.returncode, (p.stdout + p.stderr).strip()


def main():
    patch, demo, props = os.path.abspath(sys.argv[1]), sys.argv[2], sys.argv[3:]
    d = tempfile.mkdtemp(prefix='seedtest_')
    wt = os.path.join(d, 'repo')
    rc, out = sh(f'git -C /repo worktree add --detach {wt} HEAD -q')
    try:
        env = {'PYTHONPATH': wt}
        res = {}
        if demo != '-':
            import shutil
            shutil.copy(demo, os.path.join(wt, 'seed_demo.py'))     # run it from inside the scratch tree
            demo = os.path.join(wt, 'seed_demo.py')
        if demo != '-':
            rc, out = sh(f'/venv/bin/python {os.path.abspath(demo)}', cwd=wt, env=env)
            res['demo_without_change_rc'] = rc
        rc, out = sh(f'git apply {patch}', cwd=wt)
        if rc != 0:
            print('PATCH DOES NOT APPLY:', out)
            return 2
        rc, out = sh('/venv/bin/python -m pytest -q -p no:cacheprovider 2>&1 | tail -1', cwd=wt, env=env)
        res['tests'] = out
        if demo != '-':
            rc, out = sh(f'/venv/bin/python {os.path.abspath(demo)}', cwd=wt, env=env)
            res['demo_with_change_rc'] = rc
            res['demo_output'] = out[-400:]
        for p in props:
            rc, out = sh(f'/venv/bin/python tools/check.py {p}', cwd=VERIF, env={'REPO_DIR': wt, 'VERIF_SCRATCH_EVIDENCE': os.path.join(d, 'evidence')})
            lines = [l for l in out.splitlines() if l.startswith(('VIOLATION', 'OK ', 'KNOWN', 'INFRA'))]
            lines.sort(key=lambda l: l.startswith('KNOWN'))
            res['check_' + p] = {'rc': rc, 'lines': [l[:200] for l in lines[:4]]}
        import json
        print(json.dumps(res, indent=1))
    finally:
        sh(f'git -C /repo worktree remove --force {wt}')
        sh(f'rm -rf {d}')
        sh('/venv/bin/python tools/translate.py', cwd=VERIF)
    return 0


sys.exit(main())
