import Driver.Util
import KdVerif.Model.ContainerV3
import KdVerif.Spec.ContainerV2
import KdVerif.Spec.ContainerV3
import KdVerif.Model.Pipeline
/-
  Commands for the container readers (C02, C03, C06).

  parse  <tp> <pn> <plists> <file hex>              full canonical answer
  trunc  <tp> <pn> <plists> <file hex> <k,k,…>      one digest per truncation offset k
  encv2  <is64> <tick> <pad> <threads> <recs hex>   Spec.encodeV2 as hex
  encv3  …                                          Spec.encodeV3 as hex (see `cmdEncV3`)
  utf8   <hex>                                      validUtf8
  pwc    <count> <n>                                print_with_count over n items: how many printed

  tp = `tid:pid,…` | `-`;  pn = `pid:namehex,…` | `-` (empty name = no hex digits)
  plists = `-` | entries joined by `;`, each `payloadhex/e|n/B/E/S/othershex`
     B = `~` (no 'Binaries' key) | `b` ids joined by `.`
     E = `~` | `v` events joined by `.`, each `cm_tid_p_pid` with `x` for an absent p / pid
     S = `~` | `s` items joined by `.`, each `stringhex_id`
-/
open KdVerif
namespace Driver.Container

def splitNE (s : String) (sep : String) : List String := if s = "" then [] else s.splitOn sep

def parsePairs (s : String) : Option (List (Nat × Nat)) :=
  if s = "-" then some [] else
  (s.splitOn ",").mapM fun kv =>
    match kv.splitOn ":" with
    | [a, b] => do pure ((← a.toNat?), (← b.toNat?))
    | _ => none

def parseNames (s : String) : Option (List (Nat × Bytes)) :=
  if s = "-" then some [] else
  (s.splitOn ",").mapM fun kv =>
    match kv.splitOn ":" with
    | [a, b] => do pure ((← a.toNat?), (← ofHex b))
    | _ => none

def optNat (s : String) : Option (Option Nat) :=
  if s = "x" then some none else s.toNat?.map some

def parseEvent (s : String) : Option RawLog :=
  match s.splitOn "_" with
  | [a, b, c, d] => do pure ⟨(← a.toNat?), (← b.toNat?), (← optNat c), (← optNat d)⟩
  | _ => none

def parseItem (s : String) : Option (Bytes × Nat) :=
  match s.splitOn "_" with
  | [a, b] => do pure ((← ofHex a), (← b.toNat?))
  | _ => none

def parseView (fl b e s o : String) : Option PView := do
  let bin ← if b = "~" then some none else (splitNE (b.drop 1).toString ".").mapM String.toNat? |>.map some
  let evs ← if e = "~" then some none else (splitNE (e.drop 1).toString ".").mapM parseEvent |>.map some
  let si ← if s = "~" then some none else (splitNE (s.drop 1).toString ".").mapM parseItem |>.map some
  let oth ← ofHex (unDash o)
  pure ⟨fl = "e", oth, bin, evs, si⟩

def parsePlists (s : String) : Option (List (Bytes × PView)) :=
  if s = "-" then some [] else
  (s.splitOn ";").mapM fun ent =>
    match ent.splitOn "/" with
    | [h, fl, b, e, si, o] => do pure ((← ofHex h), (← parseView fl b e si o))
    | _ => none

def plistOf (tbl : List (Bytes × PView)) (payload : Bytes) : Option PView :=
  (tbl.find? (fun p => p.1 == payload)).map (·.2)

def hexD (b : Bytes) : String := if b = [] then "-" else toHex b

def insertSorted {β : Type} (p : Nat × β) : List (Nat × β) → List (Nat × β)
  | [] => [p]
  | q :: qs => if p.1 ≤ q.1 then p :: q :: qs else q :: insertSorted p qs

def sortByKey {β : Type} (l : List (Nat × β)) : List (Nat × β) := l.foldr insertSorted []

def showTables (t : Tables) : String :=
  let tp := ",".intercalate ((sortByKey t.threadsPids).map fun p => s!"{p.1}:{p.2}")
  let pn := ",".intercalate ((sortByKey t.pidsNames).map fun p => s!"{p.1}:{toHex p.2}")
  s!"tp={if tp = "" then "-" else tp} pn={if pn = "" then "-" else pn}"

def showEv (e : Kevent) : String :=
  s!"{e.timestamp}:{toHex e.data}:{e.tid}:{e.debugid}:{e.eventid}:{e.qual}"

def showOut : Out Kevent → String
  | .ev e => "E" ++ showEv e
  | .log l => s!"L{l.idx}:{l.tid}:{l.pid}:{hexD l.process}:{hexD l.message}"

def showErr : Option PyErr → String
  | none => "done"
  | some e => "err:" ++ e.name

def optHex : Option Bytes → String
  | none => "~"
  | some b => hexD b

def showMeta (m : V3Meta) : String :=
  let hdr := match m.header with
    | none => "~"
    | some (fs, p) => natListC fs ++ "/" ++ hexD p
  let bin := match m.dyldBin with
    | none => "~"
    | some l => "b" ++ ".".intercalate (l.map toString)
  s!"hdr={hdr} codes={hexD m.traceCodes} kexts={".".intercalate (m.kexts.map toString)} " ++
  s!"dyld={optHex m.dyldBase}/{if m.dyldEmpty then "e" else "n"}/{bin} images={optHex m.images} " ++
  s!"procs={optHex m.processes}"

def showReads (r : Reader) : String := s!"calls={r.calls} got={r.got} req={r.req} pos={r.pos}"

def showRunCore (x : Run3 Kevent) : String :=
  let outs := " ".intercalate (x.outs.map showOut)
  s!"{showErr x.err} n={x.outs.length} [{outs}] {showTables x.tables} tm:{if x.events.isEmpty then "-" else showTables x.tmTables} " ++
  s!"{showMeta x.md}"

/-- with the read counters (C06 compares them; C02/C03 use the `…n` commands without). -/
def showRun (x : Run3 Kevent) : String := s!"{showRunCore x} {showReads x.rd}"

/-- checksum of an event list (same formula in the harness). -/
def evSum (es : List Kevent) : Nat :=
  (es.zipIdx.foldl (fun acc p =>
    (acc + (p.2 + 1) * (p.1.timestamp + 3 * p.1.tid + 7 * p.1.debugid + 11 * leNat p.1.data)) % 2305843009213693951) 0)

def runOf (tp pn pl h : String) (cut : Option Nat) : Option (Run3 Kevent) := do
  let tp ← parsePairs tp
  let pn ← parseNames pn
  let tbl ← parsePlists pl
  let data ← ofHex (unDash h)
  let data := match cut with | none => data | some k => data.take k
  pure (parse (plistOf tbl) fromKdBuf ⟨⟨tp, pn⟩, {}⟩ data)

def cmdParse : Cmd
  | [tp, pn, pl, h] =>
    match runOf tp pn pl h none with
    | some x => showRun x
    | none => "bad-op"
  | _ => "bad-op"

/-- `parseseq <tp> <pn> <plists> <file>…` : successive parses by ONE parser object (tables and
    attributes carried over); answers joined by ` || `. -/
def cmdParseSeq : Cmd
  | tp :: pn :: pl :: files =>
    match parsePairs tp, parseNames pn, parsePlists pl, files.mapM (fun h => ofHex (unDash h)) with
    | some tp, some pn, some tbl, some datas =>
      let step := fun (acc : PState × List String) (data : Bytes) =>
        let x := parse (plistOf tbl) fromKdBuf acc.1 data
        (⟨x.tables, x.md⟩, acc.2 ++ [showRun x])
      " || ".intercalate (datas.foldl step (⟨⟨tp, pn⟩, {}⟩, [])).2
    | _, _, _, _ => "bad-op"
  | _ => "bad-op"

/-- `kevents <tp> <pn> <plists> <file>` : what `PyKdebugParser.kevents` delivers, and the tables. -/
def cmdKevents : Cmd
  | [tp, pn, pl, h] =>
    match runOf tp pn pl h none with
    | some x => s!"{showErr x.err} n={x.events.length} [{" ".intercalate (x.events.map fun e => "E" ++ showEv e)}] {showTables x.tables}"
    | none => "bad-op"
  | _ => "bad-op"

def cmdParseN : Cmd
  | [tp, pn, pl, h] =>
    match runOf tp pn pl h none with
    | some x => showRunCore x
    | none => "bad-op"
  | _ => "bad-op"

def cmdParseSeqN : Cmd
  | tp :: pn :: pl :: files =>
    match parsePairs tp, parseNames pn, parsePlists pl, files.mapM (fun h => ofHex (unDash h)) with
    | some tp, some pn, some tbl, some datas =>
      let step := fun (acc : PState × List String) (data : Bytes) =>
        let x := parse (plistOf tbl) fromKdBuf acc.1 data
        (⟨x.tables, x.md⟩, acc.2 ++ [showRunCore x])
      " || ".intercalate (datas.foldl step (⟨⟨tp, pn⟩, {}⟩, [])).2
    | _, _, _, _ => "bad-op"
  | _ => "bad-op"

def cmdTrunc : Cmd
  | [tp, pn, pl, h, ks] =>
    match parsePairs tp, parseNames pn, parsePlists pl, ofHex (unDash h), parseNatList ks with
    | some tp, some pn, some tbl, some data, some ks =>
      " ".intercalate (ks.map fun k =>
        let x := parse (plistOf tbl) fromKdBuf ⟨⟨tp, pn⟩, {}⟩ (data.take k)
        let es := x.events
        s!"{k}:{showErr x.err}:{es.length}:{evSum es}:{x.rd.calls}:{x.rd.got}:{x.rd.req}")
    | _, _, _, _, _ => "bad-op"
  | _ => "bad-op"

def parseThreads (s : String) : Option (List Spec.V2Thread) :=
  if s = "-" then some [] else
  (s.splitOn ",").mapM fun t =>
    match t.splitOn ":" with
    | [a, b, c] => do pure ⟨(← a.toNat?), (← b.toNat?), (← ofHex c), []⟩
    | [a, b, c, j] => do pure ⟨(← a.toNat?), (← b.toNat?), (← ofHex c), (← ofHex j)⟩
    | _ => none

def splitRecs (b : Bytes) : Nat → List Bytes
  | 0 => []
  | n + 1 => b.take 64 :: splitRecs (b.drop 64) n

def cmdEncV2 : Cmd
  | [is64, tick, pad, ths, recs] =>
    match is64.toNat?, tick.toNat?, pad.toNat?, parseThreads ths, ofHex (unDash recs) with
    | some i, some t, some p, some th, some rb =>
      toHex (Spec.encodeV2 ⟨th, p, splitRecs rb (rb.length / 64), i, t⟩)
    | _, _, _, _, _ => "bad-op"
  | _ => "bad-op"

def parseChunk (s : String) : Option Spec.V3Chunk :=
  match s.splitOn "/" with
  | [g, e, u, r] => do
    let rb ← ofHex (unDash r)
    pure ⟨(← ofHex (unDash g)), (← e.toNat?), (← ofHex (unDash u)), splitRecs rb (rb.length / 64)⟩
  | _ => none

def parseBlock (s : String) : Option Spec.V3Block :=
  match s.splitOn "/" with
  | [t, p, f] => do pure ⟨(← ofHex (unDash t)), (← ofHex (unDash p)), f = "p"⟩
  | _ => none

/-- `encv3 <hdr csv> <cpu> <four> <filler> <gap1> <threads> <tmtrail> <chunks ;> <blocks ; | ->` -/
def cmdEncV3 : Cmd
  | [hdr, cpu, four, filler, gap1, ths, trail, chunks, blocks] =>
    match parseNatList hdr, ofHex (unDash cpu), ofHex (unDash four), ofHex (unDash filler), ofHex (unDash gap1),
          parseThreads ths, ofHex (unDash trail), (chunks.splitOn ";").mapM parseChunk,
          (if blocks = "-" then some [] else (blocks.splitOn ";").mapM parseBlock) with
    | some h, some c, some fo, some fi, some g, some th, some tr, some (c0 :: cs), some bs =>
      toHex (Spec.encodeV3 ⟨h, c, fo, fi, g, th, tr, c0, cs, bs⟩)
    | _, _, _, _, _, _, _, _, _ => "bad-op"
  | _ => "bad-op"

def cmdUtf8 : Cmd
  | [h] => match ofHex (unDash h) with
    | some b => if validUtf8 b then "ok 1" else "ok 0"
    | none => "bad-op"
  | _ => "bad-op"

/-- `pwc <count> <n>` : `print_with_count(range(n), count)` — the items printed. -/
def cmdPwc : Cmd
  | [c, n] =>
    match c.toInt?, n.toNat? with
    | some c, some n => "ok " ++ natListC (printWithCount (List.range n) c)
    | _, _ => "bad-op"
  | _ => "bad-op"

def commands : List (String × Cmd) :=
  [("parse", cmdParse), ("parseseq", cmdParseSeq), ("parsen", cmdParseN), ("parseseqn", cmdParseSeqN), ("kevents", cmdKevents), ("trunc", cmdTrunc), ("encv2", cmdEncV2), ("encv3", cmdEncV3), ("utf8", cmdUtf8), ("pwc", cmdPwc)]

end Driver.Container
