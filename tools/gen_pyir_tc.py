"""Translator of `from_trace_codes_text` (pykdebugparser/trace_codes.py; pure `ast`) -> lean/KdVerif/Gen/PyIRTc.lean: the
SHAPE of the one-expression function (how the text is cut into lines, a line into tokens, which token is the key and in which
base, which token is the value) as a `PyIRTc.CodesFn`.

Accepted spellings of the same shape: a dict comprehension or `dict(<generator of 2-tuples>)`; the token lists produced by
`map(lambda l: l.split(), X)`, `map(str.split, X)`, `(l.split() for l in X)` or `[l.split() for l in X]`; a local that merely
names one of these pieces (`lines = codes_text.splitlines()`), bound once.  Anything else: `.unsupported "<text>"` / a note."""
import ast
import os


def src(n):
    try:
        return ast.unparse(n)
    except Exception:
        return '<?>'


def translate(repo):
    path = os.path.join(repo, 'pykdebugparser', 'trace_codes.py')
    with open(path) as fd:
        tree = ast.parse(fd.read())
    notes = []
    fn = next((n for n in tree.body if isinstance(n, ast.FunctionDef) and n.name == 'from_trace_codes_text'), None)
    bad = {'lines': ('unsupported', 'from_trace_codes_text'), 'tokens': ('unsupported', 'from_trace_codes_text'),
           'keyIdx': 0, 'keyBase': 0, 'valIdx': 0}
    if fn is None or len(fn.args.args) != 1:
        notes.append('from_trace_codes_text(codes_text) not found')
        return bad, notes
    param = fn.args.args[0].arg
    body = [s for s in fn.body if not (isinstance(s, ast.Expr) and isinstance(s.value, ast.Constant))]
    aliases = {}
    for s in body[:-1]:
        if isinstance(s, ast.Assign) and len(s.targets) == 1 and isinstance(s.targets[0], ast.Name) \
                and s.targets[0].id not in aliases and s.targets[0].id != param:
            aliases[s.targets[0].id] = s.value
        else:
            notes.append('statement before the return: ' + src(s))
    if not body or not isinstance(body[-1], ast.Return) or body[-1].value is None:
        notes.append('no final return expression')
        return bad, notes

    def res(e):
        seen = set()
        while isinstance(e, ast.Name) and e.id in aliases and e.id not in seen:
            seen.add(e.id)
            e = aliases[e.id]
        return e

    e = res(body[-1].value)
    key = val = gen = None
    if isinstance(e, ast.DictComp) and len(e.generators) == 1:
        key, val, gen = e.key, e.value, e.generators[0]
    elif isinstance(e, ast.Call) and isinstance(e.func, ast.Name) and e.func.id == 'dict' and len(e.args) == 1 and not e.keywords \
            and isinstance(e.args[0], (ast.GeneratorExp, ast.ListComp)) and len(e.args[0].generators) == 1 \
            and isinstance(e.args[0].elt, ast.Tuple) and len(e.args[0].elt.elts) == 2:
        key, val = e.args[0].elt.elts
        gen = e.args[0].generators[0]
    if gen is None or gen.ifs or gen.is_async or not isinstance(gen.target, ast.Name):
        notes.append('return value is not a one-generator dict comprehension: ' + src(e))
        return bad, notes
    svar = gen.target.id
    out = dict(bad)

    def split_call(c, var):
        """`var.split(...)` -> TokensOp"""
        if isinstance(c, ast.Call) and isinstance(c.func, ast.Attribute) and c.func.attr == 'split' \
                and isinstance(c.func.value, ast.Name) and c.func.value.id == var and not c.keywords:
            if not c.args:
                return ('splitWs',)
            if len(c.args) == 1 and isinstance(c.args[0], ast.Constant) and isinstance(c.args[0].value, str):
                return ('splitOn', c.args[0].value)
        return ('unsupported', src(c))

    it = res(gen.iter)
    lines_expr = None
    if isinstance(it, ast.Call) and isinstance(it.func, ast.Name) and it.func.id == 'map' and len(it.args) == 2 and not it.keywords:
        f, lines_expr = it.args
        if isinstance(f, ast.Lambda) and len(f.args.args) == 1:
            out['tokens'] = split_call(f.body, f.args.args[0].arg)
        elif isinstance(f, ast.Attribute) and f.attr == 'split' and isinstance(f.value, ast.Name) and f.value.id == 'str':
            out['tokens'] = ('splitWs',)
        else:
            out['tokens'] = ('unsupported', src(f))
    elif isinstance(it, (ast.GeneratorExp, ast.ListComp)) and len(it.generators) == 1 and not it.generators[0].ifs \
            and isinstance(it.generators[0].target, ast.Name):
        out['tokens'] = split_call(it.elt, it.generators[0].target.id)
        lines_expr = it.generators[0].iter
    else:
        out['tokens'] = ('unsupported', src(it))
    le = res(lines_expr) if lines_expr is not None else None
    if isinstance(le, ast.Call) and isinstance(le.func, ast.Attribute) and isinstance(le.func.value, ast.Name) \
            and le.func.value.id == param and not le.keywords:
        if le.func.attr == 'splitlines' and not le.args:
            out['lines'] = ('splitlines', False)
        elif le.func.attr == 'splitlines' and len(le.args) == 1 and isinstance(le.args[0], ast.Constant) \
                and isinstance(le.args[0].value, bool):
            out['lines'] = ('splitlines', le.args[0].value)
        elif le.func.attr == 'split' and len(le.args) == 1 and isinstance(le.args[0], ast.Constant) \
                and isinstance(le.args[0].value, str):
            out['lines'] = ('splitOn', le.args[0].value)
        else:
            out['lines'] = ('unsupported', src(le))
    else:
        out['lines'] = ('unsupported', src(le) if le is not None else '<no lines expression>')

    def tok_index(x):
        if isinstance(x, ast.Subscript) and isinstance(x.value, ast.Name) and x.value.id == svar:
            i = x.slice
            if isinstance(i, ast.Constant) and isinstance(i.value, int) and not isinstance(i.value, bool):
                return i.value
            if isinstance(i, ast.UnaryOp) and isinstance(i.op, ast.USub) and isinstance(i.operand, ast.Constant) \
                    and isinstance(i.operand.value, int):
                return -i.operand.value
        return None

    if isinstance(key, ast.Call) and isinstance(key.func, ast.Name) and key.func.id == 'int' and len(key.args) == 2 \
            and not key.keywords and isinstance(key.args[1], ast.Constant) and isinstance(key.args[1].value, int) \
            and tok_index(key.args[0]) is not None:
        out['keyIdx'], out['keyBase'] = tok_index(key.args[0]), key.args[1].value
    else:
        notes.append('key expression: ' + src(key))
    if tok_index(val) is not None:
        out['valIdx'] = tok_index(val)
    else:
        notes.append('value expression: ' + src(val))
    return out, notes


def generate(repo, write_if_changed, lean_str):
    f, notes = translate(repo)

    def lines(t):
        if t[0] == 'splitlines':
            return '(.splitlines %s)' % ('true' if t[1] else 'false')
        if t[0] == 'splitOn':
            return '(.splitOn %s)' % lean_str(t[1])
        return '(.unsupported %s)' % lean_str(t[1])

    def tokens(t):
        if t[0] == 'splitWs':
            return '.splitWs'
        if t[0] == 'splitOn':
            return '(.splitOn %s)' % lean_str(t[1])
        return '(.unsupported %s)' % lean_str(t[1])

    def ii(n):
        return '(%d)' % n

    L = ['import KdVerif.Model.PyIRTc', 'namespace KdVerif.Gen.PyIRTc', 'open KdVerif.PyIRTc', '',
         '/-! `from_trace_codes_text` of pykdebugparser/trace_codes.py as a shape (tools/gen_pyir_tc.py). -/', '',
         'def codesFn : CodesFn :=\n  { lines := %s, tokens := %s, keyIdx := %s, keyBase := %d, valIdx := %s }\n'
         % (lines(f['lines']), tokens(f['tokens']), ii(f['keyIdx']), f['keyBase'], ii(f['valIdx'])),
         'def notes : List String := [' + ', '.join(lean_str(n) for n in notes) + ']\n',
         'end KdVerif.Gen.PyIRTc', '']
    return write_if_changed('PyIRTc.lean', '\n'.join(L))
