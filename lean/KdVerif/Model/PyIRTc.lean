import KdVerif.Model.TraceCodes
/-
  `from_trace_codes_text` (`pykdebugparser/trace_codes.py`) as a SHAPE with an interpreter — the companion of the
  other `PyIR*` embeddings for C19.  The function is one expression,

      {int(s[0], 16): s[1] for s in map(lambda l: l.split(), codes_text.splitlines())}

  and `tools/gen_pyir_tc.py` translates it (pure `ast`) into a `CodesFn`: how the text is cut into lines, how a line is cut
  into tokens, which token is the key and in which base it is read, which token is the value.  The interpreter gives a
  meaning to exactly the forms the model has functions for (`str.splitlines()`, `str.split()` without separator,
  `int(·, 16)`, non-negative token indices); every other parameter value is `.error .unmodelled`.  Core Lean only.
-/
namespace KdVerif.PyIRTc
open KdVerif.TraceCodes

inductive LinesOp
  | splitlines (keepends : Bool)        -- `text.splitlines()` / `text.splitlines(True)`
  | splitOn (sep : String)              -- `text.split(sep)`
  | unsupported (src : String)
  deriving DecidableEq, Repr

inductive TokensOp
  | splitWs                             -- `line.split()`
  | splitOn (sep : String)              -- `line.split(sep)`
  | unsupported (src : String)
  deriving DecidableEq, Repr

structure CodesFn where
  lines : LinesOp
  tokens : TokensOp
  keyIdx : Int                          -- `int(s[keyIdx], keyBase)`, evaluated first
  keyBase : Nat
  valIdx : Int                          -- `s[valIdx]`
  deriving DecidableEq, Repr

def tokAt (ts : List (List Char)) (i : Int) : Except PyErr (List Char) :=
  if i < 0 then .error .unmodelled
  else match ts[i.toNat]? with
    | some t => .ok t
    | none => .error .indexError

def evalLine (f : CodesFn) (l : List Char) : Except PyErr (Int × String) :=
  match f.tokens with
  | .splitWs =>
    if f.keyBase ≠ 16 then .error .unmodelled
    else
      match tokAt (splitWs l) f.keyIdx with
      | .error e => .error e
      | .ok t0 =>
        match pyInt16 t0 with
        | .error e => .error e
        | .ok k =>
          match tokAt (splitWs l) f.valIdx with
          | .error e => .error e
          | .ok t1 => .ok (k, String.ofList t1)
  | _ => .error .unmodelled

def evalLines (f : CodesFn) : Table → List (List Char) → Except PyErr Table
  | t, [] => .ok t
  | t, l :: ls =>
    match evalLine f l with
    | .error e => .error e
    | .ok kv => evalLines f (t.insert kv.1 kv.2) ls

/-- `from_trace_codes_text(text)` interpreted. -/
def run (f : CodesFn) (text : List Char) : Except PyErr Table :=
  match f.lines with
  | .splitlines false => evalLines f [] (splitLines text)
  | _ => .error .unmodelled

def CodesFn.hasUnsupported (f : CodesFn) : Bool :=
  (match f.lines with | .unsupported _ => true | _ => false) || (match f.tokens with | .unsupported _ => true | _ => false)

/-- the expected shape (what the proofs are about):
```python
def from_trace_codes_text(codes_text: str) -> Mapping[int, str]:
    return {int(s[0], 16): s[1] for s in map(lambda l: l.split(), codes_text.splitlines())}
```
-/
def expected : CodesFn :=
  { lines := .splitlines false, tokens := .splitWs, keyIdx := 0, keyBase := 16, valIdx := 1 }

theorem evalLine_expected (l : List Char) : evalLine expected l = parseLine l := by
  unfold evalLine parseLine expected tokAt
  cases h : splitWs l with
  | nil => simp
  | cons t0 rest =>
    cases hk : pyInt16 t0 with
    | error e => simp [hk]
    | ok k =>
      cases rest with
      | nil => simp [hk]
      | cons t1 r => simp [hk]

theorem evalLines_expected : ∀ (ls : List (List Char)) (t : Table), evalLines expected t ls = parseLines t ls
  | [], t => rfl
  | l :: ls, t => by
    rw [evalLines, parseLines, evalLine_expected]
    cases parseLine l with
    | error e => rfl
    | ok kv => exact evalLines_expected ls _

/-- the expected shape, interpreted, is the model of `from_trace_codes_text` — for every text -/
theorem run_expected (text : List Char) : run expected text = parseCodesL text := by
  simp only [run, expected, parseCodesL]
  exact evalLines_expected _ _

end KdVerif.PyIRTc
