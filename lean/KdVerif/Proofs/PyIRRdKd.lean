import KdVerif.Props.C01
import KdVerif.Proofs.PyIRRd
import KdVerif.Gen.PyIRRd
/-
  The translation tie of the reader code instantiated with the record decoder `fromKdBuf` (C01), shared by the
  property modules C02 / C03 / C06.  Core Lean only.
-/
namespace KdVerif.PyIRRd

theorem structUnpack_err' {fmt : List FieldSpec} {bs : Bytes} {e : PyErr} (h : structUnpack fmt bs = .error e) :
    e = .structError := by
  unfold structUnpack at h
  split at h <;> simp_all

theorem decodeWith_err' {fmt : List FieldSpec} {a b : Nat} {x : Bytes} {e : PyErr}
    (h : decodeWith fmt a b x = .error e) : e = .structError ∨ e = .valueError := by
  unfold decodeWith at h
  split at h
  · rename_i e1 h1
    simp only [Except.error.injEq] at h; subst h; exact Or.inl (structUnpack_err' h1)
  · split at h
    · rename_i e1 h1
      simp only [Except.error.injEq] at h; subst h; exact Or.inl (structUnpack_err' h1)
    · simp at h
    · simp only [Except.error.injEq] at h; exact Or.inr h.symm
  · simp only [Except.error.injEq] at h; exact Or.inr h.symm

theorem kd_rejectsShort : RejectsShort fromKdBuf :=
  fun x hx => ⟨_, C01.decode_rejects_other_lengths x hx⟩

theorem kd_noHang : NoHangDec fromKdBuf := by
  intro x h
  rcases decodeWith_err' h with h' | h' <;> simp at h'

/-- the statement shared by `C02/C03/C06.source_is_expected_ir` -/
def SourceIsExpected : Prop := Gen.PyIRRd.prog = Expected.prog ∧ Gen.PyIRRd.notes = []

instance : Decidable SourceIsExpected := by unfold SourceIsExpected; infer_instance

theorem parse_eq_parseVia_gen (h : SourceIsExpected) (plist : Bytes → Option PView) (prior : PState) (data : Bytes) :
    KdVerif.parse plist fromKdBuf prior data = parseVia Gen.PyIRRd.prog plist fromKdBuf prior data := by
  rw [h.1]; exact parse_eq_parseVia plist fromKdBuf kd_rejectsShort kd_noHang prior data

end KdVerif.PyIRRd
