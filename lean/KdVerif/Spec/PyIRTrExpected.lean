import KdVerif.Model.PyIRTr
/-
  The IR the proofs of `Proofs/PyIRTr` were done for: a hand-written copy of what `tools/gen_pyir_tr.py` produces from
  `pykdebugparser/trace_handlers/trace.py` (statement lists as right-nested `seq`, locals numbered by first binding,
  aliases of the `events[0]` family inlined, `if not c` with swapped branches, `v += e` as `v = v + e`,
  `DgbFuncQual.DBG_FUNC_START.value` = 1 and `DBG_FUNC_END.value` = 2 reflected from kevent.py).
  `C05.source_is_expected_ir` states that the generated program IS this term.  Core Lean only.
-/
namespace KdVerif.PyIRTr.Expected
open KdVerif.PyIRTr Expr Stmt

/-- `events[0]` -/
def first : Expr := index events 0
/-- `events[0].values[k]` -/
def word (k : Nat) : Expr := index (attr first "values") k
/-- `events[0].tid` -/
def firstTid : Expr := attr first "tid"
/-- `events[0].func_qualifier & DgbFuncQual.DBG_FUNC_START.value` -/
def firstStart : Expr := band (attr first "func_qualifier") (int 1)
/-- `events[0].data.replace(b'\x00', b'').decode()` -/
def firstText : Expr := decode (replaceNul (attr first "data"))

/-! ### the dataclasses and their `__str__` -/

/--
```python
@dataclass
class TraceDataNewthread:
    ktraces: List
    tid: int
    pid: int
    is_exec_copy: int
    uniqueid: int

    def __str__(self):
        return f'New thread {self.tid} of parent: {self.pid}'
```
-/
def clsDataNewthread : ClassDef :=
  { name := "TraceDataNewthread"
    fields := [("tid", none), ("pid", none), ("is_exec_copy", none), ("uniqueid", none)]
    str := { base := [.lit "New thread ", .fld "tid", .lit " of parent: ", .fld "pid"], appends := [] } }

/-- `TraceDataExec(ktraces, pid, fsid, fileid)`: `return f'New process pid: {self.pid}'` -/
def clsDataExec : ClassDef :=
  { name := "TraceDataExec"
    fields := [("pid", none), ("fsid", none), ("fileid", none)]
    str := { base := [.lit "New process pid: ", .fld "pid"], appends := [] } }

/--
```python
@dataclass
class TraceDataThreadTerminate:
    ktraces: List
    tid: int
    pid: int = None
    name: str = ''

    def __str__(self):
        rep = f'Thread terminated tid: {self.tid}'
        if self.pid is not None:
            rep += f', pid: {self.pid}'
        if self.name:
            rep += f', name: {self.name}'
        return rep
```
-/
def clsDataThreadTerminate : ClassDef :=
  { name := "TraceDataThreadTerminate"
    fields := [("tid", none), ("pid", some .none), ("name", some (.str ""))]
    str := { base := [.lit "Thread terminated tid: ", .fld "tid"]
             appends := [(.isNotNone "pid", [.lit ", pid: ", .fld "pid"]),
                         (.truthy "name", [.lit ", name: ", .fld "name"])] } }

/-- `TraceDataThreadTerminatePid(ktraces, pid, uniqueid)`:
    `return f'Thread terminated thread pid: {self.pid}, unique id {self.uniqueid}'` -/
def clsDataThreadTerminatePid : ClassDef :=
  { name := "TraceDataThreadTerminatePid"
    fields := [("pid", none), ("uniqueid", none)]
    str := { base := [.lit "Thread terminated thread pid: ", .fld "pid", .lit ", unique id ", .fld "uniqueid"],
             appends := [] } }

/-- `TraceStringGlobal(ktraces, debugid, str_id, vstr)`:
    `return f'New global string: "{self.vstr}", id: {self.str_id}'` -/
def clsStringGlobal : ClassDef :=
  { name := "TraceStringGlobal"
    fields := [("debugid", none), ("str_id", none), ("vstr", none)]
    str := { base := [.lit "New global string: \"", .fld "vstr", .lit "\", id: ", .fld "str_id"], appends := [] } }

/-- a dataclass `(ktraces, name)` whose `__str__` is `return f'<label>{self.name}'` -/
def clsNamed (cls label : String) : ClassDef :=
  { name := cls, fields := [("name", none)], str := { base := [.lit label, .fld "name"], appends := [] } }

def classes : List ClassDef :=
  [clsDataNewthread, clsDataExec, clsDataThreadTerminate, clsDataThreadTerminatePid, clsStringGlobal,
   clsNamed "TraceStringNewthread" "New thread of parent: ",
   clsNamed "TraceStringExec" "New process name: ",
   clsNamed "TraceStringProcExit" "Process exit name: ",
   clsNamed "TraceStringThreadname" "New thread name: ",
   clsNamed "TraceStringThreadnamePrev" "Thread terminated name: "]

/-! ### the handlers -/

/--
```python
def handle_trace_data_newthread(parser, events):
    result = events[0].values                                                    # inlined
    event = TraceDataNewthread(events, result[0], result[1], result[2], result[3])   # event = v0
    parser.last_data_newthread[events[0].tid] = event
    parser.threads_pids[event.tid] = event.pid
    return event
```
-/
def dataNewthread : Stmt :=
  seq (construct 0 "TraceDataNewthread" events [word 0, word 1, word 2, word 3])
    (seq (store .lastDataNewthread firstTid (var 0))
      (seq (store .threadsPids (attr (var 0) "tid") (attr (var 0) "pid"))
        (ret (var 0))))

/--
```python
def handle_trace_data_exec(parser, events):
    result = events[0].values                                                    # inlined
    event = TraceDataExec(events, result[0], result[1], result[2])               # event = v0
    parser.last_data_exec[events[0].tid] = event
    return event
```
-/
def dataExec : Stmt :=
  seq (construct 0 "TraceDataExec" events [word 0, word 1, word 2])
    (seq (store .lastDataExec firstTid (var 0))
      (ret (var 0)))

/--
```python
def handle_trace_data_thread_terminate(parser, events):
    tid = events[0].values[0]                                                    # inlined
    event = TraceDataThreadTerminate(events, tid, parser.threads_pids.get(tid))  # event = v0
    event.name = parser.tids_names.get(tid, '')
    return event
```
-/
def dataThreadTerminate : Stmt :=
  seq (construct 0 "TraceDataThreadTerminate" events [word 0, tget .threadsPids (word 0)])
    (seq (setField 0 "name" (tgetD .tidsNames (word 0) (str "")))
      (ret (var 0)))

/--
```python
def handle_trace_data_thread_terminate_pid(parser, events):
    result = events[0].values                                                    # inlined
    event = TraceDataThreadTerminatePid(events, result[0], result[1])            # event = v0
    parser.threads_pids[events[0].tid] = event.pid
    return event
```
-/
def dataThreadTerminatePid : Stmt :=
  seq (construct 0 "TraceDataThreadTerminatePid" events [word 0, word 1])
    (seq (store .threadsPids firstTid (attr (var 0) "pid"))
      (ret (var 0)))

/-- `if not events[0].func_qualifier & DgbFuncQual.DBG_FUNC_START.value: return None` -/
def startGuard : Stmt := ite firstStart skip (ret none)

/--
```python
    for event in events:                                                         # event = v4
        if event.eventid != events[0].eventid:
            continue
        lookup_events.append(event)
        if event.func_qualifier & DgbFuncQual.DBG_FUNC_START.value:
            debugid = event.values[0]
            str_id = event.values[1]
            vstr += event.data[16:]
        else:
            vstr += event.data

        if event.func_qualifier & DgbFuncQual.DBG_FUNC_END.value:
            break
```
-/
def globalBody : Stmt :=
  seq (ite (ne (attr (var 4) "eventid") (attr first "eventid")) cont skip)
    (seq (append 3 (var 4))
      (seq (ite (band (attr (var 4) "func_qualifier") (int 1))
              (seq (assign 0 (index (attr (var 4) "values") 0))
                (seq (assign 1 (index (attr (var 4) "values") 1))
                  (assign 2 (cat (var 2) (dropFrom (attr (var 4) "data") 16)))))
              (assign 2 (cat (var 2) (attr (var 4) "data"))))
        (ite (band (attr (var 4) "func_qualifier") (int 2)) brk skip)))

/--
```python
    event = TraceStringGlobal(lookup_events, debugid, str_id,
                              vstr.replace(b'\x00', b'').decode(errors='backslashreplace'))
    if event.vstr:
        parser.global_strings[event.str_id] = event.vstr
    return event
```
-/
def globalTail : Stmt :=
  seq (construct 4 "TraceStringGlobal" (var 3) [var 0, var 1, decodeBsr (replaceNul (var 2))])
    (seq (ite (attr (var 4) "vstr") (store .globalStrings (attr (var 4) "str_id") (attr (var 4) "vstr")) skip)
      (ret (var 4)))

/--
```python
def handle_trace_string_global(parser, events):
    if not events[0].func_qualifier & DgbFuncQual.DBG_FUNC_START.value:
        return None
    debugid = 0                                                                  # v0
    str_id = 0                                                                   # v1
    vstr = b''                                                                   # v2
    lookup_events = []                                                           # v3
    for event in events: …                                                       # globalBody
    …                                                                            # globalTail
```
-/
def stringGlobal : Stmt :=
  seq startGuard
    (seq (assign 0 (int 0))
      (seq (assign 1 (int 0))
        (seq (assign 2 (bytes []))
          (seq (newList 3)
            (seq (forEvents 4 globalBody) globalTail)))))

/--
```python
def handle_trace_string_newthread(parser, events):                               # (exec: TraceStringExec, last_data_exec)
    event = TraceStringNewthread(events, events[0].data.replace(b'\x00', b'').decode())     # event = v0
    data_event = parser.last_data_newthread.get(events[0].tid)                   # data_event = v1
    if data_event is not None:
        parser.pids_names[data_event.pid] = event.name
    return event
```
-/
def stringPending (cls : String) (tab : Table) : Stmt :=
  seq (construct 0 cls events [firstText])
    (seq (assign 1 (tget tab firstTid))
      (seq (ite (isNotNone (var 1)) (store .pidsNames (attr (var 1) "pid") (attr (var 0) "name")) skip)
        (ret (var 0))))

/--
```python
def handle_trace_string_proc_exit(parser, events):
    return TraceStringProcExit(events, events[0].data.replace(b'\x00', b'').decode())       # temporary v0
```
-/
def stringProcExit : Stmt :=
  seq (construct 0 "TraceStringProcExit" events [firstText]) (ret (var 0))

/--
```python
def handle_trace_string_threadname(parser, events):                              # (…_prev: TraceStringThreadnamePrev)
    if not events[0].func_qualifier & DgbFuncQual.DBG_FUNC_START.value:
        return None
    name = b''.join([e.data for e in events if e.eventid == events[0].eventid]).replace(b'\x00', b'').decode()   # v0
    event = TraceStringThreadname(events, name)                                  # event = v1
    parser.tids_names[events[0].tid] = event.name
    return event
```
-/
def stringThreadname (cls : String) : Stmt :=
  seq startGuard
    (seq (assign 0 (decode (replaceNul (joinData (attr first "eventid")))))
      (seq (construct 1 cls events [var 0])
        (seq (store .tidsNames firstTid (attr (var 1) "name"))
          (ret (var 1)))))

def funs : List FunDef :=
  [⟨"handle_trace_data_newthread", dataNewthread⟩,
   ⟨"handle_trace_data_exec", dataExec⟩,
   ⟨"handle_trace_data_thread_terminate", dataThreadTerminate⟩,
   ⟨"handle_trace_data_thread_terminate_pid", dataThreadTerminatePid⟩,
   ⟨"handle_trace_string_global", stringGlobal⟩,
   ⟨"handle_trace_string_newthread", stringPending "TraceStringNewthread" .lastDataNewthread⟩,
   ⟨"handle_trace_string_exec", stringPending "TraceStringExec" .lastDataExec⟩,
   ⟨"handle_trace_string_proc_exit", stringProcExit⟩,
   ⟨"handle_trace_string_threadname", stringThreadname "TraceStringThreadname"⟩,
   ⟨"handle_trace_string_threadname_prev", stringThreadname "TraceStringThreadnamePrev"⟩]

/--
```python
handlers = {
    'TRACE_DATA_NEWTHREAD': handle_trace_data_newthread,
    …
    'TRACE_STRING_THREADNAME_PREV': handle_trace_string_threadname_prev,
}
```
-/
def handlers : List (String × String) :=
  [("TRACE_DATA_NEWTHREAD", "handle_trace_data_newthread"),
   ("TRACE_DATA_EXEC", "handle_trace_data_exec"),
   ("TRACE_DATA_THREAD_TERMINATE", "handle_trace_data_thread_terminate"),
   ("TRACE_DATA_THREAD_TERMINATE_PID", "handle_trace_data_thread_terminate_pid"),
   ("TRACE_STRING_GLOBAL", "handle_trace_string_global"),
   ("TRACE_STRING_NEWTHREAD", "handle_trace_string_newthread"),
   ("TRACE_STRING_EXEC", "handle_trace_string_exec"),
   ("TRACE_STRING_PROC_EXIT", "handle_trace_string_proc_exit"),
   ("TRACE_STRING_THREADNAME", "handle_trace_string_threadname"),
   ("TRACE_STRING_THREADNAME_PREV", "handle_trace_string_threadname_prev")]

def prog : Program := { classes := classes, funs := funs, handlers := handlers }

end KdVerif.PyIRTr.Expected
