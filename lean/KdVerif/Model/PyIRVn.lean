import KdVerif.Model.Trace
/-
  The Python subset of the PATH REASSEMBLY code of `pykdebugparser/traces_parser.py` — the static generator
  `TracesParser.vnode_generator(events)`, `parse_vnodes(self, events)` and `parse_vnode(self, events)` — as a deep
  embedding with a big-step interpreter: the companion of `Model/PyIR` (C04) and `Model/PyIRCs` (C15) for C08.
  `tools/gen_pyir_vn.py` translates the source text of the three methods into terms of this IR
  (`Gen/PyIRVn.lean`, on every run); `Props/C08` proves that the translated code, run by this interpreter, is
  `Trace.vnodeGen` / `Trace.parseVnodes` / `Trace.parseVnode`.

  Values: `None`, bools, non-negative ints, `bytes`, `str`, a record (`Kevent`), its `values` tuple, a list of
  records, a `Vnode(ktraces, vnode_id, path)`, a list of vnodes, and a GENERATOR OBJECT.  A generator is
  interpreted big-step: its output is the pair (values yielded, exception that ended it, if any); the body runs when
  the object is made instead of when it is consumed, which nothing can observe because the subset has no effect
  besides yielding.  `bytes.decode()` is the parameter `dec` (exactly as in `Model/Trace`), `self.trace_codes` the
  parameter `codes`.

  Lists are the only mutable objects of the subset (`l.append(x)`).  The interpreter has value semantics, so it must
  never let an `append` be seen through a second reference: every local carries an OWNED flag — set when the local
  is bound to a fresh list (`[]`, a comprehension, `list(…)`), cleared for every variable an evaluated expression
  mentions (the list may have been captured: `Vnode(lookup_events, …)`, an alias, an argument) — and `l.append(x)`
  on a local that is not owned answers `.unmodelled`.  (Forgetting `lookup_events = []` after the `yield` therefore
  leaves the modelled subset instead of being mis-interpreted: in Python all vnodes would share one list.)
  Method calls `self.m(arg)` go through `Ctx.call`; `callAt` unrolls them by call depth (the chain
  `parse_vnode → parse_vnodes → vnode_generator` has depth 3; deeper: `.unmodelled`).
  Whatever is outside the modelled behaviour answers `.error .unmodelled` — never a guessed exception.
  Core Lean only.
-/
namespace KdVerif

deriving instance DecidableEq for KdVerif.Trace.Vnode

namespace PyIRVn
open KdVerif.Trace (Vnode)

/-- attributes of a record (`Kevent` namedtuple) the three methods read -/
inductive Field
  | funcQualifier | values | data | eventid
  deriving DecidableEq, Repr

inductive Meth
  | vnodeGenerator | parseVnodes | parseVnode
  deriving DecidableEq, Repr

inductive Expr
  | none
  | bool (b : Bool)
  | int (n : Nat)                        -- a literal, or a reflected `DgbFuncQual.X.value`
  | bytes (b : Bytes)                    -- `b'…'`
  | str (s : String)                     -- `'…'`
  | emptyList                            -- `[]`
  | var (i : Nat)
  | field (f : Field) (e : Expr)         -- `e.func_qualifier` / `e.values` / `e.data` / `e.eventid`
  | band (a b : Expr)                    -- `a & b`
  | add (a b : Expr)                     -- `a + b` (`path += x` is `path = path + x`: bytes are immutable)
  | eq (a b : Expr)                      -- `a == b`
  | index (l i : Expr)                   -- `l[i]`
  | sliceFrom (e : Expr) (k : Nat)       -- `e[k:]`
  | replace (e : Expr) (old new : Bytes) -- `e.replace(b'old', b'new')`
  | decode (e : Expr)                    -- `e.decode()`
  | mkVnode (a b c : Expr)               -- `Vnode(a, b, c)`
  | codeGet (k : Expr)                   -- `self.trace_codes.get(k)`
  | listComp (v : Nat) (it cond : Expr)  -- `[v for v in it if cond]`
  | call (m : Meth) (arg : Expr)         -- `self.m(arg)`
  | list (e : Expr)                      -- `list(e)`
  | unsupported (src : String)
  deriving DecidableEq, Repr

/-- Continuation form, as in `Model/PyIR`: the statements after an `if` are pushed into its branches; `for` and
    `try` keep the rest of their block as `next`. -/
inductive Stmt
  | done
  | ret (e : Expr)
  | ite (c : Expr) (t e : Stmt)                        -- `if c: t else: e` (Python truthiness of `c`)
  | assign (v : Nat) (e : Expr) (next : Stmt)          -- `v = e`
  | append (v : Nat) (x : Expr) (next : Stmt)          -- `v.append(x)`, `v` a local list
  | forIn (v : Nat) (it : Expr) (body next : Stmt)     -- `for v in it: body`
  | yield (e : Expr) (next : Stmt)                     -- `yield e`
  | tryExcept (body : Stmt) (exc : PyErr) (handler next : Stmt)   -- `try: body except exc: handler`
  | unsupported (src : String)
  deriving DecidableEq, Repr

structure FnDef where
  params : Nat
  /-- a `yield` occurs in the body: calling it makes a generator object -/
  isGen : Bool
  body : Stmt
  deriving DecidableEq, Repr

structure Prog where
  vnodeGenerator : FnDef
  parseVnodes : FnDef
  parseVnode : FnDef
  deriving DecidableEq, Repr

def Prog.get (p : Prog) : Meth → FnDef
  | .vnodeGenerator => p.vnodeGenerator
  | .parseVnodes => p.parseVnodes
  | .parseVnode => p.parseVnode

inductive Val
  | none
  | bool (b : Bool)
  | int (n : Nat)
  | bytes (b : Bytes)
  | str (s : String)
  | event (e : Kevent)
  | ints (l : List Nat)                  -- the tuple `event.values`
  | events (l : List Kevent)             -- a list of records (`[]` is one: the only use of the literal in the subset)
  | vnode (v : Vnode)
  | vnodes (l : List Vnode)
  | gen (ys : List Vnode) (err : Option PyErr)   -- a generator object: what it yields, the exception that ends it
  deriving DecidableEq, Repr

abbrev Vals := Nat → Option Val
def Vals.set (vals : Vals) (i : Nat) (v : Val) : Vals := fun j => if j = i then some v else vals j

/-- The locals: their values and, per local, whether it holds a fresh list nothing else refers to. -/
structure Env where
  vals : Vals
  owned : Nat → Bool

def Env.ofArgs (args : List Val) : Env := { vals := fun j => args[j]?, owned := fun _ => false }
/-- `v = x` -/
def Env.bind (env : Env) (v : Nat) (x : Val) (fresh : Bool) : Env :=
  { vals := env.vals.set v x, owned := fun j => if j = v then fresh else env.owned j }
/-- the expression just evaluated mentions `vs`: whatever lists they hold may have a second reference now -/
def Env.unown (env : Env) (vs : List Nat) : Env :=
  { env with owned := fun j => env.owned j && !vs.contains j }
/-- the list held by `v` changed in place -/
def Env.setVal (env : Env) (v : Nat) (x : Val) : Env := { env with vals := env.vals.set v x }

def Expr.vars : Expr → List Nat
  | .var i => [i]
  | .field _ e | .sliceFrom e _ | .replace e _ _ | .decode e | .codeGet e | .call _ e | .list e => e.vars
  | .band a b | .add a b | .eq a b | .index a b => a.vars ++ b.vars
  | .mkVnode a b c => a.vars ++ b.vars ++ c.vars
  | .listComp _ it c => it.vars ++ c.vars
  | _ => []

/-- the expression makes a new list object -/
def Expr.isFresh : Expr → Bool
  | .emptyList | .listComp _ _ _ | .list _ => true
  | _ => false

/-- Python truthiness -/
def truthy : Val → Bool
  | .none => false
  | .bool b => b
  | .int n => decide (n ≠ 0)
  | .bytes b => !b.isEmpty
  | .str s => decide (s ≠ "")
  | .ints l => !l.isEmpty
  | .events l => !l.isEmpty
  | .vnodes l => !l.isEmpty
  | .event _ | .vnode _ | .gen _ _ => true

/-- `b.replace(old, new)` for a ONE-byte `old`: every occurrence replaced.  (Longer patterns: not modelled.) -/
def replace1 (b : Bytes) (o : Nat) (new : Bytes) : Bytes := b.flatMap fun x => if x = o then new else [x]

structure Ctx where
  dec : Bytes → Except PyErr String              -- `bytes.decode()`
  codes : Nat → Option String                    -- `self.trace_codes`
  call : Meth → Val → Except PyErr Val           -- `self.m(arg)`

/-- `[v for v in l if cond]` over a list of records (the comprehension's variable is its own). -/
def compLoop (cond : Vals → Except PyErr Val) (v : Nat) (vals : Vals) : List Kevent → Except PyErr (List Kevent)
  | [] => .ok []
  | x :: xs =>
    match cond (vals.set v (.event x)) with
    | .error e => .error e
    | .ok c =>
      match compLoop cond v vals xs with
      | .error e => .error e
      | .ok r => .ok (if truthy c then x :: r else r)

def eval (cx : Ctx) (vals : Vals) : Expr → Except PyErr Val
  | .none => .ok .none
  | .bool b => .ok (.bool b)
  | .int n => .ok (.int n)
  | .bytes b => .ok (.bytes b)
  | .str s => .ok (.str s)
  | .emptyList => .ok (.events [])
  | .var i => match vals i with | some v => .ok v | Option.none => .error .unmodelled
  | .field f e =>
    match eval cx vals e with
    | .ok (.event x) =>
      .ok (match f with
           | .funcQualifier => .int x.qual | .values => .ints x.values | .data => .bytes x.data
           | .eventid => .int x.eventid)
    | .ok _ => .error .unmodelled
    | .error err => .error err
  | .band a b =>
    match eval cx vals a with
    | .error e => .error e
    | .ok av =>
      match eval cx vals b with
      | .error e => .error e
      | .ok bv => match av, bv with | .int x, .int y => .ok (.int (x &&& y)) | _, _ => .error .unmodelled
  | .add a b =>
    match eval cx vals a with
    | .error e => .error e
    | .ok av =>
      match eval cx vals b with
      | .error e => .error e
      | .ok bv =>
        match av, bv with
        | .bytes x, .bytes y => .ok (.bytes (x ++ y))
        | .int x, .int y => .ok (.int (x + y))
        | _, _ => .error .unmodelled
  | .eq a b =>
    match eval cx vals a with
    | .error e => .error e
    | .ok av =>
      match eval cx vals b with
      | .error e => .error e
      | .ok bv =>
        match av, bv with
        | .str x, .str y => .ok (.bool (decide (x = y)))
        | .int x, .int y => .ok (.bool (decide (x = y)))
        | .none, .none => .ok (.bool true)
        | .none, .str _ | .str _, .none | .none, .int _ | .int _, .none | .str _, .int _ | .int _, .str _ =>
          .ok (.bool false)
        | _, _ => .error .unmodelled
  | .index l i =>
    match eval cx vals l with
    | .error e => .error e
    | .ok lv =>
      match eval cx vals i with
      | .error e => .error e
      | .ok iv =>
        match lv, iv with
        | .ints xs, .int k => (match xs[k]? with | some x => .ok (.int x) | Option.none => .error .indexError)
        | .events xs, .int k => (match xs[k]? with | some x => .ok (.event x) | Option.none => .error .indexError)
        | .vnodes xs, .int k => (match xs[k]? with | some x => .ok (.vnode x) | Option.none => .error .indexError)
        | .bytes xs, .int k => (match xs[k]? with | some x => .ok (.int x) | Option.none => .error .indexError)
        | _, _ => .error .unmodelled
  | .sliceFrom e k =>
    match eval cx vals e with
    | .ok (.bytes b) => .ok (.bytes (b.drop k))
    | .ok _ => .error .unmodelled
    | .error err => .error err
  | .replace e old new =>
    match eval cx vals e with
    | .ok (.bytes b) => (match old with | [o] => .ok (.bytes (replace1 b o new)) | _ => .error .unmodelled)
    | .ok _ => .error .unmodelled
    | .error err => .error err
  | .decode e =>
    match eval cx vals e with
    | .ok (.bytes b) => (match cx.dec b with | .ok s => .ok (.str s) | .error err => .error err)
    | .ok _ => .error .unmodelled
    | .error err => .error err
  | .mkVnode a b c =>
    match eval cx vals a with
    | .error e => .error e
    | .ok av =>
      match eval cx vals b with
      | .error e => .error e
      | .ok bv =>
        match eval cx vals c with
        | .error e => .error e
        | .ok cv =>
          match av, bv, cv with
          | .events l, .int n, .str s => .ok (.vnode ⟨l, n, s⟩)
          | _, _, _ => .error .unmodelled
  | .codeGet k =>
    match eval cx vals k with
    | .ok (.int n) => .ok (match cx.codes n with | some s => .str s | Option.none => .none)
    | .ok _ => .error .unmodelled
    | .error err => .error err
  | .listComp v it cond =>
    match eval cx vals it with
    | .ok (.events l) =>
      (match compLoop (fun vals' => eval cx vals' cond) v vals l with
       | .ok r => .ok (.events r)
       | .error err => .error err)
    | .ok _ => .error .unmodelled
    | .error err => .error err
  | .call m arg =>
    match eval cx vals arg with
    | .ok v => cx.call m v
    | .error err => .error err
  | .list e =>
    match eval cx vals e with
    | .ok (.gen ys Option.none) => .ok (.vnodes ys)
    | .ok (.gen _ (some err)) => .error err
    | .ok (.events l) => .ok (.events l)
    | .ok (.vnodes l) => .ok (.vnodes l)
    | .ok _ => .error .unmodelled
    | .error err => .error err
  | .unsupported _ => .error .unmodelled

inductive Outcome
  | normal
  | ret (v : Val)
  deriving DecidableEq, Repr

/-- What running a statement gives: the vnodes yielded on the way, the locals afterwards (also when an exception ended
    it: a handler sees them), and how it ended. -/
structure Res where
  ys : List Vnode
  env : Env
  out : Except PyErr Outcome

/-- `r` happened after `ys` had been yielded. -/
def Res.after (ys : List Vnode) (r : Res) : Res := { r with ys := ys ++ r.ys }

/-- `for v in <list of records>: body` -/
def forLoop (body : Env → Res) (v : Nat) : List Kevent → Env → Res
  | [], env => ⟨[], env, .ok .normal⟩
  | x :: xs, env =>
    let r := body (env.bind v (.event x) false)
    match r.out with
    | .ok .normal => (forLoop body v xs r.env).after r.ys
    | _ => r

def exec (cx : Ctx) : Stmt → Env → Res
  | .done, env => ⟨[], env, .ok .normal⟩
  | .ret e, env =>
    match eval cx env.vals e with
    | .ok v => ⟨[], env, .ok (.ret v)⟩
    | .error x => ⟨[], env, .error x⟩
  | .ite c t e, env =>
    match eval cx env.vals c with
    | .ok v => if truthy v then exec cx t (env.unown c.vars) else exec cx e (env.unown c.vars)
    | .error x => ⟨[], env, .error x⟩
  | .assign v e next, env =>
    match eval cx env.vals e with
    | .ok x => exec cx next ((env.unown e.vars).bind v x e.isFresh)
    | .error x => ⟨[], env, .error x⟩
  | .append v x next, env =>
    match eval cx env.vals x with
    | .ok (.event k) =>
      (match env.vals v, env.owned v with
       | some (.events l), true => exec cx next ((env.unown x.vars).setVal v (.events (l ++ [k])))
       | _, _ => ⟨[], env, .error .unmodelled⟩)
    | .ok _ => ⟨[], env, .error .unmodelled⟩
    | .error e => ⟨[], env, .error e⟩
  | .forIn v it body next, env =>
    match eval cx env.vals it with
    | .ok (.events l) =>
      let r := forLoop (fun env' => exec cx body env') v l (env.unown it.vars)
      (match r.out with
       | .ok .normal => (exec cx next r.env).after r.ys
       | _ => r)
    | .ok _ => ⟨[], env, .error .unmodelled⟩
    | .error x => ⟨[], env, .error x⟩
  | .yield e next, env =>
    match eval cx env.vals e with
    | .ok (.vnode n) => (exec cx next (env.unown e.vars)).after [n]
    | .ok _ => ⟨[], env, .error .unmodelled⟩
    | .error x => ⟨[], env, .error x⟩
  | .tryExcept body exc handler next, env =>
    let r := exec cx body env
    match r.out with
    | .ok .normal => (exec cx next r.env).after r.ys
    | .ok (.ret _) => r
    | .error x =>
      if x = exc then
        let h := exec cx handler r.env
        (match h.out with
         | .ok .normal => ((exec cx next h.env).after h.ys).after r.ys
         | _ => h.after r.ys)
      else r
  | .unsupported _, env => ⟨[], env, .error .unmodelled⟩

/-- Calling a function of one positional parameter.  A generator function gives a generator object (big-step: its
    yields and the exception that ends it); any other function its return value (falling off the end: `None`). -/
def runFn (cx : Ctx) (f : FnDef) (arg : Val) : Except PyErr Val :=
  if f.params ≠ 1 then .error .unmodelled
  else
    let r := exec cx f.body (Env.ofArgs [arg])
    if f.isGen then
      match r.out with
      | .ok _ => .ok (.gen r.ys Option.none)
      | .error x => .ok (.gen r.ys (some x))
    else if !r.ys.isEmpty then .error .unmodelled
    else
      match r.out with
      | .ok (.ret v) => .ok v
      | .ok .normal => .ok .none
      | .error x => .error x

/-- `self.m(arg)` with `depth` levels of nested method calls still allowed. -/
def callAt (dec : Bytes → Except PyErr String) (codes : Nat → Option String) (p : Prog) :
    Nat → Meth → Val → Except PyErr Val
  | 0, _, _ => .error .unmodelled
  | depth + 1, m, arg => runFn { dec := dec, codes := codes, call := callAt dec codes p depth } (p.get m) arg

/-- `TracesParser.vnode_generator(events)` consumed to its end: the vnodes yielded, and the exception that ended it. -/
def runGenerator (p : Prog) (dec : Bytes → Except PyErr String) (codes : Nat → Option String)
    (events : List Kevent) : List Vnode × Option PyErr :=
  match callAt dec codes p 1 .vnodeGenerator (.events events) with
  | .ok (.gen ys err) => (ys, err)
  | .ok _ => ([], some .unmodelled)
  | .error x => ([], some x)

/-- `list(g)` of a generator's output: an exception propagates (the vnodes yielded before it are lost). -/
def collect (g : List Vnode × Option PyErr) : Except PyErr (List Vnode) :=
  match g.2 with
  | Option.none => .ok g.1
  | some x => .error x

/-- `parser.parse_vnodes(events)` -/
def runParseVnodes (p : Prog) (dec : Bytes → Except PyErr String) (codes : Nat → Option String)
    (events : List Kevent) : Except PyErr (List Vnode) :=
  match callAt dec codes p 2 .parseVnodes (.events events) with
  | .ok (.vnodes l) => .ok l
  | .ok _ => .error .unmodelled
  | .error x => .error x

/-- `parser.parse_vnode(events)` -/
def runParseVnode (p : Prog) (dec : Bytes → Except PyErr String) (codes : Nat → Option String)
    (events : List Kevent) : Except PyErr Vnode :=
  match callAt dec codes p 3 .parseVnode (.events events) with
  | .ok (.vnode v) => .ok v
  | .ok _ => .error .unmodelled
  | .error x => .error x

def Expr.hasUnsupported : Expr → Bool
  | .unsupported _ => true
  | .field _ e | .sliceFrom e _ | .replace e _ _ | .decode e | .codeGet e | .call _ e | .list e => e.hasUnsupported
  | .band a b | .add a b | .eq a b | .index a b | .listComp _ a b => a.hasUnsupported || b.hasUnsupported
  | .mkVnode a b c => a.hasUnsupported || b.hasUnsupported || c.hasUnsupported
  | _ => false

def Stmt.hasUnsupported : Stmt → Bool
  | .unsupported _ => true
  | .done => false
  | .ret e => e.hasUnsupported
  | .ite c t e => c.hasUnsupported || t.hasUnsupported || e.hasUnsupported
  | .assign _ e n | .append _ e n | .yield e n => e.hasUnsupported || n.hasUnsupported
  | .forIn _ it b n => it.hasUnsupported || b.hasUnsupported || n.hasUnsupported
  | .tryExcept b _ h n => b.hasUnsupported || h.hasUnsupported || n.hasUnsupported

def Prog.hasUnsupported (p : Prog) : Bool :=
  p.vnodeGenerator.body.hasUnsupported || p.parseVnodes.body.hasUnsupported || p.parseVnode.body.hasUnsupported

end PyIRVn
end KdVerif
