#!/bin/sh
# Offline setup after a fresh restore: regenerate the generated Lean tables from /repo and build
# the library (all property modules) and the line-protocol driver.
set -e
cd "$(dirname "$0")/.."
/venv/bin/python tools/translate.py
cd lean
lake build
