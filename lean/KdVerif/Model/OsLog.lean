import KdVerif.Model.Basic
import KdVerif.Model.Bytes
import KdVerif.Model.Enum
/-
  L6: `os_log_event.py` — `OsLogEvent.from_raw_log_event`, `parse_decomposed`,
  `parse_decomposed_segment`, `parse_trace_identifier`.

  The decoder is a table interpreter: the ordered chain of `(key, field, transform, required)`
  entries, the dataclass field list with defaults, the enum classes, the two namespace
  dictionaries and the construct layout of the trace-identifier word are *parameters*
  (`Tables`), instantiated by `Gen/OsLog.lean`, which `tools/translate.py` regenerates from
  the source on every run.  What is written by hand here is the control logic.

  Plist values are `PVal`; where Python raises, the model returns the `PyErr` kind.
  Core Lean only (the driver links this file).
-/
namespace KdVerif.OsLog

/-- A plist value (`int`, `str`, `bytes`, `bool`, `dict` with string keys, `list`) plus the
    constructors that occur only in decoded records (`None`, enum members, flag values,
    aware UTC datetimes as an exact `(seconds, microseconds)` pair, dataclass instances). -/
inductive PVal where
  | int (n : Int)
  | str (s : String)
  | bytes (b : Bytes)
  | bool (b : Bool)
  | dict (kv : List (String × PVal))
  | list (xs : List PVal)
  | none
  | enum (cls name : String)
  | flag (cls : String) (value : Nat)
  | datetime (sec : Int) (usec : Nat)
  | obj (cls : String) (fields : List (String × PVal))
  deriving Repr, Inhabited

abbrev Dict := List (String × PVal)
/-- `log_strings`: `{index: text}` (the inverted `StringIndex` of the file). -/
abbrev Strings := List (Int × String)

/-- `except`-style sequencing written out (keeps proofs by `simp` free of monad plumbing). -/
@[inline] def andThen (x : Except PyErr α) (f : α → Except PyErr β) : Except PyErr β :=
  match x with
  | .error e => .error e
  | .ok a => f a

infixl:55 " >>=? " => andThen

instance {α : Type} [DecidableEq α] : DecidableEq (Except PyErr α)
  | .ok a, .ok b => if h : a = b then isTrue (by rw [h]) else isFalse (fun h' => h (Except.ok.inj h'))
  | .error a, .error b => if h : a = b then isTrue (by rw [h]) else isFalse (fun h' => h (Except.error.inj h'))
  | .ok _, .error _ => isFalse (fun h => by cases h)
  | .error _, .ok _ => isFalse (fun h => by cases h)

def mapE (f : α → Except PyErr β) : List α → Except PyErr (List β)
  | [] => .ok []
  | a :: as =>
    match f a with
    | .error e => .error e
    | .ok b =>
      match mapE f as with
      | .error e => .error e
      | .ok bs => .ok (b :: bs)

/-! ### Python object protocol on plist values -/

/-- `bool(v)`. -/
def truthy : PVal → Bool
  | .int n => n != 0
  | .str s => s != ""
  | .bytes b => !b.isEmpty
  | .bool b => b
  | .dict kv => !kv.isEmpty
  | .list xs => !xs.isEmpty
  | .none => false
  | _ => true

/-- The value as a Python number (`bool` is an `int`). -/
def numOf : PVal → Option Int
  | .int n => some n
  | .bool b => some (if b then 1 else 0)
  | _ => Option.none

/-- `v == n` for an integer literal `n` (`True == 1`). -/
def pyEqInt (v : PVal) (n : Int) : Bool :=
  match numOf v with
  | some m => m == n
  | Option.none => false

/-- `v[key]` for a string key. -/
def subscr (v : PVal) (key : String) : Except PyErr PVal :=
  match v with
  | .dict kv =>
    match kv.lookup key with
    | some x => .ok x
    | Option.none => .error .keyError
  | _ => .error .typeError

def infixOf (p : List Char) : List Char → Bool
  | [] => p.isEmpty
  | c :: cs => p.isPrefixOf (c :: cs) || infixOf p cs

/-- `key in v` for a string key: dict membership, list element equality, substring test;
    `bytes` and numbers raise `TypeError`. -/
def contains (key : String) (v : PVal) : Except PyErr Bool :=
  match v with
  | .dict kv => .ok (kv.lookup key).isSome
  | .list xs => .ok (xs.any fun x => match x with | .str s => s == key | _ => false)
  | .str s => .ok (infixOf key.toList s.toList)
  | _ => .error .typeError

/-- `iter(v)`. -/
def iter (v : PVal) : Except PyErr (List PVal) :=
  match v with
  | .list xs => .ok xs
  | .dict kv => .ok (kv.map fun p => .str p.1)
  | .str s => .ok (s.toList.map fun c => .str (String.singleton c))
  | .bytes b => .ok (b.map fun x => .int (Int.ofNat x))
  | _ => .error .typeError

/-- `log_strings[v]`: unhashable keys raise `TypeError`, `True`/`False` hash as 1/0. -/
def strIndex (S : Strings) (v : PVal) : Except PyErr PVal :=
  match v with
  | .dict _ | .list _ => .error .typeError
  | _ =>
    match numOf v with
    | Option.none => .error .keyError
    | some n =>
      match S.lookup n with
      | some s => .ok (.str s)
      | Option.none => .error .keyError

/-- `if key in v: f(v[key])` else the default. -/
def optKey (v : PVal) (key : String) (f : PVal → Except PyErr α) (dflt : α) : Except PyErr α :=
  contains key v >>=? fun c =>
    if c then subscr v key >>=? f else .ok dflt

/-! ### Enum classes -/

/-- How the class reacts to a value that is not a member: plain `Enum` raises, `IntFlag`
    (boundary KEEP) keeps any integer, `Flag` (boundary STRICT) accepts only defined bits. -/
inductive EnumKind | plain | keepFlag | strictFlag
  deriving DecidableEq, Repr, Inhabited

structure EnumRef where
  cls : EnumDef
  kind : EnumKind
  deriving Repr, Inhabited

/-- A decoded enum-ish value. -/
inductive EnumVal
  | member (cls name : String) (value : Int)
  | flags (cls : String) (value : Nat)
  | raw (n : Nat)
  | none
  deriving DecidableEq, Repr, Inhabited

/-- The integer behind a decoded value (`none` for `None`). -/
def EnumVal.num : EnumVal → Option Nat
  | .member _ _ v => some v.toNat
  | .flags _ v => some v
  | .raw n => some n
  | .none => Option.none

def definedBits (e : EnumDef) : Nat :=
  e.members.foldl (fun acc m => acc ||| m.value.toNat) 0

/-- `Cls(x)` for a natural `x`. -/
def enumCall (r : EnumRef) (x : Nat) : Except PyErr EnumVal :=
  match r.kind with
  | .plain =>
    match r.cls.ofValue x with
    | some m => .ok (.member r.cls.name m.name m.value)
    | Option.none => .error .valueError
  | .keepFlag => .ok (.flags r.cls.name x)
  | .strictFlag =>
    if x &&& definedBits r.cls = x then .ok (.flags r.cls.name x) else .error .valueError

def EnumVal.toPVal : EnumVal → PVal
  | .member c n _ => .enum c n
  | .flags c v => .flag c v
  | .raw n => .int n
  | .none => PVal.none

/-! ### construct layouts (the subset the trace identifier uses) -/

inductive BitField
  | pad (n : Nat)
  | flag (name : String)
  | uint (name : String) (n : Nat)
  | unsupported (src : String)
  deriving DecidableEq, Repr, Inhabited

inductive LField
  | uint (name : String) (size : Nat) (littleEndian : Bool)
  | bits (name : String) (fields : List BitField)
  | unsupported (src : String)
  deriving DecidableEq, Repr, Inhabited

/-- `n` bits of `v`, most significant first (construct's `bytes2bits`). -/
def bitsMSB : Nat → Nat → List Nat
  | 0, _ => []
  | n + 1, v => (v / 2 ^ n % 2) :: bitsMSB n v

def bitsVal (bs : List Nat) : Nat := bs.foldl (fun a b => 2 * a + b) 0

def BitField.width : BitField → Nat
  | .pad n => n | .flag _ => 1 | .uint _ n => n | .unsupported _ => 0

def bitWidth (fs : List BitField) : Nat := (fs.map BitField.width).sum

/-- The bit fields of a `BitStruct` (names already qualified, e.g. `trace_flags.pc_style`). -/
def parseBits : List BitField → List Nat → Except PyErr (List (String × Nat))
  | [], _ => .ok []
  | .pad n :: fs, bs =>
    if bs.length < n then .error .streamError else parseBits fs (bs.drop n)
  | .flag nm :: fs, bs =>
    match bs with
    | [] => .error .streamError
    | b :: rest => parseBits fs rest >>=? fun r => .ok ((nm, b) :: r)
  | .uint nm n :: fs, bs =>
    if bs.length < n then .error .streamError
    else parseBits fs (bs.drop n) >>=? fun r => .ok ((nm, bitsVal (bs.take n)) :: r)
  | .unsupported _ :: _, _ => .error .streamError

/-- `Struct(...).parse(bytes)`: field values by (dotted) name; trailing bytes are ignored,
    missing bytes raise `StreamError`. -/
def parseLayout : List LField → Bytes → Except PyErr (List (String × Nat))
  | [], _ => .ok []
  | .uint nm sz le :: fs, bs =>
    if bs.length < sz then .error .streamError
    else
      let chunk := bs.take sz
      parseLayout fs (bs.drop sz) >>=? fun r =>
        .ok ((nm, if le then leNat chunk else leNat chunk.reverse) :: r)
  | .bits _ bfs :: fs, bs =>
    let nbytes := bitWidth bfs / 8
    if bs.length < nbytes then .error .streamError
    else
      parseBits bfs ((bs.take nbytes).flatMap (bitsMSB 8)) >>=? fun r =>
        parseLayout fs (bs.drop nbytes) >>=? fun rest => .ok (r ++ rest)
  | .unsupported _ :: _, _ => .error .streamError

/-! ### `parse_trace_identifier` -/

/-- What `parse_trace_identifier` reads from the module: the word size of `Int64ul`, the layout of
    `firehose_tracepoint_id`, the enum classes and the two namespace dictionaries (keyed by the
    namespace member's value). -/
structure IdTables where
  wordSize : Nat
  layout : List LField
  nsEnum : EnumRef
  pcEnum : EnumRef
  types : List (Int × EnumRef)
  flags : List (Int × EnumRef)
  signpost : Option Int
  signpostType : EnumRef
  deriving Repr, Inhabited

structure TraceId where
  ns : EnumVal
  type_ : EnumVal
  hasLargeOffset : Bool
  hasUniquePid : Bool
  pcStyle : EnumVal
  hasCurrentAid : Bool
  flags : EnumVal
  code : Nat
  deriving DecidableEq, Repr, Inhabited

def attr (fs : List (String × Nat)) (name : String) : Except PyErr Nat :=
  match fs.lookup name with
  | some v => .ok v
  | Option.none => .error .attributeError

/-- The decoder proper, on the parsed container. -/
def decodeFields (T : IdTables) (fs : List (String × Nat)) : Except PyErr TraceId :=
  attr fs "namespace" >>=? fun nsv =>
  enumCall T.nsEnum nsv >>=? fun ns =>
  (match T.types.lookup (nsv : Int) with
   | some r => attr fs "type_" >>=? fun t => enumCall r t
   | Option.none =>
     -- `elif trace_namespace == FirehoseTracepointNamespace.signpost` (dead while the
     -- dictionary has an entry for signpost): `Cls(t & 0xc0) | Cls(t & 0x3f)`
     if T.signpost = some (nsv : Int) then
       attr fs "type_" >>=? fun t =>
         enumCall T.signpostType (t &&& 0xc0) >>=? fun _ =>
         enumCall T.signpostType (t &&& 0x3f) >>=? fun _ =>
         .ok (.flags T.signpostType.cls.name ((t &&& 0xc0) ||| (t &&& 0x3f)))
     else attr fs "type_" >>=? fun t => .ok (.raw t)) >>=? fun ty =>
  attr fs "trace_flags.has_large_offset" >>=? fun lo =>
  attr fs "trace_flags.has_unique_pid" >>=? fun up =>
  attr fs "trace_flags.pc_style" >>=? fun pcv =>
  enumCall T.pcEnum pcv >>=? fun pc =>
  attr fs "trace_flags.has_current_aid" >>=? fun aid =>
  (match T.flags.lookup (nsv : Int) with
   | some r => attr fs "flags" >>=? fun f => enumCall r f
   | Option.none => .ok EnumVal.none) >>=? fun fl =>
  attr fs "code" >>=? fun code =>
  .ok { ns := ns, type_ := ty, hasLargeOffset := lo != 0, hasUniquePid := up != 0, pcStyle := pc,
        hasCurrentAid := aid != 0, flags := fl, code := code }

/-- `parse_trace_identifier(w)` for a natural `w`: `Int64ul.build` rejects words that do not fit. -/
def decodeId (T : IdTables) (w : Nat) : Except PyErr TraceId :=
  if w < 256 ^ T.wordSize then
    parseLayout T.layout (toLE T.wordSize w) >>=? decodeFields T
  else .error .streamError

def TraceId.toPVal (t : TraceId) : PVal :=
  .obj "TraceIdentifier"
    [("namespace", t.ns.toPVal), ("type_", t.type_.toPVal), ("has_large_offset", .bool t.hasLargeOffset),
     ("has_unique_pid", .bool t.hasUniquePid), ("pc_style", t.pcStyle.toPVal),
     ("has_current_aid", .bool t.hasCurrentAid), ("flags", t.flags.toPVal), ("code", .int t.code)]

def parseTraceIdentifier (T : IdTables) (v : PVal) : Except PyErr PVal :=
  match numOf v with
  | some n => if n < 0 then .error .streamError else decodeId T n.toNat >>=? fun t => .ok t.toPVal
  | Option.none => .error .streamError

/-! ### `parse_decomposed` / `parse_decomposed_segment` -/

def strField (S : Strings) (name : String) (v : PVal) : Except PyErr Dict :=
  strIndex S v >>=? fun s => .ok [(name, s)]

def plainField (name : String) (v : PVal) : Except PyErr Dict := .ok [(name, v)]

def parseTokens (S : Strings) (t : PVal) : Except PyErr Dict :=
  if truthy t then iter t >>=? fun xs => mapE (strIndex S) xs >>=? fun ys => .ok [("tokens", .list ys)]
  else .ok []

def parsePlaceholder (S : Strings) (p : PVal) : Except PyErr PVal :=
  optKey p "rs" (strField S "raw_string") [] >>=? fun a1 =>
  optKey p "t" (parseTokens S) [] >>=? fun a2 =>
  optKey p "tn" (strField S "type_namespace") [] >>=? fun a3 =>
  optKey p "ty" (strField S "type") [] >>=? fun a4 =>
  subscr p "w" >>=? fun w =>
  subscr p "p" >>=? fun pr =>
  .ok (.dict (a1 ++ a2 ++ a3 ++ a4 ++ [("width", w), ("precision", pr)]))

/-- `parsed_arg.get(name) == n` on the partial result. -/
def getEq (d : Dict) (name : String) (n : Int) : Bool :=
  match d.lookup name with
  | some v => pyEqInt v n
  | Option.none => false

def parseArg (S : Strings) (a : PVal) : Except PyErr PVal :=
  optKey a "a" (plainField "availability") [] >>=? fun b1 =>
  optKey a "p" (plainField "privacy") [] >>=? fun b2 =>
  optKey a "c" (plainField "category") [] >>=? fun b3 =>
  (if getEq b3 "category" 1 then
     optKey a "sc" (plainField "scalar_category") [] >>=? fun c1 =>
     optKey a "st" (plainField "scalar_type") [] >>=? fun c2 => .ok (c1 ++ c2)
   else .ok []) >>=? fun b4 =>
  (if b1.isEmpty || getEq b1 "availability" 3 then
     optKey a "or" (fun v => if getEq b3 "category" 2 then strField S "object_representation" v
                             else plainField "object_representation" v) []
   else .ok []) >>=? fun b5 =>
  .ok (.dict (b1 ++ b2 ++ b3 ++ b4 ++ b5))

def parseSegment (S : Strings) (seg : PVal) : Except PyErr PVal :=
  optKey seg "lp" (strField S "literal_prefix") [] >>=? fun l =>
  optKey seg "p" (fun v => parsePlaceholder S v >>=? fun r => .ok [("placeholder", r)]) [] >>=? fun p =>
  optKey seg "a" (fun v => parseArg S v >>=? fun r => .ok [("arg", r)]) [] >>=? fun a =>
  .ok (.dict (l ++ p ++ a))

def parseDecomposed (S : Strings) (dm : PVal) : Except PyErr PVal :=
  subscr dm "pc" >>=? fun pc =>
  subscr dm "s" >>=? fun st =>
  if truthy pc then
    subscr dm "seg" >>=? fun sg =>
    iter sg >>=? fun segs =>
    mapE (parseSegment S) segs >>=? fun outs =>
    .ok (.dict [("placeholder_count", pc), ("state", st), ("segments", .list outs)])
  else .ok (.dict [("placeholder_count", pc), ("state", st)])

/-! ### value transforms of the key chain -/

/-- The right-hand sides the translator recognises in `from_raw_log_event` (`X` is the popped
    value): `X`, `log_strings[X]`, `EnumClass(X)`, `{out: X[in], …}`, `[{out: l[in], …} for l in X]`,
    `datetime.fromtimestamp(X[s] + (X[u] / 10 ** 6), tz=timezone.utc)`, `cls.parse_decomposed(X,
    log_strings)`, `cls.parse_trace_identifier(X)`; anything else is `unsupported`. -/
inductive Transform
  | plain
  | strIndex
  | enumOf (e : EnumRef)
  | dictShape (pairs : List (String × String))
  | listDictShape (pairs : List (String × String))
  | timestamp (secKey usecKey : String)
  | decomposed
  | traceId
  | unsupported (src : String)
  deriving Repr, Inhabited

def Transform.supported : Transform → Bool
  | .unsupported _ => false
  | _ => true

def dictShape (pairs : List (String × String)) (v : PVal) : Except PyErr PVal :=
  mapE (fun p : String × String => subscr v p.2 >>=? fun x => .ok (p.1, x)) pairs >>=? fun kv => .ok (.dict kv)

/-- Lowest / highest second `datetime` can represent (years 1 … 9999). -/
def minSec : Int := -62135596800
def maxSec : Int := 253402300799

/-- The UTC instant `sec + usec/10^6` **exactly** (Python adds in binary floating point and
    `fromtimestamp` rounds half-even to microseconds; the two agree for `0 ≤ sec < 2^32`,
    `0 ≤ usec < 10^6` — checked by the correspondence, not proved). -/
def timestamp (v : PVal) (ks ku : String) : Except PyErr PVal :=
  subscr v ks >>=? fun s =>
  subscr v ku >>=? fun u =>
  match numOf u, numOf s with
  | some u, some s =>
    let tot := s * 1000000 + u
    let sec := tot / 1000000
    if sec < minSec ∨ maxSec < sec then .error .valueError
    else .ok (.datetime sec (tot % 1000000).toNat)
  | _, _ => .error .typeError

def enumOfVal (e : EnumRef) (v : PVal) : Except PyErr PVal :=
  match numOf v with
  | some n => if n < 0 then
                (match e.cls.ofValue n with
                 | some m => .ok (.enum e.cls.name m.name)
                 | Option.none => .error .valueError)
              else enumCall e n.toNat >>=? fun r => .ok r.toPVal
  | Option.none => .error .valueError

def applyTransform (T : IdTables) (S : Strings) (tr : Transform) (v : PVal) : Except PyErr PVal :=
  match tr with
  | .plain => .ok v
  | .strIndex => strIndex S v
  | .enumOf e => enumOfVal e v
  | .dictShape pairs => dictShape pairs v
  | .listDictShape pairs => iter v >>=? fun xs => mapE (dictShape pairs) xs >>=? fun ys => .ok (.list ys)
  | .timestamp ks ku => timestamp v ks ku
  | .decomposed => parseDecomposed S v
  | .traceId => parseTraceIdentifier T v
  | .unsupported src => .ok (.obj ("unsupported: " ++ src) [])

/-! ### `from_raw_log_event` -/

/-- One assignment of the decoder: `parsed_event[field] = transform(event.pop(key))`, either
    unconditional (`required`) or guarded by `if key in event`. -/
structure Entry where
  key : String
  field : String
  tr : Transform
  required : Bool
  deriving Repr, Inhabited

/-- A dataclass field: name and default (`none` = no default). -/
structure FieldDef where
  name : String
  default : Option PVal
  deriving Repr, Inhabited

structure Tables where
  chain : List Entry
  fields : List FieldDef
  /-- the function ends in `return OsLogEvent(**parsed_event)` -/
  ctorOk : Bool
  id : IdTables
  deriving Repr, Inhabited

/-- `d.pop(k)` leaves the other keys. -/
def derase (d : Dict) (k : String) : Dict := d.filter fun kv => kv.1 != k

/-- State: the (shrinking) raw event and the (growing) `parsed_event`, newest first. -/
def step (T : IdTables) (S : Strings) (e : Entry) (st : Dict × Dict) : Except PyErr (Dict × Dict) :=
  match st.1.lookup e.key with
  | Option.none => if e.required then .error .keyError else .ok st
  | some v =>
    match applyTransform T S e.tr v with
    | .error err => .error err
    | .ok r => .ok (derase st.1 e.key, (e.field, r) :: st.2)

def runChain (T : IdTables) (S : Strings) : List Entry → Dict × Dict → Except PyErr (Dict × Dict)
  | [], st => .ok st
  | e :: es, st =>
    match step T S e st with
    | .error err => .error err
    | .ok st' => runChain T S es st'

def fieldValue (parsed : Dict) (f : FieldDef) : Except PyErr (String × PVal) :=
  match parsed.lookup f.name with
  | some v => .ok (f.name, v)
  | Option.none =>
    match f.default with
    | some d => .ok (f.name, d)
    | Option.none => .error .typeError

/-- `OsLogEvent(**parsed)`: an unexpected keyword or a missing field without default is a
    `TypeError`; the record lists the dataclass fields in declaration order. -/
def construct (fields : List FieldDef) (parsed : Dict) : Except PyErr Dict :=
  if parsed.all fun kv => fields.any fun f => f.name == kv.1 then mapE (fieldValue parsed) fields
  else .error .typeError

def fromRawLogEvent (T : Tables) (S : Strings) (ev : Dict) : Except PyErr Dict :=
  match runChain T.id S T.chain (ev, []) with
  | .error err => .error err
  | .ok st => if T.ctorOk then construct T.fields st.2 else .error .typeError

end KdVerif.OsLog
