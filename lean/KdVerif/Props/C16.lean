import KdVerif.Gen.OsLog
import KdVerif.Spec.Firehose
import KdVerif.Spec.OsLogFormat
import KdVerif.Proofs.OsLog
import KdVerif.Proofs.TraceId
import KdVerif.Proofs.OsLogShape
import KdVerif.Proofs.PyIROl
import KdVerif.Gen.PyIROl
/-
  C16 — log records decode for every combination of optional fields; the trace-identifier word
  decodes as the exact inverse of its bit packing.

  Subject: `fromRawLogEvent Gen.OsLog.tables` — the chain interpreter of `Model/OsLog.lean`
  instantiated with the ordered key chain (AST of `OsLogEvent.from_raw_log_event`), the dataclass
  fields with their defaults, the enum classes, `tracepoint_types` / `tracepoint_flags` and the
  construct layout of `firehose_tracepoint_id`, all regenerated from the source on every run
  (`Gen/OsLog.lean`).  A key mapped to a non-field, an optional key made mandatory, a changed bit
  layout or namespace dictionary changes these theorems' subject and they are re-checked.

  PARTIAL (timestamp): `unix_date` is modelled as the exact instant `sec + usec/10^6`; the
  implementation computes it in binary floating point and `datetime.fromtimestamp` rounds
  half-even to microseconds.  Full statement: "the decoded `unix_date` is the UTC instant
  `sec + usec/10^6` for every `sec`, `usec`".  Proved here: the *model's* instant is exact for
  `0 ≤ sec < 2^32`, `0 ≤ usec < 10^6` (`timestamp_exact_partial`); that the implementation's
  float computation agrees on that range is CHECKED by the correspondence sections `timestamp`
  and `event-subsets`, not proved (beyond 2^33 s it is false: off by one microsecond).

  KNOWN FINDING K4: for namespace `trace` the source registers the non-flag `Enum`
  `FirehoseTracepointSingpostFlags` as the flags class, so a flags byte of 0 or any combination
  raises `ValueError`; `inDomain` therefore admits only the six single-member values for that
  namespace (`k4_domain`), with `decide`d negative witnesses `k4_witness_zero/_combination`.
-/
namespace KdVerif.C16
open KdVerif.OsLog KdVerif.Spec.OsLogFormat KdVerif.Spec.Firehose
open KdVerif.Gen.OsLog (tables chain fields idTables)

/-! ### the translated tables -/

/-- Every key of the chain is mapped to a field the record type has
    (fails for `'tai'` → `transition_activity_identifier` when the dataclass lacks that field). -/
theorem keys_have_fields : ∀ e ∈ chain, ∃ f ∈ fields, f.name = e.field := by decide

/-- The chain the source implements is the format's key table: the same 10 mandatory and 31 optional
    keys (in any order), each feeding the field the format prescribes, mandatory exactly where the format
    says (fails when an optional key is made mandatory, a key is dropped or fed to another field). -/
theorem chain_is_format :
    (∀ x ∈ chain.map (fun e => (e.key, e.field, e.required)), x ∈ Spec.OsLogFormat.keys) ∧
    (∀ x ∈ Spec.OsLogFormat.keys, x ∈ chain.map (fun e => (e.key, e.field, e.required))) ∧
    chain.length = 41 ∧ (chain.filter (fun e => !e.required)).length = 31 := by decide

/-- The translator understood every right-hand side of the chain. -/
theorem chain_supported : ∀ e ∈ chain, e.tr.supported = true := by decide

/-- The side conditions of the chain induction: distinct keys, distinct target fields, targets are
    fields, fields without default are fed by mandatory keys, the function ends in the constructor call. -/
theorem tables_ok : TablesOk tables :=
  ⟨rfl, by decide, by decide, keys_have_fields, by decide⟩

/-! ### every subset of the optional keys -/

/-- For **every** raw event that has the mandatory keys and whose present keys carry well-shaped values
    (string indices inside the string table, …) — that is, for every subset of the 31 optional keys and all
    such values, whatever other keys the event has — decoding succeeds; the record has exactly the dataclass
    fields in order; each present key's field is the transform of its value; each absent key's field keeps
    its default.  Induction over the chain, independent of the size of the subset. -/
theorem decode_subset (S : Strings) (ev : Dict) (h : eventShaped tables S ev = true) :
    ∃ rec, fromRawLogEvent tables S ev = .ok rec ∧
      rec.map (·.1) = fields.map (·.name) ∧
      (∀ e ∈ chain, ∀ v, ev.lookup e.key = some v →
          ∃ r, applyTransform idTables S e.tr v = .ok r ∧ rec.lookup e.field = some r) ∧
      (∀ e ∈ chain, ev.lookup e.key = none →
          ∃ f ∈ fields, f.name = e.field ∧ f.default.isSome = true ∧ rec.lookup e.field = f.default) := by
  have hall : ∀ e ∈ tables.chain, entryShaped tables S ev e = true := by
    simpa [eventShaped, List.all_eq_true] using h
  apply fromRaw_spec tables tables_ok S ev
  · intro e he hr
    have := hall e he
    unfold entryShaped at this
    cases hl : ev.lookup e.key with
    | none => simp [hl, hr] at this
    | some v => rfl
  · intro e he v hv
    have := hall e he
    unfold entryShaped at this
    rw [hv] at this
    exact transform_ok S e.tr v this

/-- The same, quantified explicitly over the subsets: for every sublist `sub` of the chain that contains
    the mandatory entries (2^31 of them) and every assignment of well-shaped values to its keys, the event
    with exactly those keys decodes; entries of `sub` give the transform of their value, all other entries
    their default. -/
theorem decode_every_subset (S : Strings) (sub : List Entry) (hsub : sub.Sublist chain)
    (hmand : ∀ e ∈ chain, e.required = true → e ∈ sub) (val : Entry → PVal)
    (hval : ∀ e ∈ sub, Shaped idTables S e.tr (val e) = true) :
    ∃ rec, fromRawLogEvent tables S (sub.map fun e => (e.key, val e)) = .ok rec ∧
      rec.map (·.1) = fields.map (·.name) ∧
      (∀ e ∈ sub, ∃ r, applyTransform idTables S e.tr (val e) = .ok r ∧ rec.lookup e.field = some r) ∧
      (∀ e ∈ chain, e ∉ sub →
          ∃ f ∈ fields, f.name = e.field ∧ f.default.isSome = true ∧ rec.lookup e.field = f.default) := by
  have hnd : (chain.map (·.key)).Nodup := tables_ok.keysNodup
  have hndsub : (sub.map (·.key)).Nodup := (hsub.map _).nodup hnd
  have hin : ∀ e ∈ sub, (sub.map fun e => (e.key, val e)).lookup e.key = some (val e) :=
    fun e he => lookup_map_key_mem sub val hndsub he
  have hout : ∀ e ∈ chain, e ∉ sub → (sub.map fun e => (e.key, val e)).lookup e.key = none := by
    intro e he hns
    apply lookup_map_key_not_mem
    intro hk
    obtain ⟨e', he', hke⟩ := List.mem_map.mp hk
    have := eq_of_nodup_map hnd (hsub.subset he') he hke
    exact hns (this ▸ he')
  have hshape : eventShaped tables S (sub.map fun e => (e.key, val e)) = true := by
    simp only [eventShaped, List.all_eq_true]
    intro e he
    unfold entryShaped
    by_cases hs : e ∈ sub
    · rw [hin e hs]; exact hval e hs
    · rw [hout e he hs]
      cases hr : e.required with
      | false => rfl
      | true => exact absurd (hmand e he hr) hs
  obtain ⟨rec, hrec, hnames, hpres, habs⟩ := decode_subset S _ hshape
  refine ⟨rec, hrec, hnames, ?_, ?_⟩
  · intro e he
    exact hpres e (hsub.subset he) _ (hin e he)
  · intro e he hns
    exact habs e he (hout e he hns)

/-- Keys the format does not define are ignored: two events that agree on the 41 keys of the chain
    decode alike (to the same record or the same error). -/
theorem unknown_keys_ignored (S : Strings) (ev ev' : Dict)
    (h : ∀ e ∈ chain, ev.lookup e.key = ev'.lookup e.key) :
    fromRawLogEvent tables S ev = fromRawLogEvent tables S ev' :=
  fromRaw_congr tables S ev ev' tables_ok.keysNodup h

/-- The mandatory keys are mandatory: an event that lacks one is rejected (with `KeyError` unless an earlier
    entry already failed — the correspondence checks the kind). -/
theorem missing_mandatory_rejected (S : Strings) (ev : Dict) (e : Entry) (he : e ∈ chain)
    (hr : e.required = true) (h : ev.lookup e.key = none) :
    ∃ err, fromRawLogEvent tables S ev = .error err := by
  obtain ⟨err, herr⟩ := runChain_missing idTables S e hr chain ev [] he h
  exact ⟨err, by simp only [fromRawLogEvent]; rw [show tables.id = idTables from rfl,
    show tables.chain = chain from rfl, herr]⟩

/-! ### what the transforms give on well-shaped values -/

theorem field_plain (S : Strings) (v : PVal) : applyTransform idTables S .plain v = .ok v := rfl

/-- Strings go through the string index. -/
theorem field_string (S : Strings) (n : Int) (s : String) (h : S.lookup n = some s) :
    applyTransform idTables S .strIndex (.int n) = .ok (.str s) := by
  simp [applyTransform, strIndex, numOf, h]

/-- PARTIAL (see the header): the model's `unix_date` is the exact UTC instant. -/
theorem timestamp_exact_partial (S : Strings) (d : Dict) (s u : Int)
    (hs : d.lookup "sec" = some (.int s)) (hu : d.lookup "usec" = some (.int u))
    (hs0 : 0 ≤ s) (hs1 : s < 2 ^ 32) (hu0 : 0 ≤ u) (hu1 : u < 1000000) :
    applyTransform idTables S (.timestamp "sec" "usec") (.dict d) = .ok (.datetime s u.toNat) :=
  timestamp_exact hs hu hs0 hs1 hu0 hu1

/-- Sub-dictionaries are re-keyed member by member (`utz`, `lsutz`, `leutz`, `lc`). -/
theorem field_dict (S : Strings) (pairs : List (String × String)) (d : Dict)
    (h : hasKeys (pairs.map (·.2)) (.dict d) = true) :
    applyTransform idTables S (.dictShape pairs) (.dict d) =
      .ok (.dict (pairs.map fun p => (p.1, (d.lookup p.2).getD PVal.none))) := by
  obtain ⟨d', hd', h'⟩ := dictShape_ok (pairs := pairs) h
  cases hd'
  exact h'

/-! ### decomposed messages -/

/-- Message segments map one-to-one and in order: when the placeholder count is non-zero the decoded
    message has a `segments` list with one entry per raw segment, the i-th being the decoding of the i-th. -/
theorem segments_in_order (S : Strings) (dm r pc : PVal) (h : parseDecomposed S dm = .ok r)
    (hpc : subscr dm "pc" = .ok pc) (ht : truthy pc = true) :
    ∃ st sg segs outs, subscr dm "s" = .ok st ∧ subscr dm "seg" = .ok sg ∧ iter sg = .ok segs ∧
      r = .dict [("placeholder_count", pc), ("state", st), ("segments", .list outs)] ∧
      outs.length = segs.length ∧
      ∀ (i : Nat) (h1 : i < segs.length) (h2 : i < outs.length), parseSegment S segs[i] = .ok outs[i] :=
  parseDecomposed_segments h hpc ht

/-- A zero placeholder count yields just the count and the state; the segments are not read. -/
theorem no_placeholders (S : Strings) (d : Dict) (pc st : PVal) (h1 : d.lookup "pc" = some pc)
    (h2 : d.lookup "s" = some st) (ht : truthy pc = false) :
    parseDecomposed S (.dict d) = .ok (.dict [("placeholder_count", pc), ("state", st)]) := by
  simp [parseDecomposed, subscr, h1, h2, ht]

/-- A segment with any subset of `lp` / `p` / `a`, a placeholder with any subset of `rs` / `t` / `tn` / `ty`,
    an argument with any subset of `a` / `p` / `c` / `sc` / `st` / `or` decodes (indices inside the table). -/
theorem segment_total (S : Strings) (seg : PVal) (h : segmentShaped S seg = true) :
    ∃ r, parseSegment S seg = .ok r := parseSegment_ok h

/-! ### the trace identifier -/

/-- `parse_trace_identifier` is the exact inverse of the bit packing: for every identifier `t` of the
    enum-defined domain (defined namespace; type in the namespace's class, or any byte when it has none or
    an `IntFlag`; pc style 0..7; the three booleans; flags per the namespace's rule — which, by K4, admits
    only single members for namespace `trace`; code < 2^32), decoding `packId t` succeeds and gives back
    every field of `t` (`flags` is `None` for namespaces without a flags class). -/
theorem traceid_inverse (t : Id) (h : inDomain idTables t = true) :
    ∃ d, decodeId idTables (packId t) = .ok d ∧
      d.ns.num = some t.ns ∧ d.type_.num = some t.type_ ∧ d.hasLargeOffset = t.hasLargeOffset ∧
      d.hasUniquePid = t.hasUniquePid ∧ d.pcStyle.num = some t.pcStyle ∧ d.hasCurrentAid = t.hasCurrentAid ∧
      d.flags.num = (if (idTables.flags.lookup (t.ns : Int)).isSome then some t.flags else none) ∧
      d.code = t.code := by
  obtain ⟨hlt, h0, h1, h2, h3, h4⟩ := packId_bytes t h
  have := decodeBytes_spec t h 0
  rw [decodeId_word _ hlt, h0, h1, h2, h3, h4]
  simpa using this

theorem traceid_total (t : Id) (h : inDomain idTables t = true) : ∃ d, decodeId idTables (packId t) = .ok d := by
  obtain ⟨d, hd, _⟩ := traceid_inverse t h
  exact ⟨d, hd⟩

/-- Conversely every 64-bit word whose fields lie in the domain decodes to those fields, whatever its two
    padding bits (so `packId (unpackId w)` and `w` decode alike). -/
theorem traceid_word (w : Nat) (hw : w < 2 ^ 64) (h : inDomain idTables (unpackId w) = true) :
    ∃ d, decodeId idTables w = .ok d ∧
      d.ns.num = some (unpackId w).ns ∧ d.type_.num = some (unpackId w).type_ ∧
      d.hasLargeOffset = (unpackId w).hasLargeOffset ∧ d.hasUniquePid = (unpackId w).hasUniquePid ∧
      d.pcStyle.num = some (unpackId w).pcStyle ∧ d.hasCurrentAid = (unpackId w).hasCurrentAid ∧
      d.flags.num = (if (idTables.flags.lookup ((unpackId w).ns : Int)).isSome
                     then some (unpackId w).flags else none) ∧
      d.code = (unpackId w).code :=
  decodeId_unpack w hw h

/-- Enum members in the decoded identifier are the declared members of the class with that value
    (names are looked up, not guessed). -/
theorem traceid_names (r : EnumRef) (x : Nat) (c n : String) (v : Int)
    (h : enumCall r x = .ok (.member c n v)) :
    c = r.cls.name ∧ (⟨n, v⟩ : EnumMember) ∈ r.cls.members ∧ v = x :=
  enumCall_member h

/-- Words that do not fit 64 bits are rejected. -/
theorem traceid_rejects_wide (w : Nat) (h : 2 ^ 64 ≤ w) : decodeId idTables w = .error .streamError := by
  have : ¬ w < 256 ^ 8 := by
    have : (256 : Nat) ^ 8 = 2 ^ 64 := by decide
    omega
  simp [decodeId, show idTables.wordSize = 8 from rfl, this]

/-- The defect K4 is present in the translated tables: the flags class registered for namespace
    `trace` (3) is a plain `Enum`.  (The K4 statements below are conditional on it, so that repairing the
    source — registering an `IntFlag` — does not break this file.) -/
def k4Present (T : IdTables) : Bool :=
  match T.flags.lookup 3 with
  | some r => r.kind == .plain
  | none => false

/-- K4: while the defect is present, for namespace `trace` the domain admits only single-bit flag values —
    neither 0 nor any combination of flags, which a flags byte is meant to hold. -/
theorem k4_domain : k4Present idTables = true →
    ∀ fl < 256, byteRule idTables.flags 3 fl = true → fl ≠ 0 ∧ fl &&& (fl - 1) = 0 := by
  decide +kernel

/-- K4 negative witnesses: namespace `trace`, type `default`, flags 0 / flags 3 — every other field in range — raise. -/
theorem k4_witness_zero : k4Present idTables = true →
    decodeId idTables (packId { ns := 3, type_ := 0, hasLargeOffset := false, hasUniquePid := false, pcStyle := 0,
                                 hasCurrentAid := false, flags := 0, code := 7 }) = .error .valueError := by
  decide

theorem k4_witness_combination : k4Present idTables = true →
    decodeId idTables (packId { ns := 3, type_ := 0, hasLargeOffset := false, hasUniquePid := true, pcStyle := 2,
                                 hasCurrentAid := true, flags := 3, code := 7 }) = .error .valueError := by
  decide

/-! ### non-vacuity -/

def exStrings : Strings := [(5, "kernel"), (9, "hello %d"), (12, "com.apple.x")]

/-- mandatory keys + `pip`, `lt`, `tai`, `bt`, `dm`, `ti` and an unknown key -/
def exEvent : Dict :=
  [("cm", .int 9), ("t", .str "Log"), ("s", .str "default"), ("tid", .int 77), ("ns", .int 1000), ("mct", .int 2000),
   ("b", .bytes [1, 2]), ("piu", .bytes [3]), ("ud", .dict [("sec", .int 1700000000), ("usec", .int 250000)]),
   ("utz", .dict [("mw", .int (-120)), ("dt", .int 1)]),
   ("pip", .int 5), ("lt", .int 16), ("tai", .int 42), ("zzz", .int 1),
   ("bt", .list [.dict [("iu", .bytes [9]), ("io", .int 4096)]]),
   ("dm", .dict [("pc", .int 1), ("s", .int 0),
      ("seg", .list [.dict [("lp", .int 5), ("p", .dict [("t", .list [.int 12]), ("w", .int 0), ("p", .int 0)]),
                            ("a", .dict [("c", .int 2), ("or", .int 9)])]])]),
   ("ti", .int 0x0000002a_1f350104)]

example : eventShaped tables exStrings exEvent = true := by decide

example : ∃ rec, fromRawLogEvent tables exStrings exEvent = .ok rec ∧
    rec.lookup "process_image_path" = some (.str "kernel") ∧
    rec.lookup "log_type" = some (.enum "OsLogType" "ERROR") ∧
    rec.lookup "transition_activity_identifier" = some (.int 42) ∧
    rec.lookup "unix_date" = some (.datetime 1700000000 250000) ∧
    rec.lookup "sender" = some (.str "") ∧ rec.lookup "backtrace" =
      some (.list [.dict [("image_uuid", .bytes [9]), ("image_offset", .int 4096)]]) :=
  ⟨_, rfl, rfl, rfl, rfl, rfl, rfl, rfl⟩

/-- `decode_every_subset` is not vacuous: the mandatory entries plus `pip` form an admissible subset with
    well-shaped values. -/
def exVal (e : Entry) : PVal :=
  if e.key == "cm" then .int 9 else if e.key == "pip" then .int 5
  else if e.key == "ud" then .dict [("sec", .int 4294967295), ("usec", .int 999999)]
  else if e.key == "utz" then .dict [("mw", .int 0), ("dt", .int 0)] else .str "x"

example : (chain.filter fun e => e.required || e.key == "pip").Sublist chain := List.filter_sublist

example : ∀ e ∈ chain.filter (fun e => e.required || e.key == "pip"),
    Shaped idTables exStrings e.tr (exVal e) = true := by decide

/-- log namespace, type error, all base flags, pc style 2, flags 0x1f, code 42 is in the domain and round-trips -/
example : inDomain idTables { ns := 4, type_ := 0x10, hasLargeOffset := true, hasUniquePid := true, pcStyle := 2,
                              hasCurrentAid := true, flags := 0x1f, code := 42 } = true := by decide

example : packId { ns := 4, type_ := 0x10, hasLargeOffset := true, hasUniquePid := true, pcStyle := 2,
                   hasCurrentAid := true, flags := 0x1f, code := 42 } = 0x0000002a_1f351004 := by decide

example : decodeId idTables 0x0000002a_1f351004 =
    .ok { ns := .member "FirehoseTracepointNamespace" "log" 4, type_ := .member "FirehoseTracepointLogType" "error" 16,
          hasLargeOffset := true, hasUniquePid := true, pcStyle := .member "FirehoseTracepointFlagsPcStyle" "shared_cache" 2,
          hasCurrentAid := true, flags := .flags "FirehoseTracepointLogFlags" 31, code := 42 } := by decide

/-- the trace namespace with a single-member flags value is in the domain (K4 excludes only the others) -/
example : inDomain idTables { ns := 3, type_ := 0x11, hasLargeOffset := false, hasUniquePid := false, pcStyle := 7,
                              hasCurrentAid := false, flags := 0x80, code := 0 } = true := by decide

example : segmentShaped exStrings (.dict [("lp", .int 5), ("a", .dict [("a", .int 3), ("p", .int 1)])]) = true := by
  decide

/-! ### translation tie: the hand-written control logic IS the interpreted source

  `tools/gen_pyir_ol.py` translates the SOURCE TEXT of `OsLogEvent.parse_trace_identifier`, `parse_decomposed` and
  `parse_decomposed_segment` (and of the dataclass `TraceIdentifier`) into the Python-subset IR of `Model/PyIROl` on every
  run (`Gen/PyIROl.lean`).  `PyIROl.run` is a big-step interpreter over the model's own `PVal` with the model's dict /
  `in` / subscript / truthiness protocol; a call `cls.parse_decomposed_segment(seg, log_strings)` is answered by
  interpreting the translated callee.  Primitives (not translated, meaning taken from the reflected tables of
  `Gen/OsLog`): the construct parse `firehose_tracepoint_id.parse(Int64ul.build(x))` (`toLE` + `parseLayout` over the
  reflected layout), `EnumClass(x)` (`enumCall` on the reflected class), the contents of the module-level dicts
  `tracepoint_types` / `tracepoint_flags` (reflected; `module_dicts_as_written` ties them to the dict displays).
  Everything else of the three methods — which key is optional, which is read through `log_strings`, the order of the
  reads (hence which exception a malformed value raises first), the `if … elif … else` of the type, the conditional
  `flags`, the keyword arguments of `TraceIdentifier(…)` — is now read off the source text. -/

/-- **The translated source is the program the refinement lemmas were proved for** (`Spec/PyIROlExpected`, quoting the
    Python), and the translator met nothing outside the IR's subset.  A change of any of the three methods that is not a
    mere restyling (renamed locals, `not x in y`, an inlined alias of `segment['p']`, …) makes this false. -/
theorem source_is_expected_ir : Gen.PyIROl.prog = PyIROl.Expected.prog ∧ Gen.PyIROl.notes = [] := by decide

/-- The reflected tables meet the side conditions of `parse_trace_identifier_ir_eq_model` (`PyIROl.Coherent`): the enum
    classes the source names are the reflected ones, the namespace class is a plain `Enum` with a member `signpost` whose
    value is the reflected one, the signpost type class is a flag class, the reflected construct layout yields the leaves
    the method reads (`Flag`s exactly for the three booleans) and `trace_flags` is a nested struct. -/
theorem id_tables_coherent : PyIROl.Coherent idTables := by decide

/-- the reflected dict under a module-level name, as (key value, name of the value class) -/
def reflectedDict (T : IdTables) (name : String) : Option (List (Int × String)) :=
  (PyIROl.tableOf T name).map fun l => l.map fun p => (p.1, p.2.cls.name)

/-- a dict display as written (key class, key member, value class), its keys resolved in the reflected namespace class -/
def writtenDict (T : IdTables) (ents : List (String × String × String)) : Option (List (Int × String)) :=
  ents.mapM fun e =>
    if e.1 == T.nsEnum.cls.name then (T.nsEnum.cls.members.find? (·.name == e.2.1)).map fun m => (m.value, e.2.2)
    else none

/-- **The module-level dicts the interpreter reads by reflection are the dict displays of the source text**: the same
    keys in the same order, each with the class the display names. -/
theorem module_dicts_as_written :
    Gen.PyIROl.tables.map (·.1) = ["tracepoint_types", "tracepoint_flags"] ∧
    ∀ p ∈ Gen.PyIROl.tables, reflectedDict idTables p.1 = writtenDict idTables p.2 := by decide

section ir
open PyIROl (Val run)

/-- **`parse_decomposed_segment`, interpreted, is `parseSegment`**: for EVERY value `seg` (a dict with any subset of
    `lp` / `p` / `a`, a list, a string, a number, …) and every string table, the generated method run by the interpreter
    gives what the hand model gives — the same decoded segment or the same exception (`KeyError` for a missing `w` / `p`
    or an index outside the table, `TypeError` for a non-dict where a dict is subscripted or an unhashable index, …),
    raised at the same point of the evaluation order.  No hypothesis: the hand model and the interpreted source agree on
    malformed input too. -/
theorem parse_decomposed_segment_ir_eq_model (T : IdTables) (S : Strings) (seg : PVal) :
    run T S Gen.PyIROl.prog "parse_decomposed_segment" [.pv seg, .table] = parseSegment S seg := by
  rw [source_is_expected_ir.1]; exact PyIROl.run_segment T S seg

/-- **`parse_decomposed`, interpreted, is `parseDecomposed`**: for every value `dm` and every string table — the call
    `cls.parse_decomposed_segment(seg, log_strings)` of the comprehension answered by interpreting the generated callee. -/
theorem parse_decomposed_ir_eq_model (T : IdTables) (S : Strings) (dm : PVal) :
    run T S Gen.PyIROl.prog "parse_decomposed" [.pv dm, .table] = parseDecomposed S dm := by
  rw [source_is_expected_ir.1]; exact PyIROl.run_decomposed T S dm

/-- **`parse_trace_identifier`, interpreted, is `parseTraceIdentifier`**: for every value `v` (any integer, negative or
    wider than 64 bits, or a non-number) the generated method run by the interpreter on the reflected tables gives what
    the hand model gives — the same `TraceIdentifier` or the same exception (`StreamError` from the construct build /
    parse, `ValueError` from an enum call — K4 included).  The namespace lookup, the `if … in tracepoint_types … elif …
    signpost … else`, the conditional `flags` and the constructor's keywords come from the source text. -/
theorem parse_trace_identifier_ir_eq_model (S : Strings) (v : PVal) :
    run idTables S Gen.PyIROl.prog "parse_trace_identifier" [.pv v] = parseTraceIdentifier idTables v := by
  rw [source_is_expected_ir.1]; exact PyIROl.run_traceId S id_tables_coherent v

/-- The same for ANY tables that meet `PyIROl.Coherent` (what the proof uses of the reflected tables is exactly that). -/
theorem parse_trace_identifier_ir_eq_model_of_coherent (T : IdTables) (hT : PyIROl.Coherent T) (S : Strings) (v : PVal) :
    run T S Gen.PyIROl.prog "parse_trace_identifier" [.pv v] = parseTraceIdentifier T v := by
  rw [source_is_expected_ir.1]; exact PyIROl.run_traceId S hT v

/-- **The subject of `segments_in_order` / `segment_total` / `traceid_inverse` is the interpreted source**: the
    `decomposed` and `traceId` transforms of the key chain, which `decode_subset` applies, are the generated methods. -/
theorem transforms_rest_on_ir (S : Strings) (v : PVal) :
    applyTransform idTables S .decomposed v = run idTables S Gen.PyIROl.prog "parse_decomposed" [.pv v, .table] ∧
    applyTransform idTables S .traceId v = run idTables S Gen.PyIROl.prog "parse_trace_identifier" [.pv v] :=
  ⟨(parse_decomposed_ir_eq_model idTables S v).symm, (parse_trace_identifier_ir_eq_model S v).symm⟩

end ir

/-! #### non-vacuity: the generated methods on concrete raw values -/

/-- the decomposed message of `exEvent` through the generated `parse_decomposed` (which calls the generated
    `parse_decomposed_segment`): literal prefix and object representation through the string table, tokens looked up one
    by one, width / precision copied -/
example :
    PyIROl.run idTables exStrings Gen.PyIROl.prog "parse_decomposed"
      [.pv (.dict [("pc", .int 1), ("s", .int 0),
        ("seg", .list [.dict [("lp", .int 5), ("p", .dict [("t", .list [.int 12]), ("w", .int 0), ("p", .int 0)]),
                              ("a", .dict [("c", .int 2), ("or", .int 9)])]])]), .table] =
    .ok (.dict [("placeholder_count", .int 1), ("state", .int 0),
      ("segments", .list [.dict [("literal_prefix", .str "kernel"),
         ("placeholder", .dict [("tokens", .list [.str "com.apple.x"]), ("width", .int 0), ("precision", .int 0)]),
         ("arg", .dict [("category", .int 2), ("object_representation", .str "hello %d")])]])]) := rfl

/-- malformed segments through the generated `parse_decomposed_segment`: a placeholder without `p` raises KeyError, the
    list `['p']` passes `'p' in segment` and then raises TypeError at `segment['p']`, a scalar argument of category 1
    keeps `sc`, and availability 1 suppresses the object representation -/
example :
    PyIROl.run idTables exStrings Gen.PyIROl.prog "parse_decomposed_segment"
      [.pv (.dict [("p", .dict [("w", .int 1)])]), .table] = .error .keyError ∧
    PyIROl.run idTables exStrings Gen.PyIROl.prog "parse_decomposed_segment"
      [.pv (.list [.str "p"]), .table] = .error .typeError ∧
    PyIROl.run idTables exStrings Gen.PyIROl.prog "parse_decomposed_segment"
      [.pv (.dict [("a", .dict [("a", .int 1), ("c", .int 1), ("sc", .int 4), ("or", .int 9)])]), .table] =
      .ok (.dict [("arg", .dict [("availability", .int 1), ("category", .int 1), ("scalar_category", .int 4)])]) :=
  ⟨rfl, rfl, rfl⟩

/-- the generated `parse_trace_identifier` on the word of the non-vacuity example above, on a K4 word (namespace
    `trace`, flags 0) and on a word that does not fit 64 bits -/
example :
    PyIROl.run idTables [] Gen.PyIROl.prog "parse_trace_identifier" [.pv (.int 0x0000002a_1f351004)] =
      .ok (.obj "TraceIdentifier"
        [("namespace", .enum "FirehoseTracepointNamespace" "log"), ("type_", .enum "FirehoseTracepointLogType" "error"),
         ("has_large_offset", .bool true), ("has_unique_pid", .bool true),
         ("pc_style", .enum "FirehoseTracepointFlagsPcStyle" "shared_cache"), ("has_current_aid", .bool true),
         ("flags", .flag "FirehoseTracepointLogFlags" 31), ("code", .int 42)]) ∧
    PyIROl.run idTables [] Gen.PyIROl.prog "parse_trace_identifier" [.pv (.int 0x0000000700000003)] =
      .error .valueError ∧
    PyIROl.run idTables [] Gen.PyIROl.prog "parse_trace_identifier" [.pv (.int (2 ^ 64))] = .error .streamError :=
  ⟨rfl, rfl, rfl⟩

end KdVerif.C16
