import KdVerif.Model.PyIRCs
/-
  The IR the proofs of `Proofs/PyIRCs` were done for: a hand-written copy of what `tools/gen_pyir.py` produces
  from `pykdebugparser/callstacks_parser.py` and from `PyKdebugParser.callstacks` of `pykdebugparser/pykdebugparser.py`
  (same normal form as `Spec/PyIRExpected`).  `C15.source_is_expected_ir` states that the generated terms ARE these.
  Core Lean only.
-/
namespace KdVerif.PyIRCs.Expected
open KdVerif.PyIRCs Expr Stmt

/--
```python
def __init__(self, dyld_addresses, dyld_uuids):                          # parameters 0, 1
    self.dyld_addresses = dyld_addresses
    self.dyld_uuids = dyld_uuids
```
-/
def init : InitDef := { params := 2, sets := [(.dyldAddresses, 0), (.dyldUuids, 1)] }

/--
```python
def insert_image(self, address, uuid):                                   # address = v0, uuid = v1
    if address in self.dyld_addresses:
        return
    index_ = bisect(self.dyld_addresses, address)                        # index_ = v2
    self.dyld_addresses.insert(index_, address)
    self.dyld_uuids.insert(index_, uuid)
```
-/
def insertImage : Block :=
  { params := 2
    body :=
      ite (isIn (var 0) addrs) (ret none)
        (assign 2 (bisect addrs (var 0))
          (insert addrs (var 2) (var 0)
            (insert uuids (var 2) (var 1) (ret none)))) }

/-- the body of the frame loop with `frames` = v`fs`, `frame` = v`fr`, `index_` = v`ix`:
```python
            index_ = bisect(self.dyld_addresses, frame) - 1
            if index_ > -1:
                frames.append(Frame(frame, self.dyld_uuids[index_], frame - self.dyld_addresses[index_]))
            else:
                frames.append(Frame(frame, None, None))
```
-/
def frameBodyAt (fs fr ix : Nat) : Stmt :=
  assign ix (sub (bisect addrs (var fr)) (int 1))
    (ite (gt (var ix) (int (-1)))
      (append fs (mkFrame (var fr) (index uuids (var ix)) (sub (var fr) (index addrs (var ix)))) done)
      (append fs (mkFrame (var fr) none none) done))

/-- the body of the frame loop (trace = v0, frames = v1, frame = v2, index_ = v3) -/
def frameBody : Stmt := frameBodyAt 1 2 3

/--
```python
for trace in generator:                                                  # trace = v0
    if isinstance(trace, PerfEvent) and trace.cs_frames is not None:
        frames = []                                                      # frames = v1
        for frame in trace.cs_frames:                                    # frame = v2
            index_ = bisect(self.dyld_addresses, frame) - 1              # index_ = v3
            if index_ > -1:
                frames.append(Frame(frame, self.dyld_uuids[index_], frame - self.dyld_addresses[index_]))
            else:
                frames.append(Frame(frame, None, None))
        yield Callstack(trace.ktraces[0].timestamp, trace.ktraces[0].tid, frames)      # the value: frames
```
-/
def frameLoop : Block :=
  { params := 1
    body := assignNewList 1 (forIn 2 (csFrames (var 0)) frameBody (ret (var 1))) }

/-- the branch of a qualifying sample (trace = v1, frames = v2, frame = v3, index_ = v4) -/
def sampleBranch : Stmt :=
  assignNewList 2
    (forIn 3 (csFrames (var 1)) (frameBodyAt 2 3 4)
      (yield (mkCallstack (timestamp (index (ktraces (var 1)) (int 0))) (tid (index (ktraces (var 1)) (int 0))) (var 2))
        done))

/-- the launch branch (trace = v1, image = v5) -/
def launchBranch : Stmt :=
  forIn 5 (uuidMapA (var 1)) (callInsert (loadAddr (var 5)) (uuidOf (var 5)) done) done

/-- the body of `for trace in generator` -/
def traceBody : Stmt :=
  ite (and (isinstance (var 1) .perfEvent) (isNotNone (csFrames (var 1)))) sampleBranch
    (ite (isinstance (var 1) .dyldUuidMapA) (callInsert (loadAddr (var 1)) (uuidOf (var 1)) done)
      (ite (isinstance (var 1) .dyldLaunchExecutable) launchBranch done))

/--
```python
def feed_generator(self, generator):                                     # generator = v0
    for trace in generator:                                              # trace = v1
        if isinstance(trace, PerfEvent) and trace.cs_frames is not None:
            frames = []                                                  # frames = v2
            for frame in trace.cs_frames:                                # frame = v3
                index_ = bisect(self.dyld_addresses, frame) - 1          # index_ = v4
                if index_ > -1:
                    frames.append(Frame(frame, self.dyld_uuids[index_], frame - self.dyld_addresses[index_]))
                else:
                    frames.append(Frame(frame, None, None))
            yield Callstack(trace.ktraces[0].timestamp, trace.ktraces[0].tid, frames)
        elif isinstance(trace, DyldUuidMapA):
            self.insert_image(trace.load_addr, trace.uuid)
        elif isinstance(trace, DyldLaunchExecutable):
            for image in trace.uuid_map_a:                               # image = v5
                self.insert_image(image.load_addr, image.uuid)
```
-/
def feedGenerator : Block :=
  { params := 1
    body := forIn 1 (var 0) traceBody (ret none) }

/--
```python
def callstacks(self, kdebug: io.IOBase, trace_codes=None):               # parameters 0, 1
    self.dyld_addresses.clear()
    self.dyld_uuids.clear()
    callstacks_parser = CallstacksParser(self.dyld_addresses, self.dyld_uuids)      # callstacks_parser = v2
    return callstacks_parser.feed_generator(self.traces(kdebug, trace_codes))
```
-/
def callstacks : RequestDef :=
  { params := 2
    defaults := [none]
    body := .clear .objAddrs (.clear .objUuids (.newParser 2 .objAddrs .objUuids (.retFeed 2 0 1))) }

def prog : Prog := { init := init, insertImage := insertImage, feedGenerator := feedGenerator, callstacks := callstacks }

end KdVerif.PyIRCs.Expected
