"""C17 — every registered decoder is reachable; X and X_nocancel decode alike."""
import importlib

from .. import core
from .. import decoders as D
from .. import tpir

MODULE = 'KdVerif.Props.C17'
NAMESPACE = 'KdVerif.C17'
TRUSTED = ['reflection of the seven handlers dicts and of default_trace_codes() into Gen/Decoders.lean and Gen/Codes.lean '
           '(name keys = big-endian bytes behind a leading 1)', 'IR translator + IR.eval for the twin rendering theorem',
           'the REGISTRY is no longer taken for granted: ' + tpir.TRUSTED]
ASSUMPTIONS = []
LEVEL_TEXT = ('Lean theorems over the reflected decoder table and code table: reachability by a linear merge of sorted keys, '
              'uniqueness of names across families (strictly increasing keys), X_nocancel => X registered, and for every '
              'twin pair the rendering theorem twin_renderings for all windows (kernel-checked normal forms differ only in '
              'the no_cancel flag piece).  TRANSLATION TIE of the registry: TracesParser.__init__ is translated on every run '
              '(tools/gen_pyir.py) into its attribute initialisers and the ORDERED list of families merged by '
              'self.handlers.update(<family>_handlers); source_is_expected_ir pins the term; registry_ir_eq_model: the registry '
              'the interpreted constructor merges over the reflected per-family dicts binds a name key to a decoder iff the '
              'decoder table has that decoder under that key (registry_lookup_eq_find, registry_mem); '
              'registry_order_independent / registry_any_complete_order: by no_two_families_claim_same_name any permutation of '
              'the seven updates (any sequence mentioning every family) builds the same registry; registry_of_some_families: a '
              'family left out loses exactly its names.  Section registry-ir compares the generated registry with '
              'TracesParser(...).handlers (names, and handlers[name] is <family>_handlers[name]).')
LEVEL_NOTE = ('Trusted: Lean kernel, reflection in tools/translate.py, AST translator (validated differentially), IR.eval; for the '
              'registry the translator of __init__ and the dict.update semantics of Model/PyIRTp.merge (tested by registry-ir).')
TECHNIQUE = 'Lean 4 proof: reflective decide over regenerated tables + rendering theorem; differential correspondence'

FAMILIES = ['bsd', 'dyld', 'fsystem', 'mach', 'perf', 'trace', 'turnstile']


def table_oracle(rep):
    from pykdebugparser.trace_codes import default_trace_codes
    codes = default_trace_codes()
    by_name = {}
    for cid, nm in codes.items():
        by_name.setdefault(nm, []).append(cid)
    fams = {f: importlib.import_module('pykdebugparser.trace_handlers.' + f).handlers for f in FAMILIES}
    sec = rep.section('tables')
    sec['rule'] = 'failing-input search on the real tables: every handler name x code table; family dicts pairwise; twins'
    seen = {}
    for f, hs in fams.items():
        for name in hs:
            sec['cases'] += 1
            sec['distinct_nontrivial'] += 1
            ids = by_name.get(name, [])
            if not ids:
                rep.add_failure('tables:unreachable:' + name, 'decoder %s (family %s) is not in the bundled code table' % (name, f),
                                {'section': 'tables', 'name': name, 'family': f})
            elif not any(i % 4 == 0 for i in ids):
                rep.add_failure('tables:unaligned-id:' + name, 'decoder %s only under ids %s' % (name, [hex(i) for i in ids]),
                                {'section': 'tables', 'name': name, 'ids': ids})
            if name in seen:
                rep.add_failure('tables:two-families:' + name, 'name %s claimed by %s and %s' % (name, seen[name], f),
                                {'section': 'tables', 'name': name, 'families': [seen[name], f]})
            seen[name] = f
            if name.endswith('_nocancel') and name[:-9] not in hs and not any(name[:-9] in h2 for h2 in fams.values()):
                rep.add_failure('tables:nocancel-without-base:' + name, '%s is decoded but %s is not' % (name, name[:-9]),
                                {'section': 'tables', 'name': name})
    sec['dist'] = {f: len(h) for f, h in fams.items()}
    return seen


def render(c):
    try:
        return D.text_of(D.impl_fn(c))
    except Exception as e:
        return 'raise ' + core.err_name(e)


def twins_differ(a, b):
    """a: text of X_nocancel, b: text of X on the same window.  The two must be identical except for the '_nocancel' suffix of
    the CALL NAME (the text before the first '(' of the base rendering); whatever the arguments contain stays as it is."""
    if a.startswith('raise') or b.startswith('raise'):
        return a != b
    i = b.find('(')
    if i < 0:
        return a.replace('_nocancel', '', 1) != b or '_nocancel' not in a
    return a != b[:i] + '_nocancel' + b[i:]


def twin_oracle(rep, rng, tier, names):
    sec = rep.section('twins')
    sec['rule'] = ('failing-input search on the real code: every X_nocancel / X pair rendered on the same windows; the text of '
                   'X_nocancel must be the text of X with "_nocancel" appended to the call name (the part before the first "(") '
                   'and nothing else changed.  Windows: random ones, and windows whose looked-up paths / global strings contain '
                   'the rendering\'s own syntax (decoders.syntax_paths: the call name + "(", twin and other decoders\' names, '
                   '"_nocancel", quotes, ", ", ")", "errno: ", backslashes, placeholders, control characters, empty and very '
                   'long paths)')
    per = 12 if tier == 'quick' else 300
    every = sorted(names)
    for n in every:
        if not n.endswith('_nocancel') or n[:-9] not in names:
            continue
        base = n[:-9]
        paths = D.syntax_paths(rng, n, [base] + rng.sample(every, 3), full=tier != 'quick')
        cases = [D.make_case(rng, n) for _ in range(per)]
        cases += [D.syntax_case(rng, n, pth, rng.choice(paths)) for pth in paths]
        for c in cases:
            a, b = render(c), render(dict(c, name=base))
            sec['cases'] += 1
            if not a.startswith('raise'):
                sec['distinct_nontrivial'] += 1
            if twins_differ(a, b):
                rep.add_failure('twins:differ:' + n, '%s renders %r where %s renders %r: not the same text with "_nocancel" '
                                'appended to the call name' % (n, a[:400], base, b[:400]),
                                {'section': 'twins', 'case': c, 'base': base})
                break


def via_dispatch(c):
    """The window through TracesParser.parse_event_list under the bundled table (what `feed` does with a closed window):
    the text of the trace, `none`, or `raise <exception>`."""
    from pykdebugparser.kevent import from_kd_buf
    from pykdebugparser.traces_parser import TracesParser
    events = [from_kd_buf(r) for r in D.window_events(c)]
    try:
        t = TracesParser(dict(D.CODES), {}, {}).parse_event_list(events)
        return 'none' if t is None else str(t)
    except Exception as e:
        return 'raise ' + core.err_name(e)


OUT_OF_DOMAIN = [123, 0xdead, 1 << 31, (1 << 63) + 1, (1 << 64) - 1]
BAD_PATHS = ['/caf\udce9', '\udcff\udcfe', '/ok/\udcc3', 'a\udc80b' * 9]        # not valid UTF-8 (surrogateescape = raw bytes)


def twin_dispatch_oracle(rep, rng, tier, names):
    """The twins through the DISPATCH, also where the shared decoder does not accept the window: whatever X does with a
    window (a text, nothing, an exception) X_nocancel does the same — a text differing only by the suffix of the call name,
    nothing where X gives nothing, the same exception where X raises.  Windows: in-domain ones, every START word replaced
    by values outside any enum (123, 0xdead, 2^31, 2^63+1, 2^64-1), looked-up paths that are not valid UTF-8."""
    sec = rep.section('twins-dispatch')
    sec['rule'] = ('every X_nocancel / X pair through TracesParser.parse_event_list under the bundled table on in-domain windows, '
                   'windows with one START word out of every domain (%s) and windows whose paths are not valid UTF-8: the '
                   'outcome of X_nocancel must be the outcome of X (text with "_nocancel" appended to the call name / nothing / '
                   'the same exception)' % ', '.join(hex(v) for v in OUT_OF_DOMAIN))
    every = sorted(names)
    for n in every:
        if not n.endswith('_nocancel') or n[:-9] not in names or n not in D.IDS or n[:-9] not in D.IDS:
            continue
        base = n[:-9]
        cases = [D.make_case(rng, n) for _ in range(3 if tier == 'quick' else 40)]
        seed_case = D.make_case(rng, n)
        for pos in range(4):
            for v in OUT_OF_DOMAIN:
                c = dict(seed_case, start=list(seed_case['start']))
                c['start'][pos] = v
                cases.append(c)
        for pth in BAD_PATHS:
            cases.append(dict(seed_case, lookups=[[pth, 7], ['/second' + pth, 8]]))
        for c in cases:
            a, b = via_dispatch(c), via_dispatch(dict(c, name=base))
            sec['cases'] += 1
            if a.startswith('raise') or a == 'none':
                sec['dist']['rejected'] = sec['dist'].get('rejected', 0) + 1
                bad = a != b
            else:
                sec['distinct_nontrivial'] += 1
                bad = b.startswith('raise') or b == 'none' or twins_differ(a, b)
            if bad:
                rep.add_failure('twins:dispatch-differs:' + n, 'through parse_event_list %s gives %r where %s gives %r on the same '
                                'window' % (n, a[:300], base, b[:300]), {'section': 'twins-dispatch', 'case': c, 'base': base})
                break


def via_stream(c, foreign):
    """The window through the WHOLE TracesParser (feed_generator under the bundled table) with foreign records of the same thread
    spliced in behind its START: the texts of the traces whose first record is the window's START, or `raise <exception>`.
    foreign: [(event id | qualifier, [4 words])]."""
    from pykdebugparser.kevent import from_kd_buf
    from pykdebugparser.traces_parser import TracesParser
    from .. import impl
    recs = D.window_events(c)
    extra = [impl.record_args(2 + i, w, c['tid'], dbg) for i, (dbg, w) in enumerate(foreign)]
    events = [from_kd_buf(r) for r in recs[:1] + extra + recs[1:]]
    own = events[0]
    out = []
    try:
        for t in TracesParser(dict(D.CODES), {}, {}).feed_generator(iter(events)):
            if t.ktraces and t.ktraces[0] is own:
                out.append(str(t))
    except Exception as e:
        return 'raise ' + core.err_name(e)
    return ' ;; '.join(out) if out else 'none'


def twin_stream_oracle(rep, rng, tier, names):
    """The twins through the pairing: X and X_nocancel between the same foreign records.  For every pair, a window with one
    foreign record behind its START — every id of the bundled table (a sample in the quick tier of an unchanged source) as a
    START, as an END and unqualified — and with two: what the stream gives for X_nocancel (a text, nothing, an exception) it
    gives for X, the text differing only in the suffix of the call name."""
    from .. import mined
    sec = rep.section('twins-stream')
    ids = sorted(D.CODES)
    full = tier != 'quick' or bool(mined.changed_files())
    sec['rule'] = ('every X_nocancel / X pair through TracesParser.feed_generator under the bundled table, with one foreign '
                   'record of the same thread behind the START — %s ids of the bundled table as START / END / unqualified — and '
                   'with pairs of them: the outcome for X_nocancel must be the outcome for X (text with "_nocancel" appended to '
                   'the call name / nothing / the same exception)' % ('all %d' % len(ids) if full else '80 sampled'))
    every = sorted(names)
    for n in every:
        if not n.endswith('_nocancel') or n[:-9] not in names or n not in D.IDS or n[:-9] not in D.IDS:
            continue
        base = n[:-9]
        c = D.make_case(rng, n)
        c['end'] = [0, 3, 0, 0]
        pick = ids if full else rng.sample(ids, 80)
        singles = [[(i | q, [1, 2, 3, 4])] for i in pick for q in ((1,) if full else (1, 2, 0))]
        if full:
            singles += [[(i | q, [1, 2, 3, 4])] for i in rng.sample(ids, 300) for q in (2, 0)]
        pairs = [[(rng.choice(ids) | 1, [1, 2, 3, 4]), (rng.choice(ids) | rng.choice((1, 2, 0)), [5, 6, 7, 8])] for _ in range(40)]
        for foreign in singles + pairs:
            if any((f[0] & ~3) in (D.IDS[n], D.IDS[base]) for f in foreign):
                continue                        # a record of the pair's own codes is not foreign
            a, b = via_stream(c, foreign), via_stream(dict(c, name=base), foreign)
            sec['cases'] += 1
            if a.startswith('raise') or a == 'none':
                bad = a != b
            else:
                sec['distinct_nontrivial'] += 1
                bad = b.startswith('raise') or b == 'none' or twins_differ(a, b)
            if bad:
                rep.add_failure('twins:stream-differs:' + n, 'through feed_generator, with %s behind the START, %s gives %r where %s '
                                'gives %r' % (['%#x' % f[0] for f in foreign], n, a[:300], base, b[:300]),
                                {'section': 'twins-stream', 'case': c, 'base': base, 'foreign': foreign})
                break


FAMILY_MODULES = ['bsd', 'dyld', 'fsystem', 'mach', 'perf', 'trace', 'turnstile']


def registration_snapshot():
    import importlib
    snap = {}
    for m in FAMILY_MODULES:
        mod = importlib.import_module('pykdebugparser.trace_handlers.' + m)
        snap[m] = {k: id(v) for k, v in mod.handlers.items()}
    return snap


def name_variants(name):
    """Other spellings a code table of another release might use for the same call: one '_'-separated part dropped, a
    'sys_' part added behind the family prefix, the family prefix swapped."""
    parts = name.split('_')
    out = set()
    for i in range(len(parts)):
        v = '_'.join(parts[:i] + parts[i + 1:])
        if v and v != name:
            out.add(v)
    if len(parts) > 1:
        out.add('_'.join([parts[0], 'sys'] + parts[1:]))
        out.add('_'.join([{'BSC': 'MSC', 'MSC': 'BSC'}.get(parts[0], 'X' + parts[0])] + parts[1:]))
    return sorted(out)


def foreign_tables_history(rep, rng, tier):
    """Parsers over OTHER tables come and go in a process (a caller-supplied table of another release names calls
    differently).  None of them may change what is registered: after parsers have been built over tables that give every
    decoder's id another spelling of its name (and have each seen a record), the registration tables of the seven
    families hold exactly the entries they held at import, and (section `dispatch`, which runs next) every decoder is still
    reached under the bundled table."""
    from pykdebugparser.kevent import from_kd_buf
    from pykdebugparser.traces_parser import TracesParser
    sec = rep.section('foreign-tables')
    sec['rule'] = ('TracesParser built over tables that spell every registered name differently (one part dropped, "sys_" added, '
                   'family prefix swapped — one table per kind of variant, plus a table of reversed names), each fed one window per '
                   'id; afterwards the handlers dicts of the seven family modules must hold exactly their entries of import time')
    before = registration_snapshot()
    names = [n for n in D.all_handler_names() if n in D.IDS]
    kinds = max(len(name_variants(n)) for n in names)
    for k in range(kinds + 1):
        table = dict(D.CODES)
        for n in names:
            vs = name_variants(n)
            table[D.IDS[n]] = n[::-1] if (k == kinds or not vs) else vs[k % len(vs)]
        try:
            pr = TracesParser(table, {}, {})
            for n in rng.sample(names, min(len(names), 40 if tier == 'quick' else len(names))):
                c = D.make_case(rng, n, nlookups=0)
                try:
                    pr.parse_event_list([from_kd_buf(r) for r in D.window_events(c)])
                except Exception:
                    pass
        except Exception as e:
            rep.add_failure('dispatch:foreign-table-raises', 'building a TracesParser over a table with other spellings raised '
                            + core.err_name(e), {'section': 'foreign-tables', 'kind': k})
        sec['cases'] += 1
    after = registration_snapshot()
    for m in FAMILY_MODULES:
        if after[m] != before[m]:
            gone = sorted(set(before[m]) - set(after[m]))
            new = sorted(set(after[m]) - set(before[m]))
            moved = sorted(k for k in set(before[m]) & set(after[m]) if before[m][k] != after[m][k])
            rep.add_failure('dispatch:registration-changed:' + m,
                            'after parsers over other tables were built, trace_handlers.%s.handlers lost %s, gained %s, re-bound %s'
                            % (m, gone[:6], new[:6], moved[:6]), {'section': 'foreign-tables', 'module': m})
        else:
            sec['distinct_nontrivial'] += 1


def dispatch_oracle(rep, rng, tier):
    """Reachability exercised, not only read off the tables: for every registered decoder a window under the bundled
    table goes through TracesParser.parse_event_list and must come back as the text the decoder itself produces.  Before
    that, parsers built on OTHER tables (one that does not name the id, one that gives the id to another decoder) see the
    same window in the same process: nothing they resolved may make the decoder unreachable afterwards."""
    from pykdebugparser.kevent import from_kd_buf
    from pykdebugparser.traces_parser import TracesParser
    sec = rep.section('dispatch')
    sec['rule'] = ('every registered decoder x %d windows: parse_event_list under a table without the id, under a table giving '
                   'the id to another decoder, then under the bundled table; the last must equal str(handler(parser, window))'
                   % (1 if tier == 'quick' else 12))
    per = 1 if tier == 'quick' else 12
    skipped = []
    names = D.all_handler_names()
    for n in names:
        if n not in D.IDS:
            continue                                   # reported by the tables section
        eid = D.IDS[n]
        other = 'BSC_getpid' if n != 'BSC_getpid' else 'BSC_getppid'
        for _ in range(per):
            want = None
            for attempt in range(40):
                c = D.make_case(rng, n, nlookups=0)
                if attempt >= 3:                       # random words were out of this decoder's domain: small in-domain ones
                    c["start"], c["end"] = [rng.randrange(0, 24) for _ in range(4)], [0, rng.randrange(0, 4), 0, 0]
                events = [from_kd_buf(r) for r in D.window_events(c)]
                try:
                    pr = TracesParser(D.CODES, {}, {})
                    want = str(pr.handlers[n](pr, events))
                    break
                except Exception:
                    continue
            if want is None:
                skipped.append(n)
                continue
            sec['cases'] += 1
            got = []
            for table in ({k: v for k, v in D.CODES.items() if k != eid}, {**D.CODES, eid: other}, D.CODES):
                try:
                    t = TracesParser(dict(table), {}, {}).parse_event_list(events)
                    got.append(None if t is None else str(t))
                except Exception as e:
                    got.append('raise ' + core.err_name(e))
            if got[0] is not None:
                rep.add_failure('dispatch:decoded-without-name:' + n, 'id %#x is not in the table, yet the window was decoded: %r'
                                % (eid, got[0]), {'section': 'dispatch', 'case': c})
            elif got[2] != want:
                rep.add_failure('dispatch:unreachable:' + n, 'decoder %s under the bundled table after other tables were used in '
                                'the process: parse_event_list gives %r, the decoder itself %r' % (n, got[2], want),
                                {'section': 'dispatch', 'case': c})
            else:
                sec['distinct_nontrivial'] += 1
    sec['dist'] = {'decoders_without_in_domain_window': sorted(set(skipped))}


def registry_tie(rep):
    """The registry: is the constructor translated from traces_parser.py the one registry_ir_eq_model is proved for, and does
    the registry it merges equal TracesParser(...).handlers?"""
    ans, parts = tpir.check_parts()
    if parts & {'__init__', '__init__-registry', 'notes'}:
        rep.broken.append('theorem source_is_expected_ir: the constructor that tools/gen_pyir.py translates from the source text '
                          'of TracesParser.__init__ (attribute initialisers, the ordered self.handlers.update(<family>_handlers) '
                          'calls) is not the term of Spec/PyIRTpExpected that registry_ir_eq_model / registry_order_independent '
                          'are proved for (%s)' % ans)
    else:
        rep.notes.append('translation tie: Gen/PyIR.init (from TracesParser.__init__) = Spec/PyIRTpExpected.init')
    tpir.registry_section(rep)


def correspondence(rep, rng, tier):
    registry_tie(rep)
    seen = table_oracle(rep)
    foreign_tables_history(rep, rng, tier)
    dispatch_oracle(rep, rng, tier)
    names = [n for n in D.supported_names() if n.endswith('_nocancel') or (n + '_nocancel') in seen]
    D.section_decoders(rep, rng, tier, names=names, name='decoders-twins', per=6 if tier == 'quick' else 80,
                       syntax=6 if tier == 'quick' else 1000)
    twin_oracle(rep, rng, tier, set(D.all_handler_names()))      # every registered twin, translated or not
    twin_dispatch_oracle(rep, rng, tier, set(D.all_handler_names()))
    twin_stream_oracle(rep, rng, tier, set(D.all_handler_names()))
    st = D.stats()
    if st['total'] != len(seen):
        rep.broken.append('reflection: Gen.Decoders lists %d handlers, the real tables %d' % (st['total'], len(seen)))


def replay(path):
    import json, random
    with open(path) as fd:
        r = json.load(fd)
    rp = r['replay']
    rep = core.Report('C17', 'quick', 0)
    if rp.get('section') == 'registry-ir':
        res = tpir.replay_registry(rp)
        if res:
            print('oracle:', res[0], '-', res[1])
            rep.add_failure(res[0], res[1], rp)
    elif rp.get('section') == 'tables':
        table_oracle(rep)
    elif rp.get('section') == 'foreign-tables':
        foreign_tables_history(rep, random.Random(0), 'quick')
    elif rp.get('section') == 'dispatch':
        saved = D.make_case
        D.make_case = lambda rng, n, nlookups=None, err=None: rp['case']
        saved_names = D.all_handler_names
        D.all_handler_names = lambda: [rp['case']['name']]
        try:
            dispatch_oracle(rep, random.Random(0), 'quick')
        finally:
            D.make_case, D.all_handler_names = saved, saved_names
    elif rp.get('section', '').startswith('decoders'):
        c = rp['case']
        try:
            got = D.impl_fn(c)
        except Exception as e:
            got = 'err ' + core.err_name(e)
        print('impl :', got)
        print('model:', core.drive([D.line(c)])[0])
        if got.startswith('unstable'):
            rep.add_failure('decoder:renders-differently', 'two renderings differ', rp)
    elif rp.get('section') == 'twins-stream':
        c, foreign = rp['case'], [tuple(f) for f in rp['foreign']]
        a, b = via_stream(c, foreign), via_stream(dict(c, name=rp['base']), foreign)
        print('%-28s: %r' % (c['name'], a))
        print('%-28s: %r' % (rp['base'], b))
        rejected = a.startswith('raise') or a == 'none'
        if (a != b) if rejected else (b.startswith('raise') or b == 'none' or twins_differ(a, b)):
            rep.add_failure('twins:stream-differs', 'differ', rp)
    elif rp.get('section') == 'twins-dispatch':
        c = rp['case']
        a, b = via_dispatch(c), via_dispatch(dict(c, name=rp['base']))
        print('%-28s: %r' % (c['name'], a))
        print('%-28s: %r' % (rp['base'], b))
        rejected = a.startswith('raise') or a == 'none'
        if (a != b) if rejected else (b.startswith('raise') or b == 'none' or twins_differ(a, b)):
            rep.add_failure('twins:dispatch-differs', 'differ', rp)
    elif rp.get('section') == 'twins':
        c = rp['case']
        a, b = render(c), render(dict(c, name=rp['base']))
        print('%-28s: %r' % (c['name'], a))
        print('%-28s: %r' % (rp['base'], b))
        if c['name'] in D.supported_names():
            try:
                m = core.drive([D.line(c)])[0]
                print('%-28s: %r' % ('model of ' + c['name'], D.text_of(m) if m.startswith('ok ') else m))
            except core.Infra as e:
                print('model: <driver unavailable: %s>' % e)
        if twins_differ(a, b):
            rep.add_failure('twins:differ', 'differ', rp)
    print([f['signature'] for f in rep.failures])
    if rep.failures:
        print(f'VIOLATION property=C17 replay={path}')
        return 1
    return 0
