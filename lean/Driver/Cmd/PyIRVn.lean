import Driver.Util
import Driver.Cmd.Trace
import KdVerif.Model.PyIRVn
import KdVerif.Spec.PyIRVnExpected
import KdVerif.Gen.PyIRVn
/-
  The path reassembly methods GENERATED from pykdebugparser/traces_parser.py (`Gen/PyIRVn`: `vnode_generator`,
  `parse_vnodes`, `parse_vnode`) run by the interpreter of `Model/PyIRVn`.
-/
open KdVerif KdVerif.Trace
namespace Driver.PyIRVn

def unsupported : Bool := Gen.PyIRVn.prog.hasUnsupported || !Gen.PyIRVn.notes.isEmpty

/-- `<timestamps of ktraces, '+'-separated, or ->:<vnode id>:<path as hex>` -/
def showVnode (v : Vnode) : String :=
  let ts := if v.ktraces.isEmpty then "-" else "+".intercalate (v.ktraces.map fun e => toString e.timestamp)
  s!"{ts}:{v.vnodeId}:{hexOfString v.path}"

def showVnodes (l : List Vnode) : String := if l.isEmpty then "-" else ",".intercalate (l.map showVnode)

/-- `vnir <codes> <record hex>…` : the three generated methods on the records (decoded by `from_kd_buf`), `decode` =
    strict UTF-8, `trace_codes` = `<codes>`:
    `ok G=<vnodes yielded by vnode_generator(records)> err=<exception that ended it or -> ;V=<parse_vnodes(records)>
    ;F=<parse_vnode(records)>`, the last two as `<vnodes>` / `!<exception>`; or `unsupported`. -/
def cmdVnIR : Cmd
  | codes :: recs =>
    if unsupported then "unsupported" else
    match Driver.Trace.parseCodes codes, parseRecs recs with
    | some cs, some es =>
      let codesF : Nat → Option String := fun k => List.lookup k cs
      let (ys, err) := KdVerif.PyIRVn.runGenerator Gen.PyIRVn.prog Driver.Trace.strictUtf8 codesF es
      let g := s!"G={showVnodes ys} err={match err with | some x => x.name | none => "-"}"
      let v := match KdVerif.PyIRVn.runParseVnodes Gen.PyIRVn.prog Driver.Trace.strictUtf8 codesF es with
        | .ok l => showVnodes l
        | .error x => "!" ++ x.name
      let f := match KdVerif.PyIRVn.runParseVnode Gen.PyIRVn.prog Driver.Trace.strictUtf8 codesF es with
        | .ok x => showVnode x
        | .error x => "!" ++ x.name
      s!"ok {g} ;V={v} ;F={f}"
    | _, _ => "bad-op"
  | _ => "bad-op"

/-- `vnircheck` : is the generated program the expected one (`C08.source_is_expected_ir`)? -/
def cmdVnCheck : Cmd := fun _ =>
  let d : List String :=
    (if Gen.PyIRVn.vnodeGenerator = KdVerif.PyIRVn.Expected.vnodeGenerator then [] else ["vnode_generator"]) ++
    (if Gen.PyIRVn.parseVnodes = KdVerif.PyIRVn.Expected.parseVnodes then [] else ["parse_vnodes"]) ++
    (if Gen.PyIRVn.parseVnode = KdVerif.PyIRVn.Expected.parseVnode then [] else ["parse_vnode"]) ++
    (if Gen.PyIRVn.notes.isEmpty then [] else ["notes"])
  if d.isEmpty then "same" else "differs " ++ ",".intercalate d ++ (if unsupported then " unsupported" else "")

def commands : List (String × Cmd) := [("vnir", cmdVnIR), ("vnircheck", cmdVnCheck)]

end Driver.PyIRVn
