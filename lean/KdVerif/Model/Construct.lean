import KdVerif.Model.Reader
/-
  L2: the `construct` (2.10) primitives used by kd_buf_parser.py, re-implemented from
  construct/core.py as functions on the reader.  Every `ConstructError` subclass
  (StreamError, ConstError, StringError, SelectError, …) is `PyErr.streamError`
  (the harness maps every ConstructError to that name).
  Facts taken from core.py:
  * `FormatField._parse`, `Bytes._parse`, `Padded._parse`, `Aligned._parse`,
    `BytesIOWithOffsets.from_reading` all read through `stream_read`, which raises
    StreamError when fewer bytes than requested come back;
  * `Padding(n)` = `Padded(n, Pass)`: ONE `stream.read(n)`;
  * `Aligned._parse` pads relative to where IT started and always calls `stream.read(pad)`,
    also for `pad = 0`;
  * `GreedyRange._parse` catches every `Exception` of an element, seeks back to where that
    element began (`fallback`) and returns the elements so far;
  * `Select._parse` remembers the position, tries each alternative, seeks back after a failing
    one (the last one too) and raises SelectError when none matched;
  * `Prefixed`/`FixedSized` read the whole sub-stream with ONE exact read and parse the
    sub-construct on a private BytesIO (so byte-wise `NullTerminated` reads there are not
    reads of the main reader);
  * `CString('utf8')` = `StringEncoded(NullTerminated(GreedyBytes, term=b'\0'))`: bytes up to the
    first NUL (StreamError if there is none), then `.decode('utf8')` (StringError if invalid).
-/
namespace KdVerif

def int32ul : RM Nat := do let b ← readExact 4; pure (leNat b)
def int64ul : RM Nat := do let b ← readExact 8; pure (leNat b)
def padding (n : Nat) : RM Unit := do let _ ← readExact n; pure ()

/-- `Array(n, m)`. -/
def arrayN {α : Type} (m : RM α) : Nat → RM (List α)
  | 0 => pure []
  | n + 1 => do let a ← m; let l ← arrayN m n; pure (a :: l)

/-- `GreedyRange(m)`; `fuel` bounds the `itertools.count()` loop (every successful element of the
    constructs used here consumes at least one byte, so `unread length + 1` is enough — proved,
    see `C06.never_hangs`).  `.hang` is the model's "out of fuel" and is not swallowed. -/
def greedyRange {α : Type} (m : RM α) : Nat → RM (List α)
  | 0 => RM.throw' .hang
  | fuel + 1 => fun r =>
    match m r with
    | (.ok a, r') =>
      (match greedyRange m fuel r' with
       | (.ok l, r'') => (.ok (a :: l), r'')
       | (.error e, r'') => (.error e, r''))
    | (.error .hang, r') => (.error .hang, r')
    | (.error _, r') => (.ok [], r'.seekTo r.pos)

/-- `Const(0, Byte)`. -/
def constZeroByte : RM Unit := do
  let b ← readExact 1
  if b = [0] then pure () else RM.throw' .streamError

/-- `Select(m1, m2)`. -/
def select2 {α : Type} (m1 m2 : RM α) : RM α := fun r =>
  match m1 r with
  | (.ok a, r1) => (.ok a, r1)
  | (.error .hang, r1) => (.error .hang, r1)
  | (.error _, r1) =>
    match m2 (r1.seekTo r.pos) with
    | (.ok a, r2) => (.ok a, r2)
    | (.error .hang, r2) => (.error .hang, r2)
    | (.error _, r2) => (.error .streamError, r2.seekTo r.pos)

/-- Python's `-(n) % 8`. -/
def padTo (modulus n : Nat) : Nat := (modulus - n % modulus) % modulus

/-- `Aligned(modulus, m)`. -/
def aligned {α : Type} (modulus : Nat) (m : RM α) : RM α := do
  let p1 ← tell
  let a ← m
  let p2 ← tell
  let _ ← readExact (padTo modulus (p2 - p1))
  pure a

/-- `Prefixed(Int64ul, GreedyBytes)`: the payload. -/
def prefixedBytes : RM Bytes := do
  let n ← int64ul
  readExact n

/-! ### UTF-8 (CPython's strict decoder: no overlong forms, no surrogates, ≤ U+10FFFF) -/

/-- decoder state: continuation bytes still needed, and the allowed range of the next one. -/
structure U8State where
  need : Nat
  lo : Nat
  hi : Nat

def utf8Step (s : Option U8State) (b : Nat) : Option U8State :=
  match s with
  | none => none
  | some s =>
    if s.need = 0 then
      if b < 0x80 then some ⟨0, 0x80, 0xbf⟩
      else if 0xc2 ≤ b ∧ b ≤ 0xdf then some ⟨1, 0x80, 0xbf⟩
      else if b = 0xe0 then some ⟨2, 0xa0, 0xbf⟩
      else if b = 0xed then some ⟨2, 0x80, 0x9f⟩
      else if 0xe1 ≤ b ∧ b ≤ 0xef then some ⟨2, 0x80, 0xbf⟩
      else if b = 0xf0 then some ⟨3, 0x90, 0xbf⟩
      else if b = 0xf4 then some ⟨3, 0x80, 0x8f⟩
      else if 0xf1 ≤ b ∧ b ≤ 0xf3 then some ⟨3, 0x80, 0xbf⟩
      else none
    else if s.lo ≤ b ∧ b ≤ s.hi then some ⟨s.need - 1, 0x80, 0xbf⟩
    else none

/-- `bs.decode('utf8')` succeeds. -/
def validUtf8 (bs : Bytes) : Bool :=
  match bs.foldl utf8Step (some ⟨0, 0x80, 0xbf⟩) with
  | some s => s.need == 0
  | none => false

/-- `CString('utf8')` on a private sub-stream holding `b`: the bytes before the first NUL.
    The name is kept as its UTF-8 bytes (decoding is injective on valid UTF-8). -/
def cstringOf (b : Bytes) : Except PyErr Bytes :=
  let name := b.takeWhile (· ≠ 0)
  if name.length = b.length then .error .streamError      -- no terminator in the sub-stream
  else if validUtf8 name then .ok name
  else .error .streamError                                -- StringError

/-- `FixedSized(n, CString('utf8'))`. -/
def fixedCString (n : Nat) : RM Bytes := fun r =>
  match readExact n r with
  | (.error e, r') => (.error e, r')
  | (.ok b, r') =>
    match cstringOf b with
    | .ok s => (.ok s, r')
    | .error e => (.error e, r')

structure ThreadEntry where
  tid : Nat
  pid : Nat
  name : Bytes
  deriving Repr, DecidableEq

/-- `kd_threadmap`. -/
def threadEntry : RM ThreadEntry := do
  let tid ← int64ul
  let pid ← int32ul
  let name ← fixedCString 0x14
  pure ⟨tid, pid, name⟩

/-- `kd_threadmap` on a private sub-stream holding exactly the 32 bytes `b`. -/
def threadEntryOf (b : Bytes) : Option ThreadEntry :=
  match cstringOf ((b.drop 12).take 20) with
  | .ok s => some ⟨leNat (b.take 8), leNat ((b.drop 8).take 4), s⟩
  | .error _ => none

/-- `GreedyRange(kd_threadmap)` on the private sub-stream of a `Prefixed`: elements are parsed until
    one fails — fewer than 32 bytes left (some field's `stream_read` is short), a name field
    without NUL or with invalid UTF-8.  At most `len / 32` elements can succeed, which bounds
    the loop; the failing element's bytes and everything after it are silently dropped. -/
def greedyEntriesAux : Nat → Bytes → List ThreadEntry
  | 0, _ => []
  | n + 1, b =>
    if b.length < 32 then []
    else match threadEntryOf (b.take 32) with
      | none => []
      | some e => e :: greedyEntriesAux n (b.drop 32)

def greedyEntries (b : Bytes) : List ThreadEntry := greedyEntriesAux (b.length / 32 + 1) b

end KdVerif
