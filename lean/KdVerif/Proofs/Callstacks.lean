import KdVerif.Spec.Callstacks
/-
  Lemmas for C15: the bisect loop, insertion into the parallel lists, lookup.
-/
namespace KdVerif.Callstacks

/-! ### bisect -/

/-- The loop terminates without error on ANY list (sorted or not) and stays inside `[lo, hi]`. -/
theorem bisectGo_total (a : List Nat) (x : Nat) : ∀ fuel lo hi, lo ≤ hi → hi ≤ a.length → hi - lo < fuel →
    ∃ r, bisectGo a x fuel lo hi = .ok r ∧ lo ≤ r ∧ r ≤ hi := by
  intro fuel
  induction fuel with
  | zero => intro lo hi _ _ h; omega
  | succ n ih =>
    intro lo hi hle hlen hf
    unfold bisectGo
    by_cases hlt : lo < hi
    · have hm : (lo + hi) / 2 < a.length := by omega
      simp only [hlt, if_true, List.getElem?_eq_getElem hm]
      by_cases hx : x < a[(lo + hi) / 2]
      · simp only [hx, if_true]
        obtain ⟨r, h1, h2, h3⟩ := ih lo ((lo + hi) / 2) (by omega) (by omega) (by omega)
        exact ⟨r, h1, h2, by omega⟩
      · simp only [hx, if_false]
        obtain ⟨r, h1, h2, h3⟩ := ih ((lo + hi) / 2 + 1) hi (by omega) hlen (by omega)
        exact ⟨r, h1, by omega, h3⟩
    · simp only [hlt, if_false]
      exact ⟨lo, rfl, Nat.le_refl _, hle⟩

theorem bisect_total (a : List Nat) (x : Nat) : ∃ r, bisect a x = .ok r ∧ r ≤ a.length := by
  obtain ⟨r, h1, _, h3⟩ := bisectGo_total a x (a.length + 1) 0 a.length (Nat.zero_le _) (Nat.le_refl _) (by omega)
  exact ⟨r, h1, h3⟩

/-- On a sorted list the loop keeps "everything left of `lo` is ≤ x, everything from `hi` on is > x". -/
theorem bisectGo_sorted (a : List Nat) (x : Nat) (hs : a.Pairwise (· ≤ ·)) :
    ∀ fuel lo hi, lo ≤ hi → hi ≤ a.length → hi - lo < fuel →
    (∀ i (h : i < a.length), i < lo → a[i] ≤ x) → (∀ i (h : i < a.length), hi ≤ i → x < a[i]) →
    ∃ r, bisectGo a x fuel lo hi = .ok r ∧ r ≤ a.length ∧
      (∀ i (h : i < a.length), i < r → a[i] ≤ x) ∧ (∀ i (h : i < a.length), r ≤ i → x < a[i]) := by
  rw [List.pairwise_iff_getElem] at hs
  intro fuel
  induction fuel with
  | zero => intro lo hi _ _ h; omega
  | succ n ih =>
    intro lo hi hle hlen hf hL hR
    unfold bisectGo
    by_cases hlt : lo < hi
    · have hm : (lo + hi) / 2 < a.length := by omega
      simp only [hlt, if_true, List.getElem?_eq_getElem hm]
      by_cases hx : x < a[(lo + hi) / 2]
      · simp only [hx, if_true]
        refine ih lo ((lo + hi) / 2) (by omega) (by omega) (by omega) hL ?_
        intro i h hi'
        by_cases he : i = (lo + hi) / 2
        · subst he; exact hx
        · have := hs ((lo + hi) / 2) i hm h (by omega)
          omega
      · simp only [hx, if_false]
        refine ih ((lo + hi) / 2 + 1) hi (by omega) hlen (by omega) ?_ hR
        intro i h hi'
        by_cases he : i = (lo + hi) / 2
        · subst he; omega
        · have := hs i ((lo + hi) / 2) h hm (by omega)
          omega
    · simp only [hlt, if_false]
      refine ⟨lo, rfl, by omega, hL, ?_⟩
      intro i h hi'
      exact hR i h (by omega)

/-- `bisect_right` on a sorted list: the partition point. -/
theorem bisect_sorted (a : List Nat) (x : Nat) (hs : a.Pairwise (· ≤ ·)) :
    ∃ r, bisect a x = .ok r ∧ r ≤ a.length ∧ (∀ y ∈ a.take r, y ≤ x) ∧ (∀ y ∈ a.drop r, x < y) := by
  obtain ⟨r, h1, h2, h3, h4⟩ := bisectGo_sorted a x hs (a.length + 1) 0 a.length (Nat.zero_le _) (Nat.le_refl _)
    (by omega) (by intro i _ h; omega) (by intro i h h'; omega)
  refine ⟨r, h1, h2, ?_, ?_⟩
  · intro y hy
    obtain ⟨i, hi, rfl⟩ := List.getElem_of_mem hy
    rw [List.getElem_take]
    rw [List.length_take] at hi
    exact h3 i (by omega) (by omega)
  · intro y hy
    obtain ⟨i, hi, rfl⟩ := List.getElem_of_mem hy
    rw [List.getElem_drop]
    rw [List.length_drop] at hi
    exact h4 (r + i) (by omega) (by omega)

theorem partition_point_unique (a : List Nat) (x r : Nat) (hr : r ≤ a.length)
    (h1 : ∀ y ∈ a.take r, y ≤ x) (h2 : ∀ y ∈ a.drop r, x < y) : r = (a.filter (· ≤ x)).length := by
  conv => rhs; rw [← List.take_append_drop r a]
  rw [List.filter_append]
  have e1 : (a.take r).filter (· ≤ x) = a.take r := by
    rw [List.filter_eq_self]; intro y hy; simpa using h1 y hy
  have e2 : (a.drop r).filter (· ≤ x) = [] := by
    rw [List.filter_eq_nil_iff]; intro y hy; have := h2 y hy; simp; omega
  rw [e1, e2]; simp; omega

theorem inv_empty : Inv Images.empty := ⟨List.Pairwise.nil, rfl⟩

theorem pairs_fst (st : Images) (h : Inv st) : (pairs st).map Prod.fst = st.addrs := by
  unfold pairs; rw [List.map_fst_zip]; have := h.2; omega

theorem pairs_snd (st : Images) (h : Inv st) : (pairs st).map Prod.snd = st.uuids := by
  unfold pairs; rw [List.map_snd_zip]; have := h.2; omega

theorem pairs_sorted (st : Images) (h : Inv st) : (pairs st).Pairwise (fun p q => p.1 < q.1) := by
  have := h.1
  rw [← pairs_fst st h, List.pairwise_map] at this
  exact this

theorem pyInsert_zip {α β : Type} (l : List α) (m : List β) (i : Nat) (x : α) (y : β) (h : l.length = m.length) :
    (pyInsert l i x).zip (pyInsert m i y) = pyInsert (l.zip m) i (x, y) := by
  unfold pyInsert
  rw [List.zip_append (by simp [h]), List.zip_cons_cons]
  simp only [List.zip, List.take_zipWith, List.drop_zipWith]

theorem mem_pyInsert {α : Type} (l : List α) (i : Nat) (x y : α) : y ∈ pyInsert l i x ↔ y ∈ l ∨ y = x := by
  unfold pyInsert
  rw [List.mem_append, List.mem_cons]
  constructor
  · rintro (h | h | h)
    · exact .inl (List.mem_of_mem_take h)
    · exact .inr h
    · exact .inl (List.mem_of_mem_drop h)
  · rintro (h | h)
    · rw [← List.take_append_drop i l, List.mem_append] at h
      rcases h with h | h
      · exact .inl h
      · exact .inr (.inr h)
    · exact .inr (.inl h)


theorem insertImage_mem (st : Images) (a : Nat) (u : Uuid) (hm : a ∈ st.addrs) : insertImage st a u = .ok st := by
  simp [insertImage, hm]

/-- Inserting a new address: the insertion point splits the list into the smaller and the larger addresses. -/
theorem insertImage_new (st : Images) (a : Nat) (u : Uuid) (h : Inv st) (hm : a ∉ st.addrs) :
    ∃ r, insertImage st a u = .ok ⟨pyInsert st.addrs r a, pyInsert st.uuids r u⟩ ∧ r ≤ st.addrs.length ∧
      (∀ y ∈ st.addrs.take r, y < a) ∧ (∀ y ∈ st.addrs.drop r, a < y) := by
  obtain ⟨r, h1, h2, h3, h4⟩ := bisect_sorted st.addrs a (h.1.imp (fun h => Nat.le_of_lt h))
  refine ⟨r, ?_, h2, ?_, h4⟩
  · simp [insertImage, hm, h1]
  · intro y hy
    have := h3 y hy
    have hne : y ≠ a := fun e => hm (e ▸ List.mem_of_mem_take hy)
    omega

theorem insertImage_spec (st : Images) (a : Nat) (u : Uuid) (h : Inv st) :
    ∃ st', insertImage st a u = .ok st' ∧ Inv st' ∧
      (∀ y, y ∈ st'.addrs ↔ y ∈ st.addrs ∨ y = a) ∧
      (∀ p, p ∈ pairs st' ↔ p ∈ pairs st ∨ (a ∉ st.addrs ∧ p = (a, u))) := by
  by_cases hm : a ∈ st.addrs
  · refine ⟨st, insertImage_mem st a u hm, h, ?_, ?_⟩
    · intro y; constructor
      · exact .inl
      · rintro (h | rfl); exact h; exact hm
    · intro p; simp [hm]
  · obtain ⟨r, h1, h2, h3, h4⟩ := insertImage_new st a u h hm
    refine ⟨_, h1, ⟨?_, ?_⟩, ?_, ?_⟩
    · show (pyInsert st.addrs r a).Pairwise (· < ·)
      unfold pyInsert
      rw [List.pairwise_append]
      refine ⟨h.1.sublist (List.take_sublist _ _), ?_, ?_⟩
      · rw [List.pairwise_cons]
        exact ⟨h4, h.1.sublist (List.drop_sublist _ _)⟩
      · intro x hx y hy
        rw [List.mem_cons] at hy
        rcases hy with rfl | hy
        · exact h3 x hx
        · exact Nat.lt_trans (h3 x hx) (h4 y hy)
    · show (pyInsert st.addrs r a).length = (pyInsert st.uuids r u).length
      have := h.2
      simp [pyInsert]; omega
    · intro y; exact mem_pyInsert _ _ _ _
    · intro p
      show p ∈ (pyInsert st.addrs r a).zip (pyInsert st.uuids r u) ↔ _
      rw [pyInsert_zip _ _ _ _ _ h.2, mem_pyInsert]
      simp [hm, pairs]


theorem insertAll_append (st : Images) (l₁ l₂ : List (Nat × Uuid)) :
    insertAll st (l₁ ++ l₂) = match insertAll st l₁ with
      | .error e => .error e
      | .ok st' => insertAll st' l₂ := by
  induction l₁ generalizing st with
  | nil => rfl
  | cons p t ih =>
    obtain ⟨a, u⟩ := p
    simp only [List.cons_append, insertAll]
    cases insertImage st a u with
    | error e => rfl
    | ok st' => exact ih st'

/-- The state after any sequence of announcements, characterised by membership:
    an image is present iff it was present before, or its address was absent and this is the
    FIRST announcement of that address. -/
theorem insertAll_spec (anns : List (Nat × Uuid)) : ∀ (st : Images), Inv st →
    ∃ st', insertAll st anns = .ok st' ∧ Inv st' ∧
      (∀ y, y ∈ st'.addrs ↔ y ∈ st.addrs ∨ y ∈ anns.map Prod.fst) ∧
      (∀ a u, (a, u) ∈ pairs st' ↔
        (a, u) ∈ pairs st ∨ (a ∉ st.addrs ∧ anns.find? (fun p => p.1 = a) = some (a, u))) := by
  induction anns with
  | nil => intro st h; exact ⟨st, rfl, h, by simp, by simp⟩
  | cons p t ih =>
    intro st h
    obtain ⟨b, v⟩ := p
    obtain ⟨st1, e1, i1, m1, p1⟩ := insertImage_spec st b v h
    obtain ⟨st2, e2, i2, m2, p2⟩ := ih st1 i1
    refine ⟨st2, by simp only [insertAll, e1]; exact e2, i2, ?_, ?_⟩
    · intro y; rw [m2, m1]; simp only [List.map_cons, List.mem_cons]; exact or_assoc
    · intro a u
      rw [p2, p1, m1, List.find?_cons]
      by_cases hab : b = a
      · subst hab
        simp only [decide_true, Option.some.injEq, Prod.mk.injEq]
        grind
      · have hd : decide ((b, v).1 = a) = false := by simp [hab]
        simp only [hd, Prod.mk.injEq]
        grind

/-- Two image tables with the same members are the same table. -/
theorem images_ext (s₁ s₂ : Images) (h₁ : Inv s₁) (h₂ : Inv s₂) (h : ∀ p, p ∈ pairs s₁ ↔ p ∈ pairs s₂) : s₁ = s₂ := by
  have hs₁ := pairs_sorted s₁ h₁
  have hs₂ := pairs_sorted s₂ h₂
  have nd : ∀ l : List (Nat × Uuid), l.Pairwise (fun p q => p.1 < q.1) → l.Nodup := by
    intro l hl
    exact hl.imp (fun {p q} hpq e => by subst e; exact Nat.lt_irrefl _ hpq)
  have hp : (pairs s₁).Perm (pairs s₂) := (List.perm_ext_iff_of_nodup (nd _ hs₁) (nd _ hs₂)).2 h
  have he : pairs s₁ = pairs s₂ :=
    List.Perm.eq_of_pairwise (le := fun p q => p.1 < q.1)
      (fun a b _ _ hab hba => absurd hab (Nat.lt_asymm hba)) hs₁ hs₂ hp
  have ea : s₁.addrs = s₂.addrs := by rw [← pairs_fst s₁ h₁, ← pairs_fst s₂ h₂, he]
  have eu : s₁.uuids = s₂.uuids := by rw [← pairs_snd s₁ h₁, ← pairs_snd s₂ h₂, he]
  cases s₁; cases s₂; simp_all

theorem find_of_nodup_keys (l : List (Nat × Uuid)) (hn : (l.map Prod.fst).Nodup) (a : Nat) (u : Uuid) :
    l.find? (fun p => p.1 = a) = some (a, u) ↔ (a, u) ∈ l := by
  constructor
  · exact List.mem_of_find?_eq_some
  · intro hm
    induction l with
    | nil => cases hm
    | cons p t ih =>
      rw [List.map_cons, List.nodup_cons] at hn
      rw [List.find?_cons]
      rcases List.mem_cons.1 hm with rfl | hm
      · simp
      · have : p.1 ≠ a := by
          intro e
          apply hn.1
          rw [e]
          exact List.mem_map.2 ⟨(a, u), hm, rfl⟩
        simp only [this, decide_false]
        exact ih hn.2 hm


/-- `bisect − 1` on the strictly ascending address list. -/
theorem lookupFrame_spec (st : Images) (h : Inv st) (f : Nat) :
    ∃ fr, lookupFrame st f = .ok fr ∧ fr.address = f ∧
      (fr.image = none ↔ ∀ a ∈ st.addrs, f < a) ∧
      (∀ u off, fr.image = some (u, off) →
        ∃ a, (a, u) ∈ pairs st ∧ a ≤ f ∧ off = ((f - a : Nat) : Int) ∧ ∀ a' ∈ st.addrs, a' ≤ f → a' ≤ a) := by
  obtain ⟨r, h1, h2, h3, h4⟩ := bisect_sorted st.addrs f (h.1.imp (fun h => Nat.le_of_lt h))
  unfold lookupFrame
  simp only [h1]
  by_cases hr : r = 0
  · subst hr
    refine ⟨⟨f, none⟩, by simp, rfl, ?_, ?_⟩
    · simp only [true_iff]
      intro a ha
      exact h4 a (by simpa using ha)
    · intro u off hh; cases hh
  · have hlt : r - 1 < st.addrs.length := by omega
    have hlt' : r - 1 < st.uuids.length := by have := h.2; omega
    have hle : st.addrs[r - 1] ≤ f := by
      apply h3
      rw [List.mem_take_iff_getElem]
      exact ⟨r - 1, by omega, rfl⟩
    simp only [hr, if_false, List.getElem?_eq_getElem hlt, List.getElem?_eq_getElem hlt']
    refine ⟨_, rfl, rfl, ?_, ?_⟩
    · simp only [reduceCtorEq, false_iff]
      intro hall
      have := hall _ (List.getElem_mem hlt)
      omega
    · intro u off hh
      simp only [Option.some.injEq, Prod.mk.injEq] at hh
      obtain ⟨rfl, rfl⟩ := hh
      refine ⟨st.addrs[r - 1], ?_, hle, by omega, ?_⟩
      · unfold pairs
        rw [List.mem_iff_getElem]
        exact ⟨r - 1, by simp; omega, by simp⟩
      · intro a' ha' hle'
        obtain ⟨j, hj, rfl⟩ := List.getElem_of_mem ha'
        have hjr : j < r := by
          apply Classical.byContradiction
          intro hn
          have : st.addrs[j] ∈ st.addrs.drop r := by
            rw [List.mem_drop_iff_getElem]
            exact ⟨j - r, by omega, by congr 1; omega⟩
          have := h4 _ this
          omega
        by_cases hj' : j = r - 1
        · subst hj'; exact Nat.le_refl _
        · have := (List.pairwise_iff_getElem.1 h.1) j (r - 1) hj hlt (by omega)
          omega

theorem lookupAll_spec (st : Images) (h : Inv st) (frs : List Nat) :
    ∃ frames, lookupAll st frs = .ok frames ∧ frames.map (·.address) = frs ∧
      ∀ fr ∈ frames, lookupFrame st fr.address = .ok fr := by
  induction frs with
  | nil => exact ⟨[], rfl, rfl, by simp⟩
  | cons f fs ih =>
    obtain ⟨fr, e1, e2, _⟩ := lookupFrame_spec st h f
    obtain ⟨frames, e3, e4, e5⟩ := ih
    refine ⟨fr :: frames, by simp [lookupAll, e1, e3], by simp [e2, e4], ?_⟩
    intro x hx
    rcases List.mem_cons.1 hx with rfl | hx
    · rw [e2]; exact e1
    · exact e5 x hx


/-! ### the sampler -/

theorem any_filter {α : Type} (l : List α) (p q : α → Bool) :
    (l.filter p).any q = l.any (fun m => p m && q m) := by
  induction l with
  | nil => rfl
  | cons x xs ih => by_cases h : p x <;> simp [h, ih]

/-- Over the reflected `SamplerAction` enum, `SAMPLER_USTACK in to_sampler_action(flags)` is bit 3. -/
theorem ustackSet_iff (flags : Nat) : ustackSet flags = true ↔ 8 &&& flags ≠ 0 := by
  unfold ustackSet EnumDef.flagsOf
  rw [any_filter]
  simp [Gen.Enums.SamplerAction, Gen.Enums.SamplerAction_iter, Gen.Enums.SamplerAction_iter_0]

theorem words_flatMap_length (l : List Rec) : (l.flatMap Rec.words).length = 4 * l.length := by
  induction l with
  | nil => rfl
  | cons r t ih => simp [List.flatMap_cons, Rec.words, ih]; omega

/-- Word `k` of the chained stack data is word `k % 4` of record `k / 4`. -/
theorem words_flatMap_getElem? (l : List Rec) : ∀ k,
    (l.flatMap Rec.words)[k]? = (l[k / 4]?).bind (fun r => r.words[k % 4]?) := by
  induction l with
  | nil => intro k; simp
  | cons r t ih =>
    intro k
    rw [List.flatMap_cons, List.getElem?_append]
    have hl : r.words.length = 4 := rfl
    by_cases hk : k < 4
    · have h0 : k / 4 = 0 := by omega
      have hm : k % 4 = k := by omega
      simp [hl, hk, h0, hm]
    · have h0 : k / 4 = (k - 4) / 4 + 1 := by omega
      have hm : k % 4 = (k - 4) % 4 := by omega
      simp only [hl, hk, if_false, ih (k - 4)]
      rw [h0, List.getElem?_cons_succ, hm]

/-! ### the launch image list -/

theorem insertByAddr_perm (x : Nat × Uuid) (l : List (Nat × Uuid)) : (insertByAddr x l).Perm (x :: l) := by
  induction l with
  | nil => exact List.Perm.refl _
  | cons y ys ih =>
    unfold insertByAddr
    split
    · exact (List.Perm.cons y ih).trans (List.Perm.swap x y ys)
    · exact List.Perm.refl _

theorem sortByAddr_perm (l : List (Nat × Uuid)) : (sortByAddr l).Perm l := by
  induction l with
  | nil => exact List.Perm.refl _
  | cons x xs ih => exact (insertByAddr_perm x _).trans (List.Perm.cons x ih)

theorem insertByAddr_sorted (x : Nat × Uuid) (l : List (Nat × Uuid))
    (h : l.Pairwise (fun p q => p.1 ≤ q.1)) : (insertByAddr x l).Pairwise (fun p q => p.1 ≤ q.1) := by
  induction l with
  | nil => simp [insertByAddr]
  | cons y ys ih =>
    unfold insertByAddr
    rw [List.pairwise_cons] at h
    split
    · rename_i hlt
      rw [List.pairwise_cons]
      refine ⟨?_, ih h.2⟩
      intro z hz
      rcases List.mem_cons.1 ((insertByAddr_perm x ys).subset hz) with rfl | hz
      · exact Nat.le_of_lt hlt
      · exact h.1 z hz
    · rename_i hnlt
      rw [List.pairwise_cons]
      refine ⟨?_, List.pairwise_cons.2 h⟩
      intro z hz
      rcases List.mem_cons.1 hz with rfl | hz
      · omega
      · have := h.1 z hz; omega

theorem sortByAddr_sorted (l : List (Nat × Uuid)) : (sortByAddr l).Pairwise (fun p q => p.1 ≤ q.1) := by
  induction l with
  | nil => exact List.Pairwise.nil
  | cons x xs ih => exact insertByAddr_sorted x _ ih

theorem insertByAddr_filter (x : Nat × Uuid) (l : List (Nat × Uuid)) (a : Nat) :
    (insertByAddr x l).filter (fun p => p.1 = a) = (x :: l).filter (fun p => p.1 = a) := by
  induction l with
  | nil => rfl
  | cons y ys ih =>
    unfold insertByAddr
    split
    · rename_i hlt
      rw [List.filter_cons, ih]
      by_cases hy : y.1 = a
      · have hx : x.1 ≠ a := by omega
        simp [hy, hx]
      · simp [List.filter_cons, hy]
    · rfl

/-- Stability: records with one load address keep their order. -/
theorem sortByAddr_filter (l : List (Nat × Uuid)) (a : Nat) :
    (sortByAddr l).filter (fun p => p.1 = a) = l.filter (fun p => p.1 = a) := by
  induction l with
  | nil => rfl
  | cons x xs ih =>
    show (insertByAddr x (sortByAddr xs)).filter _ = _
    rw [insertByAddr_filter, List.filter_cons, List.filter_cons, ih]

/-- In particular the first record with a given load address is the same before and after sorting. -/
theorem sortByAddr_find? (l : List (Nat × Uuid)) (a : Nat) :
    (sortByAddr l).find? (fun p => p.1 = a) = l.find? (fun p => p.1 = a) := by
  rw [← List.head?_filter, ← List.head?_filter, sortByAddr_filter]


/-! ### the stream -/

theorem step_spec (st : Images) (h : Inv st) (it : Item) :
    ∃ st' o, step st it = .ok (st', o) ∧ Inv st' ∧ insertAll st (announced it) = .ok st' ∧
      o.isSome = qualifies it ∧
      ∀ f r frs, it = .sample f r → csFrames f r = some frs →
        ∃ frames, lookupAll st frs = .ok frames ∧ o = some ⟨f.ts, f.tid, frames⟩ := by
  cases it with
  | sample f r =>
    cases hc : csFrames f r with
    | none =>
      refine ⟨st, none, by simp [step, hc], h, rfl, by simp [qualifies, hc], ?_⟩
      intro f' r' frs e; cases e; intro h'; rw [hc] at h'; cases h'
    | some frs =>
      obtain ⟨frames, e1, _, _⟩ := lookupAll_spec st h frs
      refine ⟨st, some ⟨f.ts, f.tid, frames⟩, by simp [step, hc, e1], h, rfl, by simp [qualifies, hc], ?_⟩
      intro f' r' frs' e; cases e; intro h'; rw [hc] at h'; cases h'
      exact ⟨frames, e1, rfl⟩
  | image a u =>
    obtain ⟨st', e1, i1, _, _⟩ := insertImage_spec st a u h
    refine ⟨st', none, by simp [step, e1], i1, by simp [announced, insertAll, e1], rfl, ?_⟩
    intro f r frs e; cases e
  | launch imgs =>
    obtain ⟨st', e1, i1, _, _⟩ := insertAll_spec (sortByAddr imgs) st h
    refine ⟨st', none, by simp [step, e1], i1, e1, rfl, ?_⟩
    intro f r frs e; cases e
  | other =>
    refine ⟨st, none, rfl, h, rfl, rfl, ?_⟩
    intro f r frs e; cases e

theorem feedFrom_spec (s : List Item) : ∀ st, Inv st →
    ∃ st' cs, feedFrom st s = .ok (st', cs) ∧ Inv st' ∧ insertAll st (announcedAll s) = .ok st' ∧
      cs.length = (s.filter qualifies).length ∧
      ∀ pre f r post frs, s = pre ++ Item.sample f r :: post → csFrames f r = some frs →
        ∃ stm frames, insertAll st (announcedAll pre) = .ok stm ∧ Inv stm ∧ lookupAll stm frs = .ok frames ∧
          cs[(pre.filter qualifies).length]? = some ⟨f.ts, f.tid, frames⟩ := by
  induction s with
  | nil =>
    intro st h
    refine ⟨st, [], rfl, h, rfl, rfl, ?_⟩
    intro pre f r post frs e; cases pre <;> cases e
  | cons it t ih =>
    intro st h
    obtain ⟨st1, o, e1, i1, a1, q1, s1⟩ := step_spec st h it
    obtain ⟨st2, cs2, e2, i2, a2, l2, s2⟩ := ih st1 i1
    refine ⟨st2, o.toList ++ cs2, by simp only [feedFrom, e1, e2], i2, ?_, ?_, ?_⟩
    · show insertAll st (announced it ++ announcedAll t) = _
      rw [insertAll_append, a1]; exact a2
    · rw [List.filter_cons, ← q1]
      cases o <;> simp [l2]
    · intro pre f r post frs e hc
      cases pre with
      | nil =>
        simp only [List.nil_append, List.cons.injEq] at e
        obtain ⟨rfl, rfl⟩ := e
        obtain ⟨frames, e3, rfl⟩ := s1 f r frs rfl hc
        exact ⟨st, frames, rfl, h, e3, by simp⟩
      | cons it' pre' =>
        simp only [List.cons_append, List.cons.injEq] at e
        obtain ⟨rfl, rfl⟩ := e
        obtain ⟨stm, frames, e3, i3, e4, e5⟩ := s2 pre' f r post frs rfl hc
        refine ⟨stm, frames, ?_, i3, e4, ?_⟩
        · show insertAll st (announced it ++ announcedAll pre') = _
          rw [insertAll_append, a1]; exact e3
        · rw [List.filter_cons, ← q1]
          cases o <;> simpa using e5


end KdVerif.Callstacks
